// provider sub-command: the REAL PayPaymentProvider::wait_payment / ::pay alone on the simulated
// node. Either a given choice path, or exhaustive/random exploration of all interleavings of
//   - the node processing an outstanding RPC (no fault, or an injected error when allowed)
//   - a reply reaching the provider
//   - a pending part resolving (done / failed with a documented code)
//   - the running pay command creating a part or finishing (complete/pending/failed/failed+warning/error)
// Input : {"mode":"wait"|"pay", "parts":["pend"|"fail"|"done",...], "explore": {"max_paths": n, "seed": s, "faults": bool, "max_new": k}}
// Output: one JSON line per explored path: {"mode","parts","events":[...],"steps":[...],"result":...}
use crate::payment_provider::{PayPaymentProvider, PaymentProvider, PaymentRequest};
use crate::sim::*;
use crate::util::*;
use crate::world;
use crate::cmd_system::SplitMix;
use secp256k1::hashes::{sha256, Hash};
use serde_json::{json, Value};
use std::sync::{Arc, Mutex};
use std::time::Duration;

fn enabled(node: &Node, h: &[u8], mode: &str, faults: bool, max_new: usize, depth: usize, salt: usize) -> Vec<Value> {
    let mut ev = vec![];
    let hn = node.hashes.get(h);
    for c in node.calls.iter() {
        match c.status {
            CStat::Unprocessed => {
                let pend_wait = if let Q::WaitPart { groupid, partid, .. } = &c.q {
                    hn.map(|hn| hn.parts.iter().any(|p| Some(p.groupid) == *groupid && Some(p.partid) == *partid && p.status == PStat::Pend)).unwrap_or(false)
                } else { false };
                if !pend_wait { ev.push(json!({"e": "proc", "c": c.local_id, "fault": "none"})); }
                // a wait that carried a timeout (the unchanged plugin passes none) may be answered "timed out" while the part is pending
                if pend_wait && matches!(c.q, Q::WaitPart { timeout: Some(_), .. }) { ev.push(json!({"e": "proc", "c": c.local_id, "fault": "timeout"})); }
                if faults {
                    let is_pay = matches!(c.q, Q::Pay { .. });
                    ev.push(json!({"e": "proc", "c": c.local_id, "fault": "rej", "err": "transport"}));
                    if !is_pay { ev.push(json!({"e": "proc", "c": c.local_id, "fault": "abe", "err": "210"})); }
                }
            }
            CStat::Replied => ev.push(json!({"e": "deliver", "c": c.local_id})),
            CStat::Running => {
                let nparts = hn.map(|x| x.parts.iter().filter(|p| p.groupid == 1).count()).unwrap_or(0);
                if nparts < max_new { ev.push(json!({"e": "newpart", "c": c.local_id})); }
                let done = hn.map(|x| x.parts.iter().any(|p| matches!(p.status, PStat::Done(_)))).unwrap_or(false);
                let busy = hn.map(|x| x.parts.iter().any(|p| !matches!(p.status, PStat::Failed(_)))).unwrap_or(false);
                if done { ev.push(json!({"e": "payfin", "c": c.local_id, "out": "complete"})); }
                ev.push(json!({"e": "payfin", "c": c.local_id, "out": "pending"}));
                ev.push(json!({"e": "payfin", "c": c.local_id, "out": "failed_warn"}));
                if !busy { ev.push(json!({"e": "payfin", "c": c.local_id, "out": "failed"})); }
                // the pay command ends with an rpc error: every code pay documents (200-210), varied with the depth
                let pay_errs = ["200", "201", "202", "203", "204", "205", "206", "207", "208", "209", "210", "-1"];
                // three codes per state, rotated with the depth and with the configuration's salt, so that every code meets every situation
                for j in 0..3 { ev.push(json!({"e": "payfin", "c": c.local_id, "out": "error", "err": pay_errs[(depth + salt + 4 * j) % pay_errs.len()]})); }
            }
            _ => {}
        }
    }
    if let Some(hn) = hn {
        for (pid, p) in hn.parts.iter().enumerate() {
            if p.status == PStat::Pend {
                ev.push(json!({"e": "part", "pid": pid, "st": "done"}));
                // every documented terminal waitsendpay code, varied with the part and with the depth at which the part fails
                let code = [202, 203, 204, 208, 209][(pid + depth) % 5];
                ev.push(json!({"e": "part", "pid": pid, "st": "fail", "code": code}));
            }
        }
    }
    ev
}

fn canon_q(node: &Node, h: &[u8], q: &Q) -> Value {
    match q {
        Q::ListPend => json!({"k": "listpend"}),
        Q::ListDone => json!({"k": "listdone"}),
        Q::WaitPart { groupid, partid, timeout } => {
            let pid = node.hashes.get(h).and_then(|hn| hn.parts.iter().position(|p| Some(p.groupid) == *groupid && Some(p.partid) == *partid));
            json!({"k": "wait", "pid": pid, "timeout": timeout})
        }
        Q::Pay { amount, maxfee, maxdelay, retry_for, other, .. } => json!({"k": "pay", "inv": 0, "amount": amount.map(|a| a.to_string()), "maxfee": maxfee.map(|a| a.to_string()), "maxdelay": maxdelay, "retry": retry_for, "other": other}),
        o => json!({"k": "other", "s": format!("{:?}", o)}),
    }
}

fn canon_reply(node: &Node, h: &[u8], r: &Option<Reply>) -> Value {
    match r {
        None => json!({"y": "none"}),
        Some(Reply::Parts(l)) => {
            let v: Vec<Value> = l.iter().map(|(g, p)| json!(node.hashes.get(h).and_then(|hn| hn.parts.iter().position(|x| x.groupid == *g && x.partid == *p)))).collect();
            json!({"y": "pids", "l": v})
        }
        Some(Reply::Pres(l)) => json!({"y": "pres", "l": l.iter().map(hex::encode).collect::<Vec<_>>()}),
        Some(Reply::Pre(p)) => json!({"y": "pre", "p": hex::encode(p)}),
        Some(Reply::PartFailed(c)) => json!({"y": "partfailed", "code": c}),
        Some(Reply::Err(_)) => json!({"y": "err"}),
        _ => json!({"y": "other"}),
    }
}

/// Runs one path. `choices[i]` selects among the events enabled at step i (0 beyond the given path).
/// Returns (trace, branching factors along the path).
fn run_path(mode: &str, parts: &[String], choices: &[usize], faults: bool, max_new: usize, max_len: usize, bolt11: &str, salt: usize) -> (Value, Vec<usize>) {
    let node: Shared = Arc::new(Mutex::new(Node::default()));
    let pre = world::preimage(0);
    let h = world::sha(&pre);
    {
        let mut n = node.lock().unwrap();
        n.invoices.push((bolt11.to_string(), h.clone()));
        let hn = n.hashes.entry(h.clone()).or_default();
        for (k, p) in parts.iter().enumerate() {
            let st = match p.as_str() { "pend" => PStat::Pend, "fail" => PStat::Failed(203), _ => PStat::Done(pre.clone()) };
            // parts of earlier attempts live in different sendpay groups (0 and 2; the pay command of this run uses group 1)
            // parts of two earlier groups; the SAME partid occurs in both groups (a part is identified by the pair)
            hn.parts.push(Part { groupid: if k % 2 == 0 { 0 } else { 2 }, partid: (k / 2) as u64, status: st });
        }
    }
    let rt = tokio::runtime::Builder::new_current_thread().enable_time().start_paused(true).build().unwrap();
    let mut events = vec![];
    let mut steps = vec![];
    let mut factors = vec![];
    let result: Arc<Mutex<Option<Value>>> = Arc::new(Mutex::new(None));
    rt.block_on(async {
        let rpc = Arc::new(Rpc::on(&node));
        let prov = PayPaymentProvider::new(rpc, Duration::from_secs(60), false);
        let res2 = result.clone();
        let hash = sha256::Hash::from_slice(&h).unwrap();
        let mode2 = mode.to_string();
        let b11 = bolt11.to_string();
        tokio::spawn(async move {
            let v = if mode2 == "wait" {
                match prov.wait_payment(hash).await { Ok(Some(p)) => json!({"ok": hex::encode(p)}), Ok(None) => json!("none"), Err(_) => json!("err") }
            } else {
                match prov.pay(PaymentRequest { bolt11: b11, payment_hash: hash, amount_msat: None, max_fee_msat: 5000, max_cltv_delta: 144 }).await {
                    Ok(p) => json!({"ok": hex::encode(p)}), Err(_) => json!("err") }
            };
            *res2.lock().unwrap() = Some(v);
        });
        let mut reported = 0usize;
        let mut step = 0usize;
        loop {
            for _ in 0..40 { tokio::task::yield_now().await; }
            // outputs of the previous step (or of the start)
            let mut out = vec![];
            {
                let mut n = node.lock().unwrap();
                let len = n.calls.len();
                for i in reported..len { let q = n.calls[i].q.clone(); let l = n.calls[i].local_id; out.push(json!({"o": "call", "h": 0, "c": l, "q": canon_q(&n, &h, &q)})); }
                reported = len;
                for c in n.calls.iter_mut() {
                    if !c.cancel_reported && matches!(c.status, CStat::Unprocessed | CStat::Running | CStat::Replied) && c.tx.as_ref().map(|t| t.is_closed()).unwrap_or(false) {
                        c.cancel_reported = true; c.status = CStat::Cancelled; out.push(json!({"o": "cancel", "h": 0, "c": c.local_id}));
                    }
                }
            }
            if let Some(last) = steps.last_mut() { let l: &mut Value = last; l["out"] = json!(out); } else { steps.push(json!({"out": out, "start": true})); events.push(json!({"e": "start"})); }
            if result.lock().unwrap().is_some() || step >= max_len { break; }
            let en = { let n = node.lock().unwrap(); enabled(&n, &h, mode, faults, max_new, events.len(), salt) };
            if en.is_empty() { break; }
            let choice = choices.get(step).cloned().unwrap_or(0).min(en.len() - 1);
            factors.push(en.len());
            let ev = en[choice].clone();
            // apply
            let mut st = json!({});
            {
                let mut n = node.lock().unwrap();
                match ev["e"].as_str().unwrap() {
                    "proc" => {
                        let c = ev["c"].as_u64().unwrap() as usize;
                        let ci = n.calls.iter().position(|x| x.local_id == c).unwrap();
                        let fault = match ev["fault"].as_str().unwrap() { "rej" => Fault::Rejected(ErrKind::Transport), "abe" => Fault::AppliedButError(ErrKind::Code(210)), "timeout" => Fault::Rejected(ErrKind::Code(200)), _ => Fault::None };
                        let r = n.exec(ci, &fault);
                        let is_pay = matches!(n.calls[ci].q, Q::Pay { .. });
                        match &r { Some(rep) => { n.calls[ci].reply = Some(rep.clone()); n.calls[ci].status = CStat::Replied; } None => { if is_pay { n.calls[ci].status = CStat::Running; } } }
                        st["reply"] = canon_reply(&n, &h, &r);
                    }
                    "deliver" => {
                        let c = ev["c"].as_u64().unwrap() as usize;
                        let ci = n.calls.iter().position(|x| x.local_id == c).unwrap();
                        n.calls[ci].status = CStat::Delivered;
                        let (tx, r) = (n.calls[ci].tx.take(), n.calls[ci].reply.clone());
                        if let (Some(tx), Some(r)) = (tx, r) { let _ = tx.send(r); }
                    }
                    "part" => {
                        let pid = ev["pid"].as_u64().unwrap() as usize;
                        let hn = n.hashes.get_mut(&h).unwrap();
                        hn.parts[pid].status = if ev["st"] == "done" { PStat::Done(pre.clone()) } else { PStat::Failed(ev["code"].as_i64().unwrap() as i32) };
                    }
                    "newpart" => {
                        let hn = n.hashes.get_mut(&h).unwrap();
                        let k = hn.parts.iter().filter(|p| p.groupid == 1).count() as u64;
                        hn.parts.push(Part { groupid: 1, partid: k, status: PStat::Pend });
                    }
                    "payfin" => {
                        let c = ev["c"].as_u64().unwrap() as usize;
                        let ci = n.calls.iter().position(|x| x.local_id == c).unwrap();
                        let rep = match ev["out"].as_str().unwrap() {
                            "complete" => Reply::Pay { status: "complete".into(), preimage: pre.clone(), warn: false },
                            "pending" => Reply::Pay { status: "pending".into(), preimage: vec![0u8; 32], warn: false },
                            "failed_warn" => Reply::Pay { status: "failed".into(), preimage: vec![0u8; 32], warn: true },
                            "failed" => Reply::Pay { status: "failed".into(), preimage: vec![0u8; 32], warn: false },
                            _ => Reply::Err(ErrKind::Code(ev["err"].as_str().and_then(|x| x.parse::<i32>().ok()).unwrap_or(210))),
                        };
                        n.calls[ci].reply = Some(rep); n.calls[ci].status = CStat::Replied;
                    }
                    _ => {}
                }
            }
            events.push(ev);
            steps.push(st);
            step += 1;
        }
    });
    drop(rt);
    let res = result.lock().unwrap().clone();
    (json!({"mode": mode, "parts": parts, "events": events, "steps": steps, "result": res, "preimage": hex::encode(&pre)}), factors)
}

pub fn run() {
    std::panic::set_hook(Box::new(|_| {}));
    let bolt11 = world::make_invoice(&json!({"pre": 0, "amount": 1000000, "signer": 1}));
    for_each_line(|line| {
        let case: Value = serde_json::from_str(line).expect("json");
        let mode = case["mode"].as_str().unwrap().to_string();
        let parts: Vec<String> = case["parts"].as_array().unwrap().iter().map(|p| p.as_str().unwrap().to_string()).collect();
        let ex = &case["explore"];
        let max_paths = ex["max_paths"].as_u64().unwrap_or(200) as usize;
        let faults = ex["faults"].as_bool().unwrap_or(false);
        let max_new = ex["max_new"].as_u64().unwrap_or(1) as usize;
        let max_len = ex["max_len"].as_u64().unwrap_or(40) as usize;
        let salt = ex["salt"].as_u64().unwrap_or(0) as usize;
        let mut rng = SplitMix(ex["seed"].as_u64().unwrap_or(1));
        let mut traces = vec![];
        // replay-based DFS with an odometer over the choice vector; switches to random paths when the space is too large
        let mut path: Vec<usize> = vec![];
        let mut exhaustive = true;
        loop {
            let (t, factors) = run_path(&mode, &parts, &path, faults, max_new, max_len, &bolt11, salt);
            traces.push(t);
            if traces.len() >= max_paths { exhaustive = false; break; }
            // next path: increment the last incrementable position
            let mut full: Vec<usize> = (0..factors.len()).map(|i| path.get(i).cloned().unwrap_or(0).min(factors[i] - 1)).collect();
            let mut i = full.len();
            let mut advanced = false;
            while i > 0 {
                i -= 1;
                if full[i] + 1 < factors[i] { full[i] += 1; full.truncate(i + 1); advanced = true; break; }
            }
            if !advanced { break; }
            path = full;
        }
        if !exhaustive {
            // the DFS prefix is biased to early choices: add random paths
            let extra = max_paths / 2;
            for _ in 0..extra {
                let p: Vec<usize> = (0..max_len).map(|_| rng.below(8) as usize).collect();
                let (t, _) = run_path(&mode, &parts, &p, faults, max_new, max_len, &bolt11, salt);
                traces.push(t);
            }
        }
        json!({"exhaustive": exhaustive, "traces": traces}).to_string()
    });
}
