// Harness: compiles /repo's current working tree (modules pulled in by
// absolute #[path]) and exposes one sub-command per model component.
#![allow(dead_code, unused_imports, unused_variables, unused_mut)]
use anyhow::Error;

mod tlv {
    include!("/repo/src/tlv.rs");
    // harness accessor for the private field (no source hook needed)
    pub fn entries_of(s: &SerializedTlvStream) -> Vec<(u64, Vec<u8>)> {
        s.entries.iter().map(|e| (e.typ, e.value.clone())).collect()
    }
}
#[path = "/repo/src/messages.rs"]
mod messages;

mod cmd_tlv;
mod cmd_fee;
mod util;

fn main() {
    let args: Vec<String> = std::env::args().collect();
    let sub = args.get(1).map(|s| s.as_str()).unwrap_or("");
    match sub {
        "tlv" => cmd_tlv::run(),
        "fee" => cmd_fee::run(),
        "mode" => println!("{}", if cfg!(debug_assertions) { "checked" } else { "wrapping" }),
        _ => {
            eprintln!("usage: tramp-harness <tlv|fee|mode>");
            std::process::exit(2);
        }
    }
}
