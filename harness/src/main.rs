// Harness: compiles /repo's current working tree (modules pulled in by
// absolute #[path]) and exposes one sub-command per model component.
#![allow(dead_code, unused_imports, unused_variables, unused_mut)]
use anyhow::Error;

mod tlv {
    include!("/repo/src/tlv.rs");
    // harness accessor for the private field (no source hook needed)
    pub fn entries_of(s: &SerializedTlvStream) -> Vec<(u64, Vec<u8>)> {
        s.entries.iter().map(|e| (e.typ, e.value.clone())).collect()
    }
}
#[path = "/repo/src/messages.rs"]
mod messages;
mod block_watcher {
    include!("/repo/src/block_watcher.rs");
    // harness accessor for the private height mutex (used to create lock contention deterministically)
    pub fn probe_height_lock(bw: &BlockWatcher) -> Arc<Mutex<u32>> { bw.current_height.clone() }
}
#[path = "/repo/src/email.rs"]
mod email;
#[path = "/repo/src/payment_provider.rs"]
mod payment_provider;
#[path = "/repo/src/store.rs"]
mod store;
#[path = "/repo/src/rpc.rs"]
mod real_rpc;
#[path = "/repo/src/cln_plugin/mod.rs"]
mod cln_plugin;
mod rpc;
mod htlc_manager {
    include!("/repo/src/htlc_manager.rs");
    include!("probe_htlc_manager.rs");
}
mod world;
mod sim;
mod cmd_system;
mod cmd_provider;
mod cmd_blocks;
mod cmd_codec;
mod cmd_driver;
// a second instantiation of the plugin framework's codec module, reachable from the harness
#[path = "/repo/src/cln_plugin"]
mod codec_probe {
    #[path = "codec.rs"]
    pub mod codec;
    #[path = "messages.rs"]
    pub mod messages;
    #[path = "options.rs"]
    pub mod options;
}
mod cmd_classify;

mod cmd_tlv;
mod cmd_fee;
mod util;

fn main() {
    let args: Vec<String> = std::env::args().collect();
    let sub = args.get(1).map(|s| s.as_str()).unwrap_or("");
    match sub {
        "tlv" => cmd_tlv::run(),
        "fee" => cmd_fee::run(),
        "classify" => cmd_classify::run(),
        "system" => cmd_system::run(),
        "provider" => cmd_provider::run(),
        "blocks" => cmd_blocks::run(),
        "codec" => cmd_codec::run(),
        "driver" => cmd_driver::run(),
        "mode" => println!("{}", if cfg!(debug_assertions) { "checked" } else { "wrapping" }),
        _ => {
            eprintln!("usage: tramp-harness <tlv|fee|mode>");
            std::process::exit(2);
        }
    }
}
