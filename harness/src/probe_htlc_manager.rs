// Included INSIDE the module that include!s /repo/src/htlc_manager.rs, so these functions can
// reach private items (check_htlc, payments) without a source hook in the repository.

pub struct NullBlocks;
#[async_trait::async_trait]
impl crate::block_watcher::BlockProvider for NullBlocks {
    async fn current_height(&self) -> u32 { 0 }
}
pub struct NullNotify;
#[async_trait::async_trait]
impl crate::email::NotificationService for NullNotify {
    async fn notify_payment_failed(&self, _req: crate::email::NotifyPaymentFailedRequest) {}
}
pub struct NullPay;
#[async_trait::async_trait]
impl crate::payment_provider::PaymentProvider for NullPay {
    async fn pay(&self, _req: crate::payment_provider::PaymentRequest) -> Result<Vec<u8>> { Err(anyhow!("null")) }
    async fn wait_payment(&self, _h: Hash) -> Result<Option<Vec<u8>>> { Err(anyhow!("null")) }
}
pub struct NullStore;
#[async_trait::async_trait]
impl crate::store::Datastore for NullStore {
    async fn add_payment_attempt(&self, _t: &TrampolineInfo) -> Result<crate::store::AttemptId> { Err(anyhow!("null")) }
    async fn fetch_payment_info(&self, _t: &TrampolineInfo) -> Result<crate::store::PaymentState> { Err(anyhow!("null")) }
    async fn mark_failed(&self, _t: &TrampolineInfo, _a: &crate::store::AttemptId) -> Result<()> { Err(anyhow!("null")) }
    async fn mark_succeeded(&self, _t: &TrampolineInfo, _a: &crate::store::AttemptId, _p: Vec<u8>) -> Result<()> { Err(anyhow!("null")) }
}

/// Takes the table mutex (private field, private value type) and returns the guard type-erased, so that the harness
/// can create lock contention deterministically: dropping the box releases the lock.
pub async fn probe_lock_table<B, N, P, S>(m: &HtlcManager<B, N, P, S>) -> Box<dyn std::any::Any + Send>
where B: BlockProvider + Send + Sync + 'static, N: NotificationService + Send + Sync + 'static, P: PaymentProvider + Send + Sync + 'static, S: Datastore + Send + Sync + 'static {
    Box::new(Arc::clone(&m.payments).lock_owned().await)
}

pub fn policy_of(v: &serde_json::Value) -> TrampolineRoutingPolicy {
    TrampolineRoutingPolicy {
        fee_base_msat: v[0].as_u64().unwrap() as _,
        fee_proportional_millionths: v[1].as_u64().unwrap() as _,
        cltv_expiry_delta: v[2].as_u64().unwrap() as _,
    }
}

/// check_htlc + the forward_msat test, on a raw request. Mirrors the first lines of handle_htlc.
pub fn classify_probe(cfg: &serde_json::Value, req: &serde_json::Value) -> serde_json::Value {
    use serde_json::json;
    let req: HtlcAcceptedRequest = match serde_json::from_value(req.clone()) {
        Ok(r) => r,
        Err(e) => return json!({"decode_error": e.to_string()}),
    };
    let m = HtlcManager::new(HtlcManagerParams {
        allow_self_route_hints: cfg["allow_self"].as_bool().unwrap(),
        block_provider: Arc::new(NullBlocks),
        cltv_delta: 34,
        local_pubkey: crate::world::pubkey(cfg["local"].as_u64().unwrap()),
        mpp_timeout: Duration::from_secs(60),
        notification_service: Arc::new(NullNotify),
        payment_provider: Arc::new(NullPay),
        routing_policy: policy_of(&cfg["policy"]),
        store: Arc::new(NullStore),
    });
    match m.check_htlc(&req) {
        HtlcCheckResult::Response(r) => json!({"resp": serde_json::to_value(&r).unwrap()}),
        HtlcCheckResult::Trampoline(t) => {
            if req.onion.forward_msat.is_none() {
                return json!({"resp": serde_json::to_value(&default_response(&req)).unwrap()});
            }
            json!({"tramp": {
                "bolt11": t.bolt11, "hash": hex::encode(AsRef::<[u8]>::as_ref(t.invoice.payment_hash())),
                "payee": hex::encode(t.payee.serialize()), "amount": t.amount_msat.to_string(),
                "inv_amount": t.invoice.amount_milli_satoshis().map(|a| a.to_string()),
                "policy": [t.routing_policy.fee_base_msat, t.routing_policy.fee_proportional_millionths, t.routing_policy.cltv_expiry_delta],
            }})
        }
    }
}
