// fee sub-command. Input: "<base> <ppm> <delta> <total> <amount>" per line.
// Output: JSON {"suf": true|false|"panic", "enc": hex of the fee-insufficient failure}
use crate::messages::{HtlcFailReason, TrampolineRoutingPolicy};
use crate::util::*;
use serde_json::json;

pub fn run() {
    silence_panics();
    for_each_line(|line| {
        let v: Vec<&str> = line.split_whitespace().collect();
        let policy = TrampolineRoutingPolicy {
            fee_base_msat: v[0].parse().unwrap(),
            fee_proportional_millionths: v[1].parse().unwrap(),
            cltv_expiry_delta: v[2].parse().unwrap(),
        };
        let total: u64 = v[3].parse().unwrap();
        let amount: u64 = v[4].parse().unwrap();
        let p2 = policy.clone();
        let suf = match guarded(move || p2.fee_sufficient(total, amount)) { None => json!("panic"), Some(b) => json!(b) };
        let enc = hex::encode(HtlcFailReason::TrampolineFeeOrExpiryInsufficient(policy).encode());
        let n1 = hex::encode(HtlcFailReason::TemporaryNodeFailure.encode());
        let n2 = hex::encode(HtlcFailReason::TemporaryTrampolineFailure.encode());
        json!({"suf": suf, "enc": enc, "node": n1, "tramp": n2}).to_string()
    });
}
