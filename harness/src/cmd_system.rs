// system sub-command: runs the REAL HtlcManager + ClnDatastore + PayPaymentProvider on the
// simulated node under a deterministic scheduler (single-threaded runtime, paused clock) and
// writes the full history: events applied and, per event, what the implementation did.
//
// Input: one JSON object per line:
//   {"cfg": {...}, "invoices": [desc...], "script": [event|macro ...]}            scripted
//   {"cfg": {...}, "invoices": [desc...], "walk": {"seed": n, "steps": n, "w": {...}}}  random walk over enabled events
// Output: one JSON object per line: {"cfg","invoices":[{bolt11,hash,view}],"events":[...],"steps":[[outputs...]...],"skewed":bool}
use crate::htlc_manager::{HtlcManager, HtlcManagerParams};
use crate::messages::HtlcAcceptedRequest;
use crate::payment_provider::PayPaymentProvider;
use crate::sim::*;
use crate::store::ClnDatastore;
use crate::util::*;
use crate::world;
use serde_json::{json, Value};
use std::collections::BTreeMap;
use std::sync::atomic::{AtomicU32, AtomicUsize, Ordering};
use std::sync::{Arc, Mutex};
use std::time::{Duration, SystemTime, UNIX_EPOCH};

pub static PANICS: AtomicUsize = AtomicUsize::new(0);

pub struct SimBlocks(pub Arc<AtomicU32>);
/// "the block height cannot be read right now" (the watcher's own mutex is busy, e.g. during its getinfo poll): the C14 schedules
/// freeze one payment at this await as well
pub static HEIGHT_FROZEN: std::sync::atomic::AtomicBool = std::sync::atomic::AtomicBool::new(false);
pub static HEIGHT_HELD: std::sync::atomic::AtomicBool = std::sync::atomic::AtomicBool::new(false);
pub static HEIGHT_NOTIFY: tokio::sync::Notify = tokio::sync::Notify::const_new();
#[async_trait::async_trait]
impl crate::block_watcher::BlockProvider for SimBlocks {
    async fn current_height(&self) -> u32 {
        // only the FIRST reader after "freeze_height" is held up (it takes the ticket): like every other freeze stage this
        // withholds one await of payment A while the same operation of payment B goes through
        if HEIGHT_FROZEN.swap(false, Ordering::SeqCst) {
            HEIGHT_HELD.store(true, Ordering::SeqCst);
            while HEIGHT_HELD.load(Ordering::SeqCst) { HEIGHT_NOTIFY.notified().await; }
        }
        self.0.load(Ordering::SeqCst)
    }
}
pub struct SimNotify(pub Arc<Mutex<Vec<Vec<u8>>>>);
#[async_trait::async_trait]
impl crate::email::NotificationService for SimNotify {
    async fn notify_payment_failed(&self, req: crate::email::NotifyPaymentFailedRequest) {
        self.0.lock().unwrap().push(AsRef::<[u8]>::as_ref(&req.payment_hash).to_vec());
    }
}

type Mgr = HtlcManager<SimBlocks, SimNotify, PayPaymentProvider<Rpc>, ClnDatastore>;

pub struct SplitMix(pub u64);
impl SplitMix {
    pub fn next(&mut self) -> u64 {
        self.0 = self.0.wrapping_add(0x9E3779B97F4A7C15);
        let mut z = self.0;
        z = (z ^ (z >> 30)).wrapping_mul(0xBF58476D1CE4E5B9);
        z = (z ^ (z >> 27)).wrapping_mul(0x94D049BB133111EB);
        z ^ (z >> 31)
    }
    pub fn below(&mut self, n: u64) -> u64 { if n == 0 { 0 } else { self.next() % n } }
    pub fn chance(&mut self, num: u64, den: u64) -> bool { self.below(den) < num }
}

struct World {
    cfg: Value,
    node: Shared,
    invoices: Vec<Value>,          // {bolt11, hash, view}
    hashes: Vec<Vec<u8>>,          // hash index -> hash bytes (index = order of first appearance)
    preimages: BTreeMap<Vec<u8>, Vec<u8>>,
    att_ord: BTreeMap<(Vec<u8>, String), u64>,
    responses: Arc<Mutex<Vec<(u64, Value)>>>,
    notes: Arc<Mutex<Vec<Vec<u8>>>>,
    height: Arc<AtomicU32>,
    panics_seen: usize,
    skew_guard: BTreeMap<usize, u64>,
    skewed: bool,
    last_existed: Option<bool>,
    next_uid: u64,
    delivered: Vec<Value>,         // every htlc event delivered so far (for replays after a crash)
    answered: Vec<u64>,
    resolved: Vec<u64>,
    held: Vec<(usize, usize)>,
    handlers: BTreeMap<u64, tokio::task::JoinHandle<()>>,   // the handle_htlc task of every delivered htlc
}

impl World {
    fn hidx(&mut self, h: &[u8]) -> usize {
        if let Some(i) = self.hashes.iter().position(|x| x == h) { return i; }
        self.hashes.push(h.to_vec());
        self.hashes.len() - 1
    }
    fn att(&mut self, h: &[u8], a: &str) -> u64 {
        let n = self.att_ord.iter().filter(|((hh, _), _)| hh == h).count() as u64;
        *self.att_ord.entry((h.to_vec(), a.to_string())).or_insert(n)
    }
    fn canon_val(&mut self, h: &[u8], v: &DsVal, issue_ms: u64) -> Value {
        match v {
            DsVal::Free => json!({"v": "free"}),
            DsVal::Pending { att, .. } => json!({"v": "pending", "att": self.att(h, att), "t": issue_ms}),
            DsVal::Succ(p) => json!({"v": "succ", "p": hex::encode(p)}),
            DsVal::Garbage(s) => json!({"v": "garbage", "s": s}),
        }
    }
    fn mode(m: &Mode) -> Value {
        match m { Mode::MustCreate => json!("mc"), Mode::MustReplace => json!("mr"), Mode::CreateOrReplace => json!("cor"), Mode::Other(s) => json!(s) }
    }
    fn pid_of(&self, h: &[u8], g: Option<u64>, p: Option<u64>) -> Value {
        let n = self.node.lock().unwrap();
        match n.hashes.get(h).and_then(|hn| hn.parts.iter().position(|x| Some(x.groupid) == g && Some(x.partid) == p)) {
            Some(i) => json!(i), None => Value::Null }
    }
    fn canon_q(&mut self, h: Option<Vec<u8>>, q: &Q, issue_ms: u64) -> Value {
        let hh = h.clone().unwrap_or_default();
        match q {
            Q::ListState => json!({"k": "liststate"}),
            Q::WriteState { mode, gen, val, .. } => json!({"k": "wstate", "mode": Self::mode(mode), "gen": gen, "val": self.canon_val(&hh, val, issue_ms)}),
            Q::WriteAtt { mode, att, raw, gen } => {
                let v: Value = serde_json::from_str(raw).unwrap_or(Value::Null);
                let inv = self.invoices.iter().position(|i| Some(i["bolt11"].as_str().unwrap()) == v.get("bolt11").and_then(|b| b.as_str()));
                json!({"k": "watt", "mode": Self::mode(mode), "att": self.att(&hh, att), "completed": v.get("completed"), "success": v.get("success"),
                       "amount": v.get("amount_msat").and_then(|a| a.as_u64()).map(|a| a.to_string()), "inv": inv, "gen": gen})
            }
            Q::ListPend => json!({"k": "listpend"}),
            Q::ListDone => json!({"k": "listdone"}),
            Q::ListOther(s) => json!({"k": "other", "s": s}),
            Q::WaitPart { groupid, partid, timeout } => json!({"k": "wait", "pid": self.pid_of(&hh, *groupid, *partid), "timeout": timeout}),
            Q::Pay { bolt11, amount, maxfee, maxdelay, retry_for, other } => {
                let inv = self.invoices.iter().position(|i| i["bolt11"].as_str() == Some(bolt11.as_str()));
                json!({"k": "pay", "inv": inv, "amount": amount.map(|a| a.to_string()), "maxfee": maxfee.map(|a| a.to_string()), "maxdelay": maxdelay, "retry": retry_for, "other": other})
            }
            Q::GetInfo => json!({"k": "getinfo"}),
            Q::Other(s) => json!({"k": "other", "s": s}),
        }
    }
    fn canon_reply(&mut self, h: &[u8], r: &Option<Reply>) -> Value {
        match r {
            None => json!({"y": "none"}),
            Some(Reply::State(None)) => json!({"y": "state", "v": null}),
            Some(Reply::State(Some((raw, gen, t)))) => { let v = parse_dsval(raw); json!({"y": "state", "v": self.canon_val(h, &v, *t), "gen": gen}) }
            Some(Reply::Gen(g)) => json!({"y": "gen", "g": g}),
            Some(Reply::Unit) => json!({"y": "unit"}),
            Some(Reply::Parts(l)) => { let v: Vec<Value> = l.iter().map(|(g, p)| self.pid_of(h, Some(*g), Some(*p))).collect(); json!({"y": "pids", "l": v}) }
            Some(Reply::Pres(l)) => json!({"y": "pres", "l": l.iter().map(hex::encode).collect::<Vec<_>>()}),
            Some(Reply::Pre(p)) => json!({"y": "pre", "p": hex::encode(p)}),
            Some(Reply::PartFailed(c)) => json!({"y": "partfailed", "code": c}),
            Some(Reply::Pay { status, preimage, warn }) => json!({"y": "pay", "status": status, "p": hex::encode(preimage), "warn": warn}),
            Some(Reply::Err(_)) => json!({"y": "err"}),
            Some(Reply::Info(h)) => json!({"y": "info", "h": h}),
        }
    }
    /// Collects what the implementation did since the last call.
    fn collect(&mut self) -> Vec<Value> {
        let mut out = vec![];
        let mut newc = vec![];
        let mut canc = vec![];
        {
            let mut n = self.node.lock().unwrap();
            let epoch = n.epoch;
            for (i, c) in n.calls.iter_mut().enumerate() {
                if !c.reported { c.reported = true; newc.push(i); }
                if c.epoch == epoch && !c.cancel_reported && matches!(c.status, CStat::Unprocessed | CStat::Running | CStat::Replied)
                    && c.tx.as_ref().map(|t| t.is_closed()).unwrap_or(false) {
                    c.cancel_reported = true; c.status = CStat::Cancelled; canc.push(i);
                }
            }
        }
        for i in newc {
            let (h, l, q, ms) = { let n = self.node.lock().unwrap(); let c = &n.calls[i]; (c.hash.clone(), c.local_id, c.q.clone(), c.issue_ms) };
            let hi = h.as_ref().map(|h| self.hidx(h));
            let cq = self.canon_q(h, &q, ms);
            out.push(json!({"o": "call", "h": hi, "c": l, "q": cq}));
        }
        for i in canc {
            let (h, l) = { let n = self.node.lock().unwrap(); (n.calls[i].hash.clone(), n.calls[i].local_id) };
            let hi = h.as_ref().map(|h| self.hidx(h));
            out.push(json!({"o": "cancel", "h": hi, "c": l}));
        }
        let rs: Vec<(u64, Value)> = self.responses.lock().unwrap().drain(..).collect();
        for (uid, r) in rs { self.answered.push(uid); if r.get("result").and_then(|x| x.as_str()) == Some("resolve") { self.resolved.push(uid); } out.push(json!({"o": "resp", "uid": uid, "r": r})); }
        let ns: Vec<Vec<u8>> = self.notes.lock().unwrap().drain(..).collect();
        for h in ns { let hi = self.hidx(&h); out.push(json!({"o": "notify", "h": hi})); }
        let p = PANICS.load(Ordering::SeqCst);
        while self.panics_seen < p { self.panics_seen += 1; out.push(json!({"o": "panic"})); }
        out
    }
}

fn fail_code(k: usize) -> i64 { [202, 203, 204, 208, 209][k % 5] }

fn wall() -> Duration { SystemTime::now().duration_since(UNIX_EPOCH).unwrap() }

async fn settle() {
    for _ in 0..60 { tokio::task::yield_now().await; }
}

fn errkind(v: &Value) -> ErrKind {
    match v.get("err").and_then(|e| e.as_str()).unwrap_or("transport") {
        "transport" => ErrKind::Transport,
        "nocode" => ErrKind::NoCode,
        s => ErrKind::Code(s.parse().unwrap_or(-1)),
    }
}

fn find_call(n: &Node, h: &[u8], c: usize) -> Option<usize> {
    n.calls.iter().position(|x| x.hash.as_deref() == Some(h) && x.local_id == c)
}

/// Applies one primitive event. Returns false if the event was not enabled (it is then a no-op).
async fn apply(w: &mut World, mgr: &Arc<Mgr>, ev: &Value) -> (bool, Option<Value>) {
    let kind = ev["e"].as_str().unwrap();
    match kind {
        "htlc" => {
            let rv = ev["req"].clone();
            let uid = ev["uid"].as_u64().unwrap();
            let req: Result<HtlcAcceptedRequest, ()> = match guarded(move || serde_json::from_value::<HtlcAcceptedRequest>(rv)) {
                Some(Ok(r)) => Ok(r),
                Some(Err(_)) => Err(()),
                None => { return (true, None); } // the request decoder itself panicked: counted by the panic hook
            };
            match req {
                Ok(req) => {
                    let m = mgr.clone();
                    let rs = w.responses.clone();
                    let jh = tokio::spawn(async move {
                        let r = m.handle_htlc(&req).await;
                        rs.lock().unwrap().push((uid, serde_json::to_value(&r).unwrap()));
                    });
                    w.handlers.insert(uid, jh);
                }
                Err(_) => {
                    // plugin.rs::on_htlc_accepted answers `continue` when the request cannot be decoded (D8 repair);
                    // the glue itself is exercised by the driver/e2e engines, here we record the decode failure
                    w.responses.lock().unwrap().push((uid, json!({"decode_error": true})));
                }
            }
            (true, None)
        }
        "burst" => {
            // the HTLCs are handled CONCURRENTLY while the table lock is contended: the harness holds the lock, queues one
            // handle_htlc task per HTLC on it (tokio's mutex hands over in FIFO order), then releases it. Lifecycles that
            // are woken by these HTLCs queue behind them, exactly as they can on the multi-threaded runtime.
            let guard = crate::htlc_manager::probe_lock_table(&**mgr).await;
            for it in ev["items"].as_array().unwrap() {
                let rv = it["req"].clone();
                let uid = it["uid"].as_u64().unwrap();
                if let Ok(req) = serde_json::from_value::<HtlcAcceptedRequest>(rv) {
                    let m = mgr.clone();
                    let rs = w.responses.clone();
                    let jh = tokio::spawn(async move {
                        let r = m.handle_htlc(&req).await;
                        rs.lock().unwrap().push((uid, serde_json::to_value(&r).unwrap()));
                    });
                    w.handlers.insert(uid, jh);
                    for _ in 0..5 { tokio::task::yield_now().await; }
                }
            }
            drop(guard);
            (true, None)
        }
        "proc" => {
            let h = w.hashes[ev["h"].as_u64().unwrap() as usize].clone();
            let c = ev["c"].as_u64().unwrap() as usize;
            let is_timeout = ev["fault"].as_str() == Some("timeout");
            let fault = match ev["fault"].as_str().unwrap_or("none") {
                "rej" => Fault::Rejected(errkind(ev)),
                "abe" => Fault::AppliedButError(errkind(ev)),
                // lightningd's answer to a waitsendpay whose timeout expired while the part is pending: error 200, no effect
                "timeout" => Fault::Rejected(ErrKind::Code(200)),
                _ => Fault::None,
            };
            let reply = {
                let mut n = w.node.lock().unwrap();
                let ci = match find_call(&n, &h, c) { Some(ci) => ci, None => return (false, None) };
                if n.calls[ci].status != CStat::Unprocessed || n.calls[ci].epoch != n.epoch { return (false, None); }
                if is_timeout && !wait_timed_out(&n, ci) { return (false, None); }
                // for a write: did the key exist when the node executed it (the effect of an append mode depends on it)
                let existed = match (&n.calls[ci].q, n.calls[ci].hash.as_ref().and_then(|hh| n.hashes.get(hh))) {
                    (Q::WriteState { .. }, Some(hn)) => Some(hn.state.is_some()),
                    (Q::WriteAtt { att, .. }, Some(hn)) => Some(hn.atts.contains_key(att)),
                    (Q::WriteState { .. }, None) | (Q::WriteAtt { .. }, None) => Some(false),
                    _ => None };
                w.last_existed = existed;
                let r = n.exec(ci, &fault);
                let is_pay = matches!(n.calls[ci].q, Q::Pay { .. });
                match &r {
                    Some(rep) => { n.calls[ci].reply = Some(rep.clone()); n.calls[ci].status = CStat::Replied; }
                    None => { if is_pay { n.calls[ci].status = CStat::Running; } }
                }
                // remember the virtual time of processing (used to age a Pending record)
                r
            };
            let cr = w.canon_reply(&h, &reply);
            (true, Some(cr))
        }
        "deliver" => {
            let h = w.hashes[ev["h"].as_u64().unwrap() as usize].clone();
            let c = ev["c"].as_u64().unwrap() as usize;
            let tx_reply = {
                let mut n = w.node.lock().unwrap();
                let ci = match find_call(&n, &h, c) { Some(ci) => ci, None => return (false, None) };
                if n.calls[ci].status != CStat::Replied || n.calls[ci].epoch != n.epoch { return (false, None); }
                n.calls[ci].status = CStat::Delivered;
                let proc_ms = n.vnow_ms; // the age of a Pending record is taken at delivery time
                (n.calls[ci].tx.take(), n.calls[ci].reply.clone(), proc_ms)
            };
            let (tx, mut reply, proc_ms) = tx_reply;
            let hi_ = ev["h"].as_u64().unwrap() as usize;
            if let Some(g) = w.skew_guard.get(&hi_) { if wall().as_secs() != *g { w.skewed = true; } }
            // a Pending record: make the wall-clock age equal the virtual age (whole seconds)
            if let Some(Reply::State(Some((raw, gen, t)))) = &reply {
                if let DsVal::Pending { att, .. } = parse_dsval(raw) {
                    while wall().subsec_millis() > 900 { std::thread::sleep(Duration::from_millis(5)); }
                    let wsec = wall().as_secs();
                    w.skew_guard.insert(hi_, wsec);
                    // an attempt dated in the past ages by the virtual time elapsed; one dated in the future stays ahead of the clock
                    let secs = if proc_ms >= *t { wsec.saturating_sub((proc_ms - *t) / 1000) } else { wsec + (*t - proc_ms) / 1000 };
                    let raw2 = json!({"Pending": {"attempt_id": att, "attempt_time_seconds": secs}}).to_string();
                    reply = Some(Reply::State(Some((raw2, *gen, *t))));
                }
            }
            if let (Some(tx), Some(r)) = (tx, reply) { let _ = tx.send(r); }
            (true, None)
        }
        "part" => {
            let h = w.hashes[ev["h"].as_u64().unwrap() as usize].clone();
            let pid = ev["pid"].as_u64().unwrap() as usize;
            let pre = w.preimages.get(&h).cloned();
            let mut n = w.node.lock().unwrap();
            let hn = match n.hashes.get_mut(&h) { Some(x) => x, None => return (false, None) };
            if pid >= hn.parts.len() || hn.parts[pid].status != PStat::Pend { return (false, None); }
            match ev["st"].as_str().unwrap() {
                "done" => match pre { Some(p) => hn.parts[pid].status = PStat::Done(p), None => return (false, None) },
                _ => hn.parts[pid].status = PStat::Failed(ev["code"].as_i64().unwrap_or(203) as i32),
            }
            (true, None)
        }
        "newpart" => {
            let h = w.hashes[ev["h"].as_u64().unwrap() as usize].clone();
            let c = ev["c"].as_u64().unwrap() as usize;
            let mut n = w.node.lock().unwrap();
            let ci = match find_call(&n, &h, c) { Some(ci) => ci, None => return (false, None) };
            if n.calls[ci].status != CStat::Running || n.calls[ci].epoch != n.epoch { return (false, None); }
            let hn = n.hashes.get_mut(&h).unwrap();
            let g = hn.pays_started;
            let p = hn.parts.iter().filter(|x| x.groupid == g).count() as u64;
            hn.parts.push(Part { groupid: g, partid: p, status: PStat::Pend });
            (true, None)
        }
        "payfin" => {
            let h = w.hashes[ev["h"].as_u64().unwrap() as usize].clone();
            let c = ev["c"].as_u64().unwrap() as usize;
            let mut n = w.node.lock().unwrap();
            let ci = match find_call(&n, &h, c) { Some(ci) => ci, None => return (false, None) };
            if n.calls[ci].status != CStat::Running || n.calls[ci].epoch != n.epoch { return (false, None); }
            let hn = n.hashes.get(&h).unwrap();
            let done: Option<Vec<u8>> = hn.parts.iter().find_map(|p| if let PStat::Done(x) = &p.status { Some(x.clone()) } else { None });
            let busy = hn.parts.iter().any(|p| !matches!(p.status, PStat::Failed(_)));
            let rep = match ev["out"].as_str().unwrap() {
                "complete" => match done { Some(p) => Reply::Pay { status: "complete".into(), preimage: p, warn: false }, None => return (false, None) },
                "pending" => Reply::Pay { status: "pending".into(), preimage: vec![0u8; 32], warn: false },
                "failed_warn" => Reply::Pay { status: "failed".into(), preimage: vec![0u8; 32], warn: true },
                "failed" => { if busy { return (false, None); } Reply::Pay { status: "failed".into(), preimage: vec![0u8; 32], warn: false } }
                _ => Reply::Err(errkind(ev)),
            };
            n.calls[ci].reply = Some(rep);
            n.calls[ci].status = CStat::Replied;
            (true, None)
        }
        "tick" => {
            let ms = ev["ms"].as_u64().unwrap();
            { let mut n = w.node.lock().unwrap(); n.vnow_ms += ms; }
            if !w.skew_guard.is_empty() { w.skewed = true; }
            tokio::time::advance(Duration::from_millis(ms)).await;
            (true, None)
        }
        "height" => { w.height.store(ev["v"].as_u64().unwrap() as u32, Ordering::SeqCst); (true, None) }
        "hangup" => {
            // the handler task of one held htlc goes away (its response channel is closed); nothing else happens
            let uid = ev["uid"].as_u64().unwrap();
            match w.handlers.remove(&uid) {
                Some(jh) if !jh.is_finished() => { jh.abort(); for _ in 0..5 { tokio::task::yield_now().await; } (true, None) }
                _ => (false, None),
            }
        }
        _ => (false, None),
    }
}

/// A hash stops blocking virtual time once none of its calls is outstanding any more
/// (its lifecycle reached select!, finished, or panicked).
fn release_guards(w: &mut World) {
    if w.skew_guard.is_empty() { return; }
    let n = w.node.lock().unwrap();
    let hashes = w.hashes.clone();
    let busy: Vec<usize> = w.skew_guard.keys().cloned().filter(|hi| {
        n.calls.iter().any(|c| c.epoch == n.epoch && c.hash.as_deref() == Some(&hashes[*hi][..]) && matches!(c.status, CStat::Unprocessed | CStat::Running | CStat::Replied))
    }).collect();
    drop(n);
    w.skew_guard.retain(|k, _| busy.contains(k));
}

fn cfg_policy(cfg: &Value) -> crate::messages::TrampolineRoutingPolicy {
    crate::htlc_manager::policy_of(&cfg["policy"])
}

fn new_manager(w: &World) -> Arc<Mgr> {
    let rpc = Arc::new(Rpc::on(&w.node));
    let cfg = &w.cfg;
    Arc::new(HtlcManager::new(HtlcManagerParams {
        allow_self_route_hints: cfg["allow_self"].as_bool().unwrap_or(true),
        block_provider: Arc::new(SimBlocks(w.height.clone())),
        cltv_delta: cfg["cltv_delta"].as_u64().unwrap_or(34) as u16,
        local_pubkey: world::pubkey(cfg["local"].as_u64().unwrap_or(0)),
        mpp_timeout: Duration::from_millis(cfg["mpp_ms"].as_u64().unwrap_or(60000)),
        notification_service: Arc::new(SimNotify(w.notes.clone())),
        payment_provider: Arc::new(PayPaymentProvider::new(rpc.clone(), Duration::from_secs(cfg["pay_timeout_s"].as_u64().unwrap_or(60)), cfg["xpay"].as_bool().unwrap_or(false))),
        routing_policy: cfg_policy(cfg),
        store: Arc::new(ClnDatastore::new(rpc)),
    }))
}

// ---------------------------------------------------------------------------------------------
// event sources
// ---------------------------------------------------------------------------------------------
struct View { unprocessed: Vec<(usize, usize, String)>, replied: Vec<(usize, usize)>, running: Vec<(usize, usize)>, pend_parts: Vec<(usize, usize)>,
              busy: Vec<usize>, has_done: Vec<usize> }

fn view(w: &mut World) -> View {
    let mut v = View { unprocessed: vec![], replied: vec![], running: vec![], pend_parts: vec![], busy: vec![], has_done: vec![] };
    let hashes = w.hashes.clone();
    let n = w.node.lock().unwrap();
    for c in n.calls.iter() {
        if c.epoch != n.epoch { continue; }
        let hi = match &c.hash { Some(h) => match hashes.iter().position(|x| x == h) { Some(i) => i, None => continue }, None => continue };
        let kind = match &c.q { Q::Pay { .. } => "pay", Q::WaitPart { .. } => "wait", Q::WriteState { .. } | Q::WriteAtt { .. } => "write", _ => "read" };
        match c.status {
            CStat::Unprocessed => v.unprocessed.push((hi, c.local_id, kind.to_string())),
            CStat::Replied => v.replied.push((hi, c.local_id)),
            CStat::Running => v.running.push((hi, c.local_id)),
            _ => {}
        }
    }
    for (hi, h) in hashes.iter().enumerate() {
        if let Some(hn) = n.hashes.get(h) {
            for (pid, p) in hn.parts.iter().enumerate() { if p.status == PStat::Pend { v.pend_parts.push((hi, pid)); } }
            if hn.parts.iter().any(|p| !matches!(p.status, PStat::Failed(_))) { v.busy.push(hi); }
            if hn.parts.iter().any(|p| matches!(p.status, PStat::Done(_))) { v.has_done.push(hi); }
        }
    }
    v
}

/// A waitsendpay that carried a timeout (the unchanged plugin passes none), on a part still pending, whose timeout has elapsed
/// on the virtual clock.
fn wait_timed_out(n: &Node, ci: usize) -> bool {
    if let Q::WaitPart { groupid, partid, timeout: Some(t) } = &n.calls[ci].q {
        let pending = n.calls[ci].hash.as_ref().and_then(|h| n.hashes.get(h)).map(|hn| hn.parts.iter().any(|p| Some(p.groupid) == *groupid && Some(p.partid) == *partid && p.status == PStat::Pend)).unwrap_or(false);
        return pending && n.vnow_ms >= n.calls[ci].issue_ms + (*t as u64) * 1000;
    }
    false
}

fn wait_is_pending(w: &World, hi: usize, c: usize) -> bool {
    let n = w.node.lock().unwrap();
    let h = &w.hashes[hi];
    if let Some(ci) = find_call(&n, h, c) {
        if let Q::WaitPart { groupid, partid, .. } = &n.calls[ci].q {
            if let Some(hn) = n.hashes.get(h) {
                return hn.parts.iter().any(|p| Some(p.groupid) == *groupid && Some(p.partid) == *partid && p.status == PStat::Pend);
            }
        }
    }
    false
}

/// Expands a macro event of a script into primitive events, given the current state.
fn expand(w: &mut World, ev: &Value) -> Vec<Value> {
    let kind = ev["e"].as_str().unwrap();
    let v = view(w);
    let pick = |l: &Vec<(usize, usize)>, ev: &Value| -> Option<(usize, usize)> {
        let hsel = ev.get("h").and_then(|h| h.as_u64()).map(|h| h as usize);
        let nth = ev.get("nth").and_then(|n| n.as_u64()).unwrap_or(0) as usize;
        l.iter().filter(|(h, _)| hsel.map(|x| x == *h).unwrap_or(true)).nth(nth).cloned()
    };
    match kind {
        "proc_next" => {
            let l: Vec<(usize, usize)> = v.unprocessed.iter().filter(|(h, c, k)| !(k == "wait" && wait_is_pending(w, *h, *c)) && !w.held.contains(&(*h, *c))).map(|(h, c, _)| (*h, *c)).collect();
            match pick(&l, ev) { Some((h, c)) => { let mut e = json!({"e": "proc", "h": h, "c": c, "fault": ev.get("fault").cloned().unwrap_or(json!("none"))}); if let Some(x) = ev.get("err") { e["err"] = x.clone(); } vec![e] } None => vec![] }
        }
        "deliver_next" => match pick(&v.replied, ev) { Some((h, c)) => vec![json!({"e": "deliver", "h": h, "c": c})], None => vec![] },
        "part_next" => match pick(&v.pend_parts, ev) { Some((h, p)) => vec![json!({"e": "part", "h": h, "pid": p, "st": ev["st"], "code": ev.get("code").cloned().unwrap_or(json!(203))})], None => vec![] },
        "newpart_next" => match pick(&v.running, ev) { Some((h, c)) => vec![json!({"e": "newpart", "h": h, "c": c})], None => vec![] },
        "payfin_next" => match pick(&v.running, ev) { Some((h, c)) => { let mut e = json!({"e": "payfin", "h": h, "c": c, "out": ev["out"]}); if let Some(x) = ev.get("err") { e["err"] = x.clone(); } vec![e] } None => vec![] },
        // one round of a no-fault drain: deliver everything replied, else process the first processable call
        "drain_step" => {
            let hsel = ev.get("h").and_then(|h| h.as_u64()).map(|h| h as usize);
            if let Some((h, c)) = v.replied.iter().find(|(h, _)| hsel.map(|x| x == *h).unwrap_or(true)) { return vec![json!({"e": "deliver", "h": h, "c": c})]; }
            for (h, c, k) in v.unprocessed.iter() {
                if hsel.map(|x| x != *h).unwrap_or(false) { continue; }
                if w.held.contains(&(*h, *c)) { continue; }
                if k == "wait" && wait_is_pending(w, *h, *c) {
                    let timed_out = { let n = w.node.lock().unwrap(); find_call(&n, &w.hashes[*h], *c).map(|ci| wait_timed_out(&n, ci)).unwrap_or(false) };
                    if timed_out { return vec![json!({"e": "proc", "h": h, "c": c, "fault": "timeout"})]; }
                    continue;
                }
                return vec![json!({"e": "proc", "h": h, "c": c, "fault": "none"})];
            }
            vec![]
        }
        // the handler of the nth delivered, still unanswered htlc of this epoch goes away
        "hangup_nth" => {
            let nth = ev.get("nth").and_then(|n| n.as_u64()).unwrap_or(0) as usize;
            let epoch = w.node.lock().unwrap().epoch;
            let cand: Vec<u64> = w.delivered.iter().filter(|d| d["epoch"].as_u64() == Some(epoch)).map(|d| d["uid"].as_u64().unwrap())
                .filter(|u| !w.answered.contains(u) && w.handlers.get(u).map(|j| !j.is_finished()).unwrap_or(false)).collect();
            match cand.get(nth) { Some(u) => vec![json!({"e": "hangup", "uid": u})], None => vec![] }
        }
        _ => vec![ev.clone()],
    }
}

fn htlc_event(w: &mut World, spec: &Value) -> Value {
    // spec: {"e":"htlc", "req": {...}}  (uid assigned here)   or {"e":"replay","i":n} (re-deliver the n-th delivered htlc)
    let uid = w.next_uid; w.next_uid += 1;
    let mut e = spec.clone();
    e["uid"] = json!(uid);
    if e.get("orig").is_none() { e["orig"] = json!(uid); }
    e["epoch"] = json!(w.node.lock().unwrap().epoch);
    w.delivered.push(e.clone());
    e
}

fn walk_next(w: &mut World, r: &mut SplitMix, wt: &Value, pool: &Vec<Value>, step: usize) -> Option<Value> {
    let g = |k: &str, d: u64| wt.get(k).and_then(|x| x.as_u64()).unwrap_or(d);
    let v = view(w);
    let mut opts: Vec<(u64, Value)> = vec![];
    if !pool.is_empty() { opts.push((g("htlc", 5), json!({"e": "htlc_pool"}))); }
    for (h, c, k) in v.unprocessed.iter() {
        let pend_wait = k == "wait" && wait_is_pending(w, *h, *c);
        if pend_wait {
            let timed_out = { let n = w.node.lock().unwrap(); find_call(&n, &w.hashes[*h], *c).map(|ci| wait_timed_out(&n, ci)).unwrap_or(false) };
            if timed_out { opts.push((g("proc", 30), json!({"e": "proc", "h": h, "c": c, "fault": "timeout"}))); }
            opts.push((g("proc_pending_wait", 1), json!({"e": "proc", "h": h, "c": c, "fault": "none"}))); continue;
        }
        opts.push((g("proc", 30), json!({"e": "proc", "h": h, "c": c, "fault": "none"})));
        let errs = ["transport", "-1", "200", "210", "nocode"];
        let e = errs[r.below(errs.len() as u64) as usize];
        if k == "write" {
            opts.push((g("fault_write_rej", 2), json!({"e": "proc", "h": h, "c": c, "fault": "rej", "err": e})));
            opts.push((g("fault_write_abe", 2), json!({"e": "proc", "h": h, "c": c, "fault": "abe", "err": e})));
        } else if k == "pay" {
            opts.push((g("fault_pay_rej", 1), json!({"e": "proc", "h": h, "c": c, "fault": "rej", "err": e})));
        } else {
            opts.push((g("fault_read", 0), json!({"e": "proc", "h": h, "c": c, "fault": "rej", "err": e})));
        }
    }
    for (h, c) in v.replied.iter() { opts.push((g("deliver", 30), json!({"e": "deliver", "h": h, "c": c}))); }
    for (h, p) in v.pend_parts.iter() {
        opts.push((g("part_done", 3), json!({"e": "part", "h": h, "pid": p, "st": "done"})));
        let codes = [202, 203, 204, 208, 209];
        opts.push((g("part_fail", 3), json!({"e": "part", "h": h, "pid": p, "st": "fail", "code": codes[r.below(5) as usize]})));
    }
    for (h, c) in v.running.iter() {
        opts.push((g("newpart", 10), json!({"e": "newpart", "h": h, "c": c})));
        if v.has_done.contains(h) { opts.push((g("payfin_complete", 8), json!({"e": "payfin", "h": h, "c": c, "out": "complete"}))); }
        opts.push((g("payfin_pending", 4), json!({"e": "payfin", "h": h, "c": c, "out": "pending"})));
        opts.push((g("payfin_failed_warn", 3), json!({"e": "payfin", "h": h, "c": c, "out": "failed_warn"})));
        if !v.busy.contains(h) { opts.push((g("payfin_failed", 3), json!({"e": "payfin", "h": h, "c": c, "out": "failed"}))); }
        let pay_errs = ["200", "201", "202", "203", "204", "205", "206", "207", "208", "209", "210", "-1", "transport", "nocode"];
        opts.push((g("payfin_error", 3), json!({"e": "payfin", "h": h, "c": c, "out": "error", "err": pay_errs[r.below(pay_errs.len() as u64) as usize]})));
    }
    let mpp = w.cfg["mpp_ms"].as_u64().unwrap_or(60000);
    let ticks = [1000u64, 1000, 5000, (mpp / 2 / 1000) * 1000, mpp.saturating_sub(1000), mpp, mpp + 1000];
    let t = ticks[r.below(ticks.len() as u64) as usize].max(1000);
    // no tick while a lifecycle holds a Pending record it read (restart path): see DESIGN 3.2 "Time"
    if w.skew_guard.is_empty() { opts.push((g("tick", 3), json!({"e": "tick", "ms": t}))); }
    opts.push((g("height", 1), json!({"e": "height", "v": r.below(3000)})));
    opts.push((g("crash", 1), json!({"e": "crash"})));
    let total: u64 = opts.iter().map(|(w, _)| *w).sum();
    if total == 0 { return None; }
    let mut x = r.below(total);
    for (wgt, e) in opts { if x < wgt { return Some(e); } x -= wgt; }
    None
}

pub fn run_case(case: &Value) -> Value {
    let cfg = case["cfg"].clone();
    let node: Shared = Arc::new(Mutex::new(Node::default()));
    HEIGHT_FROZEN.store(false, Ordering::SeqCst); HEIGHT_HELD.store(false, Ordering::SeqCst);
    let mut w = World { cfg: cfg.clone(), node: node.clone(), invoices: vec![], hashes: vec![], preimages: BTreeMap::new(), att_ord: BTreeMap::new(),
        responses: Arc::new(Mutex::new(vec![])), notes: Arc::new(Mutex::new(vec![])), height: Arc::new(AtomicU32::new(0)), panics_seen: PANICS.load(Ordering::SeqCst),
        skew_guard: BTreeMap::new(), skewed: false, last_existed: None, next_uid: 0, delivered: vec![], answered: vec![], resolved: vec![], held: vec![], handlers: BTreeMap::new() };
    // invoices: either descriptors (built here) or {"raw": bolt11}
    for d in case["invoices"].as_array().cloned().unwrap_or_default() {
        let s = match d.get("raw").and_then(|r| r.as_str()) { Some(r) => r.to_string(), None => world::make_invoice(&d) };
        let v = world::view(s.as_bytes());
        let h = v.get("hash").and_then(|h| h.as_str()).map(|h| hex::decode(h).unwrap());
        if let Some(h) = &h { node.lock().unwrap().invoices.push((s.clone(), h.clone())); }
        w.invoices.push(json!({"bolt11": s, "view": v, "desc": d}));
    }
    // hash table: preimage indices the case uses (hash index = position)
    for p in case["preimages"].as_array().cloned().unwrap_or_default() {
        let pre = world::preimage(p.as_u64().unwrap());
        let h = world::sha(&pre);
        w.hidx(&h);
        w.preimages.insert(h, pre);
    }
    // initial durable state (persisted histories a restart can find)
    if let Some(init) = case.get("init").and_then(|i| i.as_array()) {
        for it in init {
            let h = w.hashes[it["h"].as_u64().unwrap() as usize].clone();
            let mut n = node.lock().unwrap();
            let hn = n.hashes.entry(h).or_default();
            if let Some(s) = it.get("state") {
                // {"raw": ..., "gen": g} or {"pending_t_ms": virtual time the attempt is dated, "gen": g}
                let (raw, t) = match s.get("pending_t_ms").and_then(|t| t.as_u64()) {
                    Some(t) => (json!({"Pending": {"attempt_id": "init", "attempt_time_seconds": 0}}).to_string(), t),
                    None => (s["raw"].as_str().unwrap().to_string(), 0),
                };
                hn.state = Some((raw, s["gen"].as_u64().unwrap_or(0), t));
            }
            for p in it.get("parts").and_then(|p| p.as_array()).cloned().unwrap_or_default() {
                let st = match p.as_str().unwrap() { "pend" => PStat::Pend, "fail" => PStat::Failed(203), _ => PStat::Done(world::preimage(0)) };
                let k = hn.parts.len() as u64;
                hn.parts.push(Part { groupid: 0, partid: k, status: st });
            }
        }
    }
    let mut events: Vec<Value> = vec![];
    let mut steps: Vec<Value> = vec![];
    let mut script: Vec<Value> = case.get("script").and_then(|s| s.as_array()).cloned().unwrap_or_default();
    let mut suffix: Option<Vec<Value>> = case.get("suffix").and_then(|s| s.as_array()).cloned();
    let walk = case.get("walk").cloned();
    let mut rng = SplitMix(walk.as_ref().and_then(|w| w["seed"].as_u64()).unwrap_or(1));
    let max_steps = walk.as_ref().and_then(|w| w["steps"].as_u64()).unwrap_or(0) as usize;
    let pool: Vec<Value> = case.get("pool").and_then(|p| p.as_array()).cloned().unwrap_or_default();
    let mut si = 0usize;          // script cursor
    let mut drain_budget = 0usize;
    let crash_at: Vec<u64> = case.get("crash_at").and_then(|c| c.as_array()).map(|a| a.iter().filter_map(|x| x.as_u64()).collect()).unwrap_or_default();
    let mut crash_done: Vec<u64> = vec![];
    let after_crash: Vec<Value> = case.get("after_crash").and_then(|s| s.as_array()).cloned().unwrap_or_default();
    let fault_at: Vec<Value> = case.get("fault_at").and_then(|s| s.as_array()).cloned().unwrap_or_default();
    let mut nproc: BTreeMap<String, u64> = BTreeMap::new();
    let mut finale_ticks = 0usize;
    let mut walked = 0usize;
    let mut done = false;
    while !done {
        let rt = tokio::runtime::Builder::new_current_thread().enable_time().start_paused(true).build().unwrap();
        let crashed = rt.block_on(async {
            let mgr = new_manager(&w);
            loop {
                // next event
                let ev: Value = if si < script.len() {
                    let e = script[si].clone();
                    if e["e"] == "drain" {
                        // expands to drain_steps until nothing is left (bounded)
                        if drain_budget == 0 { drain_budget = 400; }
                        let mut d = json!({"e": "drain_step"}); if let Some(h) = e.get("h") { d["h"] = h.clone(); }
                        let x = expand(&mut w, &d);
                        drain_budget -= 1;
                        if x.is_empty() || drain_budget == 0 { si += 1; drain_budget = 0; continue; }
                        x[0].clone()
                    } else if e["e"] == "finale" {
                        // drive everything to quiescence without faults: drain; finish running pays; resolve
                        // pending parts; let the MPP timer expire. mode "coop": pays complete, else they fail.
                        if drain_budget == 0 { drain_budget = 600; w.held.clear(); }
                        drain_budget -= 1;
                        if drain_budget == 0 { si += 1; continue; }
                        let coop = e.get("mode").and_then(|m| m.as_str()) == Some("coop");
                        let x = expand(&mut w, &json!({"e": "drain_step"}));
                        if !x.is_empty() { x[0].clone() } else {
                            let v = view(&mut w);
                            if let Some((h, c)) = v.running.first() {
                                if coop {
                                    if v.has_done.contains(h) { json!({"e": "payfin", "h": h, "c": c, "out": "complete"}) }
                                    else if let Some((_, p)) = v.pend_parts.iter().find(|(hh, _)| hh == h) { json!({"e": "part", "h": h, "pid": p, "st": "done"}) }
                                    else { json!({"e": "newpart", "h": h, "c": c}) }
                                } else if let Some((_, p)) = v.pend_parts.iter().find(|(hh, _)| hh == h) { json!({"e": "part", "h": h, "pid": p, "st": "fail", "code": fail_code(*p + events.len())}) }
                                else if v.has_done.contains(h) { json!({"e": "payfin", "h": h, "c": c, "out": "complete"}) }
                                else { json!({"e": "payfin", "h": h, "c": c, "out": "failed"}) }
                            } else if let Some((h, p)) = v.pend_parts.first() {
                                let done = e.get("old_parts").and_then(|m| m.as_str()) == Some("done");
                                if done { json!({"e": "part", "h": h, "pid": p, "st": "done"}) } else { json!({"e": "part", "h": h, "pid": p, "st": "fail", "code": fail_code(*p + events.len() + 1)}) }
                            } else {
                                let unanswered = w.delivered.iter().any(|d| !w.answered.contains(&d["uid"].as_u64().unwrap()) && d["epoch"].as_u64() == Some(w.node.lock().unwrap().epoch));
                                let ticks = e.get("_ticks").and_then(|t| t.as_u64()).unwrap_or(0);
                                if unanswered && w.skew_guard.is_empty() && finale_ticks < 3 {
                                    finale_ticks += 1;
                                    let mpp = w.cfg["mpp_ms"].as_u64().unwrap_or(60000);
                                    json!({"e": "tick", "ms": ((mpp / 1000) + 1) * 1000})
                                } else { si += 1; drain_budget = 0; finale_ticks = 0; continue; }
                            }
                        }
                    } else if e["e"] == "hold_unprocessed" {
                        // withhold every currently unprocessed call (a straggling RPC): drains skip them until "release"
                        si += 1;
                        let v = view(&mut w);
                        for (h, c, _) in v.unprocessed.iter() { w.held.push((*h, *c)); }
                        continue;
                    } else if e["e"] == "release" {
                        si += 1; w.held.clear(); continue;
                    } else if e["e"] == "freeze_height" {
                        // not an event of the model: from now on reading the block height does not return (until "unfreeze_height")
                        si += 1;
                        if e.get("on").and_then(|x| x.as_bool()).unwrap_or(true) { HEIGHT_FROZEN.store(true, Ordering::SeqCst); }
                        else { HEIGHT_FROZEN.store(false, Ordering::SeqCst); HEIGHT_HELD.store(false, Ordering::SeqCst); HEIGHT_NOTIFY.notify_waiters(); settle().await; }
                        continue;
                    } else if e["e"] == "replay_unanswered" {
                        // re-deliver (one per round) every delivered htlc that has no answer yet and was not yet replayed in this epoch
                        let epoch = w.node.lock().unwrap().epoch;
                        let cand = w.delivered.iter().position(|d| !w.answered.contains(&d["uid"].as_u64().unwrap()) && d["epoch"].as_u64() != Some(epoch)
                            && !w.delivered.iter().any(|d2| d2["epoch"].as_u64() == Some(epoch) && d2.get("orig") == Some(&d["orig"])));
                        // ("one": only the first of them, so that a multi-part set stays incomplete after the restart)
                        let only_one = e.get("one").is_some();
                        match cand {
                            Some(i) => { if only_one { si += 1; } let mut d = w.delivered[i].clone(); d["e"] = json!("htlc");
                                         // blocks were mined while the node was down: lightningd replays the htlc with a smaller cltv_expiry_relative
                                         if let Some(rel) = e.get("rel") { d["req"]["htlc"]["cltv_expiry_relative"] = rel.clone(); }
                                         htlc_event(&mut w, &d) }
                            None => { si += 1; continue; }
                        }
                    } else if e["e"] == "probe_retry" {
                        si += 1;
                        // if the last delivered htlc was answered with something other than resolve, deliver a copy
                        let last = match w.delivered.last() { Some(l) => l.clone(), None => continue };
                        let uid = last["uid"].as_u64().unwrap();
                        if w.resolved.contains(&uid) { continue; }
                        let mut d = last.clone(); d["e"] = json!("htlc"); htlc_event(&mut w, &d)
                    } else {
                        si += 1;
                        if e["e"] == "htlc" { htlc_event(&mut w, &e) }
                        else if e["e"] == "burst" {
                            let items: Vec<Value> = e["items"].as_array().unwrap().iter().map(|it| htlc_event(&mut w, it)).collect();
                            json!({"e": "burst", "items": items})
                        }
                        else if e["e"] == "replay" {
                            let i = e["i"].as_u64().unwrap() as usize;
                            if i >= w.delivered.len() { continue; }
                            let mut d = w.delivered[i].clone(); d["e"] = json!("htlc"); htlc_event(&mut w, &d)
                        } else {
                            let x = expand(&mut w, &e);
                            if x.is_empty() { continue; }
                            x[0].clone()
                        }
                    }
                } else if walked < max_steps {
                    walked += 1;
                    match walk_next(&mut w, &mut rng, walk.as_ref().map(|w| &w["w"]).unwrap_or(&Value::Null), &pool, walked) {
                        Some(e) => {
                            if e["e"] == "htlc_pool" {
                                // a fresh htlc from the pool, or (after a crash) a replay of a delivered, unanswered one
                                let unanswered: Vec<usize> = w.delivered.iter().enumerate().filter(|(_, d)| !w.answered.contains(&d["uid"].as_u64().unwrap())).map(|(i, _)| i).collect();
                                if !unanswered.is_empty() && rng.chance(1, 3) {
                                    let i = unanswered[rng.below(unanswered.len() as u64) as usize];
                                    let mut d = w.delivered[i].clone(); d["e"] = json!("htlc"); htlc_event(&mut w, &d)
                                } else {
                                    let p = pool[rng.below(pool.len() as u64) as usize].clone();
                                    htlc_event(&mut w, &p)
                                }
                            } else { e }
                        }
                        None => continue,
                    }
                } else if let Some(sfx) = suffix.take() { script = sfx; si = 0; continue; }
                else if !after_crash.is_empty() && crash_at.iter().any(|k| !crash_done.contains(k)) {
                    // the story ended before the crash point was reached: the node crashes now (otherwise the after-crash script,
                    // which holds the finale, would never run although the case announces one)
                    let k = *crash_at.iter().find(|k| !crash_done.contains(*k)).unwrap();
                    crash_done.push(k);
                    script = after_crash.clone(); si = 0; drain_budget = 0;
                    events.push(json!({"e": "crash"})); steps.push(json!({"out": []}));
                    return true;
                }
                else { done = true; return false; };
                let mut ev = ev;
                if crash_at.contains(&(events.len() as u64)) && !crash_done.contains(&(events.len() as u64)) {
                    crash_done.push(events.len() as u64);
                    // the story is abandoned; continue with the after_crash script
                    script = after_crash.clone(); si = 0; drain_budget = 0;
                    // an htlc that was about to be delivered never reached the plugin
                    if ev["e"] == "htlc" { w.delivered.pop(); }
                    if ev["e"] == "burst" { for _ in 0..ev["items"].as_array().map(|a| a.len()).unwrap_or(0) { w.delivered.pop(); } }
                    ev = json!({"e": "crash"});
                }
                if ev["e"] == "proc" && !fault_at.is_empty() {
                    // kind of the call about to be processed
                    let kind = {
                        let n = w.node.lock().unwrap();
                        let h = &w.hashes[ev["h"].as_u64().unwrap() as usize];
                        match find_call(&n, h, ev["c"].as_u64().unwrap() as usize).map(|ci| n.calls[ci].q.clone()) {
                            Some(Q::WriteState { .. }) | Some(Q::WriteAtt { .. }) => "write",
                            Some(Q::Pay { .. }) => "pay",
                            _ => "read",
                        }
                    };
                    let cnt = nproc.entry(kind.to_string()).or_insert(0u64);
                    if let Some(f) = fault_at.iter().find(|f| f["k"].as_u64() == Some(*cnt) && f.get("kind").and_then(|k| k.as_str()).unwrap_or("write") == kind) {
                        ev["fault"] = if kind == "pay" { json!("rej") } else { f["fault"].clone() };
                        ev["err"] = f.get("err").cloned().unwrap_or(json!("transport"));
                    }
                    *cnt += 1;
                }
                if ev["e"] == "crash" { events.push(ev); steps.push(json!({"out": []})); return true; }
                let (enabled, reply) = apply(&mut w, &mgr, &ev).await;
                if !enabled { continue; }
                settle().await;
                let out = w.collect();
                release_guards(&mut w);
                let mut st = json!({"out": out});
                if let Some(r) = reply { st["reply"] = r; }
                if let Some(x) = w.last_existed.take() { st["existed"] = json!(x); }
                events.push(ev);
                steps.push(st);
                if events.len() > 3000 { done = true; return false; }
            }
        });
        drop(rt);
        if crashed {
            let mut n = node.lock().unwrap();
            n.epoch += 1;
            w.skew_guard.clear();
            // everything the plugin held is gone; unanswered htlcs may be replayed by the node
            let epoch = n.epoch;
            for c in n.calls.iter_mut() { if c.epoch != epoch { c.status = CStat::Dead; c.tx = None; } }
        }
    }
    let hashes: Vec<String> = w.hashes.iter().map(hex::encode).collect();
    let pre: Vec<Value> = w.hashes.iter().map(|h| json!(w.preimages.get(h).map(hex::encode))).collect();
    let local_key = hex::encode(world::pubkey(cfg["local"].as_u64().unwrap_or(0)).serialize());
    json!({"cfg": cfg, "local_key": local_key, "invoices": w.invoices, "hashes": hashes, "preimages": pre, "init": case.get("init"), "events": events, "steps": steps, "skewed": w.skewed})
}

pub fn run() {
    std::panic::set_hook(Box::new(|_| { PANICS.fetch_add(1, Ordering::SeqCst); }));
    for_each_line(|line| {
        let case: Value = serde_json::from_str(line).expect("json");
        run_case(&case).to_string()
    });
}
