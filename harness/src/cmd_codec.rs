// codec sub-command: the REAL MultiLineCodec through tokio_util's FramedRead, fed with the given read chunks,
// and the real encoder. Input: {"chunks": [hex, ...]} | {"encode": [hex (utf-8 text), ...]}
// Output: {"frames": [hex...], "error": bool, "left": n}   |  {"bytes": hex}
use crate::codec_probe::codec::MultiLineCodec;
use crate::util::*;
use bytes::BytesMut;
use serde_json::{json, Value};
use tokio_util::codec::{Decoder, Encoder};

pub fn run() {
    std::panic::set_hook(Box::new(|_| {}));
    for_each_line(|line| {
        let case: Value = serde_json::from_str(line).expect("json");
        if let Some(ms) = case.get("encode").and_then(|e| e.as_array()) {
            let mut buf = BytesMut::new();
            let mut c = MultiLineCodec::default();
            for m in ms {
                let s = String::from_utf8(hex::decode(m.as_str().unwrap()).unwrap()).unwrap();
                c.encode(s, &mut buf).unwrap();
            }
            return json!({"bytes": hex::encode(&buf[..])}).to_string();
        }
        // FramedRead's loop: read a chunk into the buffer, call decode until it returns None
        let mut buf = BytesMut::new();
        let mut c = MultiLineCodec::default();
        let mut frames: Vec<String> = vec![];
        let mut error = false;
        'outer: for ch in case["chunks"].as_array().unwrap() {
            buf.extend_from_slice(&hex::decode(ch.as_str().unwrap()).unwrap());
            loop {
                match guarded(|| c.decode(&mut buf)) {
                    Some(Ok(Some(f))) => frames.push(hex::encode(f.as_bytes())),
                    Some(Ok(None)) => break,
                    Some(Err(_)) => { error = true; break 'outer; }
                    None => { error = true; frames.push("panic".into()); break 'outer; }
                }
            }
        }
        json!({"frames": frames, "error": error, "left": hex::encode(&buf[..])}).to_string()
    });
}
