// The harness's own `crate::rpc`: re-exports the repo's ClnRpc trait and error type and
// defines `Rpc` as a handle on the simulated node, so that the REAL ClnDatastore and
// BlockWatcher (hard-wired to crate::rpc::Rpc) run unmodified on it.
pub use crate::real_rpc::{ClnRpc, RpcError};
pub use crate::sim::Rpc;
