// Shared test world: deterministic keys, invoice construction with the plugin's own
// lightning-invoice crate, and the invoice oracle (what the code reads off a parsed invoice).
use lightning_invoice::{Bolt11Invoice, Currency, InvoiceBuilder, PaymentSecret, RouteHint, RouteHintHop, RoutingFees, SignedRawBolt11Invoice};
use secp256k1::hashes::{sha256, Hash};
use secp256k1::{PublicKey, Secp256k1, SecretKey};
use serde_json::{json, Value};
use std::time::SystemTime;

pub fn secret(k: u64) -> SecretKey {
    let mut b = [0x11u8; 32];
    b[31] = (k as u8).wrapping_add(1);
    b[30] = (k >> 8) as u8;
    SecretKey::from_slice(&b).unwrap()
}

pub fn pubkey(k: u64) -> PublicKey {
    PublicKey::from_secret_key(&Secp256k1::new(), &secret(k))
}

pub fn preimage(i: u64) -> Vec<u8> {
    let mut p = vec![0u8; 32];
    p[0] = i as u8;
    p[1] = (i >> 8) as u8;
    p[31] = 0xa5;
    p
}

pub fn sha(p: &[u8]) -> Vec<u8> {
    sha256::Hash::hash(p).to_byte_array().to_vec()
}

/// desc: {"pre": n | "hash": hex, "amount": null|n, "signer": k, "payee": null|k, "hints": [[k,..],..],
///        "corrupt": 0|1|2|3, "ts": n}
/// corrupt: 1 = flip one character in the signature part of the string, 2 = upper-case the whole string,
///          3 = truncate the string
pub fn make_invoice(d: &Value) -> String {
    let hash = match d.get("hash").and_then(|h| h.as_str()) {
        Some(h) => sha256::Hash::from_slice(&hex::decode(h).unwrap()).unwrap(),
        None => sha256::Hash::hash(&preimage(d["pre"].as_u64().unwrap())),
    };
    let signer = d["signer"].as_u64().unwrap_or(1);
    let mut b = InvoiceBuilder::new(Currency::Bitcoin)
        .description(format!("tramp {}", d.get("ts").and_then(|t| t.as_u64()).unwrap_or(0)))
        .payment_hash(hash)
        .payment_secret(PaymentSecret([42u8; 32]))
        .timestamp(SystemTime::UNIX_EPOCH)
        .min_final_cltv_expiry_delta(144);
    if let Some(a) = d.get("amount").and_then(|a| a.as_u64()) {
        b = b.amount_milli_satoshis(a);
    }
    if let Some(p) = d.get("payee").and_then(|p| p.as_u64()) {
        b = b.payee_pub_key(pubkey(p));
    }
    if let Some(hints) = d.get("hints").and_then(|h| h.as_array()) {
        for hint in hints {
            let hops: Vec<RouteHintHop> = hint.as_array().unwrap().iter().enumerate().map(|(i, k)| RouteHintHop {
                cltv_expiry_delta: 80,
                fees: RoutingFees { base_msat: 1000, proportional_millionths: 10 },
                htlc_maximum_msat: None,
                htlc_minimum_msat: None,
                short_channel_id: i as u64,
                src_node_id: pubkey(k.as_u64().unwrap()),
            }).collect();
            b = b.private_route(RouteHint(hops));
        }
    }
    let raw = b.build_raw().expect("build_raw");
    let signed: SignedRawBolt11Invoice = raw
        .sign::<_, ()>(|h| {
            let sig = Secp256k1::new().sign_ecdsa_recoverable(h, &secret(signer));
            if d.get("flip_recid").is_some() {
                // the same (r, s) with the other recovery id: still verifies against an explicit payee key, but "recovers" a
                // key nobody owns
                let (rid, bytes) = sig.serialize_compact();
                Ok(secp256k1::ecdsa::RecoverableSignature::from_compact(&bytes, secp256k1::ecdsa::RecoveryId::from_i32(rid.to_i32() ^ 1).unwrap()).unwrap())
            } else { Ok(sig) }
        })
        .unwrap();
    let mut s = signed.to_string();
    match d.get("corrupt").and_then(|c| c.as_u64()).unwrap_or(0) {
        1 => {
            // flip a character inside the signature (last 6 chars are the checksum; keep bech32 valid is not attempted)
            let n = s.len();
            let mut v: Vec<u8> = s.into_bytes();
            let i = n - 20;
            v[i] = if v[i] == b'q' { b'p' } else { b'q' };
            s = String::from_utf8(v).unwrap();
        }
        2 => s = s.to_uppercase(),
        3 => { let n = s.len(); s.truncate(n - 7); }
        _ => {}
    }
    s
}

/// The invoice oracle: exactly the accessor calls extract_trampoline_info / check_htlc make.
pub fn view(blob: &[u8]) -> Value {
    let s = match std::str::from_utf8(blob) { Ok(s) => s, Err(_) => return Value::Null };
    let inv: Bolt11Invoice = match s.parse() { Ok(i) => i, Err(_) => return Value::Null };
    let sig_ok = inv.check_signature().is_ok();
    let last_hops: Vec<String> = inv.route_hints().iter().filter_map(|h| h.0.last().map(|hop| hex::encode(hop.src_node_id.serialize()))).collect();
    // the key the signature is VERIFIED against, by secp256k1 directly (independent of the invoice crate's check_signature):
    // the invoice's explicit payee key when it has one and the signature verifies against it, otherwise the key recovered from
    // the signature. (With an explicit key the recovery id is irrelevant: both candidate keys satisfy the ECDSA equation.)
    let recovered = {
        let signed = inv.clone().into_signed_raw();
        let rec = inv.recover_payee_pub_key();
        match signed.raw_invoice().payee_pub_key() {
            Some(pk) => {
                let msg = secp256k1::Message::from_slice(&signed.signable_hash()[..]).unwrap();
                let sig = signed.signature().0.to_standard();
                if Secp256k1::new().verify_ecdsa(&msg, &sig, &pk.0).is_ok() { pk.0 } else { rec }
            }
            None => rec,
        }
    };
    json!({
        "hash": hex::encode(inv.payment_hash().to_byte_array()),
        "amount": inv.amount_milli_satoshis().map(|a| a.to_string()),
        "sig_ok": sig_ok,
        "payee": if sig_ok { hex::encode(inv.get_payee_pub_key().serialize()) } else { String::new() },
        "recovered": hex::encode(recovered.serialize()),
        "last_hops": last_hops,
    })
}
