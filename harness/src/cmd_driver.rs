// driver sub-command: the REAL cln_plugin Builder / PluginDriver in-process on tokio duplex pipes.
// Input: {"cap": pipe capacity, "requests": [{"id": json, "method": "htlc_accepted"|"block_added"|"unknown", "params": json}, ...],
//         "chunks": [n1, n2, ...] (sizes of the writes the request stream is split into, cycled),
//         "complete_order": [i, ...] (order in which the hook handlers are allowed to finish; indices into the hook requests),
//         "logging": bool (the plugin's real tracing->log-notification writer shares the output; ONE such case per process),
//         "pause_reader": bool (the node stops reading the plugin's stdout while the requests are written, then resumes),
//         "pipeline": bool (getmanifest, init and the requests are written as one chunked stream, without waiting for the init reply)}
//        request params: "log": n (the handler emits an n-byte log line first), "nogate": 1 (the handler finishes at once), "big": n (n extra bytes in the reply)
// Output: {"handshake_ok": bool, "received": [[id, params]...] (hook invocations in arrival order), "notified": [...],
//          "frames": [raw frames read back], "bad_frames": n, "trailing": hex}
use crate::cln_plugin::{Builder, Plugin};
use crate::util::*;
use serde_json::{json, Value};
use std::sync::{Arc, Mutex};
use tokio::io::{AsyncReadExt, AsyncWriteExt};
use tokio::sync::oneshot;

#[derive(Clone)]
struct St {
    received: Arc<Mutex<Vec<Value>>>,
    notified: Arc<Mutex<Vec<Value>>>,
    gates: Arc<Mutex<Vec<Option<oneshot::Receiver<()>>>>>,
}

async fn on_hook(p: Plugin<St>, v: Value) -> Result<Value, anyhow::Error> {
    let (idx, gate) = {
        let st = p.state();
        let mut r = st.received.lock().unwrap();
        r.push(v.clone());
        let idx = r.len() - 1;
        let g = st.gates.lock().unwrap().get_mut(idx).and_then(|g| g.take());
        (idx, g)
    };
    if let Some(n) = v.get("log").and_then(|x| x.as_u64()) { tracing::info!("L{}:{}", v.get("tag").and_then(|t| t.as_u64()).unwrap_or(999), "x".repeat(n as usize)); }
    if v.get("nogate").is_none() { if let Some(g) = gate { let _ = g.await; } }
    if v.get("fail").is_some() { return Err(anyhow::anyhow!("handler error {}", idx)); }
    let big = v.get("big").and_then(|x| x.as_u64()).unwrap_or(0) as usize;
    if big > 0 { return Ok(json!({"result": "continue", "echo": v.get("tag").cloned().unwrap_or(Value::Null), "pad": "y".repeat(big)})); }
    Ok(json!({"result": "continue", "echo": v.get("tag").cloned().unwrap_or(Value::Null)}))
}

async fn on_note(p: Plugin<St>, v: Value) -> Result<(), anyhow::Error> {
    p.state().notified.lock().unwrap().push(v.clone());
    // a notification handler may fail (e.g. a payload it cannot parse): nothing may follow from that for the requests
    if v.get("fail").is_some() { return Err(anyhow::anyhow!("notification handler error")); }
    Ok(())
}

fn split_frames(buf: &[u8]) -> (Vec<Vec<u8>>, Vec<u8>) {
    let mut frames = vec![];
    let mut start = 0;
    let mut i = 0;
    while i + 1 < buf.len() {
        if buf[i] == b'\n' && buf[i + 1] == b'\n' { frames.push(buf[start..i].to_vec()); i += 2; start = i; } else { i += 1; }
    }
    (frames, buf[start..].to_vec())
}

pub fn run() {
    std::panic::set_hook(Box::new(|_| {}));
    for_each_line(|line| {
        let case: Value = serde_json::from_str(line).expect("json");
        let cap = case["cap"].as_u64().unwrap_or(64) as usize;
        let reqs = case["requests"].as_array().unwrap().clone();
        let chunks: Vec<usize> = case["chunks"].as_array().map(|a| a.iter().map(|x| x.as_u64().unwrap() as usize).collect()).unwrap_or(vec![1000]);
        let order: Vec<usize> = case["complete_order"].as_array().map(|a| a.iter().map(|x| x.as_u64().unwrap() as usize).collect()).unwrap_or_default();
        let logging = case["logging"].as_bool().unwrap_or(false);
        let pause = case["pause_reader"].as_bool().unwrap_or(false);
        let pipeline = case["pipeline"].as_bool().unwrap_or(false);
        if logging { std::env::set_var("CLN_PLUGIN_LOG", "info"); }
        let nhooks = reqs.iter().filter(|r| r["method"] == "htlc_accepted" && r.get("id").is_some()).count();
        let rt = tokio::runtime::Builder::new_current_thread().enable_all().build().unwrap();
        let out = rt.block_on(async move {
            let (mut host_w, plugin_in) = tokio::io::duplex(cap);
            let (plugin_out, mut host_r) = tokio::io::duplex(cap);
            let mut senders = vec![];
            let mut gates = vec![];
            for _ in 0..nhooks { let (tx, rx) = oneshot::channel(); senders.push(Some(tx)); gates.push(Some(rx)); }
            let st = St { received: Arc::new(Mutex::new(vec![])), notified: Arc::new(Mutex::new(vec![])), gates: Arc::new(Mutex::new(gates)) };
            let builder = Builder::new(plugin_in, plugin_out).hook("htlc_accepted", on_hook).subscribe("block_added", on_note).with_logging(logging);
            // reader task: collects everything the plugin writes
            let collected: Arc<Mutex<Vec<u8>>> = Arc::new(Mutex::new(vec![]));
            let c2 = collected.clone();
            let paused = Arc::new(std::sync::atomic::AtomicBool::new(false));
            let paused2 = paused.clone();
            let reader = tokio::spawn(async move {
                let mut b = [0u8; 37];
                loop {
                    while paused2.load(std::sync::atomic::Ordering::SeqCst) { tokio::time::sleep(std::time::Duration::from_millis(1)).await; }
                    match host_r.read(&mut b).await { Ok(0) | Err(_) => break, Ok(n) => c2.lock().unwrap().extend_from_slice(&b[..n]) }
                }
            });
            let st2 = st.clone();
            let plugin_task = tokio::spawn(async move { builder.start(st2).await.map(|p| p.is_some()).unwrap_or(false) });
            // handshake
            let manifest = json!({"jsonrpc": "2.0", "id": 1, "method": "getmanifest", "params": {"allow-deprecated-apis": false}}).to_string() + "\n\n";
            let init = json!({"jsonrpc": "2.0", "id": "init#2", "method": "init", "params": {"options": {}, "configuration": {
                "lightning-dir": "/tmp/l", "rpc-file": "lightning-rpc", "startup": true, "network": "regtest",
                "feature_set": {"init": "", "node": "", "channel": "", "invoice": ""}}}}).to_string() + "\n\n";
            // the request stream, written in adversarial chunks
            let mut stream = vec![];
            for r in reqs.iter() {
                let mut m = json!({"jsonrpc": "2.0", "method": r["method"], "params": r["params"]});
                if let Some(id) = r.get("id") { m["id"] = id.clone(); }
                stream.extend_from_slice(m.to_string().as_bytes());
                stream.extend_from_slice(b"\n\n");
            }
            let handshake_ok;
            if pipeline {
                // the node does not wait for the init reply: getmanifest, init and the requests are ONE byte stream, cut into the
                // same adversarial chunks (a read of the handshake may end inside, or after, the first requests)
                let mut all = manifest.as_bytes().to_vec();
                all.extend_from_slice(init.as_bytes());
                all.extend_from_slice(&stream);
                stream = all;
                handshake_ok = true;      // judged by the two handshake replies in the output
                let pt = plugin_task;
                tokio::spawn(async move { let _ = pt.await; });
            } else {
                host_w.write_all(manifest.as_bytes()).await.unwrap();
                host_w.write_all(init.as_bytes()).await.unwrap();
                handshake_ok = tokio::time::timeout(std::time::Duration::from_secs(5), plugin_task).await.map(|r| r.unwrap_or(false)).unwrap_or(false);
            }
            // (when the node is not reading the plugin's output the plugin may stop reading its input: write from a task, resume reading after a while)
            if pause { paused.store(true, std::sync::atomic::Ordering::SeqCst); tokio::time::sleep(std::time::Duration::from_millis(3)).await; }
            let writer = tokio::spawn(async move {
                let mut pos = 0; let mut k = 0;
                while pos < stream.len() {
                    let n = chunks[k % chunks.len()].max(1).min(stream.len() - pos); k += 1;
                    if host_w.write_all(&stream[pos..pos + n]).await.is_err() { break; }
                    let _ = host_w.flush().await;
                    pos += n;
                    for _ in 0..(if pause { 30 } else { 1 }) { tokio::task::yield_now().await; }
                }
                host_w
            });
            if pause { tokio::time::sleep(std::time::Duration::from_millis(30)).await; paused.store(false, std::sync::atomic::Ordering::SeqCst); }
            let host_w = writer.await.unwrap();
            // wait until every hook request has reached its handler (or a timeout: the driver may have stopped)
            for _ in 0..400 {
                if st.received.lock().unwrap().len() >= nhooks { break; }
                tokio::time::sleep(std::time::Duration::from_millis(2)).await;
            }
            // let the handlers finish in the requested order
            for i in order.iter() {
                if let Some(tx) = senders.get_mut(*i).and_then(|s| s.take()) { let _ = tx.send(()); }
                for _ in 0..5 { tokio::task::yield_now().await; }
                tokio::time::sleep(std::time::Duration::from_millis(1)).await;
            }
            for s in senders.iter_mut() { if let Some(tx) = s.take() { let _ = tx.send(()); } }
            tokio::time::sleep(std::time::Duration::from_millis(40)).await;
            drop(host_w);
            // read until the plugin has been quiet for a while (with the log writer alive the output never reaches EOF)
            let mut last = usize::MAX; let mut quiet = 0;
            for _ in 0..400 {
                tokio::time::sleep(std::time::Duration::from_millis(5)).await;
                let l = collected.lock().unwrap().len();
                if l == last { quiet += 1; if quiet >= 6 { break; } } else { quiet = 0; last = l; }
            }
            reader.abort();
            let buf = collected.lock().unwrap().clone();
            let (frames, trailing) = split_frames(&buf);
            let mut bad = 0;
            let fr: Vec<Value> = frames.iter().map(|f| match serde_json::from_slice::<Value>(f) { Ok(v) => v, Err(_) => { bad += 1; json!({"raw": hex::encode(f)}) } }).collect();
            json!({"handshake_ok": handshake_ok, "received": st.received.lock().unwrap().clone(), "notified": st.notified.lock().unwrap().clone(),
                   "frames": fr, "bad_frames": bad, "trailing": hex::encode(trailing)})
        });
        out.to_string()
    });
}
