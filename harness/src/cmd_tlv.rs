// tlv sub-command. Input lines:
//   D <hex>                 decode: from_bytes, try_from, get_tu64, re-encode
//   E <typ>:<hex>,<typ>:<hex>,...   encode entries, then decode the result
// Output: one JSON object per line.
use crate::tlv::{FromBytes, ProtoBuf, SerializedTlvStream, TlvEntry, ToBytes};
use crate::util::*;
use serde_json::{json, Value};

use crate::tlv::entries_of;

fn res_entries(r: Option<Result<SerializedTlvStream, anyhow::Error>>) -> Value {
    match r {
        None => json!("panic"),
        Some(Err(_)) => json!("err"),
        Some(Ok(s)) => {
            let es: Vec<Value> = entries_of(&s).into_iter().map(|(t, v)| json!([t.to_string(), hex::encode(v)])).collect();
            json!({ "ok": es })
        }
    }
}

pub fn run() {
    silence_panics();
    for_each_line(|line| {
        let (kind, rest) = line.split_at(1);
        let rest = rest.trim();
        match kind {
            "D" => {
                let bytes = hex::decode(rest).expect("hex");
                let b1 = bytes.clone();
                let fb = guarded(move || SerializedTlvStream::from_bytes(b1));
                let enc = match &fb { Some(Ok(s)) => Some(hex::encode(SerializedTlvStream::to_bytes(s.clone()))), _ => None };
                // get(16) / remove(16) observations on the decoded stream
                let (get16, rem16) = match &fb {
                    Some(Ok(s)) => {
                        let g = s.get(16).map(|e| hex::encode(e.value));
                        let mut s2 = s.clone(); s2.remove(16);
                        (json!(g), json!(hex::encode(SerializedTlvStream::to_bytes(s2))))
                    }
                    _ => (Value::Null, Value::Null),
                };
                let b2 = bytes.clone();
                let tf = guarded(move || SerializedTlvStream::try_from(b2));
                let b3 = bytes.clone();
                let tu = guarded(move || { let mut b: bytes::Bytes = b3.into(); b.get_tu64() });
                let tu = match tu { None => json!("panic"), Some(Err(_)) => json!("err"), Some(Ok(v)) => json!({"ok": v.to_string()}) };
                json!({"k":"D","in":rest,"fb":res_entries(fb),"enc":enc,"get16":get16,"rem16":rem16,"tf":res_entries(tf),"tu":tu}).to_string()
            }
            "E" => {
                let mut entries = vec![];
                if !rest.is_empty() {
                    for part in rest.split(',') {
                        let (t, v) = part.split_once(':').expect("typ:hex");
                        entries.push(TlvEntry { typ: t.parse().expect("typ"), value: hex::decode(v).expect("hex") });
                    }
                }
                let s: SerializedTlvStream = entries.into();
                let enc = guarded(|| SerializedTlvStream::to_bytes(s.clone()));
                match enc {
                    None => json!({"k":"E","in":rest,"enc":"panic"}).to_string(),
                    Some(bytes) => {
                        let b1 = bytes.clone();
                        let fb = guarded(move || SerializedTlvStream::from_bytes(b1));
                        // decoded entries observed through an independent walk of get/remove
                        let dec = match fb {
                            None => json!("panic"),
                            Some(Err(_)) => json!("err"),
                            Some(Ok(d)) => json!({"eq": d == s}),
                        };
                        json!({"k":"E","in":rest,"enc":hex::encode(bytes),"dec":dec}).to_string()
                    }
                }
            }
            _ => panic!("bad line"),
        }
    });
}
