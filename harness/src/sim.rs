// Simulated Core Lightning node (datastore, sendpay parts, pay commands) with
// harness-controlled replies. `Rpc` implements the repo's ClnRpc trait on it, so the real
// ClnDatastore / PayPaymentProvider / BlockWatcher run unmodified. Mirrors Model/Node.v; Coq
// recomputes every reply from Node.v and a disagreement is reported as INTERNAL.
use crate::real_rpc::{ClnRpc, RpcError};
use async_trait::async_trait;
use cln_rpc::model::requests::*;
use cln_rpc::model::responses::*;
use serde_json::{json, Value};
use std::collections::BTreeMap;
use std::sync::{Arc, Mutex};
use tokio::sync::oneshot;

#[derive(Clone, Debug, PartialEq)]
pub enum PStat { Pend, Done(Vec<u8>), Failed(i32) }

#[derive(Clone, Debug)]
pub struct Part { pub groupid: u64, pub partid: u64, pub status: PStat }

#[derive(Clone, Debug, PartialEq)]
pub enum Mode { MustCreate, MustReplace, CreateOrReplace, Other(String) }

#[derive(Clone, Debug, PartialEq)]
pub enum DsVal { Free, Pending { att: String, secs: u64 }, Succ(Vec<u8>), Garbage(String) }

#[derive(Clone, Debug)]
pub enum Q {
    ListState,
    WriteState { mode: Mode, gen: Option<u64>, val: DsVal, raw: String },
    WriteAtt { mode: Mode, att: String, raw: String, gen: Option<u64> },
    ListPend,
    ListDone,
    ListOther(String),
    WaitPart { groupid: Option<u64>, partid: Option<u64>, timeout: Option<u32> },
    Pay { bolt11: String, amount: Option<u64>, maxfee: Option<u64>, maxdelay: Option<u16>, retry_for: Option<u16>, other: String },
    GetInfo,
    Other(String),
}

#[derive(Clone, Debug)]
pub enum Reply {
    State(Option<(String, u64, u64)>), // raw string, generation, virtual issue time (ms) of a Pending value
    Gen(u64),
    Unit,
    Parts(Vec<(u64, u64)>),
    Pres(Vec<Vec<u8>>),
    Pre(Vec<u8>),
    PartFailed(i32),
    Pay { status: String, preimage: Vec<u8>, warn: bool },
    Err(ErrKind),
    Info(u32),
}

#[derive(Clone, Debug, PartialEq)]
pub enum ErrKind { Transport, Code(i32), NoCode }

#[derive(Debug, PartialEq, Clone)]
pub enum CStat { Unprocessed, Running, Replied, Delivered, Cancelled, Dead }

pub struct Call {
    pub hash: Option<Vec<u8>>,
    pub local_id: usize,
    pub q: Q,
    pub status: CStat,
    pub reply: Option<Reply>,
    pub tx: Option<oneshot::Sender<Reply>>,
    pub issue_ms: u64,
    pub epoch: u64,
    pub reported: bool,
    pub cancel_reported: bool,
}

#[derive(Default)]
pub struct HashNode {
    pub state: Option<(String, u64, u64)>, // raw, generation, virtual issue ms
    pub atts: BTreeMap<String, String>,
    pub parts: Vec<Part>,
    pub pays_started: u64,
    pub next_local: usize,
}

#[derive(Default)]
pub struct Node {
    pub hashes: BTreeMap<Vec<u8>, HashNode>,
    pub calls: Vec<Call>,
    pub vnow_ms: u64,
    pub node_height: u32,
    pub epoch: u64,
    pub invoices: Vec<(String, Vec<u8>)>, // bolt11 -> payment hash
    pub global_local: usize,
}

pub type Shared = Arc<Mutex<Node>>;

#[derive(Clone)]
pub struct Rpc { pub node: Shared }

impl Rpc {
    pub fn on(node: &Shared) -> Self { Rpc { node: node.clone() } }

    async fn call(&self, hash: Option<Vec<u8>>, q: Q) -> Reply {
        let rx = {
            let mut n = self.node.lock().unwrap();
            let (tx, rx) = oneshot::channel();
            let local_id = match &hash {
                Some(h) => { let hn = n.hashes.entry(h.clone()).or_default(); let l = hn.next_local; hn.next_local += 1; l }
                None => { let l = n.global_local; n.global_local += 1; l }
            };
            let issue_ms = n.vnow_ms;
            let epoch = n.epoch;
            n.calls.push(Call { hash, local_id, q, status: CStat::Unprocessed, reply: None, tx: Some(tx), issue_ms, epoch, reported: false, cancel_reported: false });
            rx
        };
        match rx.await {
            Ok(r) => r,
            // the harness dropped the sender (crash): never resolves in practice because the
            // runtime is dropped first; map to a transport error for safety
            Err(_) => Reply::Err(ErrKind::Transport),
        }
    }
}

fn to_err(k: ErrKind) -> RpcError {
    match k {
        ErrKind::Transport => RpcError::General(anyhow::anyhow!("simulated transport error")),
        ErrKind::Code(c) => RpcError::Rpc(cln_rpc::RpcError { code: Some(c), message: format!("simulated rpc error {}", c), data: None }),
        ErrKind::NoCode => RpcError::Rpc(cln_rpc::RpcError { code: None, message: "simulated rpc error without code".into(), data: None }),
    }
}

fn mode_of(m: &Option<DatastoreMode>) -> Mode {
    match m {
        Some(DatastoreMode::MUST_CREATE) | None => Mode::MustCreate,
        Some(DatastoreMode::MUST_REPLACE) => Mode::MustReplace,
        Some(DatastoreMode::CREATE_OR_REPLACE) => Mode::CreateOrReplace,
        Some(o) => Mode::Other(format!("{:?}", o)),
    }
}

pub fn parse_dsval(raw: &str) -> DsVal {
    let v: Value = match serde_json::from_str(raw) { Ok(v) => v, Err(_) => return DsVal::Garbage(raw.into()) };
    if v == json!("Free") { return DsVal::Free; }
    if let Some(p) = v.get("Pending") {
        if let (Some(a), Some(t)) = (p.get("attempt_id").and_then(|a| a.as_str()), p.get("attempt_time_seconds").and_then(|t| t.as_u64())) {
            return DsVal::Pending { att: a.into(), secs: t };
        }
    }
    if let Some(s) = v.get("Succeeded") {
        if let Some(arr) = s.get("preimage").and_then(|p| p.as_array()) {
            let b: Option<Vec<u8>> = arr.iter().map(|x| x.as_u64().map(|y| y as u8)).collect();
            if let Some(b) = b { return DsVal::Succ(b); }
        }
    }
    DsVal::Garbage(raw.into())
}

// key = ["trampoline","payments",<hash hex>,"state"] | [..., "attempts", <id>]
fn parse_key(key: &[String]) -> Option<(Vec<u8>, Option<String>)> {
    if key.len() >= 4 && key[0] == "trampoline" && key[1] == "payments" {
        let h = hex::decode(&key[2]).ok()?;
        if key.len() == 4 && key[3] == "state" { return Some((h, None)); }
        if key.len() == 5 && key[3] == "attempts" { return Some((h, Some(key[4].clone()))); }
    }
    None
}

#[async_trait]
impl ClnRpc for Rpc {
    async fn datastore(&self, r: &DatastoreRequest) -> Result<DatastoreResponse, RpcError> {
        let raw = r.string.clone().unwrap_or_else(|| format!("hex:{:?}", r.hex));
        let (hash, q) = match parse_key(&r.key) {
            Some((h, None)) => (Some(h), Q::WriteState { mode: mode_of(&r.mode), gen: r.generation, val: parse_dsval(&raw), raw }),
            Some((h, Some(att))) => (Some(h), Q::WriteAtt { mode: mode_of(&r.mode), att, raw, gen: r.generation }),
            None => (None, Q::Other(format!("datastore {:?}", r.key))),
        };
        match self.call(hash, q).await {
            Reply::Gen(g) => Ok(serde_json::from_value(json!({"key": r.key, "generation": g, "string": r.string})).unwrap()),
            Reply::Unit => Ok(serde_json::from_value(json!({"key": r.key, "generation": 0, "string": r.string})).unwrap()),
            Reply::Err(k) => Err(to_err(k)),
            o => Err(to_err(ErrKind::Transport)),
        }
    }

    async fn get_info(&self) -> Result<GetinfoResponse, RpcError> {
        match self.call(None, Q::GetInfo).await {
            Reply::Info(h) => Ok(serde_json::from_value(json!({
                "lightning-dir": "/tmp/l", "blockheight": h, "color": "000000", "fees_collected_msat": 0,
                "id": hex::encode(crate::world::pubkey(0).serialize()), "network": "regtest", "num_active_channels": 0,
                "num_inactive_channels": 0, "num_peers": 0, "num_pending_channels": 0, "version": "sim"})).unwrap()),
            Reply::Err(k) => Err(to_err(k)),
            _ => Err(to_err(ErrKind::Transport)),
        }
    }

    async fn listdatastore(&self, r: &ListdatastoreRequest) -> Result<ListdatastoreResponse, RpcError> {
        let key = r.key.clone().unwrap_or_default();
        let (hash, q) = match parse_key(&key) {
            Some((h, None)) => (Some(h), Q::ListState),
            _ => (None, Q::Other(format!("listdatastore {:?}", key))),
        };
        match self.call(hash, q).await {
            Reply::State(None) => Ok(serde_json::from_value(json!({"datastore": []})).unwrap()),
            Reply::State(Some((raw, gen, _))) => Ok(serde_json::from_value(json!({"datastore": [{"key": key, "generation": gen, "string": raw}]})).unwrap()),
            Reply::Err(k) => Err(to_err(k)),
            _ => Err(to_err(ErrKind::Transport)),
        }
    }

    async fn listsendpays(&self, r: &ListsendpaysRequest) -> Result<ListsendpaysResponse, RpcError> {
        let hash = r.payment_hash.map(|h| AsRef::<[u8]>::as_ref(&h).to_vec());
        let plain = r.bolt11.is_none() && r.index.is_none() && r.limit.is_none() && r.start.is_none();
        let q = match (&r.status, plain) {
            (Some(ListsendpaysStatus::PENDING), true) => Q::ListPend,
            (Some(ListsendpaysStatus::COMPLETE), true) => Q::ListDone,
            (s, _) => Q::ListOther(format!("{:?} {:?}", s, r.bolt11)),
        };
        let hh = hash.clone().map(hex::encode).unwrap_or_default();
        match self.call(hash, q).await {
            Reply::Parts(l) => {
                let ps: Vec<Value> = l.iter().map(|(g, p)| {
                    let mut v = json!({"status": "pending", "amount_sent_msat": 1, "created_at": 1, "groupid": g, "id": 1, "payment_hash": hh});
                    if *p != 0 { v["partid"] = json!(p); }      // as lightningd does for an unsplit payment
                    v }).collect();
                Ok(serde_json::from_value(json!({"payments": ps})).unwrap())
            }
            Reply::Pres(l) => {
                let ps: Vec<Value> = l.iter().map(|p| json!({"status": "complete", "amount_sent_msat": 1, "created_at": 1, "groupid": 1, "partid": 0, "id": 1, "payment_hash": hh, "payment_preimage": hex::encode(p)})).collect();
                Ok(serde_json::from_value(json!({"payments": ps})).unwrap())
            }
            Reply::Err(k) => Err(to_err(k)),
            _ => Err(to_err(ErrKind::Transport)),
        }
    }

    async fn pay(&self, r: &PayRequest) -> Result<PayResponse, RpcError> {
        let hash = { let n = self.node.lock().unwrap(); n.invoices.iter().find(|(b, _)| *b == r.bolt11).map(|(_, h)| h.clone()) };
        let other = format!("{:?}|{:?}|{:?}|{:?}|{:?}|{:?}|{:?}", r.partial_msat, r.maxfeepercent, r.exemptfee, r.localinvreqid, r.exclude, r.description, r.riskfactor.map(|x| x as i64));
        let q = Q::Pay { bolt11: r.bolt11.clone(), amount: r.amount_msat.map(|a| a.msat()), maxfee: r.maxfee.map(|a| a.msat()), maxdelay: r.maxdelay, retry_for: r.retry_for, other };
        let hh = hash.clone().map(hex::encode).unwrap_or_else(|| "00".repeat(32));
        match self.call(hash, q).await {
            Reply::Pay { status, preimage, warn } => {
                let mut v = json!({"status": status, "amount_msat": 1, "amount_sent_msat": 1, "created_at": 1.0, "parts": 1, "payment_hash": hh, "payment_preimage": hex::encode(preimage)});
                if warn { v["warning_partial_completion"] = json!("Some parts of the payment are not yet completed, but we have the confirmation from the recipient."); }
                Ok(serde_json::from_value(v).unwrap())
            }
            Reply::Err(k) => Err(to_err(k)),
            _ => Err(to_err(ErrKind::Transport)),
        }
    }

    async fn waitsendpay(&self, r: WaitsendpayRequest) -> Result<WaitsendpayResponse, RpcError> {
        let hash = Some(AsRef::<[u8]>::as_ref(&r.payment_hash).to_vec());
        let hh = hex::encode(AsRef::<[u8]>::as_ref(&r.payment_hash));
        // lightningd: an absent partid means part 0 (and it leaves partid out of listsendpays when it is 0)
        let q = Q::WaitPart { groupid: r.groupid, partid: Some(r.partid.unwrap_or(0)), timeout: r.timeout };
        match self.call(hash, q).await {
            Reply::Pre(p) => Ok(serde_json::from_value(json!({"status": "complete", "amount_sent_msat": 1, "created_at": 1, "id": 1, "payment_hash": hh, "payment_preimage": hex::encode(p)})).unwrap()),
            // lightningd's waitsendpay failure carries the fields of the failed part in the error's data: its status is "failed" even
            // while other parts of the payment are still pending
            Reply::PartFailed(c) => Err(RpcError::Rpc(cln_rpc::RpcError { code: Some(c), message: format!("simulated waitsendpay failure {}", c),
                data: Some(json!({"id": 1, "payment_hash": hh, "groupid": r.groupid, "partid": r.partid.unwrap_or(0), "status": "failed", "created_at": 1,
                                  "amount_sent_msat": 1, "erring_index": 1, "failcode": 4103, "failcodename": "WIRE_TEMPORARY_CHANNEL_FAILURE"})) })),
            Reply::Err(k) => Err(to_err(k)),
            _ => Err(to_err(ErrKind::Transport)),
        }
    }
}

// ---------------------------------------------------------------------------------------------
// node semantics (N5 / N6), mirrored by Model/Node.v
// ---------------------------------------------------------------------------------------------
#[derive(Clone, Debug, PartialEq)]
pub enum Fault { None, Rejected(ErrKind), AppliedButError(ErrKind) }

impl Node {
    /// Executes call `ci`. Returns Some(reply) if the node answers now.
    pub fn exec(&mut self, ci: usize, fault: &Fault) -> Option<Reply> {
        if let Fault::Rejected(k) = fault { return Some(Reply::Err(k.clone())); }
        let q = self.calls[ci].q.clone();
        let issue_ms = self.calls[ci].issue_ms;
        let hash = self.calls[ci].hash.clone();
        let wrap = |r: Reply| -> Option<Reply> { match fault { Fault::AppliedButError(k) => Some(Reply::Err(k.clone())), _ => Some(r) } };
        if let Q::GetInfo = q { return wrap(Reply::Info(self.node_height)); }
        let hn = match &hash { Some(h) => self.hashes.entry(h.clone()).or_default(), None => return Some(Reply::Err(ErrKind::Code(-32601))) };
        match q {
            Q::ListState => wrap(Reply::State(hn.state.clone())),
            Q::WriteState { mode, gen, raw, .. } => {
                // the two append modes of lightningd's datastore (the unchanged plugin never uses them): the new string is
                // appended to the stored one; must-append needs an existing key
                let append = matches!(&mode, Mode::Other(m) if m == "MUST_APPEND" || m == "CREATE_OR_APPEND");
                let raw = match (&hn.state, append) { (Some((old, _, _)), true) => format!("{}{}", old, raw), _ => raw };
                match (&hn.state, &mode) {
                    (None, Mode::MustReplace) => Some(Reply::Err(ErrKind::Code(1200))),
                    (None, Mode::Other(m)) if m == "MUST_APPEND" => Some(Reply::Err(ErrKind::Code(1200))),
                    (Some(_), Mode::MustCreate) => Some(Reply::Err(ErrKind::Code(1202))),
                    (_, Mode::Other(_)) if !append => Some(Reply::Err(ErrKind::Code(-32602))),
                    (None, _) => { hn.state = Some((raw, 0, issue_ms)); wrap(Reply::Gen(0)) }
                    (Some((_, cur, _)), _) => {
                        let cur = *cur;
                        if let Some(g) = gen { if g != cur { return Some(Reply::Err(ErrKind::Code(1201))); } }
                        hn.state = Some((raw, cur + 1, issue_ms));
                        wrap(Reply::Gen(cur + 1))
                    }
                }
            }
            Q::WriteAtt { mode, att, raw, .. } => {
                let append = matches!(&mode, Mode::Other(m) if m == "MUST_APPEND" || m == "CREATE_OR_APPEND");
                let raw = match (hn.atts.get(&att), append) { (Some(old), true) => format!("{}{}", old, raw), _ => raw };
                match (hn.atts.contains_key(&att), &mode) {
                    (false, Mode::MustReplace) => Some(Reply::Err(ErrKind::Code(1200))),
                    (false, Mode::Other(m)) if m == "MUST_APPEND" => Some(Reply::Err(ErrKind::Code(1200))),
                    (true, Mode::MustCreate) => Some(Reply::Err(ErrKind::Code(1202))),
                    (_, Mode::Other(_)) if !append => Some(Reply::Err(ErrKind::Code(-32602))),
                    _ => { hn.atts.insert(att, raw); wrap(Reply::Unit) }
                }
            }
            Q::ListPend => wrap(Reply::Parts(hn.parts.iter().filter(|p| p.status == PStat::Pend).map(|p| (p.groupid, p.partid)).collect())),
            Q::ListDone => wrap(Reply::Pres(hn.parts.iter().filter_map(|p| if let PStat::Done(pre) = &p.status { Some(pre.clone()) } else { None }).collect())),
            Q::WaitPart { groupid, partid, .. } => {
                match hn.parts.iter().find(|p| Some(p.groupid) == groupid && Some(p.partid) == partid) {
                    Some(Part { status: PStat::Done(pre), .. }) => wrap(Reply::Pre(pre.clone())),
                    Some(Part { status: PStat::Failed(c), .. }) => wrap(Reply::PartFailed(*c)),
                    None => wrap(Reply::PartFailed(208)),
                    Some(Part { status: PStat::Pend, .. }) => match fault { Fault::AppliedButError(k) => Some(Reply::Err(k.clone())), _ => None },
                }
            }
            Q::Pay { .. } => { hn.pays_started += 1; None }
            Q::ListOther(_) | Q::Other(_) | Q::GetInfo => Some(Reply::Err(ErrKind::Code(-32601))),
        }
    }
}
