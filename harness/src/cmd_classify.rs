// classify sub-command: runs the real, private HtlcManager::check_htlc (+ the forward_msat
// test of handle_htlc) on a raw htlc_accepted request.
// Input line: {"cfg": {"local": k, "allow_self": bool, "policy": [base, ppm, delta]}, "req": <htlc_accepted params>}
//         or: {"mkinv": <invoice descriptor>}     -> {"bolt11": ..., "view": ...}
//         or: {"view": hex blob}                  -> {"view": ...}
use crate::util::*;
use crate::world;
use serde_json::{json, Value};

pub fn resp_json(r: &crate::messages::HtlcAcceptedResponse) -> Value {
    // the serialised form is what lightningd sees
    serde_json::to_value(r).unwrap()
}

pub fn run() {
    silence_panics();
    for_each_line(|line| {
        let v: Value = serde_json::from_str(line).expect("json");
        if let Some(d) = v.get("mkinv") {
            let s = world::make_invoice(d);
            return json!({"bolt11": s, "view": world::view(s.as_bytes())}).to_string();
        }
        if let Some(b) = v.get("view") {
            let blob = hex::decode(b.as_str().unwrap()).unwrap();
            return json!({"view": world::view(&blob)}).to_string();
        }
        let cfg = &v["cfg"];
        let out = guarded(|| crate::htlc_manager::classify_probe(cfg, &v["req"]));
        match out {
            None => json!({"panic": true}).to_string(),
            Some(o) => o.to_string(),
        }
    });
}
