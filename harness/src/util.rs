use std::io::{BufRead, Write};
use std::panic::{catch_unwind, AssertUnwindSafe};

pub fn silence_panics() {
    std::panic::set_hook(Box::new(|_| {}));
}

/// Runs f, mapping a panic to None.
pub fn guarded<T>(f: impl FnOnce() -> T) -> Option<T> {
    catch_unwind(AssertUnwindSafe(f)).ok()
}

pub fn for_each_line(mut f: impl FnMut(&str) -> String) {
    let stdin = std::io::stdin();
    let stdout = std::io::stdout();
    let mut out = std::io::BufWriter::new(stdout.lock());
    for line in stdin.lock().lines() {
        let line = line.expect("stdin");
        let res = f(line.trim_end());
        writeln!(out, "{}", res).unwrap();
    }
    out.flush().unwrap();
}
