// blocks sub-command: the REAL BlockWatcher on the simulated Rpc with a paused clock.
// Input: {"events": [{"e":"reply","h":n|null} | {"e":"notify","h":n} | {"e":"tick","ms":n}, ...]}
//        {"e":"burst","hs":[..]}: the notifications arrive CONCURRENTLY while the height mutex is contended (the harness holds it,
//        queues one new_block task per height in the given order, then releases it): a compare and a store that are not one
//        critical section interleave here exactly as they can between two worker threads of the shipped runtime.
// Output: {"steps": [{"height": n, "calls": k, "stopped": bool}, ...]}  (one per event)
use crate::block_watcher::{BlockProvider, BlockWatcher};
use crate::messages::BlockAdded;
use crate::sim::*;
use crate::util::*;
use serde_json::{json, Value};
use std::sync::{Arc, Mutex};
use std::time::Duration;

fn outstanding(node: &Shared) -> Option<usize> {
    let n = node.lock().unwrap();
    n.calls.iter().position(|c| matches!(c.q, Q::GetInfo) && c.status == CStat::Unprocessed)
}

fn reply(node: &Shared, ci: usize, h: Option<u32>) {
    let mut n = node.lock().unwrap();
    n.calls[ci].status = CStat::Delivered;
    if let Some(tx) = n.calls[ci].tx.take() {
        let _ = tx.send(match h { Some(h) => Reply::Info(h), None => Reply::Err(ErrKind::Transport) });
    }
}

pub fn run() {
    std::panic::set_hook(Box::new(|_| {}));
    for_each_line(|line| {
        let case: Value = serde_json::from_str(line).expect("json");
        let events = case["events"].as_array().unwrap().clone();
        let node: Shared = Arc::new(Mutex::new(Node::default()));
        let rt = tokio::runtime::Builder::new_current_thread().enable_time().start_paused(true).build().unwrap();
        let steps = rt.block_on(async {
            let mut steps: Vec<Value> = vec![];
            let rpc = Arc::new(Rpc::on(&node));
            let mut bw = BlockWatcher::new(rpc);
            let (_tx, rx) = tokio::sync::mpsc::channel(1);
            let mut idx = 0usize;
            let mut seen_calls = 0usize;
            // startup: start() awaits the first poll; feed it the events until a reply arrives
            let started = {
                let node2 = node.clone();
                let evs = events.clone();
                let start = bw.start(rx);
                tokio::pin!(start);
                let mut result = None;
                loop {
                    // let start() make progress
                    for _ in 0..20 {
                        tokio::select! { biased; r = &mut start => { result = Some(r.is_ok()); break; } _ = tokio::task::yield_now() => {} }
                    }
                    if result.is_some() { break; }
                    if idx >= evs.len() { break; }
                    let ev = &evs[idx]; idx += 1;
                    let calls_before = seen_calls;
                    match ev["e"].as_str().unwrap() {
                        "reply" => { if let Some(ci) = outstanding(&node2) { reply(&node2, ci, ev["h"].as_u64().map(|h| h as u32)); } }
                        "tick" => { tokio::time::advance(Duration::from_millis(ev["ms"].as_u64().unwrap())).await; }
                        _ => {} // notifications are not served before the plugin has started
                    }
                    for _ in 0..20 {
                        tokio::select! { biased; r = &mut start => { result = Some(r.is_ok()); break; } _ = tokio::task::yield_now() => {} }
                    }
                    let total = node2.lock().unwrap().calls.len();
                    // the startup call itself is not counted as output of a step
                    let newc = if calls_before == 0 { total.saturating_sub(1) } else { total - calls_before };
                    seen_calls = total;
                    steps.push(json!({"height": null, "calls": newc, "stopped": result == Some(false)}));
                    if result.is_some() { break; }
                }
                result
            };
            if started != Some(true) {
                // never started or failed: remaining events change nothing
                while idx < events.len() { idx += 1; steps.push(json!({"height": null, "calls": 0, "stopped": started == Some(false)})); }
                return steps;
            }
            // the spawned poll loop starts its first sleep now (as it does in the real program)
            for _ in 0..30 { tokio::task::yield_now().await; }
            // fix up the heights of the startup steps (height is readable now)
            let h0 = bw.current_height().await;
            if let Some(last) = steps.last_mut() { last["height"] = json!(h0); }
            seen_calls = node.lock().unwrap().calls.len();
            let bw = Arc::new(bw);
            while idx < events.len() {
                let ev = &events[idx]; idx += 1;
                match ev["e"].as_str().unwrap() {
                    "reply" => { if let Some(ci) = outstanding(&node) { reply(&node, ci, ev["h"].as_u64().map(|h| h as u32)); } }
                    "notify" => { bw.new_block(&BlockAdded { height: ev["h"].as_u64().unwrap() as u32 }).await; }
                    "tick" => { tokio::time::advance(Duration::from_millis(ev["ms"].as_u64().unwrap())).await; }
                    "burst" => {
                        let lock = crate::block_watcher::probe_height_lock(&bw);
                        let guard = lock.lock().await;
                        let mut hs = vec![];
                        for h in ev["hs"].as_array().unwrap() {
                            let b = bw.clone();
                            let hh = h.as_u64().unwrap() as u32;
                            hs.push(tokio::spawn(async move { b.new_block(&BlockAdded { height: hh }).await; }));
                            for _ in 0..5 { tokio::task::yield_now().await; }   // the task is now queued on the mutex
                        }
                        drop(guard);
                        for t in hs { let _ = t.await; }
                    }
                    _ => {}
                }
                for _ in 0..30 { tokio::task::yield_now().await; }
                let total = node.lock().unwrap().calls.len();
                steps.push(json!({"height": bw.current_height().await, "calls": total - seen_calls, "stopped": false}));
                seen_calls = total;
            }
            steps
        });
        drop(rt);
        json!({"steps": steps}).to_string()
    });
}
