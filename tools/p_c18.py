"""C18 — TLV codec total and lossless."""
import itertools, json
from vlib import *

ALPHA = [0x00, 0x01, 0x02, 0x10, 0xfc, 0xfd, 0xfe, 0xff]
BOUNDS = [0, 1, 16, 252, 253, 254, 255, 256, 65535, 65536, 33001, 33003, 2**32 - 1, 2**32, 2**63, 2**64 - 1]

def bigsize(v, minimal=True, width=None):
    if width is None:
        width = 1 if v < 253 else 3 if v <= 0xffff else 5 if v <= 0xffffffff else 9
    if width == 1: return bytes([v])
    if width == 3: return b"\xfd" + v.to_bytes(2, "big")
    if width == 5: return b"\xfe" + v.to_bytes(4, "big")
    return b"\xff" + v.to_bytes(8, "big")

def rand_stream(r, nrec=None, minimal=True):
    out = b""
    for _ in range(nrec if nrec is not None else 1 + r.below(4)):
        t = r.choice(BOUNDS) if r.chance(1, 2) else r.below(300)
        ln = r.choice([0, 1, 2, 8, 9, 32, 252, 253, 300]) if r.chance(1, 3) else r.below(12)
        tw = lw = None
        if not minimal and r.chance(1, 2):
            tw = r.choice([w for w in (1, 3, 5, 9) if (t < 253 or w > 1) and t < 256 ** (max(w, 2) - 1)] or [9])
        out += bigsize(t, width=tw) + bigsize(ln, width=lw) + r.bytes(ln)
    return out

def gen(tier, seed):
    r = SplitMix64(seed)
    d, e = [], []
    for l in open(os.path.join(VERIF, "corpus", "C18", "pinned.txt")):
        l = l.strip()
        if l and not l.startswith("#"):
            (d if l[0] == "D" else e).append(l[1:].strip())
    maxlen = 5 if tier == "thorough" else 4
    for n in range(0, maxlen + 1):
        for t in itertools.product(ALPHA, repeat=n):
            d.append(bytes(t).hex())
    # every BigSize width at its boundary values, as type and as length, minimal and not
    for v in BOUNDS:
        for w in (1, 3, 5, 9):
            if w == 1 and v >= 253: continue
            if v >= 256 ** (max(w, 2) - 1): continue
            d.append((bigsize(v, width=w) + b"\x00").hex())
            d.append((b"\x01" + bigsize(v, width=w) + bytes(min(v, 40))).hex())
    nrand = 3000 if tier == "thorough" else 400
    for _ in range(nrand):
        s = rand_stream(r, minimal=r.chance(3, 4))
        d.append(s.hex())
        if r.chance(1, 3) and s:          # truncation at an offset
            d.append(s[: r.below(len(s))].hex())
        if r.chance(1, 6):                # trailing garbage
            d.append((s + r.bytes(1 + r.below(3))).hex())
        if r.chance(1, 6):                # length-prefixed form for try_from
            d.append((bigsize(len(s)) + s).hex())
    # truncation of a few valid streams at EVERY offset
    for _ in range(20 if tier == "thorough" else 5):
        s = rand_stream(r, nrec=3)
        for k in range(len(s) + 1):
            d.append(s[:k].hex())
    # long values: length needs 3-byte and 5-byte BigSize (up to 70000 bytes)
    for ln in ([253, 300, 65535, 65536, 70000] if tier == "thorough" else [253, 300, 65536]):
        d.append((b"\x05" + bigsize(ln) + bytes([7]) * ln).hex())
        d.append((b"\x05" + bigsize(ln) + bytes([7]) * (ln - 1)).hex())
    # tu64 lengths 0..12
    for n in range(0, 13):
        d.append((b"\xff" * n).hex()); d.append(r.bytes(n).hex())
    # encode cases
    for _ in range(1500 if tier == "thorough" else 250):
        es = []
        for _ in range(r.below(5)):
            t = r.choice(BOUNDS) if r.chance(1, 2) else r.below(70000)
            ln = r.choice([0, 1, 252, 253, 254, 300]) if r.chance(1, 4) else r.below(10)
            es.append("%d:%s" % (t, r.bytes(ln).hex()))
        e.append(",".join(es))
    d = list(dict.fromkeys(d)); e = list(dict.fromkeys(e))
    return d, e

def c_entries(x):
    if x == "err": return "Err"
    if x == "panic": return "Panic"
    return "(Ok %s)" % coq_list(["(%s, %s)" % (t, coq_bytes(v)) for t, v in x["ok"]])

def term_d(o):
    tu = o["tu"]
    tu = "Err" if tu == "err" else "Panic" if tu == "panic" else "(Ok %s)" % tu["ok"]
    g = o["get16"]
    dec_ok = isinstance(o["fb"], dict)
    return "(%s, {| o_fb := %s; o_enc := %s; o_get16 := %s; o_rem16 := %s; o_tf := %s; o_tu := %s |})" % (
        coq_bytes(o["in"]), c_entries(o["fb"]), coq_opt(o["enc"], coq_bytes),
        ("(Some %s)" % coq_opt(g, coq_bytes)) if dec_ok else "None",
        coq_opt(o["rem16"], coq_bytes), c_entries(o["tf"]), tu)

def term_e(o):
    es = []
    if o["in"]:
        for part in o["in"].split(","):
            t, v = part.split(":")
            es.append("(%s, %s)" % (t, coq_bytes(v)))
    enc = None if o["enc"] == "panic" else o["enc"]
    dec = o.get("dec")
    deq = "None" if not isinstance(dec, dict) else "(Some %s)" % coq_bool(dec["eq"])
    return "(%s, %s, %s)" % (coq_list(es), coq_opt(enc, coq_bytes), deq)

HEADER = "From Tramp Require Import Model.Base Model.Tlv Check.Common Check.TlvCheck.\nOpen Scope N_scope."

def evaluate(o, binary, d, e):
    od = harness_run(binary, "tlv", ["D " + x for x in d], shards=NCPU)
    oe = harness_run(binary, "tlv", ["E " + x for x in e], shards=NCPU)
    cd = eval_cases("C18d", HEADER, [term_d(x) for x in od], "fun c => verdict_d (fst c) (snd c)", "list N * dobs")
    ce = eval_cases("C18e", HEADER, [term_e(x) for x in oe], "fun c => verdict_e (fst (fst c)) (snd (fst c)) (snd c)",
                    "oentries * option (list N) * option bool")
    o.note_codes(cd, od, lambda c: "tlv decode of %s: implementation observed %s" % (c["in"][:80], json.dumps({k: c[k] for k in ("fb", "tf", "tu", "enc")})[:300]))
    o.note_codes(ce, oe, lambda c: "tlv encode of %s: implementation observed %s" % (c["in"][:80], json.dumps({k: c.get(k) for k in ("enc", "dec")})[:300]))
    for code, c in zip(cd, od):
        if (code >> 4) in (1, 2, 3): o.nontrivial.add("D" + c["in"])
    for code, c in zip(ce, oe):
        if (code >> 4) >= 1: o.nontrivial.add("E" + c["in"])
    return od, oe

def run(tier, seed):
    o = Outcome("C18", tier, seed)
    o.rule = ("decode cases: every byte string over {00,01,02,10,fc,fd,fe,ff} up to length %d (exhaustive) + BigSize boundary values in every width "
              "(minimal and non-minimal) + random structured streams, truncations at every offset, trailing bytes, long values; encode cases: random entry lists. "
              "A case is non-trivial when it is a non-empty valid stream, a non-minimal/trailing-byte stream that still decodes, or a decode error (shape 1-3); distinct = distinct input") % (5 if tier == "thorough" else 4)
    o.assumptions = ["bytes::Buf, hex and serde are trusted libraries (exercised, not modelled)",
                     "usize is 64 bits (len as usize is the identity)"]
    o.proof = proof_stage("C18", ["theories/Props/C18.vo", "theories/Check/TlvCheck.vo"])
    ok, log, binary = harness_build("dev")
    if not ok:
        o.corr_failures.append(("harness does not compile against /repo's working tree: " + log[-1500:], {"build_log": log[-3000:]}))
        return finish(o)
    d, e = gen(tier, seed)
    try:
        od, oe = evaluate(o, binary, d, e)
    except RuntimeError as ex:
        o.corr_failures.append(("could not evaluate cases: %s" % str(ex)[-1500:], {}))
        return finish(o)
    o.samples = [od[len(od) // 3], od[-1], oe[-1]]
    def search():
        if tier == "thorough": return None
        o2 = Outcome("C18", "thorough", seed)
        d2, e2 = gen("thorough", seed + 1)
        evaluate(o2, binary, d2, e2)
        return o2.monitor_failures[0] if o2.monitor_failures else None
    return finish(o, search)
