"""C16 - checked by the provider engine (p_provider.py)."""
from p_provider import run_provider

def run(tier, seed):
    return run_provider("C16", tier, seed)
