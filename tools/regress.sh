#!/bin/bash
# tools/regress.sh : re-runs every kept seeded change (seeded/<id>/patch.diff) against the quick check of the property it was
# written for (plus the property that owns the rule where that differs), and every fix revert against the checks that caught it.
# Applies each patch to /repo, runs, and restores /repo (tools/mutants.py). Expect rc=1 + VIOLATION on every line except the
# ones marked "expected OK" below. Nothing here is registered in MANIFEST.json; it is the maintenance loop of DESIGN 0.
cd "$(dirname "$0")/.."
for d in seeded/*/; do
  n=$(basename $d); [ "$n" = "_reverts" ] && continue
  p=$(python3 -c "import json;print(json.load(open('$d/meta.json'))['property'])" 2>/dev/null)
  [ -z "$p" ] && continue
  extra=""
  case $n in g5-*) extra="C07"; echo "# g5: C10 expected OK (C10 is per HTLC), C07 catches";; esac
  python3 tools/mutants.py $d/patch.diff $p $extra 2>&1 | cut -c1-220
done
for x in "D1 C01" "D2 C18" "D3 C12" "D3b C06" "D4 C09" "D5 C15 C05" "D8 C06"; do set -- $x; d=$1; shift; python3 tools/mutants.py seeded/_reverts/revert-$d.diff "$@" 2>&1 | cut -c1-220; done
