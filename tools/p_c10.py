"""C10 - checked by the classification engine (p_classify.py)."""
from p_classify import run_classify

def run(tier, seed):
    return run_classify("C10", tier, seed)
