#!/usr/bin/env python3
"""Runs registered checks against seeded changes: tools/mutants.py <patch.diff> <prop> [<prop>...]
Applies the patch to /repo, runs ./check <prop> quick, undoes the patch. Prints one line per run."""
import subprocess, sys, os, time
VERIF = os.path.dirname(os.path.dirname(os.path.abspath(__file__)))
def main():
    patch, props = os.path.abspath(sys.argv[1]), sys.argv[2:]
    assert subprocess.run(["git", "-C", "/repo", "status", "--porcelain"], capture_output=True, text=True).stdout.strip() == "", "/repo not clean"
    subprocess.run(["git", "-C", "/repo", "apply", patch], check=True)
    try:
        for p in props:
            t0 = time.time()
            r = subprocess.run([os.path.join(VERIF, "check"), p, os.environ.get("VERIF_TIER", "quick")], capture_output=True, text=True, cwd=VERIF)
            lines = [l for l in r.stdout.splitlines() if l.startswith(("VIOLATION", "OK", "INTERNAL", "KNOWN"))]
            detail = [l for l in r.stdout.splitlines() if l.startswith("  ")][:1]
            print("%-28s %-4s rc=%d %4.0fs %s %s" % (os.path.basename(os.path.dirname(patch)) + "/" + os.path.basename(patch), p, r.returncode, time.time() - t0,
                                                  " ; ".join(x[:110] for x in lines if not x.startswith("KNOWN")), (detail[0][:200] if detail else "")), flush=True)
    finally:
        subprocess.run(["git", "-C", "/repo", "checkout", "--", "."], check=True)
if __name__ == "__main__":
    main()
