"""C01 - composite property checked by the system engine (see p_sys.py)."""
from p_sys import run_prop

def run(tier, seed):
    return run_prop("C01", tier, seed, profiles=("dev",))
