"""Converts a system trace (JSON written by `tramp-harness system`) into a Coq term
(world, list tstep) for Check/SysCheck.v. Dumb syntax conversion only."""
import json
from vlib import coq_bytes, coq_list, coq_opt, coq_bool

EXPECTED_OTHER = "None|None|None|None|None|None|Some(20)"

class Conv:
    def __init__(self, trace):
        self.t = trace
        self.invs = trace["invoices"]
        self.defs = []   # let-bound byte strings
        for i, inv in enumerate(self.invs):
            self.defs.append(("inv%d" % i, coq_bytes(inv["bolt11"].encode())))

    def blob(self, idx):
        return "inv%d" % idx if idx is not None and idx < len(self.invs) else "[]"

    def cfg(self):
        c = self.t["cfg"]
        pol = "{| fee_base := %d; fee_ppm := %d; pol_delta := %d |}" % tuple(c["policy"])
        retry = min(c.get("pay_timeout_s", 60), 65535)
        cfg = "{| mpp_ms := %d; pol := %s; cltv_delta := %d; retry_for := %d |}" % (c["mpp_ms"], pol, c["cltv_delta"], retry)
        import world as W  # local key bytes are computed by the harness: ask the trace
        ccfg = "{| c_local := %s; c_allow_self := %s; c_policy := %s |}" % (coq_bytes(self.t["local_key"]), coq_bool(c["allow_self"]), pol)
        return cfg, ccfg

    def view(self, v):
        if v is None: return None
        return ("{| iv_hash := %s; iv_amount := %s; iv_sig_ok := %s; iv_payee := %s; iv_recovered := %s; iv_last_hops := %s |}" % (
            coq_bytes(v["hash"]), coq_opt(v["amount"], str), coq_bool(v["sig_ok"]), coq_bytes(v["payee"]),
            coq_opt(v.get("recovered"), coq_bytes), coq_list([coq_bytes(h) for h in v["last_hops"]])))

    def dsval(self, v):
        k = v["v"]
        if k == "free": return "DFree"
        if k == "pending": return "(DPending %d %d)" % (v["att"], v["t"])
        if k == "succ": return "(DSucc %s)" % coq_bytes(v["p"])
        return "DGarbage"

    def mode(self, m):
        return {"mc": "MustCreate", "mr": "MustReplace", "cor": "CreateOrReplace"}.get(m)

    APPEND = {"CREATE_OR_APPEND": "CreateOrReplace", "MUST_APPEND": "MustReplace"}

    def existed_at_processing(self, h, c):
        """Did the key exist when the simulated node executed write (h, c)? (recorded by the harness on the process step)"""
        for ev, st in zip(self.t["events"], self.t["steps"]):
            if ev.get("e") == "proc" and ev.get("h") == h and ev.get("c") == c and "existed" in st:
                return st["existed"]
        return False

    def rpc(self, q, strict=False, hc=None):
        """strict: None for every request the model has no term for. Otherwise a waitsendpay that carries a timeout is lowered to
        the plain wait (the part it waits for is the same; the node's "timed out" answer is the event GTimeout)."""
        k = q["k"]
        if k == "liststate": return "QListState"
        if k == "wstate":
            m = self.mode(q["mode"])
            if m is None and not strict and q["mode"] in self.APPEND and hc is not None:
                # lowering of lightningd's append modes (the unchanged plugin never uses them): on an absent key an append creates
                # the record; on an existing key the stored string becomes the concatenation of two JSON documents - garbage
                # for every reader. must-append fails on an absent key exactly as must-replace does.
                garbage = self.existed_at_processing(*hc)
                return "(QWriteState %s %s %s)" % (self.APPEND[q["mode"]], coq_opt(q["gen"], str), "DGarbage" if garbage else self.dsval(q["val"]))
            if m is None: return None
            return "(QWriteState %s %s %s)" % (m, coq_opt(q["gen"], str), self.dsval(q["val"]))
        if k == "watt":
            m = self.mode(q["mode"])
            if m is None or q.get("gen") is not None or q.get("amount") is None or q.get("completed") is None: return None
            return "(QWriteAtt %s %d %s %s %s %s)" % (m, q["att"], coq_bool(q["completed"]), coq_bool(q["success"]), q["amount"], self.blob(q["inv"]))
        if k == "listpend": return "QListPend"
        if k == "listdone": return "QListDone"
        if k == "wait":
            if q["pid"] is None or (strict and q.get("timeout") is not None): return None
            return "(QWaitPart %d%%nat)" % q["pid"]
        if k == "pay":
            expected = "None|None|None|None|None|None|None" if self.t.get("cfg", {}).get("xpay") else EXPECTED_OTHER   # the xpay shape carries no riskfactor
            if q["other"] != expected or q["inv"] is None: return None
            if strict and (q["maxfee"] is None or q["maxdelay"] is None or q["retry"] is None): return None
            # lowering of a pay request that leaves a limit out (the unchanged plugin always passes all three): no limit at all is
            # the conservative reading of "the node's default applies" - an unbounded fee budget / delay; retry_for defaults to 60 s
            maxfee = q["maxfee"] if q["maxfee"] is not None else str(2**64 - 1)
            maxdelay = q["maxdelay"] if q["maxdelay"] is not None else 65535
            retry = q["retry"] if q["retry"] is not None else 60
            return "(QPay %s %s %s %d %d)" % (self.blob(q["inv"]), coq_opt(q["amount"], str), maxfee, maxdelay, retry)
        return None

    def response(self, r):
        res = r.get("result")
        if res == "continue":
            return "(Continue %s)" % coq_opt(r.get("payload"), coq_bytes)
        if res == "fail": return "(Fail %s)" % coq_bytes(r["failure_message"])
        if res == "resolve": return "(Resolve %s)" % coq_bytes(r["payment_key"])
        return None

    def out(self, o):
        k = o["o"]
        if k == "resp":
            if o["r"].get("decode_error"): return "(GDecodeErr %d)" % o["uid"]
            r = self.response(o["r"])
            return "(GResp %d %s)" % (o["uid"], r) if r else "GOther"
        if k == "call":
            q = self.rpc(o["q"], hc=(o["h"], o["c"]))
            if q is None or o["h"] is None: return "GOther"
            return "(GCall %d%%nat %d%%nat %s)" % (o["h"], o["c"], q)
        if k == "cancel": return "(GCancel %d%%nat %d%%nat)" % (o["h"], o["c"]) if o["h"] is not None else "GOther"
        if k == "panic": return "GPanic"
        if k == "notify": return "(GNotify %d%%nat)" % o["h"]
        return "GOther"

    def reply(self, y):
        k = y["y"]
        if k == "none": return "None"
        if k == "state":
            v = y["v"]
            return "(Some (YState %s))" % ("None" if v is None else "(Some (%s, %d))" % (self.dsval(v), y["gen"]))
        if k == "gen": return "(Some (YGen %d))" % y["g"]
        if k == "unit": return "(Some YUnit)"
        if k == "pids": return "(Some (YPids %s))" % coq_list(["%d%%nat" % p for p in y["l"]])
        if k == "pres": return "(Some (YPres %s))" % coq_list([coq_bytes(p) for p in y["l"]])
        if k == "pre": return "(Some (YPre %s))" % coq_bytes(y["p"])
        if k == "partfailed": return "(Some YPartFailed)"
        if k == "err": return "(Some YErr)"
        return "(Some YErr)"

    def request(self, ev):
        rq = ev["req"]; on = rq["onion"]; h = rq["htlc"]
        return ("{| r_payload := %s; r_scid := %s; r_forward := %s; r_total := %s; r_id := %d; r_amount := %d; r_expiry := %d; r_rel := (%d)%%Z; r_hash := %s |}" % (
            coq_bytes(on["payload"]), coq_bool(on.get("short_channel_id") is not None), coq_opt(on.get("forward_msat"), str),
            coq_opt(on.get("total_msat"), str), ev["uid"], h["amount_msat"], h["cltv_expiry"], h["cltv_expiry_relative"], coq_bytes(h["payment_hash"])))

    def event(self, ev):
        k = ev["e"]
        if k == "htlc": return "(GHtlc %s)" % self.request(ev)
        if k == "burst": return "(GBurst %s)" % coq_list([self.request(it) for it in ev["items"]])
        if k == "proc":
            if ev.get("fault") == "timeout": return "(GTimeout %d%%nat %d%%nat)" % (ev["h"], ev["c"])
            f = {"none": "NoFault", "rej": "Rejected", "abe": "AppliedButError"}[ev.get("fault", "none")]
            return "(GEv %d%%nat (EvProcess %d%%nat %s))" % (ev["h"], ev["c"], f)
        if k == "deliver": return "(GEv %d%%nat (EvDeliver %d%%nat true))" % (ev["h"], ev["c"])
        if k == "part":
            st = "(PDone %s)" % coq_bytes(self.t["preimages"][ev["h"]]) if ev["st"] == "done" else "PFailed"
            return "(GEv %d%%nat (EvPart %d%%nat %s))" % (ev["h"], ev["pid"], st)
        if k == "newpart": return "(GEv %d%%nat (EvPayNewPart %d%%nat))" % (ev["h"], ev["c"])
        if k == "payfin":
            o = ev["out"]
            if o == "complete":
                out = "(PayComplete %s)" % coq_bytes(self.t["preimages"][ev["h"]])
            else:
                out = {"pending": "PayPending", "failed_warn": "PayFailedWarn", "failed": "PayFailed"}.get(o, "PayError")
            return "(GEv %d%%nat (EvPayFinish %d%%nat %s))" % (ev["h"], ev["c"], out)
        if k == "tick": return "(GTick %d)" % ev["ms"]
        if k == "height": return "(GHeight %d)" % ev["v"]
        if k == "hangup": return "(GHang %d)" % ev["uid"]
        if k == "crash": return "GCrash"
        raise ValueError(k)

    def interpretable(self):
        """True when every out-of-vocabulary output has a lowering (the monitors can still read the trace)."""
        return all(o["o"] == "call" and self.rpc(o["q"], hc=(o.get("h"), o.get("c"))) is not None for _, o in self.out_of_vocabulary())

    def out_of_vocabulary(self):
        """Outputs of the implementation that the model has no term for (an RPC with arguments the plugin never uses on the
        unchanged tree, a response of unknown shape): [(step, output)]. Such a trace cannot be replayed through the model."""
        bad = []
        for k, st in enumerate(self.t["steps"]):
            for o in st["out"]:
                if o["o"] in ("resp", "call", "cancel") and self.out(o) == "GOther":
                    bad.append((k, o))
                elif o["o"] == "call" and self.rpc(o["q"], strict=True) is None:
                    bad.append((k, o))
        return bad

    def init(self):
        out = []
        for it in self.t.get("init") or []:
            st = it.get("state")
            ds = "None"
            if st and st.get("pending_t_ms") is not None:
                ds = "(Some (DPending 0 %d, %d))" % (st["pending_t_ms"], st.get("gen", 0))
            elif st:
                raw = st["raw"]
                try:
                    v = json.loads(raw)
                except Exception:
                    v = None
                if v == "Free": d = "DFree"
                elif isinstance(v, dict) and "Succeeded" in v: d = "(DSucc %s)" % coq_bytes(bytes(v["Succeeded"]["preimage"]))
                elif isinstance(v, dict) and "Pending" in v: d = "(DPending 0 0)"
                else: d = "DGarbage"
                ds = "(Some (%s, %d))" % (d, st.get("gen", 0))
            parts = coq_list([{"pend": "PPend", "fail": "PFailed"}.get(p, "(PDone %s)" % coq_bytes(self.t["preimages"][0] or "")) for p in it.get("parts", [])])
            out.append("(%d%%nat, {| ds := %s; atts := []; parts := %s; payrun := 0 |})" % (it["h"], ds, parts))
        return coq_list(out)

    def term(self):
        cfg, ccfg = self.cfg()
        oracle = []
        for i, inv in enumerate(self.invs):
            v = self.view(inv["view"])
            if v: oracle.append("(inv%d, %s)" % (i, v))
        for b, v in self.t.get("extra_views", []):
            vv = self.view(v)
            if vv: oracle.append("(%s, %s)" % (coq_bytes(b), vv))
        sha = []
        for h, p in zip(self.t["hashes"], self.t["preimages"]):
            if p: sha.append("(%s, %s)" % (coq_bytes(p), coq_bytes(h)))
        world = "{| w_cfg := %s; w_ccfg := %s; w_oracle := %s; w_hashes := %s; w_sha := %s; w_init := %s |}" % (
            cfg, ccfg, coq_list(oracle), coq_list([coq_bytes(h) for h in self.t["hashes"]]), coq_list(sha), self.init())
        steps = []
        for ev, st in zip(self.t["events"], self.t["steps"]):
            rep = "(Some %s)" % self.reply(st["reply"]) if "reply" in st else "None"
            steps.append("{| t_ev := %s; t_out := %s; t_reply := %s |}" % (self.event(ev), coq_list([self.out(o) for o in st["out"]]), rep))
        body = "(%s, %s)" % (world, coq_list(steps))
        for name, val in reversed(self.defs):
            body = "let %s := %s in %s" % (name, val, body)
        return "(" + body + ")"
