"""C08 — write-ahead: the durable record never understates the outgoing payment."""
from p_sys import *

def gen(tier, seed):
    r = SplitMix64(seed * 7919 + 8)
    T = tier == "thorough"
    cs = []
    cs += stories(r, 44 if T else 11)
    cs += [straggler_case(r.fork()) for _ in range(120 if T else 30)]
    cs += [straggler_crash_case(r.fork()) for _ in range(60 if T else 12)]
    cs += crash_sweep(r, 22 if T else 3, 1 if T else 3)
    cs += fault_sweep(r, 22 if T else 4)
    cs += fault_sweep(r, 11 if T else 2, kind="pay", nk=2)
    cs += walks(r, 400 if T else 40, families=("default", "faulty", "crashy"))
    if T:
        cs += fault_sweep(r, 11, kind="read", nk=8)
        cs += walks(r, 100, families=("readfaults",))
    return cs

def run(tier, seed):
    return run_property("C08", tier, seed, gen,
        rule=("scripted payment stories (every way a pay can end x 1-3 HTLC pieces), the same stories with a whole-node crash injected before every k-th primitive event "
              "followed by replay of the unanswered HTLCs, with a rejected / applied-but-error datastore write at every write position, and random walks over enabled events "
              "(weights in harness/src/cmd_system.rs). Non-trivial: the trace contains a pay request, a crash or an injected fault; distinct = distinct event list"),
        assumptions=["environment contract N1-N6 (DESIGN 3.3): CLN datastore semantics, parts only created by a running pay, pay 'failed' without warning only when no part is pending/complete",
                     "read faults (injected errors on listdatastore/listsendpays/waitsendpay) are the known-finding class kf_read_error: thorough tier only"])
