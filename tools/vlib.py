"""Shared machinery of the ./check driver.

Stages (DESIGN.md section 5):
  1. proof stage   : build the Coq targets of the property, hygiene grep, pinned
                     statements (`Check name : stmt.`) and `Print Assumptions`.
  2. harness stage : build the Rust harness from /repo's CURRENT working tree.
  3. cases         : run the implementation on generated inputs, let Coq replay
                     them through the model (vm_compute) and evaluate monitors.
  4. verdict + evidence.
"""
import fcntl, hashlib, json, os, re, shutil, subprocess, sys, time
from concurrent.futures import ThreadPoolExecutor

VERIF = os.path.dirname(os.path.dirname(os.path.abspath(__file__)))
REPO = "/repo"
CACHE = os.path.join(VERIF, ".cache")
COQ = os.path.join(VERIF, "coq")
HARNESS = os.path.join(VERIF, "harness")
EVID = os.path.join(VERIF, "evidence")
REPLAYS = os.path.join(EVID, "replays")
NCPU = min(16, os.cpu_count() or 4)

ENV = dict(os.environ, CARGO_NET_OFFLINE="true", CARGO_TERM_COLOR="never")

KERNEL_TB = [
    "Coq 8.16.1 kernel and its vm_compute (used to close refutation witnesses and to evaluate correspondence cases); no native_compute",
    "no Axiom/Parameter/Admitted anywhere in /verif/coq (grep'd on every run); Print Assumptions output of every pinned theorem is recorded below",
    "hand-written Gallina model tied to /repo by the correspondence check (harness compiled from /repo's working tree by #[path]/include!); agreement is sampled, not proved",
]


class SplitMix64:
    """All random choices derive from one stream seeded by VERIF_SEED."""
    def __init__(self, seed):
        self.s = seed & 0xFFFFFFFFFFFFFFFF
    def next(self):
        self.s = (self.s + 0x9E3779B97F4A7C15) & 0xFFFFFFFFFFFFFFFF
        z = self.s
        z = ((z ^ (z >> 30)) * 0xBF58476D1CE4E5B9) & 0xFFFFFFFFFFFFFFFF
        z = ((z ^ (z >> 27)) * 0x94D049BB133111EB) & 0xFFFFFFFFFFFFFFFF
        return z ^ (z >> 31)
    def below(self, n):
        return self.next() % n if n > 0 else 0
    def choice(self, l):
        return l[self.below(len(l))]
    def chance(self, num, den):
        return self.below(den) < num
    def bytes(self, n):
        return bytes(self.below(256) for _ in range(n))
    def fork(self):
        return SplitMix64(self.next())


def sh(cmd, cwd=None, timeout=1800, env=None, input=None):
    p = subprocess.run(cmd, cwd=cwd, shell=isinstance(cmd, str), stdout=subprocess.PIPE,
                       stderr=subprocess.STDOUT, timeout=timeout, env=env or ENV, input=input, text=True)
    return p.returncode, p.stdout


class Lock:
    def __init__(self, name):
        os.makedirs(CACHE, exist_ok=True)
        self.path = os.path.join(CACHE, name + ".lock")
    def __enter__(self):
        self.f = open(self.path, "w")
        fcntl.flock(self.f, fcntl.LOCK_EX)
        return self
    def __exit__(self, *a):
        fcntl.flock(self.f, fcntl.LOCK_UN)
        self.f.close()


# ----------------------------------------------------------------------------
# stage 1: proofs
# ----------------------------------------------------------------------------
HYGIENE_RE = re.compile(r"\b(Admitted|admit|Axiom|Axioms|Parameter|Parameters|Conjecture|Hypothesis|Variable)\b|Unset Guard|bypass_check|type-in-type|impredicative-set|Admit Obligations|native_compute")

def hygiene():
    """No Admitted/Axiom/... anywhere in the development (Variable/Hypothesis allowed only inside Sections)."""
    bad = []
    for root, _, files in os.walk(os.path.join(COQ)):
        for fn in files:
            if not fn.endswith(".v") and fn != "_CoqProject":
                continue
            path = os.path.join(root, fn)
            depth = 0
            in_comment = 0
            for n, line in enumerate(open(path), 1):
                # strip comments (nesting-aware, line-local approximation is enough: comments here never hide code)
                code = ""
                i = 0
                while i < len(line):
                    if line.startswith("(*", i):
                        in_comment += 1; i += 2; continue
                    if line.startswith("*)", i) and in_comment:
                        in_comment -= 1; i += 2; continue
                    if not in_comment:
                        code += line[i]
                    i += 1
                if re.match(r"\s*Section\b", code): depth += 1
                if re.match(r"\s*End\b", code) and depth: depth -= 1
                for m in HYGIENE_RE.finditer(code):
                    w = m.group(0)
                    if w in ("Variable", "Hypothesis") and depth > 0:
                        continue
                    bad.append("%s:%d: %s" % (os.path.relpath(path, VERIF), n, w))
    return bad


def coq_build(targets, timeout=1500):
    """Full .vo build of the given targets (never -vos). Returns (ok, log)."""
    with Lock("coq"):
        mk = os.path.join(COQ, "Makefile")
        cp = os.path.join(COQ, "_CoqProject")
        if not os.path.exists(mk) or os.path.getmtime(mk) < os.path.getmtime(cp):
            rc, out = sh("coq_makefile -f _CoqProject -o Makefile", cwd=COQ)
            if rc != 0:
                return False, out
        rc, out = sh(["timeout", str(timeout), "make", "-j%d" % NCPU] + targets, cwd=COQ, timeout=timeout + 60)
        return rc == 0, out


def coqc_file(path, timeout=900):
    rc, out = sh("ulimit -s unlimited 2>/dev/null; exec timeout %d coqc -noglob -Q %s Tramp %s" % (timeout, os.path.join(COQ, "theories"), path),
                 cwd=os.path.dirname(path), timeout=timeout + 30)
    return rc, out


def run_pins(prop):
    """coq/pins/<prop>.v holds `Check thm : statement.` and `Print Assumptions thm.` for every
    obligation. Returns list of dicts {name, ok, axioms}."""
    src = os.path.join(COQ, "pins", prop + ".v")
    text = open(src).read()
    names = re.findall(r"Print Assumptions\s+([A-Za-z0-9_'.]+)\s*\.", text)
    work = os.path.join(CACHE, "pins")
    os.makedirs(work, exist_ok=True)
    dst = os.path.join(work, "Pins_%s.v" % prop)
    shutil.copy(src, dst)
    rc, out = coqc_file(dst)
    res = []
    if rc != 0:
        return [{"name": n, "ok": False, "axioms": ["<pins file failed to compile>"]} for n in names] or \
               [{"name": prop + "_pins", "ok": False, "axioms": []}], out
    # split the output per Print Assumptions (in order)
    chunks = re.split(r"(?m)^(?=Closed under the global context|Axioms:)", out)
    chunks = [c for c in chunks if c.startswith("Closed under") or c.startswith("Axioms:")]
    for i, n in enumerate(names):
        c = chunks[i] if i < len(chunks) else "Axioms: <missing output>"
        if c.startswith("Closed under"):
            res.append({"name": n, "ok": True, "axioms": []})
        else:
            ax = [l.strip() for l in c.splitlines()[1:] if l.strip() and not l.startswith(" " * 4) and ":" in l]
            res.append({"name": n, "ok": False, "axioms": ax})
    return res, out


def proof_stage(prop, targets, allowed_axioms=()):
    t0 = time.time()
    bad = hygiene()
    ok, log = coq_build(targets)
    obligations, pins_log = ([], "")
    if ok:
        obligations, pins_log = run_pins(prop)
    for o in obligations:
        if not o["ok"] and o["axioms"] and all(any(a.startswith(x) for x in allowed_axioms) for a in o["axioms"]):
            o["ok"] = True
    status = {
        "built": ok,
        "hygiene_violations": bad,
        "obligations": obligations,
        "log_tail": (log if not ok else pins_log)[-3000:],
        "wall_s": round(time.time() - t0, 1),
    }
    status["ok"] = ok and not bad and bool(obligations) and all(o["ok"] for o in obligations)
    return status


# ----------------------------------------------------------------------------
# stage 2: harness
# ----------------------------------------------------------------------------
def harness_build(profile="dev", timeout=1500):
    """Builds the harness against /repo's current working tree. Returns (ok, log, binary)."""
    tdir = os.path.join(CACHE, "harness-target")
    with Lock("cargo"):
        shutil.copy(os.path.join(REPO, "Cargo.lock"), os.path.join(HARNESS, "Cargo.lock"))
        cmd = ["timeout", str(timeout), "cargo", "build", "--offline", "--quiet"]
        if profile == "release":
            cmd.append("--release")
        env = dict(ENV, CARGO_TARGET_DIR=tdir, RUSTFLAGS="--cfg breez_trampoline_verif -Awarnings")
        rc, out = sh(cmd, cwd=HARNESS, timeout=timeout + 60, env=env)
    binary = os.path.join(tdir, "release" if profile == "release" else "debug", "tramp-harness")
    return rc == 0, out, binary


def harness_run(binary, sub, lines, timeout=900, shards=1, extra_args=()):
    """Feeds lines to `<binary> <sub>`; returns list of parsed JSON (one per input line), or raises."""
    if shards <= 1 or len(lines) < 64:
        p = subprocess.run([binary, sub] + list(extra_args), input="\n".join(lines) + "\n", stdout=subprocess.PIPE,
                           stderr=subprocess.PIPE, text=True, timeout=timeout, env=ENV)
        outs = [l for l in p.stdout.splitlines() if l.startswith("{") or l.startswith("[")]
        if p.returncode != 0 or len(outs) != len(lines):
            raise RuntimeError("harness %s failed rc=%s, %d/%d lines\n%s" % (sub, p.returncode, len(outs), len(lines), p.stderr[-2000:]))
        return [json.loads(l) for l in outs]
    n = min(shards, NCPU)
    chunks = [lines[i::n] for i in range(n)]
    with ThreadPoolExecutor(n) as ex:
        rs = list(ex.map(lambda c: harness_run(binary, sub, c, timeout, 1, extra_args) if c else [], chunks))
    out = [None] * len(lines)
    for i, r in enumerate(rs):
        for j, v in enumerate(r):
            out[i + j * n] = v
    return out


# ----------------------------------------------------------------------------
# stage 3: Coq evaluation of cases
# ----------------------------------------------------------------------------
def coq_bytes(b):
    """Coq term for a byte list; long constant runs become `repeat` so no huge literal is parsed."""
    if isinstance(b, str):
        b = bytes.fromhex(b)
    if len(b) < 200:
        return "[" + ";".join(str(x) for x in b) + "]"
    segs, i = [], 0
    while i < len(b):
        j = i
        while j < len(b) and b[j] == b[i]:
            j += 1
        if j - i >= 32:
            segs.append("repeat %d (N.to_nat %d)" % (b[i], j - i)); i = j
        else:
            k = i
            while k < len(b) and not (k + 32 <= len(b) and len(set(b[k:k + 32])) == 1):
                k += 1
            segs.append("[" + ";".join(str(x) for x in b[i:k]) + "]"); i = k
    return "(" + " ++ ".join(segs) + ")"

def coq_list(items):
    return "[" + "; ".join(items) + "]"

def coq_opt(x, f=lambda v: v):
    return "None" if x is None else "(Some %s)" % f(x)

def coq_bool(b):
    return "true" if b else "false"

def eval_cases(prop, header, case_terms, fn, ty, per_shard=400, timeout=900):
    """case_terms: list of Coq terms of type `ty`; fn: Coq function ty -> N.
    Returns list of ints (one per case), or raises RuntimeError with the log."""
    work = os.path.join(CACHE, "cases", prop)
    shutil.rmtree(work, ignore_errors=True)
    os.makedirs(work)
    nsh = max(1, min(64, (len(case_terms) + per_shard - 1) // per_shard))
    nsh = max(nsh, min(NCPU, len(case_terms) // 8 or 1))
    shards = [case_terms[i::nsh] for i in range(nsh)]
    paths = []
    for i, sh_terms in enumerate(shards):
        p = os.path.join(work, "cases_%s_%d.v" % (prop, i))
        with open(p, "w") as f:
            f.write(header + "\n")
            f.write("Definition cases : list (%s) := [\n" % ty)
            f.write(";\n".join(sh_terms))
            f.write("\n].\n")
            f.write("Definition out := Eval vm_compute in map (%s) cases.\n" % fn)
            f.write("Print out.\n")
        paths.append(p)
    def one(p):
        rc, out = coqc_file(p, timeout)
        if rc != 0:
            raise RuntimeError("coqc failed on %s:\n%s" % (p, out[-3000:]))
        m = re.search(r"out\s*=\s*\[(.*?)\]\s*:\s*list", out, re.S)
        if not m:
            if re.search(r"out\s*=\s*\[\s*\]", out):
                return []
            raise RuntimeError("cannot parse coqc output of %s:\n%s" % (p, out[-2000:]))
        body = m.group(1)
        return [int(x) for x in re.findall(r"\d+", body.replace("%N", ""))]
    with ThreadPoolExecutor(NCPU) as ex:
        rs = list(ex.map(one, paths))
    res = [None] * len(case_terms)
    for i, r in enumerate(rs):
        if len(r) != len(shards[i]):
            raise RuntimeError("shard %d: %d verdicts for %d cases" % (i, len(r), len(shards[i])))
        for j, v in enumerate(r):
            res[i + j * nsh] = v
    return res


def eval_cases_list(prop, header, case_terms, fn, ty, per_shard=8, timeout=1200):
    """Like eval_cases, but fn returns `list N` per case. Returns list of lists of ints."""
    work = os.path.join(CACHE, "cases", prop)
    shutil.rmtree(work, ignore_errors=True)
    os.makedirs(work)
    nsh = max(1, (len(case_terms) + per_shard - 1) // per_shard)
    nsh = max(nsh, min(NCPU, len(case_terms)))
    shards = [case_terms[i::nsh] for i in range(nsh)]
    paths = []
    for i, sh_terms in enumerate(shards):
        p = os.path.join(work, "cases_%s_%d.v" % (prop, i))
        with open(p, "w") as f:
            f.write(header + "\n")
            f.write("Definition cases : list (%s) := [\n" % ty)
            f.write(";\n".join(sh_terms))
            f.write("\n].\n")
            f.write("Definition out := Eval vm_compute in map (%s) cases.\n" % fn)
            f.write("Print out.\n")
        paths.append(p)
    def one(p):
        rc, out = coqc_file(p, timeout)
        if rc != 0:
            raise RuntimeError("coqc failed on %s:\n%s" % (p, out[-3000:]))
        m = re.search(r"out\s*=\s*(\[.*\])\s*:\s*list", out, re.S)
        if not m:
            raise RuntimeError("cannot parse coqc output of %s:\n%s" % (p, out[-2000:]))
        body = m.group(1).replace("%N", "")
        inner = re.findall(r"\[([0-9;\s]*)\]", body[1:-1]) if body.strip() != "[]" else []
        return [[int(x) for x in re.findall(r"\d+", it)] for it in inner]
    with ThreadPoolExecutor(NCPU) as ex:
        rs = list(ex.map(one, paths))
    res = [None] * len(case_terms)
    for i, r in enumerate(rs):
        if len(r) != len(shards[i]):
            raise RuntimeError("shard %d: %d verdicts for %d cases" % (i, len(r), len(shards[i])))
        for j, v in enumerate(r):
            res[i + j * nsh] = v
    return res


# ----------------------------------------------------------------------------
# stage 4: verdict
# ----------------------------------------------------------------------------
def load_known():
    p = os.path.join(VERIF, "known_findings.json")
    if not os.path.exists(p):
        return []
    return json.load(open(p))["findings"]


class Outcome:
    def __init__(self, prop, tier, seed):
        self.prop, self.tier, self.seed = prop, tier, seed
        self.t0 = time.time()
        self.proof = None
        self.evaluations = 0
        self.nontrivial = set()
        self.rule = ""
        self.samples = []
        self.distribution = {}
        self.monitor_failures = []     # (description, replay dict)
        self.corr_failures = []        # (description, replay dict)
        self.kf_hits = {}              # class -> count
        self.internal = []
        self.traces_validated = 0
        self.assumptions = []
        self.trusted_base = list(KERNEL_TB)
        self.extra = {}
        self.checker_cmd = ""

    def note_codes(self, codes, cases, describe, kf_class=None, key=lambda c: json.dumps(c, sort_keys=True)):
        """Standard decoding of verdict codes (Check/Common.v)."""
        for code, case in zip(codes, cases):
            self.evaluations += 1
            self.traces_validated += 1
            shape = code >> 4
            self.distribution["shape_%d" % shape] = self.distribution.get("shape_%d" % shape, 0) + 1
            if code & 8:
                self.internal.append(describe(case))
                continue
            if code & 2:
                if code & 4:
                    k = kf_class(case) if kf_class else "known"
                    self.kf_hits[k] = self.kf_hits.get(k, 0) + 1
                else:
                    self.monitor_failures.append((describe(case), case))
            if code & 1 and not (code & 4 and code & 2):
                self.corr_failures.append((describe(case), case))


def write_replay(prop, idx, payload):
    os.makedirs(REPLAYS, exist_ok=True)
    p = os.path.join(REPLAYS, "%s-%d.json" % (prop, idx))
    json.dump(payload, open(p, "w"), indent=1, sort_keys=True)
    return p


def generic_replay(prop, path, run):
    """Replay for the engines whose cases are fully determined by (tier, seed): the replay file records both, every
    generator is a pure function of them, so the check is re-run with exactly those inputs on the current tree and
    reports whether the recorded failing case fails again."""
    d = json.load(open(path))
    tier, seed = d.get("tier", "quick"), int(d.get("seed", 1))
    print("REPLAY property=%s: re-running tier=%s seed=%d (deterministic generation reproduces the recorded inputs); recorded: %s"
          % (prop, tier, seed, str(d.get("description") or d.get("kind"))[:300]))
    return run(tier, seed)


def finish(o, search=None, level="proof"):
    """Prints verdict lines, writes evidence, returns exit code."""
    known = [k for k in load_known() if k.get("property") == o.prop and k.get("status") == "known"]
    lines = []
    rc = 0
    if o.internal:
        print("INTERNAL: tooling inconsistency in %d cases, e.g. %s" % (len(o.internal), o.internal[0][:300]))
        rc = 3
    # known findings observed in this run
    known_classes = {k["class"]: k for k in known}
    for cls, n in sorted(o.kf_hits.items()):
        if cls in known_classes:
            print("KNOWN-FINDING: property=%s %s (class %s; %d cases of this run fall in it)" % (o.prop, known_classes[cls]["what"], cls, n))
        else:
            # a class the Coq side flags but the committed file does not list: treat as violation
            o.monitor_failures.append(("known-finding class %s is not listed in known_findings.json" % cls, {"class": cls}))
    for k in known:
        if k["class"] not in o.kf_hits and k.get("always_print", True):
            print("KNOWN-FINDING: property=%s %s (class %s; witness lemma %s)" % (o.prop, k["what"], k["class"], k.get("witness_lemma", "-")))
    violations = 0
    if o.monitor_failures:
        desc, case = o.monitor_failures[0]
        p = write_replay(o.prop, 0, {"property": o.prop, "kind": "monitor failure on the implementation",
                                     "description": desc, "case": case, "seed": o.seed, "tier": o.tier,
                                     "all_failures": [d for d, _ in o.monitor_failures[:20]]})
        print("VIOLATION property=%s replay=%s" % (o.prop, p))
        print("  " + desc[:500])
        violations = len(o.monitor_failures)
        rc = max(rc, 1)
    elif (o.proof is not None and not o.proof["ok"]) or o.corr_failures:
        found = None
        if search:
            try:
                found = search()
            except Exception as e:  # the search is best effort
                print("search failed: %r" % (e,))
        if found:
            desc, case = found
            p = write_replay(o.prop, 0, {"property": o.prop, "kind": "monitor failure found by the search after a broken proof/correspondence",
                                         "description": desc, "case": case, "seed": o.seed, "tier": o.tier})
            print("VIOLATION property=%s replay=%s" % (o.prop, p))
            print("  " + desc[:500])
        else:
            what = {}
            if o.proof is not None and not o.proof["ok"]:
                what["broken_proof"] = {"built": o.proof["built"], "hygiene": o.proof["hygiene_violations"],
                                        "obligations_not_discharged": [x for x in o.proof["obligations"] if not x["ok"]],
                                        "log_tail": o.proof["log_tail"]}
            if o.corr_failures:
                what["broken_correspondence"] = {"count": len(o.corr_failures), "first": o.corr_failures[0][0],
                                                 "first_case": o.corr_failures[0][1],
                                                 "others": [d for d, _ in o.corr_failures[1:10]]}
            p = write_replay(o.prop, 0, {"property": o.prop, "kind": "property no longer shown to hold", "seed": o.seed,
                                         "tier": o.tier, **what})
            print("VIOLATION property=%s replay=%s no-failing-input-found" % (o.prop, p))
            if "broken_correspondence" in what:
                print("  correspondence: " + o.corr_failures[0][0][:500])
            if "broken_proof" in what:
                print("  proof: built=%s not discharged=%s" % (o.proof["built"], [x["name"] for x in o.proof["obligations"] if not x["ok"]]))
        violations = 1
        rc = max(rc, 1)
    obligations = o.proof["obligations"] if o.proof else []
    cov = {
        "obligations": len(obligations),
        "discharged": sum(1 for x in obligations if x["ok"]),
        "checker_cmd": o.checker_cmd or "make -C /verif/coq (full .vo build, coqc 8.16.1) + coqc /verif/coq/pins/%s.v (Check pins, Print Assumptions)" % o.prop,
        "trusted_base": o.trusted_base + ["axioms reported by Print Assumptions: " +
                                          (", ".join(sorted({a for x in obligations for a in x["axioms"]})) or "none (every pinned theorem is closed under the global context)")],
        "obligation_names": [x["name"] for x in obligations],
        "evaluations": o.evaluations,
        "distinct_nontrivial": len(o.nontrivial),
        "rule": o.rule,
        "samples": o.samples[:8],
        "traces_validated_against_impl": o.traces_validated,
        "input_distribution": o.distribution,
        "known_finding_hits": o.kf_hits,
        "correspondence_failures": len(o.corr_failures),
        "monitor_failures": len(o.monitor_failures),
        "proof_stage": {k: v for k, v in (o.proof or {}).items() if k in ("built", "hygiene_violations", "wall_s", "ok")},
    }
    cov.update(o.extra)
    ev = {"property_id": o.prop, "tier": o.tier, "seed": o.seed, "level": level, "coverage": cov,
          "assumptions": o.assumptions, "wall_s": round(time.time() - o.t0, 1), "violations": violations}
    os.makedirs(EVID, exist_ok=True)
    json.dump(ev, open(os.path.join(EVID, o.prop + ".json"), "w"), indent=1)
    if rc == 0:
        print("OK property=%s tier=%s obligations=%d/%d cases=%d nontrivial=%d wall=%.0fs" % (
            o.prop, o.tier, cov["discharged"], cov["obligations"], o.evaluations, len(o.nontrivial), time.time() - o.t0))
    return rc
