"""C20 - chain height never decreases, catches up within a poll interval (real BlockWatcher on the simulated Rpc)."""
import json, collections
from vlib import *

HDR = "From Tramp Require Import Model.Base Model.Blocks Check.Common Check.BlocksCheck.\nOpen Scope N_scope."

def gen(tier, seed):
    r = SplitMix64(seed * 31 + 20)
    n = 1500 if tier == "thorough" else 250
    cases = []
    for i in range(n):
        evs = []
        base = r.choice([0, 1, 100, 800000, 2**32 - 2])
        # startup: sometimes notifications/ticks before the first reply, sometimes a failing startup query
        for _ in range(r.below(3)):
            evs.append(r.choice([{"e": "notify", "h": base + r.below(5)}, {"e": "tick", "ms": r.choice([1, 1000, 60000, 61000])}]))
        evs.append({"e": "reply", "h": None if r.chance(1, 12) else min(2**32 - 1, base + r.below(3))})
        for _ in range(5 + r.below(25)):
            k = r.below(10)
            if k < 4:
                evs.append({"e": "notify", "h": max(0, min(2**32 - 1, base + r.below(9) - 3))})           # also stale / repeated
            elif k < 7:
                evs.append({"e": "tick", "ms": r.choice([1, 59999, 60000, 60001, 30000, 30000, 120000, 1000])})
            elif k < 9:
                evs.append({"e": "reply", "h": None if r.chance(1, 4) else max(0, min(2**32 - 1, base + r.below(9) - 3))})
            else:
                evs += [{"e": "tick", "ms": 59999}, {"e": "tick", "ms": 1}]
            if r.chance(1, 8):
                # concurrent notifications under lock contention, higher one first / last / repeated
                hs = [max(0, min(2**32 - 1, base + r.below(9) - 3)) for _ in range(2 + r.below(2))]
                evs.append({"e": "burst", "hs": hs})
        cases.append({"events": evs})
    return cases

def term(c, o):
    steps = []
    for ev, st in zip(c["events"], o["steps"]):
        k = ev["e"]
        # a burst of concurrent notifications tells the watcher max(hs): whatever the order inside, the height must end at the running maximum
        e = ("(BvReply %s)" % coq_opt(ev["h"], str)) if k == "reply" else ("(BvNotify %d)" % ev["h"]) if k == "notify" else ("(BvNotify %d)" % max(ev["hs"])) if k == "burst" else "(BvTick %d)" % ev["ms"]
        steps.append("(%s, %d, %d, %s)" % (e, st["height"] or 0, st["calls"], coq_bool(st["stopped"])))
    return coq_list(steps)

def run(tier, seed):
    o = Outcome("C20", tier, seed)
    o.rule = ("event lists for the real BlockWatcher (paused clock): startup query answered/failing after optional early notifications, then random interleavings of block_added "
              "notifications (fresh, stale, repeated, near u32::MAX), poll replies (successful with arbitrary heights, failing) and clock ticks around the 60 s poll deadline "
              "(59999 ms then 1 ms), and bursts of 2-3 notifications delivered concurrently while the height mutex is contended. Non-trivial: at least one poll reply after startup and one notification; distinct = distinct event list")
    o.assumptions = ["tokio's paused clock stands for real time; the delta of the catch-up bound (RPC latency) is runtime and not modelled"]
    o.proof = proof_stage("C20", ["theories/Props/C20.vo", "theories/Check/BlocksCheck.vo"])
    ok, log, binary = harness_build("dev")
    if not ok:
        o.corr_failures.append(("harness does not compile against /repo's working tree: " + log[-1500:], {"build_log": log[-3000:]}))
        return finish(o)
    cases = gen(tier, seed)
    try:
        obs = harness_run(binary, "blocks", [json.dumps(c) for c in cases], shards=NCPU)
        verdicts = eval_cases_list("C20", HDR, [term(c, x) for c, x in zip(cases, obs)], "blocks_verdict", "list bobs", per_shard=40)
    except RuntimeError as ex:
        o.corr_failures.append(("could not evaluate cases: %s" % str(ex)[-1500:], {}))
        return finish(o)
    dist = collections.Counter()
    for c, x, v in zip(cases, obs, verdicts):
        corr, mon, n = v
        o.evaluations += 1; o.traces_validated += 1
        for e in c["events"]: dist[e["e"] + ("/fail" if e["e"] == "reply" and e["h"] is None else "")] += 1
        if sum(1 for e in c["events"] if e["e"] == "reply") >= 2 and any(e["e"] == "notify" for e in c["events"]):
            o.nontrivial.add(json.dumps(c["events"]))
        desc = "events %s => implementation heights %s" % (json.dumps(c["events"])[:500], [s["height"] for s in x["steps"]])
        if mon: o.monitor_failures.append(("height is not the maximum of what the watcher was told at step %d: %s" % (mon, desc), {"case": c, "obs": x}))
        if corr: o.corr_failures.append(("model and implementation differ at step %d: %s" % (corr, desc), {"case": c, "obs": x}))
    o.distribution = dict(dist)
    o.samples = [{"events": cases[0]["events"], "obs": obs[0]}]
    return finish(o)
