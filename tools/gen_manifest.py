#!/usr/bin/env python3
"""Writes MANIFEST.json from the table below (kept in one place so it stays valid)."""
import json, os
VERIF = os.path.dirname(os.path.dirname(os.path.abspath(__file__)))
props = [json.loads(l) for l in open(os.path.join(VERIF, "properties.jsonl"))]
ALL = [p["id"] for p in props]

CHECKS = {
 "C18": dict(technique="Coq proof (structural induction over the byte list / BigSize grammar) + differential correspondence of the Gallina model with src/tlv.rs",
   text="Totality, decode∘encode and encode∘decode round trips and the tu64 clause are theorems over an executable Gallina model of tlv.rs for ALL byte strings / entry lists (no size bound). The model is tied to the code on every run: the real decoder/encoder is run on exhaustive short strings, boundary BigSize values in every width, truncations at every offset and long values, and Coq recomputes every observation from the model and evaluates the property's boolean monitor on the implementation's output.",
   note="Trusted: Coq kernel + vm_compute; bytes/hex crates; the harness and case converter; agreement model/code is sampled (exhaustive for length<=4/5 over an 8-symbol alphabet). No axioms (Print Assumptions: closed).", design="6/C18"),
 "C12": dict(technique="Coq proof (lia over unbounded N with explicit 64-bit guards) + differential correspondence in overflow-checking and wrapping builds",
   text="fee_sufficient equals the exact unbounded-integer predicate for all u64 x u64 x u32 x u32 outside the recorded known-finding class (64-bit product overflow, where the code is proved to answer 'insufficient'); the failure encoding is proved byte-exact and injective. Correspondence: boundary lattice at the exact threshold +-1 and random values, dev and release builds of the real function.",
   note="Trusted: Coq kernel; harness. Known finding KF-D (product overflow => conservative false) is listed in known_findings.json. The composite clause (first HTLC answered with the policy failure) is covered by the system model.", design="6/C12"),
 "C10": dict(technique="Coq proof over an executable model of check_htlc/extract_trampoline_info with the BOLT11 parser as a universally quantified oracle + differential correspondence on an invoice x request cross product",
   text="C10_sound: for EVERY oracle, configuration and request, a request classified as trampoline carries metadata that decodes, an invoice blob that the oracle parses with a valid signature and the HTLC's own payment hash, the amount rule of the property, and passes the self-route-hint rule; C10_self_hint: the disallowed self hint yields temporary_node_failure. Correspondence runs the real private check_htlc on ~3000 combinations built with the plugin's own lightning-invoice crate; the monitor re-checks the property on the implementation's answer, including payee = key recovered from the signature.",
   note="Trusted: Coq kernel; lightning-invoice/secp256k1 as the oracle (parse, check_signature, recover_payee_pub_key); harness. No axioms.", design="6/C10"),
 "C13": dict(technique="Coq proof (definitional no-effect on the global step function + TLV strip lemma) + differential correspondence of classification and payload rewrite",
   text="C13_no_effect: a request the model does not classify as trampoline leaves the global state unchanged and is answered in the same step; C13_answer_shape / C13_rewrite_only_strips: the answer is continue (or the self-hint failure) and a rewritten payload is the decoded stream minus the FIRST type-16 record, every other record re-encoded in order (byte-identical for valid streams by C18). Correspondence: real check_htlc/default_response on malformed payloads/metadata, forwards, unusable invoices, and payloads that are rewritten with records of every BigSize width around the metadata record.",
   note="Trusted: Coq kernel; harness. The 'no RPC call, no state' clause is also monitored on every system trace (SysMon P13). No axioms.", design="6/C13"),
 "C15": dict(technique="Coq proof: inductive invariant over arbitrary event lists of the stand-alone provider machine + exhaustive interleaving exploration of the real wait_payment",
   text="C15_wait: for ANY number of parts in ANY initial status and ANY history (node processes a query, reply delivered, part resolves, any RPC fails), wait_payment returns a preimage only if a part is complete with it and 'none' only if every part has failed at that moment; part-level failure codes do not end the wait while another part is awaited. Proved by an inductive invariant (PInv) preserved by every event. Correspondence: replay-based DFS over ALL interleavings of the real wait_payment for every configuration of <=2 (quick) / <=3 (thorough) parts, random paths beyond, with and without injected errors.",
   note="Trusted: Coq kernel; simulated node = contract N3/N6 (no pay running during the wait; waitsendpay answers only final parts); harness. No axioms.", design="6/C15"),
 "C16": dict(technique="Coq proof: the same inductive invariant in pay mode (pay command creating parts, every contract-respecting outcome) + exhaustive interleaving exploration of the real pay wrapper",
   text="C16_pay: for every initial part configuration, every way the pay command ends (subject to N1-N3) and every later resolution order, the wrapper's Ok carries the preimage of a completed part and its final Err comes only when every part has failed and no pay runs; an Err caused by a failing list/wait RPC is the explicit third outcome (known-finding class KF-B, kf_read_error), C16_needs_N2 records the contract boundary.",
   note="Trusted: Coq kernel; contract N1 (complete carries a part's preimage), N2 (failed without warning only when nothing is pending/complete), N3; harness. No axioms.", design="6/C16"),
}

manifest = {
 "version": 1,
 "setup_cmd": "./setup.sh",
 "hooks": {"guard": "breez_trampoline_verif", "enable": "RUSTFLAGS='--cfg breez_trampoline_verif' (no hook exists in /repo: the harness reaches private items by include!/#[path])",
           "baseline_off_cmd": "cd /repo && cargo test --workspace --no-fail-fast --offline", "source_commits": [], "add_only": True},
 "engines": [
   {"name": "coq", "path": "coq", "serves_properties": sorted(CHECKS), "kind_free_text": "Coq 8.16.1 development: executable model (Model/), proofs (Proofs/), property theorems (Props/), boolean monitors and case evaluation (Check/)"},
   {"name": "harness", "path": "harness", "serves_properties": sorted(CHECKS), "kind_free_text": "Rust crate compiling /repo's working tree by #[path]/include!; one sub-command per model component; deterministic scheduler and simulated node"},
 ],
 "checks": [],
 "not_applicable": [],
 "notes": "Every check: ./check <id> quick|thorough. Exit 0 held / 1 VIOLATION / 3 INTERNAL (tooling). See DESIGN.md.",
}
for pid in ALL:
    if pid in CHECKS:
        c = CHECKS[pid]
        manifest["checks"].append({
            "property_id": pid, "quick_cmd": "./check %s quick" % pid, "thorough_cmd": "./check %s thorough" % pid,
            "evidence_file": "evidence/%s.json" % pid, "replay_cmd_template": "./check %s --replay {path}" % pid,
            "engine": "coq+harness", "technique": c["technique"],
            "level_claimed": {"category": "proof", "text": c["text"], "design_ref": c["design"]},
            "level_note": c["note"]})
    else:
        manifest["not_applicable"].append({"property_id": pid, "reason": "check not built yet in this round (planned: DESIGN.md section 6); not claimed until its check is green and has caught a seeded change"})
json.dump(manifest, open(os.path.join(VERIF, "MANIFEST.json"), "w"), indent=1)
print("checks:", [c["property_id"] for c in manifest["checks"]])
