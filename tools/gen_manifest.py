#!/usr/bin/env python3
"""Writes MANIFEST.json from the table below (kept in one place so it stays valid)."""
import json, os
VERIF = os.path.dirname(os.path.dirname(os.path.abspath(__file__)))
props = [json.loads(l) for l in open(os.path.join(VERIF, "properties.jsonl"))]
ALL = [p["id"] for p in props]

CHECKS = {
 "C18": dict(technique="Coq proof (structural induction over the byte list / BigSize grammar) + differential correspondence of the Gallina model with src/tlv.rs",
   text="Totality, decode∘encode and encode∘decode round trips and the tu64 clause are theorems over an executable Gallina model of tlv.rs for ALL byte strings / entry lists (no size bound). The model is tied to the code on every run: the real decoder/encoder is run on exhaustive short strings, boundary BigSize values in every width, truncations at every offset and long values, and Coq recomputes every observation from the model and evaluates the property's boolean monitor on the implementation's output.",
   note="Trusted: Coq kernel + vm_compute; bytes/hex crates; the harness and case converter; agreement model/code is sampled (exhaustive for length<=4/5 over an 8-symbol alphabet). No axioms (Print Assumptions: closed).", design="6/C18"),
 "C12": dict(technique="Coq proof (lia over unbounded N with explicit 64-bit guards) + differential correspondence in overflow-checking and wrapping builds",
   text="fee_sufficient equals the exact unbounded-integer predicate for all u64 x u64 x u32 x u32 outside the recorded known-finding class (64-bit product overflow, where the code is proved to answer 'insufficient'); the failure encoding is proved byte-exact and injective. Correspondence: boundary lattice at the exact threshold +-1 and random values, dev and release builds of the real function.",
   note="Trusted: Coq kernel; harness. Known finding KF-D (product overflow => conservative false) is listed in known_findings.json. The composite clause (first HTLC answered with the policy failure) is covered by the system model.", design="6/C12"),
 "C10": dict(technique="Coq proof over an executable model of check_htlc/extract_trampoline_info with the BOLT11 parser as a universally quantified oracle + differential correspondence on an invoice x request cross product",
   text="C10_sound: for EVERY oracle, configuration and request, a request classified as trampoline carries metadata that decodes, an invoice blob that the oracle parses with a valid signature and the HTLC's own payment hash, the amount rule of the property, and passes the self-route-hint rule; C10_self_hint: the disallowed self hint yields temporary_node_failure. Correspondence runs the real private check_htlc on ~3000 combinations built with the plugin's own lightning-invoice crate; the monitor re-checks the property on the implementation's answer, including payee = key recovered from the signature.",
   note="Trusted: Coq kernel; lightning-invoice/secp256k1 as the oracle (parse, check_signature, recover_payee_pub_key); harness. No axioms.", design="6/C10"),
 "C13": dict(technique="Coq proof (definitional no-effect on the global step function + TLV strip lemma) + differential correspondence of classification and payload rewrite",
   text="C13_no_effect: a request the model does not classify as trampoline leaves the global state unchanged and is answered in the same step; C13_answer_shape / C13_rewrite_only_strips: the answer is continue (or the self-hint failure) and a rewritten payload is the decoded stream minus the FIRST type-16 record, every other record re-encoded in order (byte-identical for valid streams by C18). Correspondence: real check_htlc/default_response on malformed payloads/metadata, forwards, unusable invoices, and payloads that are rewritten with records of every BigSize width around the metadata record.",
   note="Trusted: Coq kernel; harness. The 'no RPC call, no state' clause is also monitored on every system trace (SysMon P13). No axioms.", design="6/C13"),
 "C15": dict(technique="Coq proof: inductive invariant over arbitrary event lists of the stand-alone provider machine + exhaustive interleaving exploration of the real wait_payment",
   text="C15_wait: for ANY number of parts in ANY initial status and ANY history (node processes a query, reply delivered, part resolves, any RPC fails), wait_payment returns a preimage only if a part is complete with it and 'none' only if every part has failed at that moment; part-level failure codes do not end the wait while another part is awaited. Proved by an inductive invariant (PInv) preserved by every event. Correspondence: replay-based DFS over ALL interleavings of the real wait_payment for every configuration of <=2 (quick) / <=3 (thorough) parts, random paths beyond, with and without injected errors.",
   note="Trusted: Coq kernel; simulated node = contract N3/N6 (no pay running during the wait; waitsendpay answers only final parts); harness. No axioms.", design="6/C15"),
 "C16": dict(technique="Coq proof: the same inductive invariant in pay mode (pay command creating parts, every contract-respecting outcome) + exhaustive interleaving exploration of the real pay wrapper",
   text="C16_pay: for every initial part configuration, every way the pay command ends (subject to N1-N3) and every later resolution order, the wrapper's Ok carries the preimage of a completed part and its final Err comes only when every part has failed and no pay runs; an Err caused by a failing list/wait RPC is the explicit third outcome (known-finding class KF-B, kf_read_error), C16_needs_N2 records the contract boundary.",
   note="Trusted: Coq kernel; contract N1 (complete carries a part's preimage), N2 (failed without warning only when nothing is pending/complete), N3; harness. No axioms.", design="6/C16"),
 "C03": dict(technique="Coq proof: inductive invariants (uniqueness of the attached lifecycle, entry arithmetic) over ALL event histories of the composite per-hash system + trace correspondence/monitor with the real HtlcManager",
   text="C03_pay_covered: in every reachable state of the composite model (any durable start state, any number of HTLCs, RPC faults, part resolutions, ticks, crashes), a step that issues a pay request has an entry whose held HTLCs sum (unbounded) to at least deliver + base + deliver*ppm/1e6, grants maxfee <= held - deliver, passes no amount for fixed-amount invoices and exactly the declared amount otherwise, and answers nobody in that step; C03_held_until_fate: while the pay request is outstanding only the delivery of its reply makes the plugin answer HTLCs of the hash. Correspondence: the real HtlcManager + ClnDatastore + PayPaymentProvider under a deterministic scheduler on a simulated node (dev and release builds), replayed step by step through the model, plus the property monitor on the implementation's own trace.",
   note="Trusted: Coq kernel; environment contract N1-N6; the step = run-to-quiescence reduction (DESIGN 3.2); harness, simulated node (cross-checked against Node.v on every reply), trace converter. No axioms.", design="6/C03"),
 "C04": dict(technique="Coq proof: step theorem at the initiation of an attempt + doomed-set invariant + trace correspondence/monitor",
   text="C04_initiation: whenever the in-flight marker of a new attempt is issued, the lifecycle records maxdelay = min(clamp_u16((min expiry of the HTLCs held at that step - height of that step) - cltv_delta), policy delta), hence <= both bounds; C04_values_travel / C04_capped_at_pay: the value reaches the pay request unchanged; C04_low_expiry_rejects + C04_doomed_never_paid: a too-low relative expiry arriving before the set is funded dooms the set and no attempt is ever started for a doomed set. Correspondence as for C03 with heights changing between HTLCs and before the pay, expiries around height+delta, negative relative expiries.",
   note="Trusted: as C03. No axioms.", design="6/C04"),
 "C07": dict(technique="Coq proof: step theorem for ALL states and events + doomed-set invariant + trace correspondence/monitor",
   text="C07_same_resolution: for every state and every event, either nobody is answered or every HTLC held for the hash (the arriving one included) is answered in that step with one identical response and the entry is dropped; C07_rejection_dooms / C07_doomed_never_paid: a rejection by any of the four gates in a not-yet-ready set dooms it and no outgoing attempt is started for it. Correspondence: rejecting HTLCs of every kind at every position relative to lifecycle progress.",
   note="Trusted: as C03. No axioms.", design="6/C07"),
 "C11": dict(technique="Coq proof: timer invariant (deadline window) + step theorems at/before the deadline + trace correspondence/monitor on a paused clock",
   text="C11_deadline_window: every lifecycle in the select! has now < deadline <= now + mpp in every reachable state; C11_not_before: a tick short of every deadline changes only the clock; C11_at_timeout: at the deadline every held HTLC gets temporary_trampoline_failure, the entry is dropped, no RPC is issued; C11_restart_bound: the wait is the full timeout after a Free/absent state and timeout-minus-age after an interrupted attempt, never more. Correspondence: ticks to 1 ms before and to the deadline, restarts with stored attempts dated in the past, now and AHEAD of the clock.",
   note="PARTIAL as to real time: the model clock is virtual (tokio's paused clock in the harness); timer-wheel granularity and the OS clock are runtime. Trusted: as C03. No axioms.", design="6/C11"),
 "C14": dict(technique="Coq proof: the global system is a product of per-hash components (locality theorems) + freeze-schedule differential test of the implementation against itself",
   text="C14_event_is_local / C14_htlc_is_local / C14_global_events_pointwise: an event of hash h changes only component h by exactly its per-hash step; ticks, height changes and crashes reach each component independently. Correspondence: hash A frozen at each of 14 lifecycle stages (plus policy-violating stragglers of A) while hash B runs a full payment story; B's responses, calls and node replies must equal B's solo run, and both traces replay through the product model.",
   note="The weight is on the correspondence (a lock held across an await or a shared key shows up as B's output missing or changed). Trusted: as C03. No axioms.", design="6/C14"),
 "C17": dict(technique="Coq proof (framing under every partition of the stream, writer round trip) + real codec/driver correspondence",
   text="C17_chunking: feeding ANY list of read chunks yields exactly the frames of the concatenated stream, each once, in order, with the same remainder (splits inside the separator or a UTF-8 sequence included); C17_writer: whole-message appends decode back to those messages; C17_ids: a completion writes one reply with that id. Correspondence: real MultiLineCodec on every partition of short streams and random partitions of real message streams; the real Builder/PluginDriver in-process on 1..64-byte duplex pipes with handlers finishing in adversarial order.",
   note="PARTIAL: serde_json never emitting a raw newline, FramedWrite::send writing a whole frame under the mutex, and handler-task scheduling are library behaviour (exercised, not proved). No axioms.", design="6/C17"),
 "C19": dict(technique="Coq proof of the option decision table + end-to-end agreement of the real binary (fake lightningd) with it",
   text="C19_config: configure opts = Some c iff every value fits its width, cltv < policy delta, timeouts non-negative, and then c carries exactly those values (retry capped at 65535, allow_self = not flag). Correspondence: the real binary is started against a fake lightningd for boundary assignments of every option; observed: started/refused, policy bytes of a fee failure, retry_for and maxdelay of a pay request, MPP timing, self-route-hint answer.",
   note="PARTIAL: real-time MPP timing within [-0.1,+0.8] s; lightningd's own option parsing not modelled. No axioms.", design="6/C19"),
 "C20": dict(technique="Coq proof (height = fold max of everything told; poll period) + real BlockWatcher on a paused clock",
   text="C20_max: the height equals the maximum of all heights told (startup, polls, notifications) for every event list; C20_never_decreases; C20_poll_period: the next getinfo is issued by the first tick reaching completion+60 s, not before, failed polls included; C20_catch_up: a successful poll carrying v makes the height >= v for ever. Correspondence: real BlockWatcher with stale/repeated/failing inputs and ticks at 59999+1 ms.",
   note="PARTIAL: RPC latency (the delta of the catch-up bound) and the real timer are runtime. No axioms.", design="6/C20"),
 "C01": dict(technique="Coq proof: inductive invariant (every key held in a reply, a Succeeded write or the durable record was produced by the node for this hash) over ALL histories, generic in the key predicate + trace correspondence/monitor",
   text="C01_key: for any predicate good on keys that the environment guarantees for completed parts, 'complete' pay answers and the state found at start (contract N1), every key in every resolve response of every history (any HTLCs, RPC faults, interleavings of lifecycles, crashes, unbounded length) is good; instances: sha key = the component's hash (for any function sha), and key is one of the keys the node itself reported for this hash (completed part / pay answer / durable record); C01_own_hash: an HTLC is handed to the component of its own payment hash because the attached invoice must be for that hash (D1 repair), so no invoice is paid on behalf of an HTLC with another hash. Correspondence: system traces with 25% of HTLCs carrying a hash different from their invoice's; the monitor checks real SHA-256 of every settled key against the HTLC's own hash.",
   note="Trusted: Coq kernel; N1 (a part of hash H completes only with a preimage of H) is the hypothesis ev_good; SHA-256 and BOLT11 parsing are oracles; harness. No axioms.", design="6/C01"),
}

manifest = {
 "version": 1,
 "setup_cmd": "./setup.sh",
 "hooks": {"guard": "breez_trampoline_verif", "enable": "RUSTFLAGS='--cfg breez_trampoline_verif' (no hook exists in /repo: the harness reaches private items by include!/#[path])",
           "baseline_off_cmd": "cd /repo && cargo test --workspace --no-fail-fast --offline", "source_commits": [], "add_only": True},
 "engines": [
   {"name": "coq", "path": "coq", "serves_properties": sorted(CHECKS), "kind_free_text": "Coq 8.16.1 development: executable model (Model/), proofs (Proofs/), property theorems (Props/), boolean monitors and case evaluation (Check/)"},
   {"name": "harness", "path": "harness", "serves_properties": sorted(CHECKS), "kind_free_text": "Rust crate compiling /repo's working tree by #[path]/include!; one sub-command per model component; deterministic scheduler and simulated node"},
 ],
 "checks": [],
 "not_applicable": [],
 "notes": "Every check: ./check <id> quick|thorough. Exit 0 held / 1 VIOLATION / 3 INTERNAL (tooling). See DESIGN.md.",
}
for pid in ALL:
    if pid in CHECKS:
        c = CHECKS[pid]
        manifest["checks"].append({
            "property_id": pid, "quick_cmd": "./check %s quick" % pid, "thorough_cmd": "./check %s thorough" % pid,
            "evidence_file": "evidence/%s.json" % pid, "replay_cmd_template": "./check %s --replay {path}" % pid,
            "engine": "coq+harness", "technique": c["technique"],
            "level_claimed": {"category": "proof", "text": c["text"], "design_ref": c["design"]},
            "level_note": c["note"]})
    else:
        manifest["not_applicable"].append({"property_id": pid, "reason": "check not built yet in this round (planned: DESIGN.md section 6); not claimed until its check is green and has caught a seeded change"})
json.dump(manifest, open(os.path.join(VERIF, "MANIFEST.json"), "w"), indent=1)
print("checks:", [c["property_id"] for c in manifest["checks"]])
