#!/usr/bin/env python3
"""Writes MANIFEST.json from the table below (kept in one place so it stays valid)."""
import json, os
VERIF = os.path.dirname(os.path.dirname(os.path.abspath(__file__)))
props = [json.loads(l) for l in open(os.path.join(VERIF, "properties.jsonl"))]
ALL = [p["id"] for p in props]

CHECKS = {
 "C18": dict(technique="Coq proof (structural induction over the byte list / BigSize grammar) + differential correspondence of the Gallina model with src/tlv.rs",
   text="Totality, decode∘encode and encode∘decode round trips and the tu64 clause are theorems over an executable Gallina model of tlv.rs for ALL byte strings / entry lists (no size bound). The model is tied to the code on every run: the real decoder/encoder is run on exhaustive short strings, boundary BigSize values in every width, truncations at every offset and long values, and Coq recomputes every observation from the model and evaluates the property's boolean monitor on the implementation's output.",
   note="Trusted: Coq kernel + vm_compute; bytes/hex crates; the harness and case converter; agreement model/code is sampled (exhaustive for length<=4/5 over an 8-symbol alphabet). No axioms (Print Assumptions: closed).", design="6/C18"),
 "C12": dict(technique="Coq proof (lia over unbounded N with explicit 64-bit guards) + differential correspondence in overflow-checking and wrapping builds",
   text="fee_sufficient equals the exact unbounded-integer predicate for all u64 x u64 x u32 x u32 outside the recorded known-finding class (64-bit product overflow, where the code is proved to answer 'insufficient'); the failure encoding is proved byte-exact and injective. Correspondence: boundary lattice at the exact threshold +-1 and random values, dev and release builds of the real function.",
   note="Trusted: Coq kernel; harness. Known finding KF-D (product overflow => conservative false) is listed in known_findings.json. The composite clause (first HTLC answered with the policy failure) is covered by the system model.", design="6/C12"),
}

manifest = {
 "version": 1,
 "setup_cmd": "./setup.sh",
 "hooks": {"guard": "breez_trampoline_verif", "enable": "RUSTFLAGS='--cfg breez_trampoline_verif' (no hook exists in /repo: the harness reaches private items by include!/#[path])",
           "baseline_off_cmd": "cd /repo && cargo test --workspace --no-fail-fast --offline", "source_commits": [], "add_only": True},
 "engines": [
   {"name": "coq", "path": "coq", "serves_properties": sorted(CHECKS), "kind_free_text": "Coq 8.16.1 development: executable model (Model/), proofs (Proofs/), property theorems (Props/), boolean monitors and case evaluation (Check/)"},
   {"name": "harness", "path": "harness", "serves_properties": sorted(CHECKS), "kind_free_text": "Rust crate compiling /repo's working tree by #[path]/include!; one sub-command per model component; deterministic scheduler and simulated node"},
 ],
 "checks": [],
 "not_applicable": [],
 "notes": "Every check: ./check <id> quick|thorough. Exit 0 held / 1 VIOLATION / 3 INTERNAL (tooling). See DESIGN.md.",
}
for pid in ALL:
    if pid in CHECKS:
        c = CHECKS[pid]
        manifest["checks"].append({
            "property_id": pid, "quick_cmd": "./check %s quick" % pid, "thorough_cmd": "./check %s thorough" % pid,
            "evidence_file": "evidence/%s.json" % pid, "replay_cmd_template": "./check %s --replay {path}" % pid,
            "engine": "coq+harness", "technique": c["technique"],
            "level_claimed": {"category": "proof", "text": c["text"], "design_ref": c["design"]},
            "level_note": c["note"]})
    else:
        manifest["not_applicable"].append({"property_id": pid, "reason": "check not built yet in this round (planned: DESIGN.md section 6); not claimed until its check is green and has caught a seeded change"})
json.dump(manifest, open(os.path.join(VERIF, "MANIFEST.json"), "w"), indent=1)
print("checks:", [c["property_id"] for c in manifest["checks"]])
