"""Provider engine (C15, C16): the real wait_payment / pay alone on the simulated node, all interleavings
of small configurations exhaustively and random paths of larger ones."""
import json, itertools, collections
from vlib import *

HDR = "From Tramp Require Import Model.Base Model.Node Model.Provider Model.ProviderSys Check.Common Check.ProviderCheck.\nOpen Scope N_scope."

def configs(mode, tier):
    T = tier == "thorough"
    out = []
    sts = ["pend", "fail", "done"]
    maxn = 3 if T else 2
    for n in range(0, maxn + 1):
        for combo in itertools.product(sts, repeat=n):
            out.append(list(combo))
    if T: out += [["pend"] * 4, ["pend", "pend", "pend", "fail"], ["pend", "pend", "done", "pend"]]
    else: out += [["pend"] * 3, ["pend", "fail", "pend"]]
    return out

def pstat(p, pre):
    return {"pend": "PPend", "fail": "PFailed"}.get(p, "(PDone %s)" % coq_bytes(pre))

def term(mode, t):
    pre = t["preimage"]
    parts0 = coq_list([pstat(p, pre) for p in t["parts"]])
    steps = []
    for ev, st in zip(t["events"], t["steps"]):
        k = ev["e"]
        if k == "start": e = "None"
        elif k == "proc":
            f = {"none": "NoFault", "rej": "Rejected", "abe": "AppliedButError", "timeout": "Rejected"}[ev["fault"]]
            e = "(Some (PvProcess %d%%nat %s))" % (ev["c"], f)
        elif k == "deliver": e = "(Some (PvDeliver %d%%nat))" % ev["c"]
        elif k == "part": e = "(Some (PvPart %d%%nat %s))" % (ev["pid"], "(PDone %s)" % coq_bytes(pre) if ev["st"] == "done" else "PFailed")
        elif k == "newpart": e = "(Some (PvNewPart %d%%nat))" % ev["c"]
        elif k == "payfin":
            o = ev["out"]
            out = "(PayComplete %s)" % coq_bytes(pre) if o == "complete" else {"pending": "PayPending", "failed_warn": "PayFailedWarn", "failed": "PayFailed"}.get(o, "PayError")
            e = "(Some (PvPayFinish %d%%nat %s))" % (ev["c"], out)
        calls, cancels = [], []
        for o in st.get("out", []):
            if o["o"] == "call":
                q = o["q"]; kk = q["k"]
                if kk == "listpend": calls.append("QListPend")
                elif kk == "listdone": calls.append("QListDone")
                elif kk == "wait" and q["pid"] is not None:
                    # a wait that carries a timeout is outside the model's vocabulary (reported as such); it is lowered to the plain wait
                    calls.append("(QWaitPart %d%%nat)" % q["pid"])
                elif kk == "pay" and q["other"] == "None|None|None|None|None|None|Some(20)":
                    calls.append("(QPay [] %s %s %d %d)" % (coq_opt(q["amount"], str), q["maxfee"], q["maxdelay"], q["retry"]))
                else: calls.append("QListState")    # anything else: will not match the model
            elif o["o"] == "cancel": cancels.append("%d%%nat" % o["c"])
        rep = "None"
        if "reply" in st:
            y = st["reply"]; kk = y["y"]
            rr = {"none": "None", "partfailed": "(Some YPartFailed)", "err": "(Some YErr)"}.get(kk)
            if kk == "pids": rr = "(Some (YPids %s))" % coq_list(["%d%%nat" % p for p in y["l"]])
            if kk == "pres": rr = "(Some (YPres %s))" % coq_list([coq_bytes(p) for p in y["l"]])
            if kk == "pre": rr = "(Some (YPre %s))" % coq_bytes(y["p"])
            if rr is None: rr = "(Some YErr)"
            rep = "(Some %s)" % rr
        steps.append("{| po_ev := %s; po_calls := %s; po_cancels := %s; po_reply := %s; po_timeout := %s |}" % (e, coq_list(calls), coq_list(cancels), rep, coq_bool(ev.get("fault") == "timeout")))
    r = t["result"]
    res = "None" if r is None else "(Some PNone)" if r == "none" else "(Some PErr)" if r == "err" else "(Some (POk %s))" % coq_bytes(r["ok"])
    return "(%s, %s, %s, %s)" % (coq_bool(mode == "wait"), parts0, coq_list(steps), res)

def run_provider(prop, tier, seed):
    mode = "wait" if prop == "C15" else "pay"
    o = Outcome(prop, tier, seed)
    T = tier == "thorough"
    o.rule = ("the real %s on the simulated node for every initial configuration of up to %d parts (each pending / failed / complete) plus a few larger ones; for each, replay-based DFS over "
              "ALL interleavings of {node processes an RPC, reply delivered, a pending part resolves done/failed(202/203/204/209), pay creates a part, pay finishes in each contract-respecting way} "
              "up to the path cap, then random paths; with and without injected RPC errors. Non-trivial: the call finished with a result (ok / none / err); distinct = distinct event list" %
              ("wait_payment" if mode == "wait" else "pay wrapper", 3 if T else 2))
    o.assumptions = ["contract N1-N3, N6 of DESIGN 3.3 (checked on every trace by pwf)", "no pay command is running during wait_payment"]
    o.proof = proof_stage(prop, ["theories/Props/%s.vo" % prop, "theories/Check/ProviderCheck.vo"])
    ok, log, binary = harness_build("dev")
    if not ok:
        o.corr_failures.append(("harness does not compile against /repo's working tree: " + log[-1500:], {"build_log": log[-3000:]}))
        return finish(o)
    lines = []
    cap = 4000 if T else 500
    for faults in (False, True):
        for parts in configs(mode, tier):
            lines.append(json.dumps({"mode": mode, "parts": parts, "explore": {"max_paths": cap if not faults else cap // 4, "seed": seed, "salt": len(lines), "faults": faults,
                                                                                "max_new": 2 if T else 1, "max_len": 40}}))
    try:
        outs = harness_run(binary, "provider", lines, shards=NCPU, timeout=1500)
        traces = [t for x in outs for t in x["traces"]]
        o.extra["configurations"] = len(lines)
        o.extra["configurations_explored_exhaustively"] = sum(1 for x in outs if x["exhaustive"])
        verdicts = eval_cases_list(prop, HDR, [term(mode, t) for t in traces],
                                   "fun c => let '(wm, p0, tr, res) := c in provider_verdict wm p0 (QPay [] None 5000 144 60) tr res",
                                   "bool * list pstat * list pstep_obs * option pres", per_shard=60)
    except RuntimeError as ex:
        o.corr_failures.append(("could not evaluate cases: %s" % str(ex)[-1500:], {}))
        return finish(o)
    dist = collections.Counter()
    for t, v in zip(traces, verdicts):
        bad, k, resbad, mon, rf, shape = v
        o.evaluations += 1; o.traces_validated += 1
        dist["result_" + ["unfinished", "ok", "none", "err"][shape]] += 1
        if rf: dist["with_injected_read_error"] += 1
        if shape: o.nontrivial.add(json.dumps(t["events"], sort_keys=True) + json.dumps(t["parts"]))
        desc = "%s with parts %s, %d events %s => result %s" % (mode, t["parts"], len(t["events"]), json.dumps(t["events"])[:500], json.dumps(t["result"]))
        oov = [x["q"] for st in t["steps"] for x in st.get("out", []) if x["o"] == "call" and x["q"]["k"] == "wait" and x["q"].get("timeout") is not None]
        if oov and not t.get("_oov_reported"):
            o.corr_failures.append(("the implementation issued a request the model's vocabulary does not contain (waitsendpay with a timeout): %s; %s" % (json.dumps(oov[0]), desc), t))
        if bad:
            o.internal.append("contract violated by generated history: " + desc); continue
        if mon:
            o.monitor_failures.append((desc, t))
        if k or resbad:
            o.corr_failures.append(("model and implementation differ at step %d (result mismatch=%d): %s" % (k, resbad, desc), t))
    o.distribution = dict(dist)
    o.samples = [traces[len(traces) // 3], traces[-1]]
    return finish(o)
