"""System engine: shared runner for the composite properties (C01-C09, C11, ...).
Each property has its own scenario families; every trace is replayed through the model
(correspondence) and through the monitors (Check/SysMon.v) by one coqc evaluation."""
import json, time, collections
from vlib import *
from sysgen import *
from sysconv import Conv
import world as W

HDR = ("From Tramp Require Import Model.Base Model.Tlv Model.Fee Model.Classify Model.Sys Check.Common Check.SysCheck Check.SysMon.\n"
       "Open Scope N_scope.")

# known-finding class per property: (class name, bit of the monitor's kf mask). C05/C08 are proved with read errors allowed
# everywhere except inside pay()'s wait_payment, so only that narrower class excuses a violation there.
KF_CLASS = {"C05": ("kf_pay_wait_read_error", 2), "C08": ("kf_pay_wait_read_error", 2)}
def kf_class(prop): return KF_CLASS.get(prop, ("kf_read_error", 1))

PROP_BIT = {"C01": 1, "C02": 2, "C03": 3, "C04": 4, "C05": 5, "C06": 6, "C07": 7, "C08": 8, "C09": 9, "C11": 11, "C12": 12, "C13": 13}

def build_invoices(binary, cases):
    lines = []
    for c in cases:
        for d in c["invoices"]:
            lines.append(json.dumps({"mkinv": d}))
    outs = harness_run(binary, "classify", lines, shards=NCPU) if lines else []
    k = 0
    prepared = []
    for c in cases:
        b = [outs[k + i]["bolt11"] for i in range(len(c["invoices"]))]
        k += len(c["invoices"])
        cc = {kk: v for kk, v in c.items() if not kk.startswith("_") or kk in ("_pool", "_script")}
        if "_probe" in c:
            pr = finalize_htlc(c["_probe"], b)
            def fill(l):
                return [pr | {"probe": True} if (isinstance(e, dict) and e.get("probe") and "_inv" in e) else e for e in l]
            for key in ("suffix", "after_crash"):
                if key in cc: cc[key] = fill(cc[key])
        prepared.append(prepare(cc, b))
    return prepared

def first_probe_uid(trace):
    for e in trace["events"]:
        if e["e"] == "htlc" and e.get("probe"):
            return e["uid"]
        if e["e"] == "burst":
            for it in e["items"]:
                if it.get("probe"): return it["uid"]
    return None

def run_traces(binary, cases, tag):
    prepared = build_invoices(binary, cases)
    traces = harness_run(binary, "system", [json.dumps(c) for c in prepared], shards=NCPU, timeout=1500)
    keep = [(c, t) for c, t in zip(cases, traces) if not t["skewed"]]
    terms = []
    for c, t in keep:
        pu = first_probe_uid(t) if c.get("probe") else None
        finale = bool(c.get("suffix") or c.get("after_crash"))
        terms.append("(%s, %s, %s)" % (Conv(t).term(), coq_bool(finale), coq_opt(pu, str)))
    verdicts = eval_cases_list(tag, HDR, terms, "fun c => let '(wt, fin, pu) := c in sys_verdict (fst wt) fin pu (snd wt)",
                               "(world * list tstep) * bool * option N", per_shard=6)
    return keep, verdicts, len(traces) - len(keep)

def summarize(trace):
    evs = collections.Counter(e["e"] + ("/" + e["fault"] if e["e"] == "proc" and e.get("fault", "none") != "none" else "") for e in trace["events"])
    outs = collections.Counter()
    for s in trace["steps"]:
        for o in s["out"]:
            outs[o["o"] + (":" + o["q"]["k"] if o["o"] == "call" else "")] += 1
    return evs, outs

def brief(trace, upto=None):
    """Readable rendering of a trace for replay files."""
    lines = []
    for k, (e, s) in enumerate(zip(trace["events"], trace["steps"]), 1):
        if upto and k > upto: break
        ee = {kk: v for kk, v in e.items() if kk not in ("req", "epoch", "orig")}
        if e["e"] == "burst":
            ee = {"e": "burst", "items": [{"uid": it["uid"], "amt": it["req"]["htlc"]["amount_msat"], "exp": it["req"]["htlc"]["cltv_expiry"], "rel": it["req"]["htlc"]["cltv_expiry_relative"],
                                            "total": it["req"]["onion"].get("total_msat"), "hash": it["req"]["htlc"]["payment_hash"][:8]} for it in e["items"]]}
        if e["e"] == "htlc":
            rq = e["req"]
            ee.update(amt=rq["htlc"]["amount_msat"], exp=rq["htlc"]["cltv_expiry"], rel=rq["htlc"]["cltv_expiry_relative"],
                      total=rq["onion"].get("total_msat"), fwd=rq["onion"].get("forward_msat"), hash=rq["htlc"]["payment_hash"][:8])
        lines.append("%d %s => %s%s" % (k, json.dumps(ee, sort_keys=True), json.dumps(s["out"], sort_keys=True)[:600],
                                         (" reply=" + json.dumps(s["reply"])) if "reply" in s else ""))
    return lines

def runnable(c):
    """The part of a generated case that is needed to run it again (JSON-serialisable)."""
    return {k: v for k, v in c.items() if not k.startswith("_") or k in ("_pool", "_script", "_probe")}

def replay_case(prop, path):
    """./check <prop> --replay <file>: runs the recorded case again on the CURRENT /repo tree, replays the resulting trace
    through the model and the monitor, and says whether the violation is still there."""
    d = json.load(open(path))
    c = d.get("case") or {}
    while isinstance(c, dict) and "_script" not in c and isinstance(c.get("case"), dict):
        c = c["case"]
    if not (isinstance(c, dict) and "_script" in c):
        return None
    profile = d.get("profile") or (d.get("case") or {}).get("profile") or "dev"
    ok, log, binary = harness_build(profile)
    if not ok:
        print("VIOLATION property=%s replay=%s no-failing-input-found" % (prop, path)); print("  harness does not build: " + log[-300:]); return 1
    keep, verdicts, skewed = run_traces(binary, [c], prop + "replay")
    if not keep:
        print("REPLAY property=%s: the trace straddled a wall-clock second and was discarded; run again" % prop); return 3
    (c, t), v = keep[0], verdicts[0]
    bad, k_out, k_reply, mask, first, kf, npay, nsteps = v
    bit = PROP_BIT[prop]
    for l in brief(t, (first or k_out or nsteps) + 1)[-8:]:
        print("  " + l[:400])
    oov = Conv(t).out_of_vocabulary()
    if oov and not (Conv(t).interpretable() and not bad and not k_reply and mask & (1 << bit)):
        print("VIOLATION property=%s replay=%s no-failing-input-found" % (prop, path))
        print("  at step %d the implementation issues an output the model's vocabulary does not contain: %s" % (oov[0][0], json.dumps(oov[0][1])[:300])); return 1
    if bad or k_reply:
        print("INTERNAL: the replayed trace is not a contract-respecting history (bad=%s, reply mismatch at %s)" % (bad, k_reply)); return 3
    if mask & (1 << bit):
        kfname, kfbit = kf_class(prop)
        if kf & kfbit and any(k.get("property") == prop and k.get("status") == "known" and k.get("class") == kfname for k in load_known()):
            print("KNOWN-FINDING: property=%s replay reproduces the recorded class %s (first violation at step %d)" % (prop, kfname, first)); return 0
        print("VIOLATION property=%s replay=%s" % (prop, path)); print("  property monitor fails at step %d of the re-run history" % first); return 1
    if k_out:
        print("VIOLATION property=%s replay=%s no-failing-input-found" % (prop, path)); print("  implementation and model differ at step %d of the re-run history" % k_out); return 1
    print("OK property=%s replay: the recorded case runs clean on the current tree (%d steps, %d pay calls)" % (prop, nsteps, npay)); return 0

def corpus_cases(prop):
    """Committed witnesses (corpus/<prop>/*.json with a runnable "case"): replayed first in every tier."""
    d = os.path.join(VERIF, "corpus", prop)
    out = []
    if os.path.isdir(d):
        for f in sorted(os.listdir(d)):
            if f.endswith(".json"):
                c = json.load(open(os.path.join(d, f))).get("case")
                if c and "_script" in c:
                    c = dict(c); c["family"] = "corpus/" + f[:-5]
                    out.append(c)
    return out

def run_property(prop, tier, seed, gen, rule, assumptions, pins_targets=None, profiles=("dev",), extra_check=None):
    o = Outcome(prop, tier, seed)
    o.rule = rule
    o.assumptions = assumptions
    o.proof = proof_stage(prop, pins_targets or ["theories/Props/%s.vo" % prop, "theories/Check/SysMon.vo"])
    bit = PROP_BIT[prop]
    dist_ev, dist_out = collections.Counter(), collections.Counter()
    fam = collections.Counter()
    pays = 0
    for profile in profiles:
        ok, log, binary = harness_build(profile)
        if not ok:
            o.corr_failures.append(("harness (%s) does not compile against /repo's working tree: %s" % (profile, log[-1500:]), {"build_log": log[-3000:]}))
            return finish(o)
        cases = corpus_cases(prop) + gen(tier, seed)
        try:
            keep, verdicts, skewed = run_traces(binary, cases, prop + profile)
        except RuntimeError as ex:
            o.corr_failures.append(("could not run/evaluate traces: %s" % str(ex)[-2000:], {}))
            return finish(o)
        o.extra["traces_discarded_clock_skew"] = o.extra.get("traces_discarded_clock_skew", 0) + skewed
        for (c, t), v in zip(keep, verdicts):
            bad, k_out, k_reply, mask, first, kf, npay, nsteps = v
            o.evaluations += 1
            o.traces_validated += 1
            fam[c["family"].split("/")[0] + "/" + c["family"].split("/")[1] if "/" in c["family"] else c["family"]] += 1
            e1, o1 = summarize(t); dist_ev.update(e1); dist_out.update(o1)
            pays += npay
            if npay > 0 or e1.get("crash") or any(k.startswith("proc/") for k in e1):
                o.nontrivial.add(json.dumps(t["events"], sort_keys=True)[:4000])
            desc_head = "[%s build] family %s, %d events" % (profile, c["family"], nsteps)
            oov = Conv(t).out_of_vocabulary()
            if oov:
                # not a tooling error: the implementation said something the model cannot say. The correspondence is broken
                # at that step; the monitors cannot interpret the rest of this trace.
                k0, o0 = oov[0]
                o.corr_failures.append((desc_head + ": at step %d the implementation issued %s, which the model's vocabulary does not contain: %s" % (
                                            k0, "a request" if o0["o"] == "call" else "an output", json.dumps(o0)[:300]),
                                        {"profile": profile, "family": c["family"], "step": k0, "history": brief(t, k0 + 1), "case": runnable(c), "trace": t}))
                # when every such output has a lowering the monitors can still read the trace: go on and look for a failing input
                if not Conv(t).interpretable(): continue
                k_out = 0
            if bad:
                o.internal.append(desc_head + ": the trace violates the environment contract / simulated node disagrees")
                continue
            if k_reply:
                o.internal.append(desc_head + ": simulated node reply differs from Node.v at step %d" % k_reply)
                continue
            kfname, kfbit = kf_class(prop)
            if prop == "C06" and (kf & 1) and any(x.get("o") == "panic" for st in t["steps"] for x in st["out"]):
                # the monitor waives C06 inside the class; the panic (KF-A) is what is observed on the implementation
                o.kf_hits["kf_read_error"] = o.kf_hits.get("kf_read_error", 0) + 1
            if mask & (1 << bit):
                payload = {"profile": profile, "family": c["family"], "first_violation_step": first, "violated_mask": mask,
                           "history": brief(t, first + 2), "case": runnable(c), "trace": t}
                if kf & kfbit:
                    o.kf_hits[kfname] = o.kf_hits.get(kfname, 0) + 1
                else:
                    o.monitor_failures.append((desc_head + ": property monitor fails at step %d: %s" % (first, " | ".join(brief(t, first)[-3:])[:700]), payload))
            if k_out:
                o.corr_failures.append((desc_head + ": implementation and model differ at step %d: %s" % (k_out, " | ".join(brief(t, k_out)[-2:])[:700]),
                                        {"profile": profile, "family": c["family"], "step": k_out, "history": brief(t, k_out + 1), "case": runnable(c), "trace": t}))
        if keep:
            c, t = keep[len(keep) // 2]
            o.samples.append({"family": c["family"], "profile": profile, "history": brief(t)[:40]})
    o.distribution = {"families": dict(fam), "events": dict(dist_ev), "implementation_outputs": dict(dist_out), "pay_calls": pays}
    if extra_check:
        extra_check(o)
    def search():
        if tier == "thorough": return None
        ok, log, binary = harness_build("dev")
        keep, verdicts, _ = run_traces(binary, gen("thorough", seed + 1)[:600], prop + "search")
        for (c, t), v in zip(keep, verdicts):
            if v[3] & (1 << bit) and not v[0] and not (v[5] & kf_class(prop)[1]):
                return ("family %s: property monitor fails at step %d: %s" % (c["family"], v[4], " | ".join(brief(t, v[4])[-3:])[:700]),
                        {"family": c["family"], "first_violation_step": v[4], "history": brief(t, v[4] + 2), "case": runnable(c), "trace": t})
        return None
    return finish(o, search)

# ------------------------------------------------------------------------------------------
# generators per property
# ------------------------------------------------------------------------------------------
def walks(r, n, families=("default", "faulty", "crashy", "slow"), nhash=(1, 2), steps=140):
    out = []
    for i in range(n):
        c = walk_case(r.fork(), families[i % len(families)], nhash=nhash[i % len(nhash)], steps=steps)
        c["suffix"] = [{"e": "finale"}]
        out.append(c)
    return out

def bursts(r, n):
    """Sets whose HTLCs arrive concurrently while the table lock is contended (1-4 pieces, with and without a rejecting one)."""
    kinds = ["low_expiry", "low_total", "other_invoice", "other_amount", "near_hash"]
    out = []
    for i in range(n):
        rej = (kinds[i % 4], (i // 4) % 4) if i % 3 == 2 else None
        out.append(story_case(r.fork(), ending=PAY_ENDINGS[i % len(PAY_ENDINGS)], npieces=2 + i % 3, reject=rej, burst=True))
    return out

def stories(r, n, **kw):
    return [story_case(r.fork(), ending=PAY_ENDINGS[i % len(PAY_ENDINGS)], **kw) for i in range(n)]

def reject_stories(r, n, **kw):
    kinds = ["low_expiry", "low_total", "other_invoice", "other_amount", "near_hash"]
    # every other "other_amount" story uses ONE amountless invoice whose parts disagree on the declared amount
    return [story_case(r.fork(), ending=r.choice(PAY_ENDINGS), reject=(kinds[i % 5], (i // 5) % 4 + (i // 20) * 4 if kinds[i % 5] == "near_hash" else (i // 5) % 4), npieces=1 + (i // 20) % 3,
                       amountless=((kinds[i % 5] == "other_amount" and (i // 5) % 2 == 0) or (kinds[i % 5] == "other_invoice" and (i // 5) % 4 == 1)), **kw) for i in range(n)]

def crash_sweep(r, nbase, stride, probe=False, **kw):
    out = []
    for i in range(nbase):
        base = story_case(r.fork(), ending=PAY_ENDINGS[(i * 7 + r.below(3)) % len(PAY_ENDINGS)], **kw)
        vs = crash_variants(r, base, 46, stride)
        out += [add_probe(v) for v in vs] if probe else vs
    return out

def fault_sweep(r, nbase, kinds=("rej", "abe"), probe=False, kind="write", nk=9, **kw):
    out = []
    for i in range(nbase):
        base = story_case(r.fork(), ending=PAY_ENDINGS[(i * 5 + r.below(3)) % len(PAY_ENDINGS)], **kw)
        for k in range(0, nk):
            c = dict(base)
            c["fault_at"] = [{"k": k, "kind": kind, "fault": kinds[(i + k) % len(kinds)], "err": r.choice(["transport", "-1", "210", "nocode"])}]
            c["family"] = base["family"] + "/%sfault@%d" % (kind, k)
            out.append(add_probe(c, crash=(i + k) % 2 == 0) if probe else c)
    return out


# ------------------------------------------------------------------------------------------
# property table
# ------------------------------------------------------------------------------------------
COMMON_ASSUME = ["environment contract N1-N6 (DESIGN 3.3): CLN datastore semantics (modes, generation), parts only created by a running pay command, part status monotone, "
                 "pay answers 'failed' without warning only when no part is pending/complete, a part completes only with a preimage of its hash",
                 "SHA-256 and BOLT11 parsing/signature recovery are oracles (the harness computes them with the plugin's own crates)",
                 "one model step = one task segment (an environment event and what the task it wakes does until its next await); the lifecycle's look at its ready/fail queues is its own event (EvPoll), so HTLCs overtaking a lagging lifecycle are in the model; the harness shows the HTLC segment and the poll back to back, or (burst events) several handle_htlc segments queued on the held table lock followed by the polls; other interleavings of the multi-threaded runtime rest on the reduction argument of DESIGN 3.2, not on Coq",
                 "injected errors on READ rpcs (thorough tier only, plus the committed witnesses) fall in the known-finding classes: kf_read_error for C02/C06 (any read), kf_pay_wait_read_error for C05/C08 (only reads of the wait_payment inside pay(); read errors elsewhere do not excuse a violation)"]
BASE_RULE = ("scripted payment stories (15 ways a pay can end, incl. a part in flight for longer than the payment timeout x 1-3 HTLC pieces x rejecting HTLC kinds/positions), the same stories with a whole-node crash injected before "
             "every k-th primitive event followed by replay of the unanswered HTLCs and a drain, with a rejected / applied-but-error datastore write at every write position, "
             "and random walks over enabled events (weights in harness/src/cmd_system.rs); every trace is replayed through the Coq model (correspondence) and through the "
             "property monitor (Check/SysMon.v) by vm_compute. Non-trivial: the trace contains a pay request, a crash or an injected fault; distinct = distinct event list. ")

def gen_for(prop):
    def gen(tier, seed):
        r = SplitMix64(seed * 7919 + PROP_BIT[prop])
        T = tier == "thorough"
        k = 4 if T else 1
        cs = []
        if prop == "C01":
            cs += stories(r, NEND * k); cs += reject_stories(r, 25 * k)
            cs += walks(r, 60 * k * (3 if T else 1), nhash=(2, 2, 1))
            cs += crash_sweep(r, 2 * k, 3)
        elif prop in ("C02", "C05"):
            cs += stories(r, NEND * k)
            cs += [straggler_case(r.fork()) for _ in range(30 * k)]
            cs += [straggler_crash_case(r.fork()) for _ in range(24 * k)]
            cs += stories(r, 2 * NEND * k, second=True)
            # two parts in flight, the first one failing with each documented code, then a second funded set
            cs += [story_case(r.fork(), ending=e, second=True, code0=code) for e in ("two_parts_both_fail", "two_parts_one_done") for code in FAIL_CODES]
            cs += [one_failed_other_pending_case(r.fork(), code) for code in FAIL_CODES for _ in range(k)]
            cs += crash_sweep(r, (22 if T else 4), 1 if T else 2)
            cs += fault_sweep(r, 11 if T else 3)
            cs += fault_sweep(r, 4 * k, kind="pay", nk=2)
            cs += walks(r, 300 if T else 40, families=("default", "faulty", "crashy"))
            if T:
                cs += fault_sweep(r, 11, kind="read", nk=8); cs += walks(r, 60, families=("readfaults",))
        elif prop == "C03":
            cs += [story_case(r.fork(), ending=r.choice(PAY_ENDINGS), late_extra="any", npieces=1 + i % 3) for i in range(8 * k)]
            # amounts whose policy fee does not fit 32 bits (>= 2^32 msat), with a part declaring a total just below the requirement
            cs += [story_case(r.fork(), ending=r.choice(PAY_ENDINGS), reject=(["low_total", "low_total_solo"][i % 2], i % 3), amount=[10**12, 10**15, 2 * 10**12, 1000, 10**9][i % 5], npieces=1 + i % 2)
                   for i in range(10 * k)]
            cs += [story_case(r.fork(), ending=r.choice(PAY_ENDINGS), reject=("huge_solo", i), npieces=1, cfg=mk_cfg(r.fork(), policy=[[1000, 0, 144], [1, 5000, 144], [0, 1, 40], [4294967295, 0, 144]][i % 4]))
                   for i in range(4 * k)]
            for amount in ([1, 1000, 21000, 10**6, 10**9, 10**12, 2**32 - 1, 2**32 + 1, 10**18] if T else [1, 21000, 10**9, 2**32 + 1, 10**12]):
                cs += [story_case(r.fork(), ending=r.choice(PAY_ENDINGS), amount=amount, npieces=1 + i % 3) for i in range(6 if T else 3)]
            cs += reject_stories(r, 16 * k); cs += bursts(r, 12 * k)
            cs += crash_sweep(r, 2 * k, 3)
            cs += walks(r, 200 if T else 40)
        elif prop == "C04":
            cs += [story_case(r.fork(), ending="complete", heights=True) for _ in range(60 * k)]
            cs += [story_case(r.fork(), ending="complete", heights=True, late_extra="low_expiry", npieces=1 + i % 3) for i in range(12 * k)]
            cs += reject_stories(r, 24 * k)
            cs += walks(r, 200 if T else 40, families=("default", "slow"))
        elif prop == "C06":
            cs += stories(r, NEND * k); cs += reject_stories(r, 16 * k); cs += bursts(r, 12 * k)
            cs += [odd_case(r.fork()) for _ in range(20 * k)]
            cs += [odd_all_case(r.fork(), lo, lo + 12) for lo in range(0, 84, 12)]
            cs += crash_sweep(r, 2 * k, 3); cs += fault_sweep(r, 3 * k); cs += fault_sweep(r, 2 * k, kind="pay", nk=2)
            cs += restart_fault_cases(r, 10 * k, probe=False)
            cs += walks(r, 300 if T else 50, families=("default", "faulty", "crashy", "slow"))
            if T:
                cs += fault_sweep(r, 6, kind="read", nk=8); cs += walks(r, 60, families=("readfaults",))
        elif prop == "C07":
            cs += reject_stories(r, 48 * k); cs += stories(r, NEND * k); cs += bursts(r, 24 * k)
            cs += walks(r, 200 if T else 40)
            cs += crash_sweep(r, 2 * k, 3)
            # the handler task of one held HTLC has gone away (a closed listener): the others are still resolved together
            kinds = ["low_expiry", "low_total", "other_invoice", "other_amount"]
            cs += [story_case(r.fork(), ending=r.choice(PAY_ENDINGS), npieces=3, hangup=(1 + i % 3, i)) for i in range(12 * k)]
            cs += [story_case(r.fork(), ending=r.choice(PAY_ENDINGS), npieces=3, reject=(kinds[i % 4], 2), hangup=(1 + i % 2, i)) for i in range(8 * k)]
        elif prop == "C09":
            cs += [add_probe(c) for c in stories(r, NEND * k)]
            cs += crash_sweep(r, (22 if T else 5), 1 if T else 2, probe=True)
            cs += fault_sweep(r, 11 if T else 4, probe=True)
            cs += fault_sweep(r, 4 * k, kind="pay", nk=2, probe=True)
            cs += restart_fault_cases(r, 20 * k, probe=True)
        elif prop == "C11":
            cs += timeout_cases(r, 40 * k)
            cs += restart_history_cases(r, 30 * k)
            cs += reject_stories(r, 16 * k)
            cs += crash_sweep(r, 3 * k, 2)
            cs += walks(r, 150 if T else 30, families=("slow", "default"))
        return cs
    return gen

def timeout_cases(r, n):
    """Incomplete sets over virtual time: 1 ms before the deadline nothing happens, at the deadline everything is failed."""
    out = []
    for i in range(n):
        rr = r.fork()
        mpp = rr.choice([1000, 5000, 60000, 60000, 4294967296000, 0]) if i % 5 else 60000
        cfg = mk_cfg(rr, mpp_ms=mpp)
        b = CaseBuilder(rr, cfg, 1)
        amount = rr.choice([1000000, 21000])
        inv = b.add_invoice(0, amount)
        need = fee_needed(cfg["policy"], amount)
        pieces = [need // 3, need // 3]
        script = [b.htlc(inv, pieces[0], need), {"e": "drain"}]
        gap = rr.below(max(1, min(mpp, 40000) // 1000)) * 1000
        if gap: script.append({"e": "tick", "ms": gap})
        script += [b.htlc(inv, pieces[1], need), {"e": "drain"}]
        left = mpp - gap
        if left > 1:
            script += [{"e": "tick", "ms": left - 1}, {"e": "tick", "ms": 1}]
        script += [{"e": "tick", "ms": 1000}]
        c = {"cfg": cfg, "invoices": b.invoices, "preimages": b.preimages, "_script": script, "family": "timeout/mpp%d" % mpp, "suffix": [{"e": "finale"}]}
        if i % 3 == 0:
            # with a restart in the middle: the replayed set gets at most one further timeout
            c["crash_at"] = [4 + rr.below(4)]
            c["after_crash"] = [{"e": "tick", "ms": 1000 * rr.choice([1, 10, 59, 61])}, {"e": "replay_unanswered"}, {"e": "drain"},
                                {"e": "tick", "ms": max(1000, (mpp // 1000) * 1000 - 1000)}, {"e": "tick", "ms": 1000}, {"e": "finale"}]
            c["family"] += "/restart"
        out.append(c)
    return out

def restart_history_cases(r, n):
    """Stored histories a restart can find: a Pending record dated long ago, just now, or AHEAD of the clock (clock stepped back),
    with no parts / failed parts; an incomplete set is replayed and must be failed after at most one timeout."""
    out = []
    for i in range(n):
        rr = r.fork()
        mpp = rr.choice([5000, 60000, 60000, 120000])
        cfg = mk_cfg(rr, mpp_ms=mpp)
        b = CaseBuilder(rr, cfg, 1)
        amount = 1000000
        inv = b.add_invoice(0, amount)
        need = fee_needed(cfg["policy"], amount)
        start = rr.choice([0, 1000, 100000])
        dated = rr.choice([0, start, start + 1000, start + 4000, start + mpp, start + 10 * mpp, max(0, start - mpp // 2 // 1000 * 1000), max(0, start - 1000)])
        if i % 4 == 3:
            # ages that are not whole seconds, around the timeout: the record is dated in whole seconds, the clock is not
            dated = rr.choice([0, 1000, 7000])
            start = dated + mpp + rr.choice([-500, -1, 1, 500, 999, 1000, 1500])
        script = []
        if start: script.append({"e": "tick", "ms": start})
        script += [b.htlc(inv, need // 2, need), {"e": "drain"}]
        # no response may come before the remaining time is over, and it must come when it is
        remaining = mpp if dated >= start else max(0, mpp - (start - dated))
        if remaining > 1000:
            script += [{"e": "tick", "ms": remaining - 1000}, {"e": "tick", "ms": 1000}]
        script += [{"e": "tick", "ms": 1000}]
        out.append({"cfg": cfg, "invoices": b.invoices, "preimages": b.preimages, "_script": script, "suffix": [{"e": "finale"}],
                    "init": [{"h": 0, "state": {"pending_t_ms": dated, "gen": rr.below(3)}, "parts": rr.choice([[], ["fail"], ["fail", "fail"]])}],
                    "family": "restart_history/%s" % ("future" if dated > start else "past" if dated < start else "now")})
    return out

def restart_fault_cases(r, n, probe=True):
    """A restart finds a Pending record of an interrupted attempt (no part, or only failed parts, not aged); a fully funded set is
    replayed; one of the datastore writes of the recovery path (mark_failed: attempt record, state record; then the new attempt's
    records) is rejected / applied-but-reported-failed. Afterwards everything must still work: the finale and (C09) the probe set."""
    out = []
    kinds = ["rej", "abe"]
    for i in range(n):
        rr = r.fork()
        cfg = mk_cfg(rr, mpp_ms=rr.choice([60000, 120000]))
        b = CaseBuilder(rr, cfg, 1)
        amount = rr.choice([1000000, 21000])
        inv = b.add_invoice(0, amount)
        need = fee_needed(cfg["policy"], amount)
        start = rr.choice([0, 1000, 30000])
        pieces = split_amount(rr, need, 1 + i % 2)
        script = []
        if start: script.append({"e": "tick", "ms": start})
        for p_ in pieces:
            script += [b.htlc(inv, p_, need, expiry=2400, rel=cfg["policy"][2] + 100), {"e": "drain_step"}, {"e": "drain_step"}]
        script += [{"e": "drain"}] + pay_ending(rr, rr.choice(["complete", "failed_noparts", "pending_then_done"])) + [{"e": "drain"}]
        k = (i // 2) % 5
        c = {"cfg": cfg, "invoices": b.invoices, "preimages": b.preimages, "_script": script, "suffix": [{"e": "finale"}],
             "init": [{"h": 0, "state": {"pending_t_ms": start, "gen": rr.below(3)}, "parts": rr.choice([[], ["fail"], ["fail", "fail"]])}],
             "fault_at": [{"k": k, "kind": "write", "fault": kinds[i % 2], "err": rr.choice(["transport", "-1", "210", "nocode"])}],
             "_probe": b.htlc(inv, need, need, expiry=5000, rel=cfg["policy"][2] + 100),
             "family": "restart_fault/write@%d/%s" % (k, kinds[i % 2])}
        out.append(add_probe(c, crash=(i // 10) % 2 == 1) if probe else c)
    return out

def run_prop(prop, tier, seed, profiles=("dev",)):
    extra = {"C03": "amounts from 1 msat to 10^18 msat (the largest the invoice encoder takes) in 1-3 pieces; the wrapping (release) build is run as well. ",
             "C09": "every trace ends with the probe: crash, a fully funded cooperative HTLC set (a second one if the first meets a zero MPP remainder), which must be settled. ",
             "C11": "timeout cases tick to 1 ms before the deadline (no response allowed) and then to the deadline (all failed); restarts in the middle with aged attempts. "}.get(prop, "")
    return run_property(prop, tier, seed, gen_for(prop), rule=BASE_RULE + extra, assumptions=COMMON_ASSUME, profiles=profiles)
