"""C14 - isolation between hashes: freeze schedules. Hash A (index 0) is frozen at each stage of its lifecycle
(its RPCs withheld, or sitting on its timer) while hash B (index 1) runs a whole payment story; B's observations
must equal those of B running alone."""
import json, collections
from p_sys import *

KIN_ENDINGS = ["failed_noparts", "failed_after_partfail", "pending_then_fail", "error_then_fail", "warn_then_fail", "two_parts_both_fail"]

def kin_hashes(h, other):
    """Payment hashes that are NOT h but share a prefix, a suffix or all but one byte with it (a sender chooses the hash of the
    invoice it embeds: no preimage is needed for a payment that is meant to fail)."""
    h, other = bytes(h), bytes(other)
    twins = []
    for i in range(len(h) - 1):
        # same string when every byte is printed as unpadded hex: 0a bc -> "abc" <- ab 0c
        if 0 < h[i] < 0x10 and h[i + 1] >= 0x10:
            twins.append(h[:i] + bytes([(h[i] << 4) | (h[i + 1] >> 4), h[i + 1] & 0x0f]) + h[i + 2:]); break
    return twins + [h[:8] + other[8:], h[:16] + other[16:], other[:24] + h[24:], other[:16] + h[16:], h[:31] + bytes([h[31] ^ 1]), bytes([h[0] ^ 0x80]) + h[1:],
            h[:4] + other[4:28] + h[28:]]

def freeze_case(r, stage, ending, intruder=False, kin=None):
    cfg = mk_cfg(r, mpp_ms=120000)
    b = CaseBuilder(r, cfg, 2 if kin is None else 1)     # (only A's hash has a preimage on file: the relative is hash index 1 by first appearance)
    pol = cfg["policy"]
    amtA, amtB = 1000000, 21000
    rawB = None
    if kin is not None:
        # B's hash is a near relative of A's (same first 8 / 16 bytes, same last bytes, one byte apart): two different payments
        ks = kin_hashes(phash(0), phash(1)); rawB = ks[kin % len(ks)]
        invA, invB = b.add_invoice(0, amtA), b.add_invoice(1, amtB, hash=rawB.hex())
    else:
        invA, invB = b.add_invoice(0, amtA), b.add_invoice(1, amtB)
    needA, needB = fee_needed(pol, amtA), fee_needed(pol, amtB)
    # A: one fully funded HTLC, advanced `stage` drain steps (0 = ListState not even processed ... up to pay running / waiting)
    nstage = stage if isinstance(stage, int) else 0
    a_events = [b.htlc(invA, needA, needA, expiry=3000, rel=pol[2] + 10)] + [{"e": "drain_step", "h": 0}] * nstage
    stage_label = stage
    stage = nstage if stage != "height" else "height"
    if stage != "height" and 8 <= stage < 14:
        a_events += [{"e": "newpart_next", "h": 0}]
    if stage != "height" and 9 <= stage < 14:
        a_events += [{"e": "payfin_next", "h": 0, "out": "pending"}] + [{"e": "drain_step", "h": 0}] * (stage - 8)
    if stage != "height" and stage >= 14:
        # A's pay has ended and A is frozen in its bookkeeping: mark_failed after a failed pay (stages 14-17),
        # mark_succeeded after a completed one (stages 18-21); k = how many of the bookkeeping steps were still taken
        k = (stage - 14) % 4
        a_events = [b.htlc(invA, needA, needA, expiry=3000, rel=pol[2] + 10)] + [{"e": "drain_step", "h": 0}] * 8
        if stage < 18:
            a_events += [{"e": "payfin_next", "h": 0, "out": "failed"}]
        else:
            a_events += [{"e": "newpart_next", "h": 0}, {"e": "part_next", "h": 0, "st": "done"}, {"e": "payfin_next", "h": 0, "out": "complete"}]
        a_events += [{"e": "drain_step", "h": 0}] * (1 + k)
    if stage == "height":
        # A is complete and about to pay; reading the block height does not return (the watcher is busy): A is frozen at that
        # await. The model has no such event, so this run is compared with B's solo run only.
        a_events = [{"e": "freeze_height", "on": True}, b.htlc(invA, needA, needA, expiry=3000, rel=pol[2] + 10)] + [{"e": "drain_step", "h": 0}] * 4
    # stragglers for the frozen hash: further HTLCs of A (some violating the policy, twice) arriving while A is stuck
    for k in range(r.below(4)):
        kind = r.below(4)
        if kind == 0: a_events.append(b.htlc(invA, 1000, needA, expiry=3000, rel=max(0, pol[2] - 1)))
        elif kind == 1: a_events.append(b.htlc(invA, 1000, max(0, needA - 5), expiry=3000, rel=pol[2] + 10))
        elif kind == 2: a_events.append(b.htlc(invA, 1000, max(0, needA - 5), expiry=3000, rel=0))
        else: a_events.append(b.htlc(invA, 1000, needA, expiry=3000, rel=pol[2] + 10))
    # B: a whole story, every macro restricted to hash 1
    pieces = split_amount(r, needB, 1 + r.below(2))
    b_events = []
    for p in pieces:
        b_events.append(b.htlc(invB, p, needB, expiry=2500, rel=pol[2] + 20, raw_hash=rawB))
        b_events += [{"e": "drain_step", "h": 1}] * r.below(3)
    if intruder:
        # an HTLC of hash B that carries A's invoice (a confused or hostile sender): it is not a trampoline HTLC of anybody, and
        # in particular it must not touch A's payment
        b_events.insert(r.below(len(b_events) + 1), b.htlc(invA, r.choice([1000, needA]), needA, expiry=2500, rel=pol[2] + 20, hash_idx=1))
    b_events += [{"e": "drain", "h": 1}]
    for e in pay_ending(r, ending):
        e = dict(e); e["h"] = 1; b_events.append(e)
    b_events += [{"e": "drain", "h": 1}]
    base = {"cfg": cfg, "invoices": b.invoices, "preimages": b.preimages, "family": "freeze/stage%s/%s%s" % (stage_label, ending, "/kin%d" % kin if kin is not None else "")}
    if stage_label == "height":
        b_events = b_events + [{"e": "freeze_height", "on": False}, {"e": "drain"}]
        base["_nocorr"] = True
    both = dict(base, _script=a_events + b_events)
    solo = dict(base, _script=b_events)
    solo_a = dict(base, _script=a_events) if intruder else None
    return both, solo, solo_a

def b_view(trace, hidx=1):
    """What the implementation did for hash hidx, as a sequence (uids renumbered by order of that hash's own HTLCs)."""
    uid_map = {}
    if hidx >= len(trace["hashes"]): return []
    for e in trace["events"]:
        if e["e"] == "htlc" and e["req"]["htlc"]["payment_hash"] == trace["hashes"][hidx]:
            uid_map[e["uid"]] = len(uid_map)
    out = []
    for e, s in zip(trace["events"], trace["steps"]):
        mine = []
        for o in s["out"]:
            if o["o"] == "resp" and o["uid"] in uid_map: mine.append(["resp", uid_map[o["uid"]], o["r"]])
            elif o["o"] in ("call", "cancel", "notify") and o.get("h") == hidx: mine.append([o["o"], o.get("c"), o.get("q")])
        rep = s.get("reply") if e.get("h") == hidx else None
        if mine or rep is not None:
            out.append([sorted(json.dumps(m, sort_keys=True) for m in mine), rep])
    return out

def run(tier, seed):
    o = Outcome("C14", tier, seed)
    T = tier == "thorough"
    o.rule = ("two payment hashes: A is driven to one of 23 stages of its lifecycle (state fetch unanswered ... pay running, waiting on a part, sitting on its timer, blocked reading the block height, each step of mark_failed after a failed pay and of mark_succeeded after a completed one) and frozen there "
              "(no RPC of A is processed or delivered) while B runs one of 15 payment stories to completion (in some runs B's payment hash is a near relative of A's: same first 8 or 16 bytes, same last bytes, one byte apart); the same B script is run alone; B's responses, RPC calls, cancels and node replies "
              "must be identical; in a third of the cases one of B's HTLCs carries A's invoice and A's observations must equal those of A alone. The two-hash trace is also replayed through the product model (correspondence) and all composite monitors. Non-trivial: A has at least one outstanding "
              "RPC or armed timer while B pays; distinct = (stage, story, seed)")
    o.assumptions = list(COMMON_ASSUME)
    o.proof = proof_stage("C14", ["theories/Props/C14.vo", "theories/Check/SysMon.vo"])
    ok, log, binary = harness_build("dev")
    if not ok:
        o.corr_failures.append(("harness does not compile against /repo's working tree: " + log[-1500:], {"build_log": log[-3000:]}))
        return finish(o)
    r = SplitMix64(seed * 101 + 14)
    pairs = []
    for rep in range(4 if T else 1):
        for stage in range(0, 22):
            for ending in (PAY_ENDINGS if T else [PAY_ENDINGS[(stage + i * 4) % len(PAY_ENDINGS)] for i in range(3)]):
                pairs.append(freeze_case(r.fork(), stage, ending, intruder=(len(pairs) % 3 == 2)))
        for ending in (PAY_ENDINGS if T else PAY_ENDINGS[:3]):
            pairs.append(freeze_case(r.fork(), "height", ending))
        # two payments whose hashes are near relatives (a map keyed by part of the hash pools them)
        for i, stage in enumerate(range(0, 22) if T else [0, 2, 5, 8, 9, 11, 13]):
            for j in range(2 if T else 1):
                pairs.append(freeze_case(r.fork(), stage, KIN_ENDINGS[(i + j + rep) % len(KIN_ENDINGS)], kin=i + 3 * j + rep))
    try:
        cases = [c for p in pairs for c in p if c is not None]
        keep, verdicts, skewed = run_traces(binary, cases, "C14")
    except RuntimeError as ex:
        o.corr_failures.append(("could not run/evaluate traces: %s" % str(ex)[-2000:], {}))
        return finish(o)
    by_case = {id(c): (t, v) for (c, t), v in zip(keep, verdicts)}
    fam = collections.Counter()
    for both, solo, solo_a in pairs:
        if id(both) not in by_case or id(solo) not in by_case: continue
        if solo_a is not None and id(solo_a) in by_case:
            # the other direction: A's observations must not depend on what B's HTLCs (one of them carrying A's invoice) do
            (tb0, _), (ta, _) = by_case[id(both)], by_case[id(solo_a)]
            va_, vsa_ = b_view(tb0, 0), b_view(ta, 0)
            if va_ != vsa_:
                k = next((i for i, (x, y) in enumerate(zip(va_, vsa_)) if x != y), min(len(va_), len(vsa_)))
                o.monitor_failures.append(("%s: hash A's observations differ from its solo run at its %d-th action (an HTLC of hash B carries A's invoice): with B %s, alone %s" % (
                    both["family"], k, json.dumps(va_[k] if k < len(va_) else None)[:300], json.dumps(vsa_[k] if k < len(vsa_) else None)[:300]),
                    {"family": both["family"], "with_B": brief(tb0), "alone": brief(ta), "trace_with_B": tb0, "trace_alone": ta}))
        (tb, vb), (ts, vs) = by_case[id(both)], by_case[id(solo)]
        o.evaluations += 1; o.traces_validated += 2
        fam[both["family"].split("/")[1]] += 1
        a_busy = any(o_["o"] == "call" and o_.get("h") == 0 for s in tb["steps"] for o_ in s["out"])
        if a_busy and vb[6] >= 1: o.nontrivial.add(both["family"] + json.dumps(tb["events"])[:3000])
        for t, v, tag in ((tb, vb, "two-hash run"), (ts, vs, "solo run")):
            if both.get("_nocorr") and tag == "two-hash run": continue
            if v[0] or v[2]: o.internal.append("%s of %s: contract violated / simulated node differs" % (tag, both["family"]))
            elif v[1]:
                o.corr_failures.append(("%s of %s: implementation and model differ at step %d: %s" % (tag, both["family"], v[1], " | ".join(brief(t, v[1])[-2:])[:600]),
                                        {"family": both["family"], "history": brief(t, v[1] + 1), "trace": t}))
        vb_, vs_ = b_view(tb), b_view(ts)
        if vb_ != vs_:
            k = next((i for i, (x, y) in enumerate(zip(vb_, vs_)) if x != y), min(len(vb_), len(vs_)))
            o.monitor_failures.append(("%s: hash B's observations differ from its solo run at its %d-th action: with A frozen %s, alone %s" % (
                both["family"], k, json.dumps(vb_[k] if k < len(vb_) else None)[:300], json.dumps(vs_[k] if k < len(vs_) else None)[:300]),
                {"family": both["family"], "with_A": brief(tb), "alone": brief(ts), "trace_with_A": tb, "trace_alone": ts}))
    o.distribution = {"stages": dict(fam)}
    if keep: o.samples.append({"family": keep[0][0]["family"], "history": brief(keep[0][1])[:40]})
    return finish(o)
