"""C13 - checked by the classification engine (p_classify.py) and, for the 'no RPC call, no state, answered at once' clause,
by the system engine running the real handle_htlc on requests that are not well-formed trampoline requests."""
import json
from p_classify import run_classify

def system_part(o, binary):
    from p_sys import run_traces, brief, SplitMix64, odd_case, odd_all_case, walks
    r = SplitMix64(o.seed * 13 + 13)
    T = o.tier == "thorough"
    cases = [odd_case(r.fork()) for _ in range(60 if T else 15)] + [odd_all_case(r.fork(), lo, lo + 12) for lo in range(0, 84, 12)]
    cases += walks(r, 60 if T else 10)
    try:
        keep, verdicts, skewed = run_traces(binary, cases, "C13sys")
    except RuntimeError as ex:
        o.corr_failures.append(("could not run/evaluate system traces: %s" % str(ex)[-1500:], {})); return
    n_odd = 0
    for (c, t), v in zip(keep, verdicts):
        bad, k_out, k_reply, mask, first, kf, npay, nsteps = v
        o.evaluations += 1; o.traces_validated += 1
        n_odd += sum(1 for e in t["events"] if e["e"] == "htlc")
        o.nontrivial.add("sys" + json.dumps(t["events"], sort_keys=True)[:3000])
        if bad or k_reply:
            o.internal.append("system trace %s: contract violated / simulated node differs" % c["family"]); continue
        if mask & (1 << 13):
            o.monitor_failures.append(("system trace %s: a request that is not a trampoline request was not simply answered `continue` (step %d): %s" % (
                c["family"], first, " | ".join(brief(t, first)[-2:])[:700]), {"family": c["family"], "history": brief(t, first + 1), "trace": t}))
        elif k_out:
            o.corr_failures.append(("system trace %s: implementation and model differ at step %d: %s" % (c["family"], k_out, " | ".join(brief(t, k_out)[-2:])[:600]),
                                    {"family": c["family"], "history": brief(t, k_out + 1), "trace": t}))
    o.distribution["system_traces"] = len(keep); o.distribution["system_htlc_deliveries"] = n_odd
    o.rule += " PLUS system traces: the real handle_htlc on malformed / forward / unusable-invoice requests interleaved with a live payment (monitor: answered continue in the same step, no RPC, no state)."

def run(tier, seed):
    return run_classify("C13", tier, seed, extra=system_part)
