#!/usr/bin/env python3
"""tools/harvest_corpus.py : for every kept seeded change written for a system-engine property, apply it to /repo, run that
property's quick check, and - when the check ends with a concrete failing history - keep that history (the runnable case, not the
trace) under corpus/<prop>/seed-<id>.json. corpus_cases() replays these first in every run, so that the change stays caught
however the random generators are re-seeded later. On the unchanged tree the same cases are ordinary contract-respecting
histories and run clean. Never run by a registered check; part of the maintenance loop (DESIGN 0)."""
import json, os, subprocess, sys
VERIF = os.path.dirname(os.path.dirname(os.path.abspath(__file__)))
SYS = {"C01", "C02", "C03", "C04", "C05", "C06", "C07", "C08", "C09", "C11"}
def main():
    only = set(sys.argv[1:])
    assert subprocess.run(["git", "-C", "/repo", "status", "--porcelain"], capture_output=True, text=True).stdout.strip() == "", "/repo not clean"
    for n in sorted(os.listdir(os.path.join(VERIF, "seeded"))):
        d = os.path.join(VERIF, "seeded", n)
        mp = os.path.join(d, "meta.json")
        if not os.path.isfile(mp): continue
        if only and n.split("-")[0] not in only: continue
        prop = json.load(open(mp))["property"]
        props = [prop] + {"g5": ["C07"], "j1": [], "i8": []}.get(n.split("-")[0], [])
        for p in props:
            if p not in SYS: continue
            out = os.path.join(VERIF, "corpus", p, "seed-%s.json" % n.split("-")[0])
            subprocess.run(["git", "-C", "/repo", "apply", os.path.join(d, "patch.diff")], check=True)
            try:
                r = subprocess.run([os.path.join(VERIF, "check"), p, "quick"], capture_output=True, text=True, cwd=VERIF)
                rp = os.path.join(VERIF, "evidence", "replays", "%s-0.json" % p)
                kept = False
                if r.returncode == 1 and "no-failing-input-found" not in r.stdout and os.path.isfile(rp):
                    rec = json.load(open(rp))
                    c = rec.get("case") or {}
                    while isinstance(c, dict) and "_script" not in c and isinstance(c.get("case"), dict): c = c["case"]
                    if isinstance(c, dict) and "_script" in c and not str(c.get("family", "")).startswith("corpus/"):
                        os.makedirs(os.path.dirname(out), exist_ok=True)
                        json.dump({"case": c, "family": c.get("family"), "from_seed": n, "property": p,
                                   "what": "history on which the seeded change %s violates %s (kept so that re-seeding the generators cannot lose it)" % (n, p)},
                                  open(out, "w"), indent=0)
                        kept = True
                print("%-50s %s %s" % (n, p, "kept" if kept else "not kept (rc=%d%s)" % (r.returncode, ", no concrete case" if r.returncode == 1 else "")), flush=True)
            finally:
                subprocess.run(["git", "-C", "/repo", "checkout", "--", "."], check=True)
if __name__ == "__main__":
    main()
