"""C12 — fee check exact; rejection carries the policy (pure clauses; the composite clause is checked in p_sys)."""
import json
from vlib import *

U64 = 2**64 - 1
U32 = 2**32 - 1

def gen(tier, seed):
    r = SplitMix64(seed)
    cases = []
    for l in open(os.path.join(VERIF, "corpus", "C12", "pinned.txt")):
        l = l.strip()
        if l and not l.startswith("#"):
            cases.append(tuple(int(x) for x in l.split()))
    bnd64 = [0, 1, 2, 999999, 1000000, 1000001, 2**32 - 1, 2**32, 2**32 + 1, 2**63 - 1, 2**63, 2**63 + 1, U64 - 1, U64]
    bnd32 = [0, 1, 2, 5000, 999999, 1000000, 1000001, 2**31, U32 - 1, U32]
    def thr(base, ppm, amount):
        return amount + base + amount * ppm // 1000000
    # boundary lattice with the exact threshold +-1
    lat = []
    for base in bnd32:
        for ppm in bnd32:
            for amount in bnd64:
                t = thr(base, ppm, amount)
                for total in {t - 1, t, t + 1, amount, U64, 0}:
                    if 0 <= total <= U64:
                        lat.append((base, ppm, 144, total, amount))
    if tier != "thorough":
        # deterministic subsample of the lattice, all of it in thorough
        lat = [c for i, c in enumerate(lat) if (i * 2654435761 + seed) % 5 == 0]
    cases += lat
    n = 20000 if tier == "thorough" else 2500
    for _ in range(n):
        k = r.below(6)
        base = r.choice(bnd32) if r.chance(1, 3) else r.below(U32 + 1)
        ppm = r.choice(bnd32) if r.chance(1, 3) else r.below(U32 + 1) if r.chance(1, 2) else r.below(20000)
        if k == 0:
            amount = r.below(U64 + 1)
        elif k == 1:
            amount = r.below(10**12)
        elif k == 2 and ppm:       # near the 64-bit product boundary
            amount = min(U64, max(0, U64 // ppm + r.below(5) - 2))
        else:
            amount = r.choice(bnd64)
        t = thr(base, ppm, amount)
        total = min(U64, max(0, t + r.below(5) - 2)) if r.chance(2, 3) else r.below(U64 + 1)
        delta = r.choice([0, 1, 144, 1008, 65535])
        cases.append((base, ppm, delta, total, amount))
    return list(dict.fromkeys(cases))

HEADER = "From Tramp Require Import Model.Base Model.Fee Check.Common Check.FeeCheck.\nOpen Scope N_scope."

def term(c, o):
    suf = o["suf"]
    s = "Panic" if suf == "panic" else "(Ok %s)" % coq_bool(suf)
    return "(%d, %d, %d, %d, %d, %s, %s, %s, %s)" % (c + (s, coq_bytes(o["enc"]), coq_bytes(o["node"]), coq_bytes(o["tramp"])))

def evaluate(o, binary, cases, profile):
    obs = harness_run(binary, "fee", ["%d %d %d %d %d" % c for c in cases], shards=NCPU)
    codes = eval_cases("C12" + profile, HEADER, [term(c, x) for c, x in zip(cases, obs)], "verdict_fee",
                       "N * N * N * N * N * res bool * list N * list N * list N", per_shard=1500)
    tagged = [{"profile": profile, "base": c[0], "ppm": c[1], "delta": c[2], "total": c[3], "amount": c[4], "obs": x} for c, x in zip(cases, obs)]
    o.note_codes(codes, tagged, lambda c: "fee_sufficient(base=%(base)d, ppm=%(ppm)d, total=%(total)d, amount=%(amount)d) [%(profile)s build] observed %(obs)s" % c,
                 kf_class=lambda c: "kf_mul_overflow")
    for code, c in zip(codes, cases):
        if (code >> 4) in (1, 2, 3): o.nontrivial.add(c)
    return tagged

def system_part(o):
    """Third clause: the first HTLC of a payment with no earlier attempt on record, failing the declared-total test or with a too low
    (also negative) relative expiry, is answered with the fee-or-expiry failure carrying the configured policy: real handle_htlc + lifecycle."""
    from p_sys import run_traces, brief, reject_stories, story_case, walks, PAY_ENDINGS
    r = SplitMix64(o.seed * 12 + 12)
    T = o.tier == "thorough"
    ok, log, binary = harness_build("dev")
    cases = []
    for i in range(96 if T else 24):
        cases.append(story_case(r.fork(), ending=r.choice(PAY_ENDINGS), reject=(["low_expiry", "low_total"][i % 2], 0), npieces=1 + i % 3))
    cases += reject_stories(r, 32 if T else 8)
    cases += walks(r, 80 if T else 12)
    try:
        keep, verdicts, skewed = run_traces(binary, cases, "C12sys")
    except RuntimeError as ex:
        o.corr_failures.append(("could not run/evaluate system traces: %s" % str(ex)[-1500:], {})); return
    for (c, t), v in zip(keep, verdicts):
        bad, k_out, k_reply, mask, first, kf, npay, nsteps = v
        o.evaluations += 1; o.traces_validated += 1
        o.nontrivial.add("sys" + json.dumps(t["events"], sort_keys=True)[:3000])
        if bad or k_reply:
            o.internal.append("system trace %s: contract violated / simulated node differs" % c["family"]); continue
        if mask & (1 << 12):
            o.monitor_failures.append(("system trace %s: a fee-or-expiry failure does not carry the policy, or the first HTLC rejected by the gates was not answered with it (step %d): %s" % (
                c["family"], first, " | ".join(brief(t, first)[-2:])[:700]), {"family": c["family"], "history": brief(t, first + 1), "trace": t}))
        elif k_out:
            o.corr_failures.append(("system trace %s: implementation and model differ at step %d: %s" % (c["family"], k_out, " | ".join(brief(t, k_out)[-2:])[:600]),
                                    {"family": c["family"], "history": brief(t, k_out + 1), "trace": t}))
    o.distribution["system_traces"] = len(keep)
    o.rule += " PLUS system traces for the third clause: payment stories whose FIRST HTLC fails the declared-total test or has a too low / negative relative expiry, rejecting HTLCs at other positions, random walks."

def run(tier, seed):
    o = Outcome("C12", tier, seed)
    o.rule = ("(base, ppm, delta, total, amount): boundary lattice {0,1,2,1e6+-1,2^32+-1,2^63+-1,2^64-1}x{...} with total at the exact threshold and +-1, "
              "random values, values at the 64-bit product boundary; each run in the overflow-checking AND the wrapping build of the implementation. "
              "Non-trivial: total within 1 of the exact threshold (shape 1), or the exact right-hand side exceeds 64 bits (shape 2), or amount*ppm overflows 64 bits (shape 3); distinct = distinct tuple")
    o.assumptions = ["the composite clause (first HTLC answered with the policy failure) is checked by the system engine; here: the arithmetic and the encoding"]
    o.proof = proof_stage("C12", ["theories/Props/C12.vo", "theories/Check/FeeCheck.vo"])
    cases = gen(tier, seed)
    for profile in ("dev", "release"):
        ok, log, binary = harness_build(profile)
        if not ok:
            o.corr_failures.append(("harness (%s) does not compile against /repo's working tree: %s" % (profile, log[-1500:]), {"build_log": log[-3000:]}))
            return finish(o)
        try:
            tagged = evaluate(o, binary, cases, profile)
        except RuntimeError as ex:
            o.corr_failures.append(("could not evaluate cases: %s" % str(ex)[-1500:], {}))
            return finish(o)
        o.samples += [tagged[len(tagged) // 2], tagged[-1]]
    system_part(o)
    def search():
        if tier == "thorough": return None
        o2 = Outcome("C12", "thorough", seed)
        for profile in ("dev", "release"):
            ok, log, binary = harness_build(profile)
            evaluate(o2, binary, gen("thorough", seed + 1), profile)
        return o2.monitor_failures[0] if o2.monitor_failures else None
    return finish(o, search)
