"""C06 - composite property checked by the system engine (see p_sys.py), plus the process boundary: the REAL binary
against a fake lightningd is sent htlc_accepted calls that are undecodable, odd or plain forwards; each must get exactly
one JSON-RPC *result* whose "result" is continue / fail / resolve (src/plugin.rs glue, which the in-process engines bypass)."""
import json, time, os
from p_sys import run_prop, run_property, gen_for, BASE_RULE, COMMON_ASSUME
from vlib import *

def glue_requests():
    import world as W
    ok = W.request(W.payload(), W.phash(0), 1000, 1100, 100, 1, forward=1000, total=1000)          # a plain forward
    reqs = [("plain forward", ok),
            ("payload with a truncated TLV value (03 01 02 03)", dict(ok, onion=dict(ok["onion"], payload="03010203"))),
            ("payload fd00 (truncated BigSize)", dict(ok, onion=dict(ok["onion"], payload="fd00"))),
            ("payload is not hex", dict(ok, onion=dict(ok["onion"], payload="zz"))),
            ("payload missing", dict(ok, onion={})),
            ("onion missing", {"htlc": ok["htlc"]}),
            ("htlc missing", {"onion": ok["onion"]}),
            ("amount is a string", dict(ok, htlc=dict(ok["htlc"], amount_msat="lots"))),
            ("negative amount", dict(ok, htlc=dict(ok["htlc"], amount_msat=-1))),
            ("amount 2^64", dict(ok, htlc=dict(ok["htlc"], amount_msat=2**64))),
            ("expiry 2^32", dict(ok, htlc=dict(ok["htlc"], cltv_expiry=2**32))),
            ("payment hash too short", dict(ok, htlc=dict(ok["htlc"], payment_hash="00"))),
            ("params is a list", [1, 2, 3]),
            ("params empty", {}),
            ("metadata that is not a TLV stream", W.request(W.payload(raw_meta=bytes([0xfd, 0x00])), W.phash(0), 1000, 1100, 100, 2, forward=1000, total=1000)),
            ("metadata with an invoice that does not parse", W.request(W.payload(invoice="lnbc1notaninvoice"), W.phash(0), 1000, 1100, 100, 3, forward=1000, total=1000))]
    # invoice records that are no invoice at all (empty, one byte, a multi-byte character first)
    for i, sv in enumerate((b"", b"l", "\u20acnbc1".encode(), b"\xff\xfe")):
        reqs.append(("metadata with the invoice record %s" % (sv.hex() or "(empty)"), W.request(W.payload(raw_meta=W.tlv([(33001, sv)])), W.phash(0), 1000, 1100, 100, 4 + i, forward=1000, total=1000)))
    return reqs

def glue_check(o):
    """Process boundary (src/plugin.rs::on_htlc_accepted): every call is answered once with a hook result."""
    from e2e import build_repo_binary, FakeNode
    from p_c19 import options_of, DEFAULT
    ok, log, binary = build_repo_binary("dev")
    if not ok:
        o.corr_failures.append(("/repo does not build: " + log[-1500:], {"build_log": log[-3000:]})); return
    okh, logh, hb = harness_build("dev")
    if not okh:
        o.corr_failures.append(("harness does not build: " + logh[-1500:], {})); return
    inv = harness_run(hb, "classify", [json.dumps({"mkinv": {"pre": 1, "amount": 1000000, "signer": 1, "hints": [[0]]}})])
    local_id = inv[0]["view"]["last_hops"][0]
    n = FakeNode(binary, options_of(DEFAULT), local_id, os.path.join(CACHE, "e2e", "c06-glue"), height=1000, chunk=5)
    seen = {}
    try:
        st = n.start(timeout=30)
        if st != "started":
            o.corr_failures.append(("the real binary did not start against the fake lightningd (%s)" % st, {})); return
        reqs = glue_requests()
        for i, (name, params) in enumerate(reqs):
            # every third request reaches the plugin in two reads, the first ending between the two newlines of the separator
            n.hook("g%d" % i, params, split_sep=(i % 3 == 1))
        for i, (name, params) in enumerate(reqs):
            r = n.wait_reply("g%d" % i, 15)
            seen[name] = r
            o.evaluations += 1
            good = isinstance(r, dict) and isinstance(r.get("result"), dict) and r["result"].get("result") in ("continue", "fail", "resolve") and "error" not in r
            if good:
                o.nontrivial.add("glue:" + name)
            else:
                o.monitor_failures.append(("process boundary: htlc_accepted call (%s) was not answered with a hook result: got %s" % (name, json.dumps(r)[:300]),
                                           {"engine": "e2e", "request_kind": name, "params": params, "reply": r}))
        time.sleep(0.2)
        with n.lock:
            ids = [json.dumps(f.get("id")) for f in n.frames if isinstance(f, dict) and "id" in f and "method" not in f]
        dup = sorted({x for x in ids if ids.count(x) > 1})
        if dup:
            o.monitor_failures.append(("process boundary: more than one reply was written for call ids %s" % dup, {"engine": "e2e", "ids": dup}))
        if n.bad_frames:
            o.monitor_failures.append(("process boundary: %d frames written by the plugin are not JSON" % n.bad_frames, {"engine": "e2e"}))
    finally:
        n.stop()
    o.distribution["process_boundary_calls"] = {k: (v or {}).get("result", {}).get("result") if isinstance(v, dict) and isinstance(v.get("result"), dict) else "NO HOOK RESULT" for k, v in seen.items()}

def boundary_checks(o):
    glue_check(o)
    # "answered when the MPP timeout has elapsed" holds for the CONFIGURED timeout only if main.rs wires the option: real binary
    from p_c11 import wiring_check
    wiring_check(o)

def run(tier, seed):
    extra = ("Process boundary: the real binary (fake lightningd, stdin chunked in 5-byte writes, every third request split between the two newlines of its separator) receives %d htlc_accepted calls that cannot be decoded, carry out-of-range "
             "numbers, malformed metadata or are plain forwards; each must be answered exactly once with a hook result; started with MPP timeouts 1/2/3 s and payment timeouts 60/7/1 s a partial HTLC is answered after the MPP timeout. " % len(glue_requests()))
    return run_property("C06", tier, seed, gen_for("C06"), rule=BASE_RULE + extra, assumptions=COMMON_ASSUME, profiles=("dev", "release"), extra_check=boundary_checks)
