"""Builders for htlc_accepted requests and system cases (Python side of the harness protocol)."""
import hashlib, json

def bigsize(v):
    if v < 253: return bytes([v])
    if v <= 0xffff: return b"\xfd" + v.to_bytes(2, "big")
    if v <= 0xffffffff: return b"\xfe" + v.to_bytes(4, "big")
    return b"\xff" + v.to_bytes(8, "big")

def tlv(records):
    out = b""
    for t, v in records:
        out += bigsize(t) + bigsize(len(v)) + v
    return out

def tu64(v):
    b = v.to_bytes(8, "big").lstrip(b"\x00")
    return b

def preimage(i):
    p = bytearray(32); p[0] = i & 0xff; p[1] = (i >> 8) & 0xff; p[31] = 0xa5
    return bytes(p)

def phash(i):
    return hashlib.sha256(preimage(i)).digest()

def near_hashes(h):
    """32-byte strings that are NOT h but agree with it under weak comparisons: one bit flipped at either end, the same
    bit flipped in two bytes (same XOR and OR folds), two bytes exchanged (same multiset of bytes, same sum), reversed,
    rotated by one byte, all but the last / first byte equal, one's complement."""
    h = bytes(h); out = []
    def mod(f):
        b = bytearray(h); f(b); b = bytes(b)
        if b != h: out.append(b)
    mod(lambda b: b.__setitem__(0, b[0] ^ 1))
    mod(lambda b: b.__setitem__(31, b[31] ^ 0x80))
    def two(b): b[3] ^= 0x10; b[17] ^= 0x10
    mod(two)
    def two_adjacent(b): b[30] ^= 1; b[31] ^= 1
    mod(two_adjacent)
    def swap(b):
        j = next((k for k in range(1, 32) if b[k] != b[0]), 1); b[0], b[j] = b[j], b[0]
    mod(swap)
    out.append(h[::-1]); out.append(h[1:] + h[:1])
    mod(lambda b: b.__setitem__(31, (b[31] + 1) & 0xff))
    mod(lambda b: b.__setitem__(0, (b[0] + 0x80) & 0xff))
    out.append(bytes(x ^ 0xff for x in h))
    return [x for i, x in enumerate(out) if x != h and x not in out[:i]]

def payload(invoice=None, amount_tlv=None, extra=(), meta_extra=(), raw_meta=None, prefix=True):
    """Onion payload as lightningd hands it over: BigSize length prefix + TLV stream."""
    meta = []
    if invoice is not None:
        meta.append((33001, invoice if isinstance(invoice, bytes) else invoice.encode()))
    if amount_tlv is not None:
        meta.append((33003, amount_tlv if isinstance(amount_tlv, bytes) else tu64(amount_tlv)))
    meta += list(meta_extra)
    recs = [(2, tu64(1000)), (4, tu64(500))]
    if meta or raw_meta is not None:
        recs.append((16, raw_meta if raw_meta is not None else tlv(meta)))
    recs += list(extra)
    s = tlv(recs)
    return (bigsize(len(s)) + s) if prefix else s

def request(payload_bytes, hash_bytes, amount, expiry, rel, htlc_id=0, forward=None, total=None, scid=None):
    onion = {"payload": payload_bytes.hex()}
    if scid is not None: onion["short_channel_id"] = scid
    if forward is not None: onion["forward_msat"] = forward
    if total is not None: onion["total_msat"] = total
    return {"onion": onion, "htlc": {"short_channel_id": "1x2x3", "id": htlc_id, "amount_msat": amount, "cltv_expiry": expiry,
                                     "cltv_expiry_relative": rel, "payment_hash": hash_bytes.hex()}}

DEFAULT_CFG = {"local": 0, "allow_self": True, "policy": [0, 5000, 1008], "cltv_delta": 34, "mpp_ms": 60000, "pay_timeout_s": 60, "xpay": False}
