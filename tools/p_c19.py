"""C19 - startup configuration validated and applied: the real binary against a fake lightningd."""
import json, threading, time, collections
from concurrent.futures import ThreadPoolExecutor
from vlib import *
from e2e import *
from world import *

HDR = "From Tramp Require Import Model.Base Model.Fee Model.Config Check.Common Check.ConfigCheck.\nOpen Scope N_scope."
VALS = [-1, 0, 1, 33, 34, 35, 1008, 65535, 65536, 2**32 - 1, 2**32, 2**63 - 1]
DEFAULT = {"cltv": 34, "pdelta": 1008, "base": 0, "ppm": 5000, "mpp": 1, "noself": False, "paytimeout": 60}

def gen(tier, seed):
    r = SplitMix64(seed * 19 + 19)
    cs = [dict(DEFAULT)]
    for k in ("cltv", "pdelta", "base", "ppm", "paytimeout"):
        for v in VALS:
            c = dict(DEFAULT); c[k] = v; cs.append(c)
    for v in (-1, 0, 1, 2, 2**63 - 1): cs.append(dict(DEFAULT, mpp=v))
    for a, b in ((34, 34), (35, 34), (34, 35), (1008, 34), (0, 1), (0, 0), (65535, 65535), (65534, 65535), (65535, 65536)):
        cs.append(dict(DEFAULT, cltv=a, pdelta=b))          # equal and swapped deltas
    cs.append(dict(DEFAULT, noself=True))
    # the xpay flag changes the shape of the pay request, not the values it must carry
    cs.append(dict(DEFAULT, xpay=True)); cs.append(dict(DEFAULT, xpay=True, cltv=6, paytimeout=7)); cs.append(dict(DEFAULT, xpay=True, paytimeout=65536))
    n = 300 if tier == "thorough" else 12
    for _ in range(n):
        cs.append({"cltv": r.choice(VALS), "pdelta": r.choice(VALS), "base": r.choice(VALS), "ppm": r.choice(VALS), "mpp": r.choice([0, 1, 2, -1]),
                   "noself": r.chance(1, 2), "paytimeout": r.choice(VALS), "xpay": r.chance(1, 2)})
    if tier != "thorough":
        cs = cs[:1] + [c for i, c in enumerate(cs[1:]) if True]
    out, seen = [], set()
    for c in cs:
        k = json.dumps(c, sort_keys=True)
        if k not in seen: seen.add(k); out.append(c)
    return out

def options_of(c):
    return {"trampoline-cltv-delta": c["cltv"], "trampoline-policy-cltv-delta": c["pdelta"], "trampoline-policy-fee-base": c["base"],
            "trampoline-policy-fee-per-satoshi": c["ppm"], "trampoline-mpp-timeout": c["mpp"], "trampoline-no-self-route-hints": c["noself"],
            "trampoline-payment-timeout": c["paytimeout"], "trampoline-xpay": bool(c.get("xpay", False))}

def probe(binary, c, idx, local_id, b11, b11_self):
    """Starts the binary with configuration c and observes what it runs with."""
    def pay(node, p):
        return {"error": {"code": 210, "message": "no route"}}
    gap = 60
    n = FakeNode(binary, options_of(c), local_id, os.path.join(CACHE, "e2e", "c19-%d" % idx), height=1000, chunk=[1, 3, 7, 64][idx % 4], pay_script=pay)
    ob = {"started": False, "pol": None, "retry": None, "gap": gap, "maxdelay": None, "mpp_ds": None, "self_failed": None}
    try:
        st = n.start(timeout=30)
        ob["started"] = st == "started"
        ob["start_state"] = st
        if st != "started": return ob
        big = 2**62
        if c["mpp"] == 0:
            # a zero MPP timeout fails every set at once: only the timing and the self-hint probe are meaningful
            best = 10**6
            for attempt in range(3):
                t0 = time.time()
                rid = "d%d" % attempt
                n.hook(rid, request(payload(b11), phash(0), 5, 1000 + 70000, 70000, 4 + attempt, forward=5, total=big))
                rd = n.wait_reply(rid, 8)
                if rd and rd.get("result", {}).get("failure_message") == "2019":
                    ds = int(round((time.time() - t0) * 10)); best = min(best, ds)
                    if ds <= 8: break
                else:
                    break
            ob["mpp_ds"] = best
            n.hook("c", request(payload(b11_self), phash(1), big, 1000 + 70000, 70000, 3, forward=big, total=big))
            rc = n.wait_reply("c", 15)
            ob["self_failed"] = bool(rc and rc.get("result", {}).get("result") == "fail" and rc["result"].get("failure_message") == "2002")
            return ob
        # (a) declared total too low on the first HTLC: fee-or-expiry failure carrying the policy
        n.hook("a", request(payload(b11), phash(0), 10, 1000 + 70000, 70000, 1, forward=10, total=10))
        r = n.wait_reply("a", 15)
        if r and r.get("result", {}).get("result") == "fail":
            m = bytes.fromhex(r["result"]["failure_message"])
            if m[:2] == b"\x20\x1a" and len(m) == 12:
                ob["pol"] = [int.from_bytes(m[2:6], "big"), int.from_bytes(m[6:10], "big"), int.from_bytes(m[10:12], "big")]
            else: ob["pol"] = [2**40, 0, 0]
        else: ob["pol"] = [2**41, 0, 0]
        # (b) fully funded HTLC expiring `gap` blocks above the height: pay request parameters
        n.hook("b", request(payload(b11), phash(0), big, 1000 + gap, 70000, 2, forward=big, total=big))
        rb = n.wait_reply("b", 15)
        pays = [p for m, p in n.rpc_log if m == "pay"]
        if pays:
            # a parameter missing from the request is not "the configured value": it shows as an impossible number
            ob["retry"] = pays[0]["retry_for"] if pays[0].get("retry_for") is not None else 2**41
            ob["maxdelay"] = pays[0]["maxdelay"] if pays[0].get("maxdelay") is not None else 2**41
        else:
            ob["retry"] = 2**40; ob["maxdelay"] = 2**40
        # (c) self route hint
        n.hook("c", request(payload(b11_self), phash(1), big, 1000 + 70000, 70000, 3, forward=big, total=big))
        rc = n.wait_reply("c", 15)
        ob["self_failed"] = bool(rc and rc.get("result", {}).get("result") == "fail" and rc["result"].get("failure_message") == "2002")
        # (d) MPP timeout in real time: a partial HTLC of a fresh hash
        if 0 <= c["mpp"] <= 3:
            # real time: a loaded machine can only make the answer LATE, never early. The probe is repeated (fresh HTLC of the
            # same hash, whose entry is gone after the failure) up to three times while it is late, and the earliest answer
            # counts; an answer that comes early, or a timeout that really is longer, shows in every attempt.
            best = 10**6
            for attempt in range(3):
                t0 = time.time()
                rid = "d%d" % attempt
                n.hook(rid, request(payload(b11), phash(0), 5, 1000 + 70000, 70000, 4 + attempt, forward=5, total=big))
                rd = n.wait_reply(rid, c["mpp"] + 8)
                if rd and rd.get("result", {}).get("failure_message") == "2019":
                    ds = int(round((time.time() - t0) * 10))
                    best = min(best, ds)
                    if ds <= c["mpp"] * 10 + 8: break
                else:
                    break
            ob["mpp_ds"] = best
        ob["bad_frames"] = n.bad_frames
    finally:
        n.stop()
    return ob

def term(c, ob):
    o = ("{| o_cltv_delta := (%d)%%Z; o_policy_delta := (%d)%%Z; o_fee_base := (%d)%%Z; o_fee_ppm := (%d)%%Z; o_mpp_timeout := (%d)%%Z; o_no_self_hints := %s; o_pay_timeout := (%d)%%Z |}"
         % (c["cltv"], c["pdelta"], c["base"], c["ppm"], c["mpp"], coq_bool(c["noself"]), c["paytimeout"]))
    pol = coq_opt(ob["pol"], lambda p: "(%d, %d, %d)" % tuple(p))
    b = ("{| c_started := %s; c_pol := %s; c_retry := %s; c_gap := %d; c_maxdelay := %s; c_mpp_ds := %s; c_self_failed := %s |}"
         % (coq_bool(ob["started"]), pol, coq_opt(ob["retry"], str), ob["gap"], coq_opt(ob["maxdelay"], str), coq_opt(ob["mpp_ds"], str), coq_opt(ob["self_failed"], coq_bool)))
    return "(%s, %s)" % (o, b)

def run(tier, seed):
    o = Outcome("C19", tier, seed)
    o.rule = ("option assignments: each integer option through {-1,0,1,33,34,35,1008,65535,65536,2^32-1,2^32,2^63-1} with the others at their defaults, equal and swapped deltas, the self-route-hint flag, the xpay flag, plus random "
              "combinations; for each the REAL binary is started against the fake lightningd and observed: init acknowledged vs process exit; policy bytes of a fee-insufficient failure; retry_for and "
              "maxdelay of a pay request (HTLC expiring 60 blocks above the height); time to the MPP failure; answer to an invoice with the local node as last hop. "
              "Non-trivial: the configuration is accepted by the model (all probes run) or differs from the defaults in a refusing way; distinct = distinct assignment")
    o.assumptions = ["real time: MPP timing accepted within [-0.1 s, +0.8 s]", "lightningd's own option parsing is not modelled; option values are passed as JSON numbers / booleans"]
    o.proof = proof_stage("C19", ["theories/Props/C19.vo", "theories/Check/ConfigCheck.vo"])
    ok, log, binary = build_repo_binary("dev")
    okh, logh, hb = harness_build("dev")
    if not ok or not okh:
        o.corr_failures.append(("/repo does not build: " + (log + logh)[-1500:], {"build_log": (log + logh)[-3000:]}))
        return finish(o)
    try:
        invs = harness_run(hb, "classify", [json.dumps({"mkinv": {"pre": 0, "amount": 1000000, "signer": 1}}), json.dumps({"mkinv": {"pre": 1, "amount": 1000000, "signer": 1, "hints": [[0]]}})])
        local_id = invs[1]["view"]["last_hops"][0]
        cases = gen(tier, seed)
        with ThreadPoolExecutor(NCPU) as ex:
            obs = list(ex.map(lambda ic: probe(binary, ic[1], ic[0], local_id, invs[0]["bolt11"], invs[1]["bolt11"]), enumerate(cases)))
        codes = eval_cases("C19", HDR, [term(c, x) for c, x in zip(cases, obs)], "verdict_config", "opts * cobs")
    except RuntimeError as ex:
        o.corr_failures.append(("could not evaluate cases: %s" % str(ex)[-1500:], {}))
        return finish(o)
    tagged = [{"options": c, "observed": x} for c, x in zip(cases, obs)]
    o.note_codes(codes, tagged, lambda c: "options %s: the binary %s and ran with %s" % (json.dumps(c["options"]), c["observed"].get("start_state"), json.dumps({k: v for k, v in c["observed"].items() if k not in ("start_state",)})))
    # a disagreement here IS the property failing on the implementation (started with other values / did not refuse)
    o.corr_failures = []
    for code, c in zip(codes, tagged):
        if (code >> 4) == 1 or c["options"] != DEFAULT: o.nontrivial.add(json.dumps(c["options"], sort_keys=True))
    o.distribution["started"] = sum(1 for x in obs if x["started"]); o.distribution["refused"] = sum(1 for x in obs if not x["started"])
    o.samples = [tagged[0], tagged[len(tagged) // 2]]
    return finish(o)
