"""C11 - composite property checked by the system engine (see p_sys.py), plus a process-boundary probe: the in-process engine
builds HtlcManager from a configuration record and so never sees how main.rs wires the options; the MPP timeout the real binary
runs with must be the configured one."""
import json, os
from concurrent.futures import ThreadPoolExecutor
from p_sys import *

def wiring_check(o):
    """The real binary, started with an MPP timeout different from the payment timeout, fails a partial HTLC after the MPP timeout."""
    import p_c19
    from e2e import build_repo_binary
    ok, log, binary = build_repo_binary("dev")
    okh, logh, hb = harness_build("dev")
    if not ok or not okh:
        o.corr_failures.append(("/repo does not build: " + (log + logh)[-1500:], {"build_log": (log + logh)[-3000:]})); return
    try:
        invs = harness_run(hb, "classify", [json.dumps({"mkinv": {"pre": 0, "amount": 1000000, "signer": 1}}), json.dumps({"mkinv": {"pre": 1, "amount": 1000000, "signer": 1, "hints": [[0]]}})])
        local_id = invs[1]["view"]["last_hops"][0]
        cases = [dict(p_c19.DEFAULT, mpp=1, paytimeout=60), dict(p_c19.DEFAULT, mpp=2, paytimeout=7), dict(p_c19.DEFAULT, mpp=3, paytimeout=1)]
        with ThreadPoolExecutor(3) as ex:
            obs = list(ex.map(lambda ic: p_c19.probe(binary, ic[1], 900 + ic[0], local_id, invs[0]["bolt11"], invs[1]["bolt11"]), enumerate(cases)))
        codes = eval_cases("C11wiring", p_c19.HDR, [p_c19.term(c, x) for c, x in zip(cases, obs)], "verdict_config", "opts * cobs")
    except RuntimeError as ex:
        o.corr_failures.append(("could not run the process-boundary probe: %s" % str(ex)[-1500:], {})); return
    for code, c, x in zip(codes, cases, obs):
        o.evaluations += 1
        if code & 3:
            o.monitor_failures.append(("process boundary: started with %s the binary ran with %s (time to the MPP failure of a partial HTLC in 0.1 s: %s)" % (
                json.dumps(c), json.dumps({k: v for k, v in x.items() if k != "start_state"}), x.get("mpp_ds")), {"engine": "e2e", "options": c, "observed": x}))
        else:
            o.nontrivial.add("wiring:" + json.dumps(c, sort_keys=True))

def run(tier, seed):
    extra = ("timeout cases tick to 1 ms before the deadline (no response allowed) and then to the deadline (all failed); restarts in the middle with aged attempts. "
             "PLUS the real binary started with MPP timeouts 1/2/3 s and payment timeouts 60/7/1 s: a partial HTLC is failed after the MPP timeout (real time, window [-0.1, +0.8] s). ")
    return run_property("C11", tier, seed, gen_for("C11"), rule=BASE_RULE + extra, assumptions=COMMON_ASSUME, profiles=("dev",), extra_check=wiring_check)
