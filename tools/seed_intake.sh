#!/bin/bash
# seed_intake.sh <worktree> <name> : confirms a seeded change (demo passes without, fails with; suite passes with) and stores it under /verif/seeded/<name>/
set -u
WT=$1; NAME=$2
cd $WT || exit 2
export CARGO_NET_OFFLINE=true CARGO_TARGET_DIR=$WT/target
git reset -q --hard HEAD ; git clean -fdq src tests
DEMO_CMD=$(python3 -c "import json;print(json.load(open('$WT/OUT/meta.json'))['demo_command'])")
FILTER=$(python3 -c "
import json,re
d=json.load(open('$WT/OUT/meta.json'))['demo_command']
t=re.findall(r'cargo test --offline\\s+(--test\\s+[A-Za-z0-9_]+)', d)
m=re.findall(r'cargo test --offline\\s+([A-Za-z0-9_:]+)', d)
print(t[-1] if t else (m[-1] if m else d.split()[-1]))")
echo "demo filter: $FILTER"
git apply OUT/demo.diff || { echo "DEMO DOES NOT APPLY"; exit 1; }
cargo test --offline $FILTER 2>&1 | grep -E "^test result|FAILED|panicked" | head -5 > /tmp/wt/$NAME.without.txt
git apply OUT/patch.diff || { echo "PATCH DOES NOT APPLY"; exit 1; }
cargo test --offline $FILTER 2>&1 | grep -E "^test result|FAILED|panicked" | head -5 > /tmp/wt/$NAME.with.txt
git reset -q --hard HEAD ; git clean -fdq src tests
git apply OUT/patch.diff
cargo test --offline 2>&1 | grep -E "^test result" > /tmp/wt/$NAME.suite.txt
git reset -q --hard HEAD ; git clean -fdq src tests
echo "--- without change:"; cat /tmp/wt/$NAME.without.txt; echo "--- with change:"; cat /tmp/wt/$NAME.with.txt; echo "--- suite with change only:"; cat /tmp/wt/$NAME.suite.txt
mkdir -p /verif/seeded/$NAME
cp OUT/patch.diff /verif/seeded/$NAME/patch.diff; cp OUT/demo.diff /verif/seeded/$NAME/demo.diff; cp OUT/meta.json /verif/seeded/$NAME/agent_meta.json
