"""End-to-end engine: the REAL trampoline binary (built from /repo's working tree) as a child process of a
fake lightningd: getmanifest/init over pipes (adversarially chunked), a unix-socket JSON-RPC server for
getinfo / datastore / listdatastore / listsendpays / waitsendpay / pay. Runs in real time."""
import json, os, select, shutil, socket, subprocess, threading, time
from vlib import *

REPO_TARGET = os.path.join(CACHE, "target-repo")

def build_repo_binary(profile="dev", timeout=1500):
    with Lock("cargo-repo"):
        cmd = ["timeout", str(timeout), "cargo", "build", "--offline", "--quiet", "--manifest-path", os.path.join(REPO, "Cargo.toml"), "--target-dir", REPO_TARGET]
        if profile == "release": cmd.append("--release")
        rc, out = sh(cmd, timeout=timeout + 60, env=dict(ENV, RUSTFLAGS="-Awarnings"))
    return rc == 0, out, os.path.join(REPO_TARGET, "release" if profile == "release" else "debug", "trampoline")


class FakeNode:
    def __init__(self, binary, options, local_id, workdir, height=100, chunk=7, pay_script=None):
        self.binary, self.options, self.local_id, self.dir = binary, options, local_id, workdir
        self.height = height
        self.chunk = chunk
        self.ds = {}            # tuple(key) -> (string, generation)
        self.parts = []         # dicts: hash, groupid, partid, status, preimage
        self.rpc_log = []       # (method, params)
        self.pay_script = pay_script or (lambda node, params: {"error": {"code": 210, "message": "no route"}})
        self.frames = []        # every frame the plugin wrote
        self.replies = {}       # id -> frame
        self.logs = []
        self.bad_frames = 0
        self.lock = threading.Lock()
        self.proc = None
        self.alive = True

    # ---------------- rpc server ----------------
    def _serve(self):
        while self.alive:
            try:
                conn, _ = self.srv.accept()
            except OSError:
                return
            threading.Thread(target=self._conn, args=(conn,), daemon=True).start()

    def _conn(self, conn):
        buf = b""
        try:
            while True:
                d = conn.recv(65536)
                if not d: break
                buf += d
                try:
                    req = json.loads(buf.decode())
                except Exception:
                    continue
                buf = b""
                resp = self._handle(req)
                resp["jsonrpc"] = "2.0"; resp["id"] = req.get("id")
                conn.sendall(json.dumps(resp).encode() + b"\n\n")
        except OSError:
            pass
        finally:
            conn.close()

    def _handle(self, req):
        m, p = req["method"], req.get("params") or {}
        with self.lock:
            self.rpc_log.append((m, p))
            if m == "getinfo":
                return {"result": {"id": self.local_id, "alias": "fake", "color": "000000", "num_peers": 0, "num_pending_channels": 0, "num_active_channels": 0,
                                   "num_inactive_channels": 0, "version": "fake", "blockheight": self.height, "network": "regtest", "fees_collected_msat": 0,
                                   "lightning-dir": self.dir, "address": [], "binding": []}}
            if m == "listdatastore":
                k = tuple(p.get("key") or [])
                v = self.ds.get(k)
                return {"result": {"datastore": [] if v is None else [{"key": list(k), "generation": v[1], "string": v[0], "hex": v[0].encode().hex()}]}}
            if m == "datastore":
                k = tuple(p["key"]); mode = p.get("mode", "must-create"); gen = p.get("generation")
                cur = self.ds.get(k)
                if mode == "must-create" and cur is not None: return {"error": {"code": 1202, "message": "already exists"}}
                if mode == "must-replace" and cur is None: return {"error": {"code": 1200, "message": "does not exist"}}
                if gen is not None and cur is not None and cur[1] != gen: return {"error": {"code": 1201, "message": "generation mismatch"}}
                g = 0 if cur is None else cur[1] + 1
                self.ds[k] = (p.get("string"), g)
                return {"result": {"key": list(k), "generation": g, "string": p.get("string")}}
            if m == "listsendpays":
                st = p.get("status"); h = p.get("payment_hash")
                ps = [x for x in self.parts if x["hash"] == h and (st is None or x["status"] == st)]
                return {"result": {"payments": [dict({"id": 1, "groupid": x["groupid"], "partid": x["partid"], "payment_hash": h, "status": x["status"], "created_at": 1,
                                                      "amount_sent_msat": 1}, **({"payment_preimage": x["preimage"]} if x["status"] == "complete" else {})) for x in ps]}}
            if m == "waitsendpay":
                h = p.get("payment_hash")
                for x in self.parts:
                    if x["hash"] == h and x["groupid"] == p.get("groupid") and x["partid"] == p.get("partid"):
                        if x["status"] == "complete":
                            return {"result": {"id": 1, "payment_hash": h, "status": "complete", "created_at": 1, "amount_sent_msat": 1, "payment_preimage": x["preimage"]}}
                        if x["status"] == "failed": return {"error": {"code": 203, "message": "failed"}}
                return {"error": {"code": 208, "message": "no such part"}}
        if m == "pay":
            return self.pay_script(self, p)
        return {"error": {"code": -32601, "message": "unknown method"}}

    # ---------------- plugin process ----------------
    def _reader(self):
        buf = b""
        fd = self.proc.stdout.fileno()
        while True:
            try:
                d = os.read(fd, 65536)
            except OSError:
                break
            if not d: break
            buf += d
            while b"\n\n" in buf:
                f, buf = buf.split(b"\n\n", 1)
                try:
                    v = json.loads(f.decode())
                except Exception:
                    with self.lock: self.bad_frames += 1; self.frames.append({"raw": f.hex()})
                    continue
                with self.lock:
                    self.frames.append(v)
                    if "id" in v and "method" not in v: self.replies[json.dumps(v["id"])] = v
                    elif v.get("method") == "log": self.logs.append(v)
        self.trailing = buf

    def _write(self, obj, split_sep=False):
        data = json.dumps(obj).encode() + b"\n\n"
        if split_sep:
            # a read of the plugin that ends exactly between the two newlines of the separator: everything but the last byte,
            # a pause long enough for the plugin to read it, then the last byte
            self.proc.stdin.write(data[:-1]); self.proc.stdin.flush(); time.sleep(0.08)
            self.proc.stdin.write(data[-1:]); self.proc.stdin.flush()
            return
        for i in range(0, len(data), self.chunk):
            self.proc.stdin.write(data[i:i + self.chunk]); self.proc.stdin.flush()

    def wait_reply(self, rid, timeout):
        t0 = time.time()
        k = json.dumps(rid)
        while time.time() - t0 < timeout:
            with self.lock:
                if k in self.replies: return self.replies[k]
            if self.proc.poll() is not None:
                time.sleep(0.05)
                with self.lock: return self.replies.get(k)
            time.sleep(0.01)
        return None

    def start(self, timeout=20):
        """Returns 'started' | 'exited' | 'timeout'."""
        shutil.rmtree(self.dir, ignore_errors=True); os.makedirs(self.dir)
        self.sock_path = os.path.join(self.dir, "lightning-rpc")
        self.srv = socket.socket(socket.AF_UNIX, socket.SOCK_STREAM); self.srv.bind(self.sock_path); self.srv.listen(64)
        threading.Thread(target=self._serve, daemon=True).start()
        self.proc = subprocess.Popen([self.binary], stdin=subprocess.PIPE, stdout=subprocess.PIPE, stderr=subprocess.DEVNULL, cwd=self.dir,
                                     env=dict(os.environ, RUST_LOG="debug", RUST_BACKTRACE="0"))
        self.trailing = b""
        threading.Thread(target=self._reader, daemon=True).start()
        try:
            self._write({"jsonrpc": "2.0", "id": 1, "method": "getmanifest", "params": {"allow-deprecated-apis": False}})
            man = self.wait_reply(1, timeout)
            if man is None: return "exited" if self.proc.poll() is not None else "timeout"
            self.manifest = man
            self._write({"jsonrpc": "2.0", "id": 2, "method": "init", "params": {"options": self.options, "configuration": {
                "lightning-dir": self.dir, "rpc-file": "lightning-rpc", "startup": True, "network": "regtest",
                "feature_set": {"init": "", "node": "", "channel": "", "invoice": ""}}}})
        except (BrokenPipeError, OSError):
            return "exited"
        r = self.wait_reply(2, timeout)
        if r is not None and "result" in r and not (r["result"] or {}).get("disable"):
            return "started"
        t0 = time.time()
        while time.time() - t0 < 3:
            if self.proc.poll() is not None: return "exited"
            time.sleep(0.02)
        return "exited" if self.proc.poll() is not None else "timeout"

    def hook(self, rid, params, split_sep=False):
        try:
            self._write({"jsonrpc": "2.0", "id": rid, "method": "htlc_accepted", "params": params}, split_sep=split_sep)
        except (BrokenPipeError, OSError):
            pass

    def notify_block(self, height):
        try:
            self._write({"jsonrpc": "2.0", "method": "block_added", "params": {"block_added": {"hash": "00" * 32, "height": height}}})
        except (BrokenPipeError, OSError):
            pass

    def stop(self):
        self.alive = False
        try: self.srv.close()
        except OSError: pass
        if self.proc and self.proc.poll() is None:
            try: self.proc.stdin.close()
            except OSError: pass
            try: self.proc.wait(timeout=2)
            except subprocess.TimeoutExpired: self.proc.kill()
        shutil.rmtree(self.dir, ignore_errors=True)
