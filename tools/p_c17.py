"""C17 - wire protocol: framing under any chunking (real MultiLineCodec), one reply per id (real PluginDriver in-process)."""
import json, itertools, collections, re
from vlib import *

HDR = "From Tramp Require Import Model.Base Model.Codec Check.Common Check.CodecCheck.\nOpen Scope N_scope."
SYMS = [b"\n", b"a", "é".encode(), b"{"]

def partitions(n, r, limit):
    """All cut sets of a string of n bytes if few, else random ones."""
    if n <= 1: return [[]]
    cuts = list(range(1, n))
    allp = 2 ** len(cuts)
    if allp <= limit:
        return [[c for i, c in enumerate(cuts) if m >> i & 1] for m in range(allp)]
    out = [[], cuts]
    for _ in range(limit - 2):
        out.append([c for c in cuts if r.chance(1, 2)])
    return out

def chunkify(b, cuts):
    pts = [0] + cuts + [len(b)]
    return [b[i:j] for i, j in zip(pts, pts[1:])]

def gen_decode(tier, seed):
    r = SplitMix64(seed * 17 + 17)
    T = tier == "thorough"
    cases = []
    maxsym = 6 if T else 5
    for n in range(0, maxsym + 1):
        for t in itertools.product(range(4), repeat=n):
            s = b"".join(SYMS[i] for i in t)
            for cuts in partitions(len(s), r, 64 if T else 16):
                cases.append(chunkify(s, cuts))
    # real message streams, random partitions (including 1-byte reads)
    msgs = [json.dumps({"jsonrpc": "2.0", "id": i, "method": "htlc_accepted", "params": {"onion": {"payload": "00" * (i * 7 % 40)}, "note": "héllo ✓ %d" % i}}) for i in range(6)]
    stream = "".join(m + "\n\n" for m in msgs).encode()
    for k in range(200 if T else 30):
        sizes = [1, 2, 3, 5, 7, 64, 1000]
        cuts, pos = [], 0
        while pos < len(stream):
            pos += r.choice(sizes) if k % 3 else 1 + r.below(4)
            if pos < len(stream): cuts.append(pos)
        cases.append(chunkify(stream, cuts))
    return cases

def reqs_param(reqs, i):
    return [rq for rq in reqs if rq["method"] == "htlc_accepted"][i]["params"]

def run(tier, seed):
    o = Outcome("C17", tier, seed)
    T = tier == "thorough"
    o.rule = ("decode: every string of up to %d symbols over {\\n, a, é (2 bytes), {} with every partition into read chunks (all cut sets when <= %d, random beyond), and real JSON-RPC "
              "message streams under random partitions down to 1-byte reads; encode: message lists; driver: the real Builder/PluginDriver in-process on duplex pipes of capacity 1..64 bytes, "
              "1-8 concurrent hook requests (numeric and string ids, UTF-8 in ids and params), request stream written in adversarial chunks (a third of the scenarios: getmanifest, init and the requests as ONE chunked stream, not waiting for the init reply), handlers released in every/random completion order, or 6-15 of them finishing in one burst, "
              "a failing handler, interleaved notifications (some of whose handlers fail); and scenarios with the plugin's real log writer sharing the output (handlers emit log lines of 10-3000 bytes), replies of up to 20 kB, "
              "and a node that stops reading the plugin's output while further requests arrive (busy writer, back-pressure), one process per scenario. Non-trivial: at least one complete frame (decode) / at least two requests (driver); distinct = distinct chunk list or scenario") % (6 if T else 5, 64 if T else 16)
    o.assumptions = ["serde_json never emits a raw newline; FramedWrite::send under the output mutex writes message and separator together; tokio's scheduling of handler tasks: exercised, not proved",
                     "log notifications: the real tracing layer and writer task of logging.rs on the in-process pipe; the real stdout is covered by the e2e engine only"]
    o.proof = proof_stage("C17", ["theories/Props/C17.vo", "theories/Check/CodecCheck.vo"])
    ok, log, binary = harness_build("dev")
    if not ok:
        o.corr_failures.append(("harness does not compile against /repo's working tree: " + log[-1500:], {"build_log": log[-3000:]}))
        return finish(o)
    r = SplitMix64(seed * 5 + 3)
    try:
        # ---- decode
        dc = gen_decode(tier, seed)
        obs = harness_run(binary, "codec", [json.dumps({"chunks": [c.hex() for c in ch]}) for ch in dc], shards=NCPU)
        terms = ["(%s, %s, %s, %s)" % (coq_list([coq_bytes(c) for c in ch]), coq_list([coq_bytes(f) for f in x["frames"] if f != "panic"]), coq_bytes(x["left"]), coq_bool(x["error"])) for ch, x in zip(dc, obs)]
        codes = eval_cases("C17d", HDR, terms, "verdict_decode", "list (list N) * list (list N) * list N * bool", per_shard=800)
        tagged = [{"chunks": [c.hex() for c in ch], "obs": x} for ch, x in zip(dc, obs)]
        o.note_codes(codes, tagged, lambda c: "decoding chunks %s: implementation produced %s" % (c["chunks"][:12], json.dumps(c["obs"])[:300]))
        for code, c in zip(codes, tagged):
            if code >> 4: o.nontrivial.add("d" + json.dumps(c["chunks"]))
        # ---- encode
        ec = [[("m%d é {\"k\": %d}" % (i, j)).encode() for j in range(n)] for i, n in enumerate([0, 1, 2, 3, 5, 1, 2])]
        eo = harness_run(binary, "codec", [json.dumps({"encode": [m.hex() for m in ms]}) for ms in ec])
        codes = eval_cases("C17e", HDR, ["(%s, %s)" % (coq_list([coq_bytes(m) for m in ms]), coq_bytes(x["bytes"])) for ms, x in zip(ec, eo)], "verdict_encode", "list (list N) * list N")
        o.note_codes(codes, [{"msgs": [m.hex() for m in ms], "obs": x} for ms, x in zip(ec, eo)], lambda c: "encoding %s gave %s" % (c["msgs"], c["obs"]))
        # ---- driver
        dcases = []
        for k in range(120 if T else 30):
            n = (1 + r.below(8) if k else 3) if k % 5 != 4 else 6 + r.below(10)
            reqs, tags = [], []
            for i in range(n):
                rid = i if r.chance(1, 2) else "id-%d-é" % i
                p = {"tag": i, "pad": "x" * r.below(40), "s": "ünï %d" % i}
                if r.chance(1, 7): p["fail"] = 1
                reqs.append({"id": rid, "method": "htlc_accepted", "params": p})
                if r.chance(1, 3): reqs.append({"method": "block_added", "params": {"block_added": {"height": i}}})
                # a notification whose handler fails (a payload the handler cannot use) between the requests
                if r.chance(1, 5): reqs.append({"method": "block_added", "params": {"block": {"height": i}, "fail": 1}})
            order = list(range(n))
            # a random completion order, sometimes only a prefix is controlled
            for i in range(n - 1, 0, -1):
                j = r.below(i + 1); order[i], order[j] = order[j], order[i]
            if k % 5 == 4:
                # a burst: only a short prefix is released one by one, all the other handlers finish in the same scheduler pass
                # (more completions at once than the reply channel holds)
                order = order[:r.below(3)]
            dcases.append({"cap": r.choice([1, 2, 3, 5, 7, 16, 64]), "requests": reqs, "chunks": [r.choice([1, 2, 3, 5, 8, 13, 100]) for _ in range(5)], "complete_order": order, "_n": n})
            if k % 3 == 1:
                # the node does not wait for the init reply: handshake and requests are one chunked stream (a read of the
                # handshake may end inside or after the first requests); every other one of these arrives in a single write
                dcases[-1]["pipeline"] = True
                if k % 6 == 1: dcases[-1]["cap"] = 65536; dcases[-1]["chunks"] = [1000000]
                else: dcases[-1]["cap"] = r.choice([7, 64, 4096])
        # ---- driver with the REAL log writer sharing the output, and a node that stops reading for a while (busy writer / back-pressure)
        lcases = []
        for k in range(96 if T else 32):
            n = 2 + r.below(5)
            reqs = []
            for i in range(n):
                rid = i if r.chance(1, 2) else "id-%d-é" % i
                p = {"tag": i, "pad": "x" * r.below(40)}
                if k % 2 == 0 and (i == 0 or r.chance(1, 3)): p["log"] = r.choice([10, 100, 500, 3000])
                if k % 2 == 1 and (i == 0 or r.chance(1, 2)): p["big"] = r.choice([100, 5000, 9000, 20000])
                if i == 0 or r.chance(2, 3): p["nogate"] = 1
                reqs.append({"id": rid, "method": "htlc_accepted", "params": p})
                if r.chance(1, 4): reqs.append({"method": "block_added", "params": {"block_added": {"height": i}}})
            gated = [i for i in range(n) if "nogate" not in reqs_param(reqs, i)]
            for i in range(len(gated) - 1, 0, -1):
                j = r.below(i + 1); gated[i], gated[j] = gated[j], gated[i]
            lcases.append({"cap": r.choice([16, 64, 64, 256, 4096]), "requests": reqs, "chunks": [r.choice([5, 13, 100, 1000]) for _ in range(3)], "complete_order": gated,
                           "logging": k % 2 == 0, "pause_reader": k % 4 != 3, "_n": n, "_order": []})
        for c in dcases: c["_order"] = c["complete_order"]
        plain = [json.dumps({k: v for k, v in c.items() if not k.startswith("_")}) for c in dcases]
        dobs = harness_run(binary, "driver", plain, shards=NCPU, timeout=900)
        # the tracing subscriber is process-global: one logging case per process
        from concurrent.futures import ThreadPoolExecutor
        with ThreadPoolExecutor(NCPU) as ex:
            lobs = list(ex.map(lambda c: harness_run(binary, "driver", [json.dumps({k: v for k, v in c.items() if not k.startswith("_")})], timeout=300)[0], lcases))
        o.extra["driver_scenarios_with_log_writer_or_paused_reader"] = len(lcases)
        dcases = dcases + lcases; dobs = dobs + lobs
        dterms = []
        for c, x in zip(dcases, dobs):
            hook_ids = [rq["id"] for rq in c["requests"] if rq["method"] == "htlc_accepted"]
            fails = {rq["id"] if not isinstance(rq["id"], list) else None: bool(rq["params"].get("fail")) for rq in c["requests"] if rq["method"] == "htlc_accepted"}
            replies, logs_seen = [], []
            logs_emitted = [rq["params"]["tag"] for rq in c["requests"] if rq["method"] == "htlc_accepted" and "log" in rq["params"]]
            logsize = {rq["params"]["tag"]: rq["params"]["log"] for rq in c["requests"] if rq["method"] == "htlc_accepted" and "log" in rq["params"]}
            for f in x["frames"][2:]:
                if f.get("method") == "log" and "id" not in f:
                    m = re.fullmatch(r"message: L(\d+):(x*)", str(f.get("params", {}).get("message")))
                    if m: logs_seen.append(int(m.group(1)) if len(m.group(2)) == logsize.get(int(m.group(1))) else 997)
                    # (log lines of the library itself, if any, are whole frames too: nothing more is asked of them)
                elif "id" in f and f["id"] in hook_ids:
                    idx = hook_ids.index(f["id"])
                    if "result" in f: echo = f["result"].get("echo")
                    else: echo = idx if fails.get(f["id"]) and f.get("error", {}).get("message") else -1     # a failing handler answers with an error for ITS id
                    replies.append("(%d, %d)" % (idx, echo if isinstance(echo, int) and echo >= 0 else 999))
                else:
                    replies.append("(999, 998)")
            trailing = len(x["trailing"]) // 2 + (0 if x["handshake_ok"] else 1)
            dterms.append("(%d%%nat, %s, %s, %d, %d, %s, %s)" % (c["_n"], coq_list([str(i) for i in c["_order"]]), coq_list(replies), x["bad_frames"], trailing,
                                                                 coq_list([str(i) for i in logs_emitted]), coq_list([str(i) for i in logs_seen])))
        codes = eval_cases("C17r", HDR, dterms, "verdict_driver", "nat * list N * list (N * N) * N * N * list N * list N", per_shard=20)
        tagged = [{"case": {k: v for k, v in c.items() if not k.startswith("_")}, "obs": x} for c, x in zip(dcases, dobs)]
        o.note_codes(codes, tagged, lambda c: "driver scenario cap=%s order=%s: frames written %s" % (c["case"]["cap"], c["case"]["complete_order"], json.dumps(c["obs"]["frames"][2:])[:400]))
        for code, c in zip(codes, tagged):
            if (code >> 4) >= 2: o.nontrivial.add("r" + json.dumps(c["case"], sort_keys=True))
        o.samples = [tagged[0], {"chunks": [c.hex() for c in dc[len(dc) // 2]], "obs": obs[len(dc) // 2]}]
    except RuntimeError as ex:
        o.corr_failures.append(("could not evaluate cases: %s" % str(ex)[-1500:], {}))
    return finish(o)
