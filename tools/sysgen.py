"""Case generators for the system engine (scripted scenario families + random walks)."""
import json
from vlib import SplitMix64
from world import *

POLICIES = [[0, 5000, 1008], [1000, 5000, 144], [0, 0, 40], [1000, 0, 1008], [4294967295, 4294967295, 65535]]

def mk_cfg(r, **over):
    c = dict(DEFAULT_CFG)
    c["policy"] = list(r.choice(POLICIES[:4]))
    c["cltv_delta"] = r.choice([34, 34, 6, 0])
    if c["policy"][2] <= c["cltv_delta"]:
        c["cltv_delta"] = 6
    c["mpp_ms"] = r.choice([60000, 60000, 5000, 120000])
    c["allow_self"] = r.chance(3, 4)
    c.update(over)
    return c

def fee_needed(pol, amount):
    return amount + pol[0] + amount * pol[1] // 1000000

class CaseBuilder:
    """Builds the invoice table and an HTLC pool for 1..n payment hashes."""
    def __init__(self, r, cfg, nhash=1, invoices=None):
        self.r, self.cfg = r, cfg
        self.invoices = []       # descriptors
        self.inv_amount = []
        self.inv_hash = []
        self.preimages = list(range(nhash))
        self.nhash = nhash
        self.next_id = 1

    def add_invoice(self, h, amount, **kw):
        d = {"pre": h, "amount": amount, "signer": kw.pop("signer", 1 + h), "ts": len(self.invoices)}
        d.update(kw)
        self.invoices.append(d); self.inv_amount.append(amount); self.inv_hash.append(h)
        return len(self.invoices) - 1

    def htlc(self, inv, amt, total, expiry=None, rel=None, hash_idx=None, amount_tlv=None, forward="amt", scid=None, bolt11s=None, raw_payload=None):
        """HTLC spec; the bolt11 string is filled in by `finish` once the harness has built the invoices."""
        h = self.inv_hash[inv] if hash_idx is None else hash_idx
        pol = self.cfg["policy"]
        if expiry is None: expiry = 2000 + self.r.below(500)
        if rel is None: rel = pol[2] + self.r.below(500)
        e = {"e": "htlc", "_inv": inv, "_amount_tlv": amount_tlv, "_raw": raw_payload,
             "req": request(b"", phash(h), amt, expiry, rel, self.next_id, forward=(amt if forward == "amt" else forward), total=total, scid=scid)}
        self.next_id += 1
        return e

def finalize_htlc(e, bolt11s):
    e = json.loads(json.dumps(e))
    inv, atlv, raw = e.pop("_inv"), e.pop("_amount_tlv"), e.pop("_raw")
    if raw is not None:
        pl = bytes.fromhex(raw)
    else:
        pl = payload(bolt11s[inv] if inv is not None else None, amount_tlv=atlv)
    e["req"]["onion"]["payload"] = pl.hex()
    return e

def split_amount(r, total, n):
    if n == 1: return [total]
    cuts = sorted(r.below(total - 1) + 1 for _ in range(n - 1))
    parts = [b - a for a, b in zip([0] + cuts, cuts + [total])]
    return [p for p in parts if p > 0] or [total]

def std_pool(r, b, h, amount=1000000, npieces=None):
    """A pool of HTLCs for hash h: a fully funded set in 1-3 pieces plus odd ones."""
    pol = b.cfg["policy"]
    inv = b.add_invoice(h, amount)
    need = fee_needed(pol, amount)
    total = need + r.choice([0, 0, 1, 1000])
    pieces = split_amount(r, total, npieces or (1 + r.below(3)))
    pool = [b.htlc(inv, p, total) for p in pieces]
    extra = []
    if r.chance(1, 2): extra.append(b.htlc(inv, 1000, total))                                    # over-funding piece
    if r.chance(1, 3): extra.append(b.htlc(inv, pieces[0], total, rel=max(0, pol[2] - 1 - r.below(10))))   # expiry too low
    if r.chance(1, 3): extra.append(b.htlc(inv, pieces[0], need - 1))                            # declared total too low
    if r.chance(1, 4):
        inv2 = b.add_invoice(h, amount, ts=99)                                                   # conflicting invoice, same hash
        extra.append(b.htlc(inv2, pieces[0], total))
    if r.chance(1, 4):
        inv3 = b.add_invoice(h, None)                                                            # amountless invoice + amount tlv (conflicts with inv)
        extra.append(b.htlc(inv3, pieces[0], total, amount_tlv=amount))
    if r.chance(1, 5): extra.append(b.htlc(inv, pieces[0], total, scid="7x7x7"))                 # plain forward
    if r.chance(1, 5): extra.append(b.htlc(inv, pieces[0], total, hash_idx=(h + 1) % max(2, b.nhash)))  # hash differs from invoice's
    if r.chance(1, 5): extra.append(b.htlc(inv, pieces[0], total, forward=None))                 # no forward_msat
    if r.chance(1, 6): extra.append(b.htlc(inv, pieces[0], total, amount_tlv=amount + 1))        # disagreeing amount tlv
    if r.chance(1, 6): extra.append(b.htlc(inv, 2**64 - 1, total))                               # enormous htlc amount
    return pool, extra

WALK_W = {
    "default": {},
    "faulty": {"fault_write_rej": 8, "fault_write_abe": 8, "fault_pay_rej": 4, "crash": 2},
    "crashy": {"crash": 5, "htlc": 10},
    "readfaults": {"fault_read": 4, "fault_write_rej": 3, "fault_write_abe": 3},
    "slow": {"tick": 10, "proc": 15, "deliver": 15},
}

def walk_case(r, family="default", nhash=1, steps=120):
    cfg = mk_cfg(r)
    b = CaseBuilder(r, cfg, nhash)
    pool = []
    for h in range(nhash):
        p, x = std_pool(r, b, h, amount=r.choice([1000000, 1000000, 21000, 10**9]))
        pool += p + p + x
    return {"cfg": cfg, "invoices": b.invoices, "preimages": b.preimages, "_pool": pool,
            "walk": {"seed": r.next() % (2**53), "steps": steps, "w": WALK_W[family]}, "family": "walk/" + family}

def prepare(case, bolt11_of):
    """Fills the bolt11 strings into the HTLC payloads. bolt11_of: list of strings per invoice index."""
    c = dict(case)
    if "_pool" in c:
        c["pool"] = [finalize_htlc(e, bolt11_of) for e in c.pop("_pool")]
    if "_script" in c:
        c["script"] = [finalize_htlc(e, bolt11_of) if e.get("e") == "htlc" else e for e in c.pop("_script")]
    return c
