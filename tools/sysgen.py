"""Case generators for the system engine (scripted scenario families + random walks)."""
import json
from vlib import SplitMix64
from world import *

POLICIES = [[0, 5000, 1008], [1000, 5000, 144], [0, 0, 40], [1000, 0, 1008], [4294967295, 4294967295, 65535]]

def mk_cfg(r, **over):
    c = dict(DEFAULT_CFG)
    c["policy"] = list(r.choice(POLICIES[:4]))
    c["cltv_delta"] = r.choice([34, 34, 6, 0])
    if c["policy"][2] <= c["cltv_delta"]:
        c["cltv_delta"] = 6
    c["mpp_ms"] = r.choice([60000, 60000, 5000, 120000])
    c["allow_self"] = r.chance(3, 4)
    c["xpay"] = r.chance(1, 4)        # the flag changes the shape of the pay request (no label, no riskfactor), never its values
    c.update(over)
    return c

def fee_needed(pol, amount):
    return amount + pol[0] + amount * pol[1] // 1000000

class CaseBuilder:
    """Builds the invoice table and an HTLC pool for 1..n payment hashes."""
    def __init__(self, r, cfg, nhash=1, invoices=None):
        self.r, self.cfg = r, cfg
        self.invoices = []       # descriptors
        self.inv_amount = []
        self.inv_hash = []
        self.preimages = list(range(nhash))
        self.nhash = nhash
        self.next_id = 1

    def add_invoice(self, h, amount, **kw):
        d = {"pre": h, "amount": amount, "signer": kw.pop("signer", 1 + h), "ts": len(self.invoices)}
        d.update(kw)
        self.invoices.append(d); self.inv_amount.append(amount); self.inv_hash.append(h)
        return len(self.invoices) - 1

    def htlc(self, inv, amt, total, expiry=None, rel=None, hash_idx=None, amount_tlv=None, forward="amt", scid=None, bolt11s=None, raw_payload=None, raw_hash=None):
        if forward == "amt" and self.r.chance(1, 4):
            # the onion's forward_msat need not equal what the HTLC carries (skimmed upstream / malicious sender)
            forward = min(2**64 - 1, self.r.choice([amt + 1, amt * 2 + 7, max(0, amt - 1), total, 0, 2**64 - 1]))
        """HTLC spec; the bolt11 string is filled in by `finish` once the harness has built the invoices."""
        h = self.inv_hash[inv] if hash_idx is None else hash_idx
        pol = self.cfg["policy"]
        if expiry is None: expiry = 2000 + self.r.below(500)
        if rel is None: rel = pol[2] + self.r.below(500)
        if isinstance(amount_tlv, bytes): amount_tlv = {"hex": amount_tlv.hex()}
        # total == "absent": a non-MPP payment, the onion carries no total_msat (the declared total is then forward_msat)
        e = {"e": "htlc", "_inv": inv, "_amount_tlv": amount_tlv, "_raw": raw_payload,
             "req": request(b"", raw_hash if raw_hash is not None else phash(h), amt, expiry, rel, self.next_id, forward=(amt if forward == "amt" else forward),
                            total=(None if total == "absent" else total), scid=scid)}
        self.next_id += 1
        return e

def finalize_htlc(e, bolt11s):
    e = json.loads(json.dumps(e))
    inv, atlv, raw = e.pop("_inv"), e.pop("_amount_tlv"), e.pop("_raw")
    if isinstance(atlv, dict): atlv = bytes.fromhex(atlv["hex"])
    if raw is not None:
        pl = bytes.fromhex(raw)
    else:
        pl = payload(bolt11s[inv] if inv is not None else None, amount_tlv=atlv)
    e["req"]["onion"]["payload"] = pl.hex()
    return e

def split_amount(r, total, n):
    if n == 1: return [total]
    cuts = sorted(r.below(total - 1) + 1 for _ in range(n - 1))
    parts = [b - a for a, b in zip([0] + cuts, cuts + [total])]
    return [p for p in parts if p > 0] or [total]

def std_pool(r, b, h, amount=1000000, npieces=None):
    """A pool of HTLCs for hash h: a fully funded set in 1-3 pieces plus odd ones."""
    pol = b.cfg["policy"]
    inv = b.add_invoice(h, amount)
    need = fee_needed(pol, amount)
    total = need + r.choice([0, 0, 1, 1000])
    pieces = split_amount(r, total, npieces or (1 + r.below(3)))
    pool = [b.htlc(inv, p, total) for p in pieces]
    extra = []
    if r.chance(1, 2): extra.append(b.htlc(inv, 1000, total))                                    # over-funding piece
    if r.chance(1, 3): extra.append(b.htlc(inv, pieces[0], total, rel=r.choice([max(0, pol[2] - 1 - r.below(10)), -1, -2**32 + 3, -2**63])))   # expiry too low / already passed
    if r.chance(1, 3): extra.append(b.htlc(inv, pieces[0], max(0, need - 1)))                            # declared total too low
    if r.chance(1, 4):
        inv2 = b.add_invoice(h, amount, ts=99)                                                   # conflicting invoice, same hash
        extra.append(b.htlc(inv2, pieces[0], total))
    if r.chance(1, 4):
        inv3 = b.add_invoice(h, None)                                                            # amountless invoice + amount tlv (conflicts with inv)
        extra.append(b.htlc(inv3, pieces[0], total, amount_tlv=amount))
    if r.chance(1, 5): extra.append(b.htlc(inv, pieces[0], total, scid="7x7x7"))                 # plain forward
    if r.chance(1, 5): extra.append(b.htlc(inv, pieces[0], total, hash_idx=(h + 1) % max(2, b.nhash)))  # hash differs from invoice's
    if r.chance(1, 5): extra.append(b.htlc(inv, pieces[0], total, forward=None))                 # no forward_msat
    if r.chance(1, 6): extra.append(b.htlc(inv, pieces[0], total, amount_tlv=amount + 1))        # disagreeing amount tlv
    if r.chance(1, 6): extra.append(b.htlc(inv, 2**64 - 1, total))                               # enormous htlc amount
    return pool, extra

WALK_W = {
    "default": {},
    "faulty": {"fault_write_rej": 8, "fault_write_abe": 8, "fault_pay_rej": 4, "crash": 2},
    "crashy": {"crash": 5, "htlc": 10},
    "readfaults": {"fault_read": 4, "fault_write_rej": 3, "fault_write_abe": 3},
    "slow": {"tick": 10, "proc": 15, "deliver": 15},
}

def walk_case(r, family="default", nhash=1, steps=120):
    cfg = mk_cfg(r)
    b = CaseBuilder(r, cfg, nhash)
    pool = []
    for h in range(nhash):
        p, x = std_pool(r, b, h, amount=r.choice([1000000, 1000000, 21000, 10**9]))
        pool += p + p + x
    return {"cfg": cfg, "invoices": b.invoices, "preimages": b.preimages, "_pool": pool,
            "walk": {"seed": r.next() % (2**53), "steps": steps, "w": WALK_W[family]}, "family": "walk/" + family}

def prepare(case, bolt11_of):
    """Fills the bolt11 strings into the HTLC payloads. bolt11_of: list of strings per invoice index."""
    c = dict(case)
    if "_pool" in c:
        c["pool"] = [finalize_htlc(e, bolt11_of) for e in c.pop("_pool")]
    if "_script" in c:
        def fin(e):
            if e.get("e") == "htlc": return finalize_htlc(e, bolt11_of)
            if e.get("e") == "burst": return {"e": "burst", "items": [finalize_htlc(x, bolt11_of) for x in e["items"]]}
            return e
        c["script"] = [fin(e) for e in c.pop("_script")]
    return c

# ------------------------------------------------------------------------------------------
# scripted stories
# ------------------------------------------------------------------------------------------
PAY_ENDINGS = ["complete", "failed_noparts", "failed_after_partfail", "pending_then_done", "pending_then_fail",
               "error_then_done", "error_then_fail", "warn_then_done", "warn_then_fail", "two_parts_one_done", "two_parts_both_fail",
               "pending_slow_done", "pending_slow_fail", "error_slow_done", "warn_slow_fail"]
NEND = len(PAY_ENDINGS)

FAIL_CODES = [202, 203, 204, 208, 209]

def pay_ending(r, kind, code0=None):
    """Events from the moment the pay call is outstanding (unprocessed) to its fate. code0: failure code of the first part that fails."""
    ev = [{"e": "proc_next"}]           # the node starts the pay command
    codes = FAIL_CODES
    if kind == "complete":
        ev += [{"e": "newpart_next"}, {"e": "part_next", "st": "done"}, {"e": "payfin_next", "out": "complete"}]
    elif kind == "failed_noparts":
        ev += [{"e": "payfin_next", "out": "failed"}]
    elif kind == "failed_after_partfail":
        ev += [{"e": "newpart_next"}, {"e": "part_next", "st": "fail", "code": r.choice(codes)}, {"e": "payfin_next", "out": "failed"}]
    elif kind in ("pending_then_done", "pending_then_fail", "error_then_done", "error_then_fail", "warn_then_done", "warn_then_fail",
                  "pending_slow_done", "pending_slow_fail", "error_slow_done", "warn_slow_fail"):
        out = {"pending": "pending", "error": "error", "warn": "failed_warn"}[kind.split("_")[0]]
        fin = {"e": "payfin_next", "out": out}
        if out == "error": fin["err"] = r.choice(["transport", "-1", "nocode"] + [str(c) for c in range(200, 211)])   # every code pay documents
        last = {"e": "part_next", "st": "done"} if kind.endswith("done") else {"e": "part_next", "st": "fail", "code": r.choice(codes)}
        ev += [{"e": "newpart_next"}, fin]
        # the part resolves at a random point of the wait_payment that follows
        if "_slow_" in kind:
            # the part stays in flight for longer than the payment timeout while the plugin waits for it
            ev += [{"e": "drain_step"}] * 8 + [{"e": "tick", "ms": r.choice([61000, 61000, 120000, 600000])}] + [{"e": "drain_step"}] * r.choice([0, 3, 6]) + [last] + [{"e": "drain_step"}] * 8
        else:
            pos = r.below(6)
            tail = [{"e": "drain_step"}] * 8
            tail.insert(pos, last)
            ev += tail
    elif kind == "two_parts_one_done":
        ev += [{"e": "newpart_next"}, {"e": "newpart_next"}, {"e": "payfin_next", "out": "pending"}]
        tail = [{"e": "drain_step"}] * 10
        tail.insert(r.below(8), {"e": "part_next", "st": "fail", "code": code0 or r.choice(codes), "nth": r.below(2)})
        tail.insert(r.below(9), {"e": "part_next", "st": "done"})
        ev += tail
    elif kind == "two_parts_both_fail":
        ev += [{"e": "newpart_next"}, {"e": "newpart_next"}, {"e": "payfin_next", "out": r.choice(["pending", "failed_warn", "error"])}]
        tail = [{"e": "drain_step"}] * 10
        k0 = r.below(8)
        tail.insert(k0, {"e": "part_next", "st": "fail", "code": code0 or r.choice(codes)})
        tail.insert(k0 + 1 + r.below(9 - k0), {"e": "part_next", "st": "fail", "code": r.choice(codes)})
        ev += tail
    return ev

def story_case(r, ending=None, npieces=None, reject=None, nhash=1, heights=True, cfg=None, amount=None, second=False, burst=False, amountless=False, code0=None, late_extra=None, hangup=None):
    """One payment from first HTLC to its fate. reject: None | (kind, position)"""
    cfg = cfg or mk_cfg(r)
    b = CaseBuilder(r, cfg, nhash)
    amount = amount or r.choice([1000000, 21000, 10**9, 1])
    pol = cfg["policy"]
    # amountless: the invoice names no amount, every HTLC declares it in the amount TLV (33003)
    inv = b.add_invoice(0, None if amountless else amount)
    atlv = amount if amountless else None
    need = fee_needed(pol, amount)
    total = need + r.choice([0, 0, 1, 5000])
    pieces = split_amount(r, total, npieces or (1 + r.below(3)))
    hts = [b.htlc(inv, p, total, expiry=r.choice([1500, 2000, 2400, 70000]), rel=pol[2] + r.below(600), amount_tlv=atlv) for p in pieces]
    if len(pieces) == 1 and r.chance(1, 3):
        # the ordinary non-MPP shape: no total_msat in the onion
        hts = [b.htlc(inv, total, "absent", expiry=r.choice([1500, 2000, 2400, 70000]), rel=pol[2] + r.below(600), amount_tlv=atlv, forward=total)]
    if reject:
        kind, pos = reject
        if kind == "other_amount" and amountless:
            # the SAME amountless invoice with a conflicting declared amount (lower, so that the declared total still covers it)
            x = b.htlc(inv, r.choice([1, 1000]), total, amount_tlv=max(1, amount - r.choice([1, 7, amount // 2])))
            if len(hts) < 2:
                # at least two regular pieces, so that the conflicting one arrives while the set is incomplete
                pieces = split_amount(r, total, 2 + r.below(2))
                hts = [b.htlc(inv, p, total, expiry=r.choice([1500, 2000, 2400, 70000]), rel=pol[2] + r.below(600), amount_tlv=atlv) for p in pieces]
            hts.insert(1 + pos % max(1, len(hts) - 1), x); reject = None
        if kind == "low_expiry": x = b.htlc(inv, r.choice([1000, total]), total, rel=r.choice([max(0, pol[2] - 1 - r.below(5)), 0, -1, -1 - r.below(1000), -2**31, -2**32 + 5, -2**63]))
        elif kind == "low_total":
            if r.chance(1, 2): x = b.htlc(inv, r.choice([total, need, need + 1000]), "absent", forward=max(0, need - 1 - r.below(3)))
            else: x = b.htlc(inv, 1000, max(0, need - 1 - r.below(3)))
        elif kind == "low_total_solo":
            # the whole set is ONE htlc carrying need-1..need-3: nothing else arrives, so whoever accepts it goes on to pay
            t = max(1, need - 1 - r.below(3))
            x = b.htlc(inv, t, "absent", forward=t, amount_tlv=atlv) if r.chance(1, 2) else b.htlc(inv, t, t, amount_tlv=atlv)
            hts = []
        elif kind == "huge_solo":
            # an amountless invoice whose declared amount is so large that amount + fee does not fit 64 bits, and ONE htlc carrying
            # (and declaring) the largest 64-bit total: never covered, whatever the arithmetic saturates to
            inv = b.add_invoice(0, None, ts=55)
            big = 2**64 - 1 - [0, 1, 10, 1000][pos % 4]
            x = b.htlc(inv, 2**64 - 1, 2**64 - 1, amount_tlv=big, forward=2**64 - 1)
            hts = []
        elif kind == "other_invoice": x = b.htlc(b.add_invoice(0, amount, ts=77), 1000, total)
        elif kind == "near_hash":
            # an HTLC whose payment hash is NOT the invoice's but agrees with it under weak comparisons, fully funded on its own
            nh = near_hashes(phash(0))
            x = b.htlc(inv, total, total, raw_hash=nh[pos % len(nh)] if r.chance(3, 4) else r.choice(nh), amount_tlv=atlv)
        else: x = b.htlc(b.add_invoice(0, None), 1000, total, amount_tlv=amount + 7)     # other amount
        hts.insert(min(pos, len(hts)), x)
    script = []
    if heights: script.append({"e": "height", "v": r.choice([0, 100, 1400, 1466, 1467, 3000])})
    if burst:
        # the HTLCs of the set arrive concurrently under lock contention (all at once, or after the lifecycle reached the select!)
        k = r.below(len(hts)) if len(hts) > 1 and r.chance(1, 2) else 0
        for h in hts[:k]:
            script.append(h); script.append({"e": "drain"})
        script.append({"e": "burst", "items": hts[k:]})
    else:
        for i, h in enumerate(hts):
            if hangup is not None and i == hangup[0] and i > 0:
                # the handler task of one HTLC already held goes away (hangup = (position, which of the held ones)); the rest of
                # the set must still be resolved together
                script.append({"e": "drain"}); script.append({"e": "hangup_nth", "nth": hangup[1] % i})
            script.append(h)
            for _ in range(r.below(4)): script.append({"e": "drain_step"})
            if heights and r.chance(1, 4): script.append({"e": "height", "v": r.below(2500)})
            if r.chance(1, 5): script.append({"e": "tick", "ms": 1000 * (1 + r.below(5))})
    if late_extra:
        # one more part arrives when the set is already complete, before the lifecycle has read the payment parameters
        # (window: the first datastore read; after a restart: the whole wait_payment). "low_expiry": it expires earlier than
        # every part counted so far (and still passes the relative-expiry gate).
        lo = min(h["req"]["htlc"]["cltv_expiry"] for h in hts if isinstance(h, dict) and "req" in h)
        for _ in range(r.below(3)): script.append({"e": "drain_step"})
        script.append(b.htlc(inv, r.choice([1000, 1, total]), total, expiry=max(1, lo - r.choice([1, 34, 100, 500])) if late_extra == "low_expiry" else lo + 7,
                             rel=pol[2] + r.below(300), amount_tlv=atlv))
    script.append({"e": "drain"})
    if hangup is not None and hangup[0] >= len(hts) and len(hts) > 1:
        script.append({"e": "hangup_nth", "nth": hangup[1] % len(hts)})
    script += pay_ending(r, ending or r.choice(PAY_ENDINGS), code0)
    script.append({"e": "drain"})
    if second:
        # a second, fully funded set for the same invoice arrives while/after the first lifecycle finishes its bookkeeping
        at = len(script) - 1 - r.below(4)
        script.insert(max(0, at), b.htlc(inv, total, total, expiry=2200, rel=pol[2] + 50, amount_tlv=atlv))
        script += [{"e": "drain"}] + pay_ending(r, r.choice(PAY_ENDINGS)) + [{"e": "drain"}]
    return {"cfg": cfg, "invoices": b.invoices, "preimages": b.preimages, "_script": script, "family": "%s/%s/%s%s%s%s" % ("burst" if burst else "story", ending, reject and reject[0], "/second" if second else "", "/amountless" if amountless else "", "/hangup" if hangup is not None else ""),
            "suffix": [{"e": "finale"}], "_b": b, "_probe": b.htlc(inv, total, total, expiry=5000, rel=pol[2] + 100, amount_tlv=atlv)}

def one_failed_other_pending_case(r, code):
    """Two parts in flight; the first fails with [code] and the plugin gets to see that answer while the second is still pending;
    then the sender retries with a second funded set; only afterwards the second part resolves. Whoever gives up at the first
    failure frees the record and pays again while a part is pending."""
    cfg = mk_cfg(r)
    b = CaseBuilder(r, cfg, 1)
    pol = cfg["policy"]
    amount = r.choice([1000000, 21000])
    inv = b.add_invoice(0, amount)
    need = fee_needed(pol, amount)
    script = [{"e": "height", "v": 100}, b.htlc(inv, need, need, expiry=2400, rel=pol[2] + 50), {"e": "drain"},
              {"e": "proc_next"}, {"e": "newpart_next"}, {"e": "newpart_next"}, {"e": "payfin_next", "out": r.choice(["pending", "failed_warn", "error"])}, {"e": "drain"},
              {"e": "part_next", "st": "fail", "code": code, "nth": 0}, {"e": "drain"},
              b.htlc(inv, need, need, expiry=2300, rel=pol[2] + 60), {"e": "drain"}]
    script += pay_ending(r, r.choice(["complete", "failed_noparts", "pending_then_done"])) + [{"e": "drain"}]
    script += [{"e": "part_next", "st": r.choice(["done", "fail"]), "code": r.choice(FAIL_CODES)}, {"e": "drain"}]
    return {"cfg": cfg, "invoices": b.invoices, "preimages": b.preimages, "_script": script, "family": "one_failed_other_pending/%d" % code,
            "suffix": [{"e": "finale"}], "_b": b, "_probe": b.htlc(inv, need, need, expiry=5000, rel=pol[2] + 100)}

def straggler_case(r, ending=None):
    """The first lifecycle's bookkeeping RPCs are withheld at some point after its pay ended while a second,
    fully funded set runs its own payment; then the stragglers are released."""
    c = story_case(r, ending=ending or r.choice(["failed_noparts", "failed_after_partfail", "pending_then_fail", "error_then_fail", "two_parts_both_fail", "complete"]))
    b = c["_b"]
    script = c["_script"]
    # position: just before the final drain of the first story, minus 0-3 steps already taken
    script = script[:-1] + [{"e": "drain_step"}] * r.below(4) + [{"e": "hold_unprocessed"}]
    probe = dict(c["_probe"]); probe.pop("probe", None)
    script += [probe, {"e": "drain"}] + pay_ending(r, r.choice(["pending_then_done", "complete", "two_parts_one_done", "failed_noparts"]))[:r.choice([2, 3, 99])]
    script += [{"e": "drain_step"}] * r.below(3) + [{"e": "release"}, {"e": "drain"}]
    c["_script"] = script
    c["family"] = c["family"].replace("story/", "straggler/")
    return c

def straggler_crash_case(r):
    """As straggler_case, but the second set's pay is left RUNNING with a pending part when the first lifecycle's withheld
    bookkeeping is released; then the node crashes, the unanswered HTLCs are replayed and the environment cooperates.
    A Free write of the old lifecycle that lands here makes the restarted plugin pay while that part is pending."""
    c = story_case(r, ending=r.choice(["failed_noparts", "failed_after_partfail", "pending_then_fail", "error_then_fail", "two_parts_both_fail"]))
    script = c["_script"]
    script = script[:-1] + [{"e": "drain_step"}] * r.below(4) + [{"e": "hold_unprocessed"}]
    probe = dict(c["_probe"]); probe.pop("probe", None)
    script += [probe, {"e": "drain"}, {"e": "proc_next"}, {"e": "newpart_next"}]
    if r.chance(1, 2): script += [{"e": "payfin_next", "out": r.choice(["pending", "error"]), "err": str(200 + r.below(11))}, {"e": "drain_step"}, {"e": "drain_step"}]
    script += [{"e": "release"}, {"e": "drain"}, {"e": "crash"}, {"e": "tick", "ms": 1000}]
    hostile = r.chance(1, 2)
    if hostile:
        # only part of the set comes back and the MPP timer expires (or the chain moves on) while the second attempt's part is still pending
        if r.chance(1, 2):
            script += [{"e": "replay_unanswered", "one": 1, "rel": r.choice([0, 5, 100, 1000])}, {"e": "drain"}]
        else:
            script += [{"e": "replay_unanswered", "one": 1}, {"e": "drain"}, {"e": "tick", "ms": 61000}, {"e": "drain"}]
    script += [{"e": "replay_unanswered"}, {"e": "drain"}]
    c["_script"] = script
    c["suffix"] = [{"e": "finale", "old_parts": r.choice(["done", "fail"]), "mode": "coop"}]
    c["family"] = c["family"].replace("story/", "straggler_crash_hostile/" if hostile else "straggler_crash/")
    return c

def crash_variants(r, base, length, stride=1, probe=False, old_parts=None):
    """The same story with a whole-node crash injected before primitive event k, then replay of the unanswered HTLCs."""
    out = []
    for k in range(1, length, stride):
        c = dict(base)
        c["crash_at"] = [k]
        after = [{"e": "replay_unanswered"}]
        if r.chance(1, 2): after.insert(0, {"e": "tick", "ms": 1000 * r.choice([1, 30, 61, 200])})
        op = old_parts or r.choice(["done", "fail"])
        after.append({"e": "finale", "old_parts": op, "mode": r.choice(["coop", "fail"])})
        c["after_crash"] = after
        c["suffix"] = []
        c["family"] = base["family"] + "/crash@%d" % k
        out.append(c)
    return out

def add_probe(c, crash=True):
    """C09 probe: after everything, crash (or not: a failed write must not wedge the RUNNING plugin either), then a fully funded
    cooperative set (twice if the first hits a zero MPP remainder)."""
    c = dict(c)
    tail = [{"e": "finale", "old_parts": "fail"}] + ([{"e": "crash"}] if crash else []) + [{"e": "tick", "ms": 1000}, dict(c["_probe"], probe=True),
            {"e": "finale", "mode": "coop", "old_parts": "fail"}, {"e": "probe_retry"}, {"e": "finale", "mode": "coop", "old_parts": "fail"}]
    if "after_crash" in c: c["after_crash"] = c["after_crash"] + tail
    c["suffix"] = (c.get("suffix") or []) + tail
    c["probe"] = True
    return c


# ------------------------------------------------------------------------------------------
# odd requests: malformed payloads / metadata, plain forwards, unusable invoices (C06, C13)
# ------------------------------------------------------------------------------------------
MALFORMED = ["fd00", "fd", "fe0000", "fe000000", "ff00000000000000", "01", "0105", "01fd00", "80e9fd00", "fd80e9", "fd80e905aabb",
             "fd80e9fd0001", "00", "0000", "80", "fdffff", "ffffffffffffffffff", "fd80e9ff0000000000000001"]

def odd_htlcs(r, b, inv, amount, total):
    """HTLC specs that are NOT well-formed trampoline requests (plus a few that are, with unusual encodings)."""
    out = []
    mk = lambda **kw: b.htlc(inv, amount, total, **kw)
    for m in MALFORMED:
        out.append(mk(raw_payload=payload(raw_meta=bytes.fromhex(m)).hex()))              # malformed metadata inside a valid payload
        out.append(mk(raw_payload=m))                                                      # malformed payload itself
        out.append(mk(raw_payload=(bigsize(len(bytes.fromhex(m))) + bytes.fromhex(m)).hex()))
    out.append(mk(raw_payload=""))                                                         # empty payload
    out.append(mk(raw_payload=payload().hex()))                                            # no metadata
    out.append(mk(raw_payload=payload(raw_meta=tlv([(1, b"xx")])).hex()))                  # metadata without invoice
    out.append(mk(raw_payload=payload(raw_meta=tlv([(33001, b"\xff\xfe\x80")])).hex()))    # invoice not utf-8
    out.append(mk(raw_payload=payload(raw_meta=tlv([(33001, b"lnbc1notaninvoice")])).hex())) # not bech32
    out.append(mk(raw_payload=payload(raw_meta=tlv([(33003, tu64(5))])).hex()))            # amount only
    out.append(mk(raw_payload=payload(raw_meta=bigsize(3) + tlv([(1, b"x")])).hex()))      # metadata that is length-prefixed
    out.append(mk(scid="1x1x1"))                                                            # plain forward carrying a trampoline invoice
    out.append(mk(forward=None))                                                            # no forward_msat
    for n in range(0, 10):                                                                  # amount field of 0-9 bytes
        out.append(b.htlc(inv, amount, total, amount_tlv=bytes([1] * n)))
    return out

def odd_case(r, nhash=1):
    cfg = mk_cfg(r)
    b = CaseBuilder(r, cfg, nhash)
    amount = 1000000
    inv = b.add_invoice(0, amount)
    need = fee_needed(cfg["policy"], amount)
    odd = odd_htlcs(r, b, inv, need, need)
    good = [b.htlc(inv, need // 2, need), b.htlc(inv, need - need // 2, need)]
    script = []
    pick = [odd[r.below(len(odd))] for _ in range(10)]
    seq = pick[:5] + [good[0]] + pick[5:8] + [{"e": "drain"}, good[1]] + pick[8:] + [{"e": "drain"}]
    script += seq + pay_ending(r, r.choice(PAY_ENDINGS)) + [{"e": "drain"}]
    return {"cfg": cfg, "invoices": b.invoices, "preimages": b.preimages, "_script": script, "family": "odd/requests", "suffix": [{"e": "finale"}], "_b": b}

def odd_all_case(r, lo, hi):
    cfg = mk_cfg(r)
    b = CaseBuilder(r, cfg, 1)
    inv = b.add_invoice(0, 1000000)
    need = fee_needed(cfg["policy"], 1000000)
    odd = odd_htlcs(r, b, inv, need, need)[lo:hi]
    return {"cfg": cfg, "invoices": b.invoices, "preimages": b.preimages, "_script": odd, "family": "odd/sweep", "suffix": [{"e": "finale"}]}
