#!/usr/bin/env python3
"""Finds, for a system property, a smallest generated history in the known-finding class kf_read_error on which the
property monitor fails on the IMPLEMENTATION's trace, and stores it as corpus/<prop>/kf_read_error.json (the committed
witness of the known finding; every later run of the check replays it first). Run by hand, never by a check."""
import sys, json, os
sys.path.insert(0, os.path.dirname(os.path.abspath(__file__)))
from p_sys import *
import importlib

def main(prop):
    mod = importlib.import_module("p_" + prop.lower())
    gen = getattr(mod, "gen", None) or gen_for(prop)
    cases = [c for c in gen("thorough", 1) if "readfault" in c.get("family", "")]
    if prop == "C06":
        # KF-A: a stored Pending record and an error from the wait_payment of the restart path
        cases = []
        for c in restart_history_cases(SplitMix64(5), 6):
            c = dict(c); c["fault_at"] = [{"k": 1, "kind": "read", "fault": "rej", "err": "-1"}]; c["family"] += "/readfault@1"
            cases.append(c)
    ok, log, binary = harness_build("dev")
    assert ok, log
    keep, verdicts, _ = run_traces(binary, cases, prop + "kfw")
    bit = PROP_BIT[prop]
    best = None
    for (c, t), v in zip(keep, verdicts):
        bad, k_out, k_reply, mask, first, kf, npay, nsteps = v
        if bad or k_reply or k_out: continue
        panicked = any(o.get("o") == "panic" for st in t["steps"] for o in st["out"])
        hit = ((mask >> bit) & 1) if prop != "C06" else panicked      # the monitor itself waives C06 in the class; the witness is the panic
        if hit and kf & kf_class(prop)[1]:
            if best is None or nsteps < best[2]:
                best = (c, t, nsteps, first, mask)
    if not best:
        print("no witness found among %d read-fault cases" % len(keep)); return 1
    c, t, nsteps, first, mask = best
    d = os.path.join(VERIF, "corpus", prop)
    os.makedirs(d, exist_ok=True)
    json.dump({"property": prop, "class": kf_class(prop)[0], "family": c["family"], "first_violation_step": first, "violated_mask": mask,
               "history": brief(t, (first or nsteps) + 2),
               "case": {k: v for k, v in c.items() if not k.startswith("_") or k in ("_pool", "_script", "_probe")}}, open(os.path.join(d, kf_class(prop)[0] + ".json"), "w"), indent=1, sort_keys=True)
    print("witness:", c["family"], "steps", nsteps, "first violation at", first)
    print("\n".join(brief(t, (first or nsteps) + 1)[-6:]))
    return 0

if __name__ == "__main__":
    sys.exit(main(sys.argv[1]))
