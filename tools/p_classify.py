"""Classification engine (C10, C13): the real check_htlc on a cross product of invoices x requests."""
import json, itertools, collections
from vlib import *
from world import *
from sysconv import Conv

HDR = "From Tramp Require Import Model.Base Model.Tlv Model.Fee Model.Classify Check.Common Check.ClassifyCheck.\nOpen Scope N_scope."

def invoice_descs():
    """{amount present/absent} x {signature valid / corrupted / signed by another key with explicit payee} x {route hints} x hash"""
    out = []
    for amount in (1000000, None):
        for sig in ("ok", "corrupt", "otherkey", "explicit_same"):
            for hints in ([], [[5]], [[0]], [[5, 0]], [[0, 5]], [[5], [6, 0]], [[0], [5]]):
                for pre in (0, 1):
                    d = {"pre": pre, "amount": amount, "signer": 1, "hints": hints}
                    if sig == "corrupt": d["corrupt"] = 1
                    if sig == "otherkey": d["payee"] = 2            # explicit payee field that the signature does not match
                    if sig == "explicit_same": d["payee"] = 1
                    out.append(d)
    # explicit payee key + a signature whose recovery id is flipped: the signature verifies against the explicit key, key recovery
    # yields another key; and the same without an explicit key (then the recovered key IS the payee, whoever that is)
    for amount in (1000000, None):
        out.append({"pre": 0, "amount": amount, "signer": 1, "payee": 1, "flip_recid": 1, "hints": []})
        out.append({"pre": 0, "amount": amount, "signer": 1, "flip_recid": 1, "hints": []})
    out.append({"pre": 0, "amount": 1000000, "signer": 1, "corrupt": 2})   # upper-case string
    out.append({"pre": 0, "amount": 1000000, "signer": 1, "corrupt": 3})   # truncated string
    return out

def requests_for(r, bolt11, tier, inv_pre=0):
    """{amount field absent / 0-9 bytes / equal / off by one} x {flag via cfg} x {forward_msat, short_channel_id} x hash equal/different"""
    reqs = []
    amts = [None, b"", tu64(1000000), tu64(1000001), tu64(999999), b"\x00" + tu64(1000000), bytes(8), bytes(9), b"\xff" * 8, b"\xff" * 9, bytes([1] * 3)]
    if tier != "thorough":
        amts = [None, b"", bytes(1), bytes(8), tu64(1000000), tu64(1000001), bytes(9), b"\x00" + tu64(1000000)]   # incl. a declared amount of zero, in three spellings
    for a in amts:
        for h in (0, 1):
            for fwd, scid in ((5, None), (None, None), (5, "1x2x3")):
                if tier != "thorough" and (fwd, scid) != (5, None) and a not in (None, tu64(1000000)): continue
                reqs.append(request(payload(bolt11, amount_tlv=a), phash(h), 5, 100, 50, 1, forward=fwd, total=None, scid=scid))
    # metadata records NOT in ascending type order (the stream is sender-controlled and the parser does not enforce an order):
    # the amount record before the invoice, other records around them
    b11 = bolt11.encode()
    for a in (tu64(1000000), tu64(2000000), tu64(999999), b""):
        reqs.append(request(payload(raw_meta=tlv([(33003, a), (33001, b11)])), phash(inv_pre), 5, 100, 50, 1, forward=5))
        reqs.append(request(payload(raw_meta=tlv([(65537, b"zz"), (33003, a), (33001, b11), (1, b"a")])), phash(inv_pre), 5, 100, 50, 1, forward=5))
        reqs.append(request(payload(raw_meta=tlv([(33001, b11), (7, b"x"), (33003, a)])), phash(inv_pre), 5, 100, 50, 1, forward=5))
    # HTLC hashes that differ from the invoice's hash but would pass a weak comparison
    for nh in near_hashes(phash(inv_pre)):
        reqs.append(request(payload(bolt11, amount_tlv=None), nh, 5, 100, 50, 1, forward=5, total=None, scid=None))
    return reqs

def odd_requests(bolt11):
    from sysgen import MALFORMED
    out = []
    for m in MALFORMED:
        out.append(request(payload(raw_meta=bytes.fromhex(m)), phash(0), 5, 100, 50, 1, forward=5))
        out.append(request(bytes.fromhex(m), phash(0), 5, 100, 50, 1, forward=5))
        out.append(request(bigsize(len(bytes.fromhex(m))) + bytes.fromhex(m), phash(0), 5, 100, 50, 1, forward=5))
    out.append(request(b"", phash(0), 5, 100, 50, 1, forward=5))
    out.append(request(payload(), phash(0), 5, 100, 50, 1, forward=5))
    out.append(request(payload(raw_meta=tlv([(33001, b"\xff\xfe")])), phash(0), 5, 100, 50, 1, forward=5))
    out.append(request(payload(raw_meta=tlv([(33001, b"lnbc1qqq")])), phash(0), 5, 100, 50, 1, forward=5))
    # invoice records that are no invoice at all: empty, one byte, two bytes, a multi-byte character first (in and out of the
    # length-prefixed form), alone and next to an amount record
    for sv in (b"", b"l", b"L", b"ln", b"LN", b"lx", "\u20acnbc1".encode(), "l\u20ac".encode(), "\u00e9".encode(), b"\xc3", b" ", b"\x00"):
        out.append(request(payload(raw_meta=tlv([(33001, sv)])), phash(0), 5, 100, 50, 1, forward=5))
        out.append(request(payload(raw_meta=tlv([(33001, sv), (33003, tu64(1000))])), phash(0), 5, 100, 50, 1, forward=5))
    out.append(request(payload(raw_meta=tlv([(33003, tu64(7))])), phash(0), 5, 100, 50, 1, forward=5))
    out.append(request(payload(raw_meta=tlv([(1, b"a"), (33001, bolt11.encode())])), phash(0), 5, 100, 50, 1, forward=5))
    out.append(request(payload(raw_meta=tlv([(33001, bolt11.encode()), (33001, b"second")])), phash(0), 5, 100, 50, 1, forward=5))
    out.append(request(payload(bolt11, extra=[(16, b"\x01\x00")]), phash(0), 5, 100, 50, 1, forward=5))         # two metadata records
    out.append(request(payload(bolt11, extra=[(65537, b"zz"), (2**32 + 5, b"")]), phash(0), 5, 100, 50, 1, forward=5, scid="1x1x1"))  # forward with other records: rewrite keeps them
    # metadata whose length-prefixed reading differs from the plain reading (default_response uses the prefixed one)
    out.append(request(payload(raw_meta=bigsize(0) + tlv([(33001, bolt11.encode())])), phash(0), 5, 100, 50, 1, forward=5))
    out.append(request(payload(raw_meta=tlv([(33001, bolt11.encode())])), phash(0), 5, 100, 50, 1, forward=5, scid="9x9x9"))
    # payloads that ARE rewritten (metadata readable in the length-prefixed form and naming an invoice or amount),
    # with other records around the metadata record, duplicates of it, and every BigSize width among the types
    pre = bigsize(0)
    metas = [pre + tlv([(33001, b"x")]), pre + tlv([(33003, tu64(5))]), pre + tlv([(1, b"a"), (33001, bolt11.encode())]), bigsize(200) + tlv([(33003, b"")])]
    extras = [[], [(65537, b"zz")], [(253, b"\x01"), (2**32 + 5, b""), (2**64 - 1, b"\xff" * 3)], [(16, b"\x00"), (17, b"q")], [(300, bytes(300))]]
    for m in metas:
        for ex in extras:
            for scid in (None, "1x1x1"):
                s = tlv([(2, tu64(1000))] + [(16, m)] + ex)
                out.append(request(bigsize(len(s)) + s, phash(0), 5, 100, 50, 1, forward=5, scid=scid))
                s2 = tlv(ex[:1] + [(16, m)] + ex[1:])
                out.append(request(bigsize(len(s2)) + s2, phash(0), 5, 100, 50, 1, forward=5, scid=scid))
    return out

def gen(tier, seed, binary):
    r = SplitMix64(seed)
    descs = invoice_descs()
    invs = harness_run(binary, "classify", [json.dumps({"mkinv": d}) for d in descs], shards=NCPU)
    cases = []
    for d, inv in zip(descs, invs):
        for allow in (True, False):
            cfg = {"local": 0, "allow_self": allow, "policy": [1, 2, 3]}
            rq = requests_for(r, inv["bolt11"], tier, d["pre"])
            if tier != "thorough" and allow and d.get("hints"):
                rq = rq[:4] + rq[-15:]
            for q in rq:
                cases.append({"cfg": cfg, "req": q, "inv": inv, "desc": d})
    good = invs[0]
    for q in odd_requests(good["bolt11"]):
        cases.append({"cfg": {"local": 0, "allow_self": True, "policy": [1, 2, 3]}, "req": q, "inv": good, "desc": {"odd": True}})
    return cases

def local_key(binary):
    # public key of key index 0, via an invoice with a self hint
    x = harness_run(binary, "classify", [json.dumps({"mkinv": {"pre": 0, "amount": 1, "signer": 1, "hints": [[0]]}})])[0]
    return x["view"]["last_hops"][0]

def term(case, obs, lk):
    conv = Conv({"cfg": {"policy": case["cfg"]["policy"], "mpp_ms": 0, "cltv_delta": 0, "allow_self": case["cfg"]["allow_self"]}, "local_key": lk, "invoices": [], "hashes": [], "preimages": []})
    pol = "{| fee_base := %d; fee_ppm := %d; pol_delta := %d |}" % tuple(case["cfg"]["policy"])
    ccfg = "{| c_local := %s; c_allow_self := %s; c_policy := %s |}" % (coq_bytes(lk), coq_bool(case["cfg"]["allow_self"]), pol)
    v = conv.view(case["inv"]["view"])
    oracle = coq_list(["(%s, %s)" % (coq_bytes(case["inv"]["bolt11"].encode()), v)] if v else [])
    rq = conv.request({"req": case["req"], "uid": 1})
    if obs.get("panic"): o = "OPanic"
    elif "decode_error" in obs: o = "ODecodeErr"
    elif "resp" in obs: o = "(OResp %s)" % (conv.response(obs["resp"]) or "(Continue None)")
    else:
        t = obs["tramp"]
        o = "(OTramp %s %s %s %s %s (%d, %d, %d))" % (coq_bytes(t["bolt11"].encode()), coq_bytes(t["hash"]), coq_bytes(t["payee"]), t["amount"],
                                                     coq_opt(t["inv_amount"], str), t["policy"][0], t["policy"][1], t["policy"][2])
    return "(%s, %s, %s, %s)" % (oracle, ccfg, rq, o)

def run_classify(prop, tier, seed, extra=None):
    o = Outcome(prop, tier, seed)
    num = int(prop[1:])
    o.rule = ("cross product {invoice amount present/absent} x {signature valid / corrupted / explicit payee not matching the signature / explicit payee matching / recovery id flipped with and without an explicit payee} x "
              "{7 route-hint shapes with the local node as last / middle / absent hop} x {invoice hash equal / different from the HTLC's / near misses (bit flips that cancel under XOR, exchanged bytes, reversed, rotated, complement)} x {amount field absent, 0-9 bytes, agreeing, off by one; records of the metadata in and out of ascending type order} x "
              "{self-route-hint flag} x {forward_msat / short_channel_id present or not}, all invoices built and parsed with the plugin's own lightning-invoice crate, plus malformed payload / "
              "metadata byte strings. Non-trivial: the model classifies the request as trampoline, fail, or continue-with-rewrite (shape 2-4); distinct = distinct (invoice, request, flag)")
    o.assumptions = ["BOLT11 parsing, signature check and key recovery are the oracle (lightning-invoice 0.31 / secp256k1 0.27, trusted)",
                     "the oracle's graph is computed by the harness with the same crate versions the plugin links"]
    o.proof = proof_stage(prop, ["theories/Props/%s.vo" % prop, "theories/Check/ClassifyCheck.vo"])
    ok, log, binary = harness_build("dev")
    if not ok:
        o.corr_failures.append(("harness does not compile against /repo's working tree: " + log[-1500:], {"build_log": log[-3000:]}))
        return finish(o)
    try:
        cases = gen(tier, seed, binary)
        lk = local_key(binary)
        obs = harness_run(binary, "classify", [json.dumps({"cfg": c["cfg"], "req": c["req"]}) for c in cases], shards=NCPU)
        codes = eval_cases(prop, HDR, [term(c, x, lk) for c, x in zip(cases, obs)], "verdict_classify %d" % num,
                           "list (list N * invoice_view) * ccfg * request * cobs", per_shard=150)
    except RuntimeError as ex:
        o.corr_failures.append(("could not evaluate cases: %s" % str(ex)[-1500:], {}))
        return finish(o)
    tagged = [{"desc": c["desc"], "cfg": c["cfg"], "req": c["req"], "view": c["inv"]["view"], "obs": x} for c, x in zip(cases, obs)]
    o.note_codes(codes, tagged, lambda c: "classification of request (invoice %s, allow_self=%s, payload %s..., hash %s): implementation observed %s" % (
        json.dumps(c["desc"]), c["cfg"]["allow_self"], c["req"]["onion"]["payload"][:40], c["req"]["htlc"]["payment_hash"][:8], json.dumps(c["obs"])[:300]))
    for code, c in zip(codes, tagged):
        if (code >> 4) in (2, 3, 4): o.nontrivial.add(json.dumps([c["desc"], c["cfg"], c["req"]], sort_keys=True))
    o.samples = [tagged[0], tagged[len(tagged) // 2], tagged[-1]]
    if extra: extra(o, binary)
    return finish(o)
