(* Driver.v — model of the plugin's I/O loop: /repo/src/cln_plugin/mod.rs (PluginDriver::run, dispatch_one and the
   spawned handler tasks) together with the log writer task of /repo/src/cln_plugin/logging.rs (start_writer), both
   writing through the one Arc<Mutex<FramedWrite>>.

     loop { select! { e = dispatch_one(input)  => e?,                          (VDispatch)
                      v = receiver.recv()      => { output.lock().await        (VRecv, then VAcquire WDriver)
                                                      .send(v).await?; } } }   (VWrite*, VRelease)

   What matters for C17: the write happens in the branch HANDLER, which select! never cancels, so between VRecv and
   VRelease the driver does not poll its input (VDispatch and VRecv are disabled) and the reply it took out of the
   channel cannot be dropped. The logger does the same with its own queue. The pipe to the node accepts any number of
   bytes at a time (VWrite n): a message is written in pieces, with the lock held throughout.

   State components that are lists of ids are in arrival order. Message bodies are opaque byte strings ([body]);
   the wire format is Codec.encode. *)
From Tramp Require Import Model.Base Model.Codec.

Inductive who := WDriver | WLogger.
Inductive msg := MReply (id : N) | MLog (k : N).

Record dst := {
  d_inq : list N;                        (* requests the node has written, not yet dispatched *)
  d_pending : list N;                    (* requests whose handler task is running *)
  d_chan : list N;                       (* replies in the mpsc channel from the handlers to the driver *)
  d_hold : option N;                     (* the reply the driver took out of the channel and is about to write *)
  d_logq : list N;                       (* log lines in the logger's channel *)
  d_lhold : option N;                    (* the log line the logger task took out of it *)
  d_lock : option (who * msg * list N);  (* the output mutex: owner, its message, bytes still to be written *)
  d_out : list N;                        (* everything the node has received so far *)
  d_done : list msg;                     (* messages written completely, in order *)
  d_req : list N;                        (* ghost: every request id the node has sent *)
  d_emit : list N                        (* ghost: every log line emitted *)
}.

Definition dinit : dst :=
  {| d_inq := []; d_pending := []; d_chan := []; d_hold := None; d_logq := []; d_lhold := None; d_lock := None;
     d_out := []; d_done := []; d_req := []; d_emit := [] |}.

Inductive dev :=
| VReq (id : N)          (* the node writes a request for a registered hook/method *)
| VDispatch              (* dispatch_one decodes the next request and spawns its handler *)
| VComplete (id : N)     (* that handler finishes (Ok or Err: either way one reply with its id goes into the channel) *)
| VRecv                  (* the driver's recv() branch fires *)
| VLogEmit (k : N)       (* some task logs a line *)
| VLogRecv               (* the logger task takes the next line *)
| VAcquire (w : who)     (* output.lock().await succeeds *)
| VWrite (n : nat)       (* the pipe accepts n more bytes *)
| VRelease.              (* send() returns, the guard is dropped *)

Definition who_eqb (a b : who) : bool := match a, b with WDriver, WDriver | WLogger, WLogger => true | _, _ => false end.

Definition lock_owner (s : dst) : option who := match d_lock s with Some (w, _, _) => Some w | None => None end.

(* the driver is inside its select!, not in the branch handler *)
Definition driver_idle (s : dst) : bool :=
  match d_hold s, lock_owner s with None, Some WDriver => false | None, _ => true | Some _, _ => false end.

Fixpoint remove1 (id : N) (l : list N) : list N :=
  match l with [] => [] | x :: r => if x =? id then r else x :: remove1 id r end.

Section Body.
Variable body : msg -> list N.
Definition enc (m : msg) : list N := encode (body m).

Definition set_lock (s : dst) (l : option (who * msg * list N)) : dst :=
  {| d_inq := d_inq s; d_pending := d_pending s; d_chan := d_chan s; d_hold := d_hold s; d_logq := d_logq s; d_lhold := d_lhold s;
     d_lock := l; d_out := d_out s; d_done := d_done s; d_req := d_req s; d_emit := d_emit s |}.

Definition dstepm (s : dst) (ev : dev) : dst :=
  match ev with
  | VReq id =>
      {| d_inq := d_inq s ++ [id]; d_pending := d_pending s; d_chan := d_chan s; d_hold := d_hold s; d_logq := d_logq s; d_lhold := d_lhold s;
         d_lock := d_lock s; d_out := d_out s; d_done := d_done s; d_req := d_req s ++ [id]; d_emit := d_emit s |}
  | VDispatch =>
      match d_inq s with
      | id :: r => if driver_idle s then
          {| d_inq := r; d_pending := d_pending s ++ [id]; d_chan := d_chan s; d_hold := d_hold s; d_logq := d_logq s; d_lhold := d_lhold s;
             d_lock := d_lock s; d_out := d_out s; d_done := d_done s; d_req := d_req s; d_emit := d_emit s |} else s
      | [] => s
      end
  | VComplete id =>
      if existsb (N.eqb id) (d_pending s) then
        {| d_inq := d_inq s; d_pending := remove1 id (d_pending s); d_chan := d_chan s ++ [id]; d_hold := d_hold s; d_logq := d_logq s; d_lhold := d_lhold s;
           d_lock := d_lock s; d_out := d_out s; d_done := d_done s; d_req := d_req s; d_emit := d_emit s |}
      else s
  | VRecv =>
      match d_chan s with
      | v :: r => if driver_idle s then
          {| d_inq := d_inq s; d_pending := d_pending s; d_chan := r; d_hold := Some v; d_logq := d_logq s; d_lhold := d_lhold s;
             d_lock := d_lock s; d_out := d_out s; d_done := d_done s; d_req := d_req s; d_emit := d_emit s |} else s
      | [] => s
      end
  | VLogEmit k =>
      {| d_inq := d_inq s; d_pending := d_pending s; d_chan := d_chan s; d_hold := d_hold s; d_logq := d_logq s ++ [k]; d_lhold := d_lhold s;
         d_lock := d_lock s; d_out := d_out s; d_done := d_done s; d_req := d_req s; d_emit := d_emit s ++ [k] |}
  | VLogRecv =>
      match d_logq s, d_lhold s, lock_owner s with
      | _, _, Some WLogger => s
      | k :: r, None, _ =>
          {| d_inq := d_inq s; d_pending := d_pending s; d_chan := d_chan s; d_hold := d_hold s; d_logq := r; d_lhold := Some k;
             d_lock := d_lock s; d_out := d_out s; d_done := d_done s; d_req := d_req s; d_emit := d_emit s |}
      | _, _, _ => s
      end
  | VAcquire WDriver =>
      match d_lock s, d_hold s with
      | None, Some v =>
          {| d_inq := d_inq s; d_pending := d_pending s; d_chan := d_chan s; d_hold := None; d_logq := d_logq s; d_lhold := d_lhold s;
             d_lock := Some (WDriver, MReply v, enc (MReply v)); d_out := d_out s; d_done := d_done s; d_req := d_req s; d_emit := d_emit s |}
      | _, _ => s
      end
  | VAcquire WLogger =>
      match d_lock s, d_lhold s with
      | None, Some k =>
          {| d_inq := d_inq s; d_pending := d_pending s; d_chan := d_chan s; d_hold := d_hold s; d_logq := d_logq s; d_lhold := None;
             d_lock := Some (WLogger, MLog k, enc (MLog k)); d_out := d_out s; d_done := d_done s; d_req := d_req s; d_emit := d_emit s |}
      | _, _ => s
      end
  | VWrite n =>
      match d_lock s with
      | Some (w, m, x :: rest) =>
          let now_ := firstn n (x :: rest) in
          let left := skipn n (x :: rest) in
          {| d_inq := d_inq s; d_pending := d_pending s; d_chan := d_chan s; d_hold := d_hold s; d_logq := d_logq s; d_lhold := d_lhold s;
             d_lock := Some (w, m, left); d_out := d_out s ++ now_;
             d_done := match left with [] => d_done s ++ [m] | _ => d_done s end; d_req := d_req s; d_emit := d_emit s |}
      | _ => s
      end
  | VRelease =>
      match d_lock s with
      | Some (_, _, []) => set_lock s None
      | _ => s
      end
  end.

Definition drun (evs : list dev) (s : dst) : dst := fold_left dstepm evs s.

(* nothing left to do: every request sent has been answered and written, every log line written *)
Definition quiescent (s : dst) : bool :=
  match d_inq s, d_pending s, d_chan s, d_hold s, d_logq s, d_lhold s, d_lock s with
  | [], [], [], None, [], None, None => true
  | _, _, _, _, _, _, _ => false
  end.

(* a schedule that finishes whatever is in flight (no new request, no new log line) *)
Definition next_ev (s : dst) : option dev :=
  match d_lock s with
  | Some (_, _, []) => Some VRelease
  | Some (_, _, rest) => Some (VWrite (length rest))
  | None =>
      match d_hold s, d_lhold s with
      | Some _, _ => Some (VAcquire WDriver)
      | None, Some _ => Some (VAcquire WLogger)
      | None, None =>
          match d_chan s, d_logq s, d_pending s, d_inq s with
          | _ :: _, _, _, _ => Some VRecv
          | [], _ :: _, _, _ => Some VLogRecv
          | [], [], id :: _, _ => Some (VComplete id)
          | [], [], [], _ :: _ => Some VDispatch
          | [], [], [], [] => None
          end
      end
  end.

Fixpoint settle (fuel : nat) (s : dst) : list dev :=
  match fuel with
  | O => []
  | S f => match next_ev s with Some e => e :: settle f (dstepm s e) | None => [] end
  end.

Definition opt_list {A} (o : option A) : list A := match o with Some a => [a] | None => [] end.
Fixpoint replies (l : list msg) : list N := match l with [] => [] | MReply id :: r => id :: replies r | MLog _ :: r => replies r end.
Fixpoint logs (l : list msg) : list N := match l with [] => [] | MLog k :: r => k :: logs r | MReply _ :: r => logs r end.
Definition wire (l : list msg) : list N := concat (map enc l).
Definition lock_reply (s : dst) : list N := match d_lock s with Some (_, MReply v, _ :: _) => [v] | _ => [] end.
Definition lock_log (s : dst) : list N := match d_lock s with Some (_, MLog k, _ :: _) => [k] | _ => [] end.

(* the variant the select! would be if the write were part of the branch FUTURE: a ready dispatch_one cancels it,
   dropping the reply it holds while it waits for the lock (used only to show the difference, see DriverProofs) *)
Definition dstep_cancellable (s : dst) (ev : dev) : dst :=
  match ev, d_inq s, d_hold s with
  | VDispatch, id :: r, Some _ =>
      {| d_inq := r; d_pending := d_pending s ++ [id]; d_chan := d_chan s; d_hold := None; d_logq := d_logq s; d_lhold := d_lhold s;
         d_lock := d_lock s; d_out := d_out s; d_done := d_done s; d_req := d_req s; d_emit := d_emit s |}
  | _, _, _ => dstepm s ev
  end.

End Body.
