(* Base.v — shared vocabulary of the model: results with explicit Panic,
   machine-integer bounds, big-endian integers over byte lists.
   Bytes are [N] with the side condition [< 256] ([bytes_ok]). *)
From Coq Require Export List NArith ZArith Bool Lia.
Export ListNotations.
Open Scope N_scope.

(* Outcome of a Rust function that can return Err or panic. *)
Inductive res (A : Type) : Type :=
| Ok (a : A)
| Err
| Panic.
Arguments Ok {A} a.
Arguments Err {A}.
Arguments Panic {A}.

Definition bind {A B} (r : res A) (f : A -> res B) : res B :=
  match r with Ok a => f a | Err => Err | Panic => Panic end.

Definition is_panic {A} (r : res A) : bool :=
  match r with Panic => true | _ => false end.

Definition u8max  : N := 255.
Definition u16max : N := 65535.
Definition u32max : N := 4294967295.
Definition u64max : N := 18446744073709551615.
Definition two64  : N := 18446744073709551616.

Definition byte_ok (b : N) : Prop := b < 256.
Definition bytes_ok (bs : list N) : Prop := Forall byte_ok bs.
Definition bytes_okb (bs : list N) : bool := forallb (fun b => b <? 256) bs.

(* Build mode of the Rust code: overflow checks on (dev/test profile) or
   wrapping arithmetic (release profile). *)
Inductive build_mode := Checked | Wrapping.

(* An unchecked Rust `a + b` on u64. *)
Definition add_u64 (m : build_mode) (a b : N) : res N :=
  if a + b <? two64 then Ok (a + b)
  else match m with Checked => Panic | Wrapping => Ok ((a + b) mod two64) end.

(* big-endian value of a byte list (most significant first) *)
Fixpoint be_val_acc (acc : N) (bs : list N) : N :=
  match bs with
  | [] => acc
  | b :: r => be_val_acc (acc * 256 + b) r
  end.
Definition be_val (bs : list N) : N := be_val_acc 0 bs.

(* big-endian encoding of [v] on exactly [n] bytes (v mod 256^n) *)
Fixpoint be_enc (n : nat) (v : N) : list N :=
  match n with
  | O => []
  | S n' => be_enc n' (v / 256) ++ [v mod 256]
  end.

(* n-th element as N-length helpers *)
Definition len {A} (l : list A) : N := N.of_nat (length l).

Fixpoint list_eq_N (a b : list N) : bool :=
  match a, b with
  | [], [] => true
  | x :: a', y :: b' => (x =? y) && list_eq_N a' b'
  | _, _ => false
  end.
