(* Classify.v — model of the stateless front of HtlcManager::handle_htlc in
   /repo/src/htlc_manager.rs: check_htlc, extract_trampoline_info, default_response,
   plus the request decoding of plugin.rs::on_htlc_accepted (payload hex -> TLV).

   BOLT11 parsing, signature check and payee recovery (lightning-invoice, secp256k1)
   cannot live in Coq: they are the Section variable [parse], an oracle from the
   invoice blob to what the code reads off the parsed invoice. The harness computes the
   oracle's graph with the same crate versions the plugin links. *)
From Tramp Require Import Model.Base Model.Tlv Model.Fee.

Definition TLV_PAYMENT_METADATA : N := 16.
Definition TLV_TRAMPOLINE_INVOICE : N := 33001.
Definition TLV_TRAMPOLINE_AMOUNT : N := 33003.

(* what the code reads from `blob.parse::<Bolt11Invoice>()` (None: not UTF-8 or not a valid invoice) *)
Record invoice_view := {
  iv_hash : list N;               (* invoice.payment_hash() *)
  iv_amount : option N;           (* invoice.amount_milli_satoshis() *)
  iv_sig_ok : bool;               (* invoice.check_signature().is_ok() *)
  iv_payee : list N;              (* invoice.get_payee_pub_key(), 33 bytes *)
  iv_recovered : option (list N); (* the key the harness verified the signature against with secp256k1: the explicit payee key if the invoice has one and the signature verifies against it, else the key recovered from the signature (oracle only; not read by the code) *)
  iv_last_hops : list (list N)    (* src_node_id of the last hop of every non-empty route hint *)
}.

Record request := {
  r_payload : list N;             (* onion.payload, raw bytes of the hex string *)
  r_scid : bool;                  (* onion.short_channel_id present *)
  r_forward : option N;           (* onion.forward_msat *)
  r_total : option N;             (* onion.total_msat *)
  r_id : N;                       (* harness-assigned unique id of this delivery *)
  r_amount : N;                   (* htlc.amount_msat *)
  r_expiry : N;                   (* htlc.cltv_expiry (absolute) *)
  r_rel : Z;                      (* htlc.cltv_expiry_relative *)
  r_hash : list N                 (* htlc.payment_hash *)
}.

Record ccfg := {
  c_local : list N;               (* local node id *)
  c_allow_self : bool;
  c_policy : policy
}.

Inductive response :=
| Continue (payload : option (list N))
| Fail (msg : list N)
| Resolve (key : list N).

Record tramp_info := {
  ti_blob : list N;               (* bolt11 string bytes *)
  ti_hash : list N;
  ti_payee : list N;
  ti_amount : N;                  (* amount to deliver *)
  ti_inv_amount : option N        (* invoice's own amount, if any *)
}.

Inductive classified :=
| CResp (r : response)
| CTramp (t : tramp_info)
| CPanic.

Fixpoint bytes_eq (a b : list N) : bool :=
  match a, b with
  | [], [] => true
  | x :: a', y :: b' => (x =? y) && bytes_eq a' b'
  | _, _ => false
  end.

Section WithOracle.
  Variable parse : list N -> option invoice_view.
  (* [hashfix = true]: tree after the D1 repair (invoice hash must equal the HTLC's) *)
  Variable hashfix : bool.

  Definition default_response (es : list tlv_entry) : response :=
    match tlv_get TLV_PAYMENT_METADATA es with
    | Some md =>
        match try_from true (value md) with
        | Ok mes =>
            match tlv_get TLV_TRAMPOLINE_INVOICE mes, tlv_get TLV_TRAMPOLINE_AMOUNT mes with
            | None, None => Continue None
            | _, _ => Continue (Some (to_bytes (tlv_remove TLV_PAYMENT_METADATA es)))
            end
        | _ => Continue None
        end
    | None => Continue None
    end.

  Inductive extracted := XNone | XErr | XInfo (t : tramp_info).

  Definition extract (rq : request) (es : list tlv_entry) : extracted :=
    match tlv_get TLV_PAYMENT_METADATA es with
    | None => XNone
    | Some md =>
        match from_bytes true (value md) with
        | Ok mes =>
            match tlv_get TLV_TRAMPOLINE_INVOICE mes with
            | None => XNone
            | Some ib =>
                match parse (value ib) with
                | None => XErr
                | Some iv =>
                    if hashfix && negb (bytes_eq (iv_hash iv) (r_hash rq)) then XErr else
                    if negb (iv_sig_ok iv) then XErr else
                    let tlv_amount :=
                      match tlv_get TLV_TRAMPOLINE_AMOUNT mes with
                      | Some ab => match get_tu64 (value ab) with Ok a => Some a | _ => None end
                      | None => None
                      end in
                    match iv_amount iv, tlv_amount with
                    | Some ia, Some ta =>
                        if ia =? ta then XInfo {| ti_blob := value ib; ti_hash := iv_hash iv; ti_payee := iv_payee iv;
                                                  ti_amount := ia; ti_inv_amount := Some ia |}
                        else XErr
                    | Some ia, None => XInfo {| ti_blob := value ib; ti_hash := iv_hash iv; ti_payee := iv_payee iv;
                                                ti_amount := ia; ti_inv_amount := Some ia |}
                    | None, Some ta => XInfo {| ti_blob := value ib; ti_hash := iv_hash iv; ti_payee := iv_payee iv;
                                                ti_amount := ta; ti_inv_amount := None |}
                    | None, None => XErr
                    end
                end
            end
        | _ => XNone
        end
    end.

  Definition self_is_last_hop (c : ccfg) (iv : invoice_view) : bool :=
    existsb (bytes_eq (c_local c)) (iv_last_hops iv).

  (* check_htlc followed by the forward_msat test of handle_htlc *)
  Definition classify_entries (c : ccfg) (rq : request) (es : list tlv_entry) : classified :=
    if r_scid rq then CResp (default_response es) else
    match extract rq es with
    | XNone | XErr => CResp (default_response es)
    | XInfo t =>
        let hinted := match parse (ti_blob t) with Some iv => self_is_last_hop c iv | None => false end in
        if hinted && negb (c_allow_self c) then CResp (Fail (encode_failure TemporaryNodeFailure))
        else match r_forward rq with
             | None => CResp (default_response es)
             | Some _ => CTramp t
             end
    end.

  (* plugin.rs::on_htlc_accepted: serde decodes the payload with the length-prefixed
     entry point; after the D8 repair an undecodable request is answered `continue`. *)
  Definition classify (c : ccfg) (rq : request) : classified :=
    match try_from true (r_payload rq) with
    | Ok es => classify_entries c rq es
    | Err => CResp (Continue None)
    | Panic => CPanic
    end.
End WithOracle.
