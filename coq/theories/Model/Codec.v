(* Codec.v — model of /repo/src/cln_plugin/codec.rs (MultiLineCodec): messages are separated
   by two consecutive newlines; the decoder is called on the accumulated buffer after every read
   and yields frames until no separator is left; the encoder appends "\n\n".
   Bytes are opaque here (UTF-8 validity of a complete frame is the JSON layer's business), so a
   read boundary inside a multi-byte character is just another split point. *)
From Tramp Require Import Model.Base.

Definition NL : N := 10.

(* find_separator + split_to: first position with two consecutive newlines *)
Fixpoint split_sep (acc : list N) (l : list N) : option (list N * list N) :=
  match l with
  | [] => None
  | x :: r =>
      match r with
      | y :: r' => if (x =? NL) && (y =? NL) then Some (rev acc, r') else split_sep (x :: acc) r
      | [] => None
      end
  end.

(* decode until Ok(None): all complete frames of the buffer, and what is left *)
Fixpoint drain (fuel : nat) (buf : list N) : list (list N) * list N :=
  match fuel with
  | O => ([], buf)
  | S f => match split_sep [] buf with
           | Some (frame, rest) => let '(fs, lft) := drain f rest in (frame :: fs, lft)
           | None => ([], buf)
           end
  end.
Definition frames (buf : list N) : list (list N) * list N := drain (S (length buf)) buf.

(* FramedRead: append each chunk to the buffer, then drain *)
Fixpoint feed (buf : list N) (chunks : list (list N)) : list (list N) * list N :=
  match chunks with
  | [] => ([], buf)
  | c :: r => let '(fs, lft) := frames (buf ++ c) in
              let '(fs', lft') := feed lft r in (fs ++ fs', lft')
  end.

Definition encode (m : list N) : list N := m ++ [NL; NL].

(* the driver's request bookkeeping: a reply is written when a handler completes, with that request's id *)
Inductive devent := DRequest (id : N) | DComplete (id : N).
Definition dstep (pending : list N) (ev : devent) : list N * list N (* new pending, reply ids written *) :=
  match ev with
  | DRequest id => (pending ++ [id], [])
  | DComplete id => if existsb (N.eqb id) pending
                    then ((fix rm (l : list N) := match l with [] => [] | x :: r => if x =? id then r else x :: rm r end) pending, [id])
                    else (pending, [])
  end.
