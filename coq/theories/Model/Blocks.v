(* Blocks.v — model of /repo/src/block_watcher.rs: best height = max of everything it has been
   told (startup query, periodic poll, block_added notifications); the poll loop sleeps 60 s
   after each completed poll (successful or not) and then issues the next getinfo. *)
From Tramp Require Import Model.Base.

Definition POLL_MS : N := 60000.

Inductive bphase :=
| BStarting                 (* start(): the first getinfo is outstanding *)
| BSleeping (deadline : N)  (* poll_forever: inside sleep(POLL_INTERVAL) *)
| BPolling                  (* poll_forever: getinfo outstanding *)
| BStopped.                 (* start() failed: the plugin exits *)

Record bsys := { b_height : N; b_now : N; b_phase : bphase }.

Inductive bevent :=
| BvReply (r : option N)    (* reply to the outstanding getinfo: Some height | None = error *)
| BvNotify (h : N)          (* block_added notification *)
| BvTick (dt : N).

Inductive bout := BGetInfo.

Definition bsys0 := {| b_height := 0; b_now := 0; b_phase := BStarting |}.

(* update_height: only a strictly better height is stored *)
Definition update_height (cur new : N) : N := if cur <? new then new else cur.

Definition bstep (s : bsys) (ev : bevent) : bsys * list bout :=
  match ev with
  | BvReply r =>
      match b_phase s with
      | BStarting =>
          match r with
          | Some h => ({| b_height := update_height (b_height s) h; b_now := b_now s; b_phase := BSleeping (b_now s + POLL_MS) |}, [])
          | None => ({| b_height := b_height s; b_now := b_now s; b_phase := BStopped |}, [])
          end
      | BPolling =>
          let h' := match r with Some h => update_height (b_height s) h | None => b_height s end in
          ({| b_height := h'; b_now := b_now s; b_phase := BSleeping (b_now s + POLL_MS) |}, [])
      | _ => (s, [])
      end
  | BvNotify h =>
      match b_phase s with
      | BStarting | BStopped => (s, [])      (* the plugin is not serving notifications yet / any more *)
      | _ => ({| b_height := update_height (b_height s) h; b_now := b_now s; b_phase := b_phase s |}, [])
      end
  | BvTick dt =>
      let t := b_now s + dt in
      match b_phase s with
      | BSleeping d => if d <=? t then ({| b_height := b_height s; b_now := t; b_phase := BPolling |}, [BGetInfo])
                       else ({| b_height := b_height s; b_now := t; b_phase := b_phase s |}, [])
      | _ => ({| b_height := b_height s; b_now := t; b_phase := b_phase s |}, [])
      end
  end.

Fixpoint brun (s : bsys) (evs : list bevent) : bsys :=
  match evs with [] => s | ev :: r => brun (fst (bstep s ev)) r end.

(* the heights the watcher has been told, in the order it was told them *)
Fixpoint told (s : bsys) (evs : list bevent) : list N :=
  match evs with
  | [] => []
  | ev :: r =>
      let here := match ev, b_phase s with
                  | BvReply (Some h), BStarting | BvReply (Some h), BPolling => [h]
                  | BvNotify h, BSleeping _ | BvNotify h, BPolling => [h]
                  | _, _ => [] end in
      here ++ told (fst (bstep s ev)) r
  end.
