(* Tlv.v — executable model of /repo/src/tlv.rs.

   [get_compact_size chk bs]: [chk = true] is the code after the D2 repair
   (length checked, Err); [chk = false] is the pinned tree (the Buf getters
   panic when the buffer is too short).  Everything else is parametric in
   [chk] so that the pinned behaviour stays available for the refutation
   witness in Props/Findings.v and for the search when correspondence breaks. *)
From Tramp Require Import Model.Base.

Record tlv_entry := { typ : N; value : list N }.

Definition short (chk : bool) {A} : res A := if chk then Err else Panic.

(* ProtoBuf::get_compact_size: returns value and the remaining bytes *)
Definition get_compact_size (chk : bool) (bs : list N) : res (N * list N) :=
  match bs with
  | [] => short chk
  | b :: r =>
      if b =? 253 then
        match r with
        | b1 :: b2 :: r' => Ok (be_val [b1; b2], r')
        | _ => short chk
        end
      else if b =? 254 then
        match r with
        | b1 :: b2 :: b3 :: b4 :: r' => Ok (be_val [b1; b2; b3; b4], r')
        | _ => short chk
        end
      else if b =? 255 then
        match r with
        | b1 :: b2 :: b3 :: b4 :: b5 :: b6 :: b7 :: b8 :: r' =>
            Ok (be_val [b1; b2; b3; b4; b5; b6; b7; b8], r')
        | _ => short chk
        end
      else Ok (b, r)
  end.

(* ProtoBufMut::put_compact_size *)
Definition put_compact_size (v : N) : list N :=
  if v <=? 252 then [v]
  else if v <=? 65535 then 253 :: be_enc 2 v
  else if v <=? 4294967295 then 254 :: be_enc 4 v
  else 255 :: be_enc 8 v.

(* FromBytes for SerializedTlvStream: `while b.remaining() >= 2 { … }`.
   Recursion on fuel; [from_bytes] supplies [S (length bs)], which a lemma
   shows is never exhausted (each iteration consumes >= 2 bytes). Fuel
   exhaustion is reported as Panic so it can never be mistaken for a result. *)
Fixpoint from_bytes_fuel (chk : bool) (fuel : nat) (bs : list N) (acc : list tlv_entry)
  : res (list tlv_entry) :=
  match fuel with
  | O => Panic
  | S f =>
      match bs with
      | [] | [_] => Ok (rev acc)
      | _ =>
          match get_compact_size chk bs with
          | Ok (t, r1) =>
              match get_compact_size chk r1 with
              | Ok (l, r2) =>
                  if len r2 <? l then Err
                  else from_bytes_fuel chk f (skipn (N.to_nat l) r2)
                         ({| typ := t; value := firstn (N.to_nat l) r2 |} :: acc)
              | Err => Err
              | Panic => Panic
              end
          | Err => Err
          | Panic => Panic
          end
      end
  end.

Definition from_bytes (chk : bool) (bs : list N) : res (list tlv_entry) :=
  from_bytes_fuel chk (S (length bs)) bs [].

(* TryFrom<Vec<u8>>: skip a compact-size length prefix, then parse ALL the rest:
   `b.take(l).into_inner()` hands back the un-truncated buffer, so [l] is ignored. *)
Definition try_from (chk : bool) (bs : list N) : res (list tlv_entry) :=
  match bs with
  | [] => Ok []
  | _ => match get_compact_size chk bs with
         | Ok (_, r) => from_bytes chk r
         | Err => Err
         | Panic => Panic
         end
  end.

Definition entry_bytes (e : tlv_entry) : list N :=
  put_compact_size (typ e) ++ put_compact_size (len (value e)) ++ value e.

Definition to_bytes (es : list tlv_entry) : list N := flat_map entry_bytes es.

(* SerializedTlvStream::get / remove *)
Definition tlv_get (t : N) (es : list tlv_entry) : option tlv_entry :=
  find (fun e => typ e =? t) es.

Fixpoint tlv_remove (t : N) (es : list tlv_entry) : list tlv_entry :=
  match es with
  | [] => []
  | e :: r => if typ e =? t then r else e :: tlv_remove t r
  end.

(* ProtoBuf::get_tu64 on a whole buffer *)
Definition get_tu64 (bs : list N) : res N :=
  if 8 <? len bs then Err else Ok (be_val bs).
