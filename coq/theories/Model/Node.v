(* Node.v — the Core Lightning side of one payment hash, as the environment contract N5/N6
   (DESIGN 3.3): the datastore record with its generation, attempt records, sendpay parts,
   running pay commands, and what each RPC the plugin uses does to them. Mirrored by the
   harness's simulated node (harness/src/sim.rs); Coq recomputes every reply from here. *)
From Tramp Require Import Model.Base.

(* ---------- node (environment), one payment hash ---------- *)
Inductive dsval := DFree | DPending (a t : N) | DSucc (p : list N) | DGarbage.
Inductive pstat := PPend | PDone (p : list N) | PFailed.
Record node := {
  ds : option (dsval * N);           (* state record and its generation *)
  atts : list (N * (bool * bool));   (* attempt records: id -> (completed, success) *)
  parts : list pstat;                (* sendpay parts, index = pid *)
  payrun : N                         (* pay commands currently running *)
}.
Definition node0 := {| ds := None; atts := []; parts := []; payrun := 0 |}.

Inductive wmode := MustCreate | MustReplace | CreateOrReplace.
Inductive payout := PayComplete (p : list N) | PayPending | PayFailedWarn | PayFailed | PayError.
Inductive rpc :=
| QListState
| QWriteState (m : wmode) (gen : option N) (v : dsval)
| QWriteAtt (m : wmode) (a : N) (completed success : bool) (amount : N) (bolt11 : list N)
| QListPend
| QListDone
| QWaitPart (pid : nat)
| QPay (bolt11 : list N) (amount : option N) (maxfee maxdelay retry : N).
Inductive reply :=
| YState (v : option (dsval * N))
| YGen (g : N)
| YUnit
| YPids (l : list nat)
| YPres (l : list (list N))
| YPre (p : list N)
| YPartFailed
| YPay (o : payout)
| YErr.
Inductive fault := NoFault | Rejected | AppliedButError.

Definition mem_att (a : N) (l : list (N * (bool * bool))) : bool := existsb (fun x => fst x =? a) l.
Fixpoint set_att (a : N) (v : bool * bool) (l : list (N * (bool * bool))) : list (N * (bool * bool)) :=
  match l with
  | [] => [(a, v)]
  | x :: r => if fst x =? a then (a, v) :: r else x :: set_att a v r
  end.
Fixpoint pend_ids (i : nat) (l : list pstat) : list nat :=
  match l with [] => [] | PPend :: r => i :: pend_ids (S i) r | _ :: r => pend_ids (S i) r end.
Fixpoint done_pres (l : list pstat) : list (list N) :=
  match l with [] => [] | PDone p :: r => p :: done_pres r | _ :: r => done_pres r end.

Definition set_ds (n : node) (d : option (dsval * N)) : node :=
  {| ds := d; atts := atts n; parts := parts n; payrun := payrun n |}.
Definition set_atts (n : node) (l : list (N * (bool * bool))) : node :=
  {| ds := ds n; atts := l; parts := parts n; payrun := payrun n |}.
Definition set_parts (n : node) (l : list pstat) : node :=
  {| ds := ds n; atts := atts n; parts := l; payrun := payrun n |}.
Definition set_payrun (n : node) (k : N) : node :=
  {| ds := ds n; atts := atts n; parts := parts n; payrun := k |}.

(* what the node does when it executes an RPC (N5, N6); None = no answer yet *)
Definition node_exec (n : node) (q : rpc) (f : fault) : node * option reply :=
  match f with Rejected => (n, Some YErr) | _ =>
  let wrap (r : reply) := match f with AppliedButError => Some YErr | _ => Some r end in
  match q with
  | QListState => (n, wrap (YState (ds n)))
  | QWriteState m g v =>
      match ds n, m with
      | None, MustReplace => (n, Some YErr)
      | Some _, MustCreate => (n, Some YErr)
      | None, _ => (set_ds n (Some (v, 0)), wrap (YGen 0))
      | Some (_, cur), _ =>
          match g with
          | Some g' => if g' =? cur then (set_ds n (Some (v, cur + 1)), wrap (YGen (cur + 1))) else (n, Some YErr)
          | None => (set_ds n (Some (v, cur + 1)), wrap (YGen (cur + 1)))
          end
      end
  | QWriteAtt m a cm su _ _ =>
      match mem_att a (atts n), m with
      | false, MustReplace => (n, Some YErr)
      | true, MustCreate => (n, Some YErr)
      | _, _ => (set_atts n (set_att a (cm, su) (atts n)), wrap YUnit)
      end
  | QListPend => (n, wrap (YPids (pend_ids 0 (parts n))))
  | QListDone => (n, wrap (YPres (done_pres (parts n))))
  | QWaitPart pid =>
      match nth_error (parts n) pid with
      | Some (PDone p) => (n, wrap (YPre p))
      | Some PFailed | None => (n, wrap YPartFailed)
      | Some PPend => (n, match f with AppliedButError => Some YErr | _ => None end)
      end
  | QPay _ _ _ _ _ => (set_payrun n (payrun n + 1), None)
  end end.


(* ---------- RPC calls in flight (shared by the provider machine and the composite system) ---------- *)
Inductive cstatus := Unprocessed | Running | Replied (y : reply) | Delivered | Cancelled | Dead.
Record call := { c_rpc : rpc; c_st : cstatus }.

Fixpoint upd {A} (n : nat) (x : A) (l : list A) : list A :=
  match n, l with O, _ :: r => x :: r | S n', y :: r => y :: upd n' x r | _, [] => [] end.

Definition mk_calls (qs : list rpc) : list call := map (fun q => {| c_rpc := q; c_st := Unprocessed |}) qs.

Definition set_status (cid : nat) (st : cstatus) (cs : list call) : list call :=
  match nth_error cs cid with
  | Some cl => upd cid {| c_rpc := c_rpc cl; c_st := st |} cs
  | None => cs
  end.

Definition cancel_calls (ids : list nat) (cs : list call) : list call :=
  fold_left (fun acc i => set_status i Cancelled acc) ids cs.
