(* Sys.v — the composite per-payment-hash transition system:
     node side  (survives crashes): datastore record + attempt records, sendpay parts, running pay commands
     plugin side (lost at a crash) : table entry (PaymentState), payment_lifecycle tasks, outstanding RPC calls
   One [step] = one task segment: an environment event and what the task it wakes does until its next await.
   The lifecycle's reaction to the ready / fail signals is its OWN event (EvPoll), so HTLCs may overtake it, as
   they can on the multi-threaded runtime; the harness (single thread, run to quiescence) always shows the two
   back to back, and Check/SysCheck.gstep fuses them accordingly.
   Models /repo/src/htlc_manager.rs (handle_htlc after classification, PaymentState,
   payment_lifecycle, resolve), store.rs (ClnDatastore as RPC scripts), payment_provider.rs
   (pay / wait_payment as RPC scripts) and the CLN side as the contract N1-N6 (DESIGN 3.3). *)
From Tramp Require Export Model.Base Model.Fee Model.Classify Model.Node Model.Provider.

(* ---------- configuration ---------- *)
Record cfg := {
  mpp_ms : N;            (* MPP timeout in ms *)
  pol : policy;          (* routing policy (base, ppm, cltv_expiry_delta) *)
  cltv_delta : N;        (* safety delta between incoming and outgoing expiry *)
  retry_for : N          (* pay retry_for, already capped at u16 *)
}.

Definition r_node_fail : response := Fail (encode_failure TemporaryNodeFailure).
Definition r_tramp_fail : response := Fail (encode_failure TemporaryTrampolineFailure).
Definition r_fee_fail (c : cfg) : response := Fail (encode_failure (TrampolineFeeOrExpiryInsufficient (pol c))).

(* ---------- plugin, one payment hash ---------- *)
Record htlc := {
  hid : N;                  (* unique id of this delivery *)
  blob : list N;            (* bolt11 bytes *)
  deliver : N;              (* amount to deliver (TrampolineInfo.amount_msat) *)
  inv_amount : option N;    (* invoice's own amount *)
  amt : N;                  (* htlc.amount_msat *)
  total : N;                (* onion.total_msat, or forward_msat when absent *)
  expiry : N;               (* htlc.cltv_expiry *)
  rel : Z                   (* htlc.cltv_expiry_relative *)
}.

Record entry := {
  e_blob : list N; e_deliver : N; e_inv_amount : option N;
  listeners : list htlc;    (* newest first *)
  is_ready : bool; is_fail : bool;
  recv : N; minexp : N;
  rdy_q : bool;             (* payment_ready channel (capacity 1) holds a message *)
  fail_q : option response  (* fail_requested channel (capacity 1) holds this message *)
}.

Inductive after_wait := AfterRestart (a g t : N) | AfterPay (a g : N).
Inductive pc :=
| PFetch (cid : nat)
| PWait (k : after_wait) (w : waitst)
| PMarkF1 (cid : nat) (a g t : N) | PMarkF2 (cid : nat) (a g t : N)          (* restart path: mark_failed *)
| PSelect (deadline : N)
| PAdd1 (cid : nat) (a : N) (amount : option N) (maxfee maxdelay : N)
| PAdd2 (cid : nat) (a g : N) (amount : option N) (maxfee maxdelay : N)
| PPay (cid : nat) (a g : N)
| PMS1 (cid : nat) (a : N) (p : list N) | PMS2 (cid : nat) (a : N)             (* mark_succeeded after resolve *)
| PMFp1 (cid : nat) (a g : N) | PMFp2 (cid : nat) (a g : N)                    (* mark_failed after a failed pay *)
| PEnd | PPanicked.


(* the lifecycle's own copy of the TrampolineInfo it was spawned with *)
Record linfo := { li_blob : list N; li_deliver : N; li_inv_amount : option N }.
Record lc := { l_pc : pc; l_info : linfo }.
Definition set_pc (x : lc) (p : pc) : lc := {| l_pc := p; l_info := l_info x |}.

Record plugin := { entry_ : option entry; lcs : list lc; next_att : N }.
Record sys := { nd : node; pl : plugin; calls : list call; now : N; height : N }.

Inductive output :=
| OResp (h : N) (r : response)
| OCall (cid : nat) (q : rpc)
| OCancel (cid : nat)
| OPanic
| ONotify.

Definition new_entry (h : htlc) : entry :=
  {| e_blob := blob h; e_deliver := deliver h; e_inv_amount := inv_amount h; listeners := [];
     is_ready := false; is_fail := false; recv := 0; minexp := u32max; rdy_q := false; fail_q := None |}.

(* PaymentState::fail — single shot *)
Definition e_fail (e : entry) (r : response) : entry :=
  if is_fail e then e else
  {| e_blob := e_blob e; e_deliver := e_deliver e; e_inv_amount := e_inv_amount e; listeners := listeners e;
     is_ready := false; is_fail := true; recv := recv e; minexp := minexp e; rdy_q := rdy_q e; fail_q := Some r |}.

(* PaymentState::add_htlc (after the D3b repair: saturating add) *)
Definition e_add (c : cfg) (e : entry) (h : htlc) : entry :=
  let recv' := N.min u64max (recv e + amt h) in
  let ready_now := negb (is_ready e) && negb (is_fail e) && fee_sufficient (pol c) recv' (e_deliver e) in
  {| e_blob := e_blob e; e_deliver := e_deliver e; e_inv_amount := e_inv_amount e; listeners := h :: listeners e;
     is_ready := is_ready e || ready_now; is_fail := is_fail e;
     recv := recv'; minexp := N.min (expiry h) (minexp e);
     rdy_q := rdy_q e || ready_now; fail_q := fail_q e |}.

(* handle_htlc on a trampoline HTLC: the three gates, then add *)
Definition e_handle (c : cfg) (e : entry) (h : htlc) : entry :=
  let e1 := if bytes_eq (blob h) (e_blob e) && (deliver h =? e_deliver e) then e else e_fail e r_tramp_fail in
  let e2 := if (rel h <? Z.of_N (pol_delta (pol c)))%Z then e_fail e1 (r_fee_fail c) else e1 in
  let e3 := if fee_sufficient (pol c) (total h) (deliver h) then e2 else e_fail e2 (r_fee_fail c) in
  e_add c e3 h.

Definition resolve_outs (e : entry) (r : response) : list output := map (fun h => OResp (hid h) r) (listeners e).

(* ---------- lifecycle machine ---------- *)
(* result of advancing one lifecycle: new pc, new entry, RPCs issued (in order), other outputs,
   calls cancelled, attempt counter *)
Record adv := { a_pc : pc; a_entry : option entry; a_new : list rpc; a_out : list output; a_cancel : list nat; a_att : N }.

Definition clamp16 (x : N) := N.min x u16max.

Section Lifecycle.
  Variable c : cfg.
  Variable li : linfo.      (* the lifecycle's TrampolineInfo *)
  Variable base : nat.      (* id the next issued call will get *)
  Variable hgt tnow : N.

  Definition stay (p : pc) (e : option entry) (na : N) : adv :=
    {| a_pc := p; a_entry := e; a_new := []; a_out := []; a_cancel := []; a_att := na |}.
  Definition panicked (e : option entry) (na : N) : adv :=
    {| a_pc := PPanicked; a_entry := e; a_new := []; a_out := [OPanic]; a_cancel := []; a_att := na |}.

  (* resolve(): remove the entry and answer every listener; then continue with [p] issuing [qs] *)
  Definition do_resolve (e : option entry) (r : response) (p : pc) (qs : list rpc) (extra : list output)
             (cancel : list nat) (na : N) : adv :=
    match e with
    | None => {| a_pc := PPanicked; a_entry := None; a_new := []; a_out := [OPanic]; a_cancel := cancel; a_att := na |}
                (* expect("Expected to resolve payment, but payment was already gone.") *)
    | Some en => {| a_pc := p; a_entry := None; a_new := qs; a_out := resolve_outs en r ++ extra; a_cancel := cancel; a_att := na |}
    end.

  Definition set_queues (en : entry) (rq : bool) (fq : option response) : entry :=
    {| e_blob := e_blob en; e_deliver := e_deliver en; e_inv_amount := e_inv_amount en; listeners := listeners en;
       is_ready := is_ready en; is_fail := is_fail en; recv := recv en; minexp := minexp en; rdy_q := rq; fail_q := fq |}.

  Definition go_pay (e : option entry) (na : N) : adv :=
    match e with
    | None => panicked None na    (* expect("Payment is ready for paying, but payment was already gone.") *)
    | Some en =>
        let amount := match li_inv_amount li with Some _ => None | None => Some (li_deliver li) end in
        let maxfee := recv en - li_deliver li in
        let maxdelay := N.min (clamp16 ((minexp en - hgt) - cltv_delta c)) (pol_delta (pol c)) in
        {| a_pc := PAdd1 base na amount maxfee maxdelay; a_entry := e;
           a_new := [QWriteState CreateOrReplace None (DPending na tnow)]; a_out := []; a_cancel := []; a_att := na + 1 |}
    end.

  (* the select!: poll the two queues (the timer branch is EvTick) *)
  Definition select_poll (deadline : N) (e : option entry) (sel : bool) (na : N) : adv :=
    match e with
    | None => stay (PSelect deadline) e na
    | Some en =>
        match rdy_q en, fail_q en with
        | false, None => stay (PSelect deadline) e na
        | true, None => go_pay (Some (set_queues en false None)) na
        | false, Some r => do_resolve (Some (set_queues en false None)) r PEnd [] [] [] na
        | true, Some r => if sel then go_pay (Some (set_queues en false (Some r))) na
                          else do_resolve (Some (set_queues en true None)) r PEnd [] [] [] na
        end
    end.

  Definition enter_select (d : N) (e : option entry) (sel : bool) (na : N) : adv :=
    if d =? 0 then do_resolve e r_tramp_fail PEnd [] [] [] na
    else select_poll (tnow + d) e sel na.

  Definition succeed (e : option entry) (a : N) (p : list N) (cancel : list nat) (na : N) : adv :=
    do_resolve e (Resolve p) (PMS1 base a p) [QWriteState CreateOrReplace None (DSucc p)] [] cancel na.
  Definition pay_failed (e : option entry) (a g : N) (cancel : list nat) (na : N) : adv :=
    do_resolve e r_tramp_fail (PMFp1 base a g) [QWriteAtt CreateOrReplace a true false (li_deliver li) (li_blob li)] [] cancel na.

  Definition wait_some (k : after_wait) (e : option entry) (p : list N) (cancel : list nat) (na : N) : adv :=
    match k with AfterRestart a _ _ => succeed e a p cancel na | AfterPay a _ => succeed e a p cancel na end.
  Definition wait_none (k : after_wait) (e : option entry) (na : N) : adv :=
    match k with
    | AfterRestart a g t => {| a_pc := PMarkF1 base a g t; a_entry := e; a_new := [QWriteAtt CreateOrReplace a true false (li_deliver li) (li_blob li)];
                               a_out := []; a_cancel := []; a_att := na |}
    | AfterPay a g => pay_failed e a g [] na
    end.
  Definition wait_err (k : after_wait) (e : option entry) (cancel : list nat) (na : N) : adv :=
    match k with
    | AfterRestart _ _ _ => {| a_pc := PPanicked; a_entry := e; a_new := []; a_out := [OPanic]; a_cancel := cancel; a_att := na |}  (* todo!() *)
    | AfterPay a g => pay_failed e a g cancel na                                                                               (* `?` in pay() *)
    end.

  Definition start_wait (k : after_wait) (e : option entry) (na : N) : adv :=
    {| a_pc := PWait k (fst (wait_start base)); a_entry := e; a_new := snd (wait_start base); a_out := []; a_cancel := []; a_att := na |}.

  (* deliver reply [y] of call [cid] to the lifecycle at [p]; None = that call is not awaited by [p] *)
  Definition lc_deliver (p : pc) (cid : nat) (y : reply) (sel : bool) (e : option entry) (na : N) : option adv :=
    match p with
    | PFetch k => if negb (Nat.eqb k cid) then None else Some
        match y with
        | YState None | YState (Some (DFree, _)) => enter_select (mpp_ms c) e sel na
        | YState (Some (DSucc pr, _)) => do_resolve e (Resolve pr) PEnd [] [] [] na
        | YState (Some (DPending a t, g)) => start_wait (AfterRestart a g t) e na
        | _ => do_resolve e r_node_fail PEnd [] [] [] na
        end
    | PWait kk ws =>
        match wait_deliver base ws cid y with
        | None => None
        | Some (WGo ws' new) => Some {| a_pc := PWait kk ws'; a_entry := e; a_new := new; a_out := []; a_cancel := []; a_att := na |}
        | Some (WFin (WSome pr) cancel) => Some (wait_some kk e pr cancel na)
        | Some (WFin WNone _) => Some (wait_none kk e na)
        | Some (WFin WErr cancel) => Some (wait_err kk e cancel na)
        end
    | PMarkF1 k a g t => if negb (Nat.eqb k cid) then None else Some
        match y with
        | YUnit => {| a_pc := PMarkF2 base a g t; a_entry := e; a_new := [QWriteState MustReplace (Some g) DFree];
                      a_out := []; a_cancel := []; a_att := na |}
        | _ => do_resolve e r_node_fail PEnd [] [] [] na
        end
    | PMarkF2 k a g t => if negb (Nat.eqb k cid) then None else Some
        match y with
        | YGen _ => enter_select (mpp_ms c - (tnow - t)) e sel na
        | _ => do_resolve e r_node_fail PEnd [] [] [] na
        end
    | PSelect _ => None
    | PAdd1 k a am mf md => if negb (Nat.eqb k cid) then None else Some
        match y with
        | YGen g => {| a_pc := PAdd2 base a g am mf md; a_entry := e; a_new := [QWriteAtt MustCreate a false false (li_deliver li) (li_blob li)];
                       a_out := []; a_cancel := []; a_att := na |}
        | _ => do_resolve e r_node_fail PEnd [] [] [] na
        end
    | PAdd2 k a g am mf md => if negb (Nat.eqb k cid) then None else Some
        match y with
        | YUnit => {| a_pc := PPay base a g; a_entry := e; a_new := [QPay (li_blob li) am mf md (retry_for c)]; a_out := []; a_cancel := []; a_att := na |}
        | _ => do_resolve e r_node_fail PEnd [] [] [] na
        end
    | PPay k a g => if negb (Nat.eqb k cid) then None else Some
        match pay_reply y with
        | PayOk pr => succeed e a pr [] na
        | PayErr => pay_failed e a g [] na
        | PayWait => start_wait (AfterPay a g) e na
        end
    | PMS1 k a pr => if negb (Nat.eqb k cid) then None else Some
        match y with
        | YGen _ => {| a_pc := PMS2 base a; a_entry := e; a_new := [QWriteAtt MustReplace a true true (li_deliver li) (li_blob li)]; a_out := []; a_cancel := []; a_att := na |}
        | _ => stay PEnd e na
        end
    | PMS2 k _ => if negb (Nat.eqb k cid) then None else Some (stay PEnd e na)
    | PMFp1 k a g => if negb (Nat.eqb k cid) then None else Some
        match y with
        | YUnit => {| a_pc := PMFp2 base a g; a_entry := e; a_new := [QWriteState MustReplace (Some g) DFree]; a_out := []; a_cancel := []; a_att := na |}
        | _ => {| a_pc := PEnd; a_entry := e; a_new := []; a_out := [ONotify]; a_cancel := []; a_att := na |}
        end
    | PMFp2 k _ _ => if negb (Nat.eqb k cid) then None else
        Some {| a_pc := PEnd; a_entry := e; a_new := []; a_out := [ONotify]; a_cancel := []; a_att := na |}
    | PEnd | PPanicked => None
    end.
End Lifecycle.

(* ---------- events ---------- *)
Inductive event :=
| EvHtlc (h : htlc)
| EvPoll (sel : bool)          (* the lifecycle sleeping in the select! looks at its two queues (it may lag behind the HTLC tasks) *)
| EvProcess (cid : nat) (f : fault)
| EvDeliver (cid : nat) (sel : bool)
| EvPart (pid : nat) (st : pstat)
| EvPayNewPart (cid : nat)
| EvPayFinish (cid : nat) (o : payout)
| EvTick (dt : N)
| EvHeight (h : N)
| EvCrash.


Definition plugin0 := {| entry_ := None; lcs := []; next_att := 0 |}.
Definition sys0 := {| nd := node0; pl := plugin0; calls := []; now := 0; height := 0 |}.


Fixpoint number_calls (b : nat) (qs : list rpc) : list output :=
  match qs with [] => [] | q :: r => OCall b q :: number_calls (S b) r end.



(* install the result of advancing lifecycle [i] *)
Definition apply_adv (s : sys) (i : nat) (a : adv) : sys * list output :=
  let base := length (calls s) in
  ({| nd := nd s;
      pl := {| entry_ := a_entry a;
               lcs := match nth_error (lcs (pl s)) i with Some x => upd i (set_pc x (a_pc a)) (lcs (pl s)) | None => lcs (pl s) end;
               next_att := a_att a |};
      calls := cancel_calls (a_cancel a) (calls s) ++ mk_calls (a_new a);
      now := now s; height := height s |},
   a_out a ++ number_calls base (a_new a) ++ map OCancel (a_cancel a)).

Fixpoint find_select (i : nat) (l : list lc) : option (nat * N * linfo) :=
  match l with
  | [] => None
  | x :: r => match l_pc x with PSelect d => Some (i, d, l_info x) | _ => find_select (S i) r end
  end.

(* which lifecycle awaits call [cid] *)
Fixpoint find_owner (c : cfg) (i : nat) (l : list lc) (cid : nat) (y : reply) (sel : bool) (e : option entry)
         (base : nat) (hgt tnow na : N) : option (nat * adv) :=
  match l with
  | [] => None
  | p :: r => match lc_deliver c (l_info p) base hgt tnow (l_pc p) cid y sel e na with
              | Some a => Some (i, a)
              | None => find_owner c (S i) r cid y sel e base hgt tnow na
              end
  end.

(* timers: every lifecycle in select! whose deadline has passed resolves with a trampoline failure *)
Fixpoint fire_timers (l : list lc) (e : option entry) (tnow : N) : list lc * option entry * list output :=
  match l with
  | [] => ([], e, [])
  | x :: r =>
      match l_pc x with
      | PSelect d =>
          if d <=? tnow
          then match e with
               | Some en => let '(r', e', o') := fire_timers r None tnow in (set_pc x PEnd :: r', e', resolve_outs en r_tramp_fail ++ o')
               | None => let '(r', e', o') := fire_timers r None tnow in (set_pc x PPanicked :: r', e', OPanic :: o')
               end
          else let '(r', e', o') := fire_timers r e tnow in (x :: r', e', o')
      | _ => let '(r', e', o') := fire_timers r e tnow in (x :: r', e', o')
      end
  end.

Definition kill_calls (cs : list call) : list call :=
  map (fun cl => {| c_rpc := c_rpc cl; c_st := match c_st cl with Unprocessed | Running | Replied _ => Dead | x => x end |}) cs.

Definition with_nd (s : sys) (n : node) : sys := {| nd := n; pl := pl s; calls := calls s; now := now s; height := height s |}.
Definition with_calls (s : sys) (cs : list call) : sys := {| nd := nd s; pl := pl s; calls := cs; now := now s; height := height s |}.

Definition step (c : cfg) (s : sys) (ev : event) : sys * list output :=
  let p := pl s in
  match ev with
  | EvHtlc h =>
      let base := length (calls s) in
      let '(e0, lcs0, calls0, outs0) :=
        match entry_ p with
        | Some e => (e, lcs p, calls s, [])
        | None => (new_entry h,
                   lcs p ++ [{| l_pc := PFetch base; l_info := {| li_blob := blob h; li_deliver := deliver h; li_inv_amount := inv_amount h |} |}],
                   calls s ++ mk_calls [QListState], [OCall base QListState])
        end in
      let e1 := e_handle c e0 h in
      ({| nd := nd s; pl := {| entry_ := Some e1; lcs := lcs0; next_att := next_att p |}; calls := calls0;
          now := now s; height := height s |}, outs0)
  | EvPoll sel =>
      match find_select 0 (lcs p) with
      | Some (i, d, li) => apply_adv s i (select_poll c li (length (calls s)) (height s) (now s) d (entry_ p) sel (next_att p))
      | None => (s, [])
      end
  | EvProcess cid f =>
      match nth_error (calls s) cid with
      | Some cl =>
          match c_st cl with
          | Unprocessed =>
              let '(n', y) := node_exec (nd s) (c_rpc cl) f in
              let st' := match y with
                         | Some r => Replied r
                         | None => match c_rpc cl with QPay _ _ _ _ _ => Running | _ => Unprocessed end
                         end in
              ({| nd := n'; pl := p; calls := set_status cid st' (calls s); now := now s; height := height s |}, [])
          | _ => (s, [])
          end
      | None => (s, [])
      end
  | EvDeliver cid sel =>
      match nth_error (calls s) cid with
      | Some cl =>
          match c_st cl with
          | Replied y =>
              let s1 := with_calls s (set_status cid Delivered (calls s)) in
              match find_owner c 0 (lcs p) cid y sel (entry_ p) (length (calls s)) (height s) (now s) (next_att p) with
              | Some (i, a) => apply_adv s1 i a
              | None => (s1, [])
              end
          | _ => (s, [])
          end
      | None => (s, [])
      end
  | EvPart pid st =>
      match nth_error (parts (nd s)) pid, st with
      | Some PPend, PDone _ | Some PPend, PFailed => (with_nd s (set_parts (nd s) (upd pid st (parts (nd s)))), [])
      | _, _ => (s, [])
      end
  | EvPayNewPart cid =>
      match nth_error (calls s) cid with
      | Some {| c_rpc := QPay _ _ _ _ _; c_st := Running |} => (with_nd s (set_parts (nd s) (parts (nd s) ++ [PPend])), [])
      | _ => (s, [])
      end
  | EvPayFinish cid o =>
      match nth_error (calls s) cid with
      | Some {| c_rpc := QPay _ _ _ _ _; c_st := Running |} =>
          ({| nd := set_payrun (nd s) (payrun (nd s) - 1); pl := p; calls := set_status cid (Replied (YPay o)) (calls s);
              now := now s; height := height s |}, [])
      | _ => (s, [])
      end
  | EvTick dt =>
      let tnow := now s + dt in
      let '(l', e', o') := fire_timers (lcs p) (entry_ p) tnow in
      ({| nd := nd s; pl := {| entry_ := e'; lcs := l'; next_att := next_att p |}; calls := calls s; now := tnow; height := height s |}, o')
  | EvHeight h => ({| nd := nd s; pl := p; calls := calls s; now := now s; height := h |}, [])
  | EvCrash =>
      ({| nd := set_payrun (nd s) 0; pl := {| entry_ := None; lcs := []; next_att := next_att p |};
          calls := kill_calls (calls s); now := now s; height := height s |}, [])
  end.

(* what a single-threaded runtime that runs to quiescence shows for one HTLC: the handle_htlc segment and, back to
   back, the lifecycle's poll of its two queues (this is the granularity of the correspondence check) *)
Definition step_htlc (c : cfg) (s : sys) (h : htlc) (sel : bool) : sys * list output :=
  let '(s1, o1) := step c s (EvHtlc h) in
  let '(s2, o2) := step c s1 (EvPoll sel) in (s2, o1 ++ o2).

Fixpoint run (c : cfg) (s : sys) (evs : list event) : sys * list (list output) :=
  match evs with
  | [] => (s, [])
  | ev :: r => let '(s1, o) := step c s ev in let '(s2, os) := run c s1 r in (s2, o :: os)
  end.
