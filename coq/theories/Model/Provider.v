(* Provider.v — model of /repo/src/payment_provider.rs at RPC granularity:
   wait_payment (list pending, then list complete, then waitsendpay on every pending part) and
   the pay wrapper, as resumable machines driven by reply delivery. Used stand-alone (C15, C16
   and their correspondence) and embedded in the lifecycle of Model/Sys.v. *)
From Tramp Require Import Model.Base Model.Node.

Inductive waitst :=
| WListP (cid : nat)
| WListD (cid : nat) (pend : list nat)
| WParts (awaiting : list (nat * nat)).     (* (pid, call id) still awaited *)

Inductive wres := WSome (p : list N) | WNone | WErr.

(* outcome of delivering a reply to a wait: still waiting (new state, RPCs issued) or finished (result, calls cancelled) *)
Inductive wstep :=
| WGo (w : waitst) (new : list rpc)
| WFin (r : wres) (cancel : list nat).

Fixpoint number_from (b : nat) (l : list nat) : list (nat * nat) :=
  match l with [] => [] | x :: r => (x, b) :: number_from (S b) r end.

(* [base]: id the next issued call gets. None: call [cid] is not awaited by this wait. *)
Definition wait_deliver (base : nat) (w : waitst) (cid : nat) (y : reply) : option wstep :=
  match w with
  | WListP k => if negb (Nat.eqb k cid) then None else Some
      match y with
      | YPids ps => WGo (WListD base ps) [QListDone]
      | _ => WFin WErr []
      end
  | WListD k ps => if negb (Nat.eqb k cid) then None else Some
      match y with
      | YPres (pr :: _) => WFin (WSome pr) []
      | YPres [] => match ps with
                    | [] => WFin WNone []
                    | _ => WGo (WParts (number_from base ps)) (map QWaitPart ps)
                    end
      | _ => WFin WErr []
      end
  | WParts aw =>
      if negb (existsb (fun x => Nat.eqb (snd x) cid) aw) then None else Some
      (let rest := filter (fun x => negb (Nat.eqb (snd x) cid)) aw in
       match y with
       | YPre pr => WFin (WSome pr) (map snd rest)
       | YPartFailed => match rest with
                        | [] => WFin WNone []
                        | _ => WGo (WParts rest) []
                        end
       | _ => WFin WErr (map snd rest)
       end)
  end.

(* wait_payment starts by listing the pending parts (after the D5 repair: sequentially, pending first) *)
Definition wait_start (base : nat) : waitst * list rpc := (WListP base, [QListPend]).

(* the pay wrapper: what the reply to `pay` means *)
Inductive paystep :=
| PayOk (p : list N)      (* Ok(preimage) *)
| PayErr                  (* Err, without looking at the parts: status failed and no partial-completion warning *)
| PayWait.                (* pending / failed with warning / rpc error: decide by wait_payment *)
Definition pay_reply (y : reply) : paystep :=
  match y with
  | YPay (PayComplete pr) => PayOk pr
  | YPay PayFailed => PayErr
  | _ => PayWait
  end.
