(* Fee.v — model of TrampolineRoutingPolicy::fee_sufficient and
   HtlcFailReason::encode in /repo/src/messages.rs.

   [fixed = true] is the code after the D3 repair (checked_add for the last
   addition); [fixed = false] is the pinned tree, whose last addition is an
   unchecked `+` (Panic under overflow checks, wrap-around otherwise). *)
From Tramp Require Import Model.Base.

Record policy := { fee_base : N; fee_ppm : N; pol_delta : N }.

Definition policy_ok (p : policy) : Prop :=
  fee_base p <= u32max /\ fee_ppm p <= u32max /\ pol_delta p <= u16max.

Definition fee_sufficient_gen (fixed : bool) (m : build_mode) (p : policy) (total amount : N) : res bool :=
  if total <? amount then Ok false else
  if u64max <? amount * fee_ppm p then Ok false else
  let rate := amount * fee_ppm p / 1000000 in
  if u64max <? fee_base p + rate then Ok false else
  let fee := fee_base p + rate in
  if fixed then
    (if u64max <? amount + fee then Ok false else Ok (amount + fee <=? total))
  else
    bind (add_u64 m amount fee) (fun s => Ok (s <=? total)).

(* the repaired code: total, no panic, mode-independent *)
Definition fee_sufficient (p : policy) (total amount : N) : bool :=
  if total <? amount then false else
  if u64max <? amount * fee_ppm p then false else
  let fee := fee_base p + amount * fee_ppm p / 1000000 in
  if u64max <? fee then false else
  if u64max <? amount + fee then false else amount + fee <=? total.

Inductive fail_reason :=
| TemporaryNodeFailure
| TemporaryTrampolineFailure
| TrampolineFeeOrExpiryInsufficient (p : policy).

Definition encode_failure (r : fail_reason) : list N :=
  match r with
  | TemporaryNodeFailure => [32; 2]
  | TemporaryTrampolineFailure => [32; 25]
  | TrampolineFeeOrExpiryInsufficient p =>
      [32; 26] ++ be_enc 4 (fee_base p) ++ be_enc 4 (fee_ppm p) ++ be_enc 2 (pol_delta p)
  end.

(* reference decoder used only to state injectivity / round trip *)
Definition decode_fee_failure (bs : list N) : option policy :=
  match bs with
  | [32; 26; a1; a2; a3; a4; b1; b2; b3; b4; c1; c2] =>
      Some {| fee_base := be_val [a1; a2; a3; a4]; fee_ppm := be_val [b1; b2; b3; b4];
              pol_delta := be_val [c1; c2] |}
  | _ => None
  end.
