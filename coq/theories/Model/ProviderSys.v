(* ProviderSys.v — PayPaymentProvider::wait_payment / ::pay running alone against the node
   (parts, pay command) under an arbitrary interleaving of: the node processing an RPC, the
   reply reaching the plugin, a part resolving, the pay command creating a part or finishing. *)
From Tramp Require Import Model.Base Model.Node Model.Provider.

(* result of the provider function *)
Inductive pres :=
| POk (p : list N)       (* wait_payment: Ok(Some p);  pay: Ok(p) *)
| PNone                  (* wait_payment: Ok(None);    pay: Err because the payment failed for good *)
| PErr.                  (* an RPC it needed failed (known-finding class kf_read_error for `pay`) *)

Inductive pst :=
| SWait (w : waitst)               (* inside wait_payment *)
| SPay (cid : nat)                 (* pay: waiting for the reply to the pay RPC *)
| SPayWait (w : waitst)            (* pay: inside the wait_payment it falls back to *)
| SFin (r : pres).

Record psys := { ps_nd : node; ps_calls : list call; ps_st : pst }.

Inductive pevent :=
| PvProcess (cid : nat) (f : fault)
| PvDeliver (cid : nat)
| PvPart (pid : nat) (st : pstat)
| PvNewPart (cid : nat)
| PvPayFinish (cid : nat) (o : payout).

Definition res_of_wait (r : wres) : pres := match r with WSome p => POk p | WNone => PNone | WErr => PErr end.

Definition wait_init (parts0 : list pstat) : psys :=
  {| ps_nd := {| ds := None; atts := []; parts := parts0; payrun := 0 |};
     ps_calls := mk_calls (snd (wait_start 0)); ps_st := SWait (fst (wait_start 0)) |}.
Definition pay_init (parts0 : list pstat) (q : rpc) : psys :=
  {| ps_nd := {| ds := None; atts := []; parts := parts0; payrun := 0 |}; ps_calls := mk_calls [q]; ps_st := SPay 0 |}.

(* deliver reply y of call cid to the provider *)
Definition p_deliver (s : psys) (cid : nat) (y : reply) : psys :=
  let base := length (ps_calls s) in
  let cs := set_status cid Delivered (ps_calls s) in
  let go (w : waitst) (wrap : waitst -> pst) :=
    match wait_deliver base w cid y with
    | None => {| ps_nd := ps_nd s; ps_calls := cs; ps_st := ps_st s |}
    | Some (WGo w' new) => {| ps_nd := ps_nd s; ps_calls := cs ++ mk_calls new; ps_st := wrap w' |}
    | Some (WFin r cancel) => {| ps_nd := ps_nd s; ps_calls := cancel_calls cancel cs; ps_st := SFin (res_of_wait r) |}
    end in
  match ps_st s with
  | SWait w => go w SWait
  | SPayWait w => go w SPayWait
  | SPay k =>
      if negb (Nat.eqb k cid) then {| ps_nd := ps_nd s; ps_calls := cs; ps_st := ps_st s |} else
      match pay_reply y with
      | PayOk p => {| ps_nd := ps_nd s; ps_calls := cs; ps_st := SFin (POk p) |}
      | PayErr => {| ps_nd := ps_nd s; ps_calls := cs; ps_st := SFin PNone |}
      | PayWait => {| ps_nd := ps_nd s; ps_calls := cs ++ mk_calls (snd (wait_start base)); ps_st := SPayWait (fst (wait_start base)) |}
      end
  | SFin _ => {| ps_nd := ps_nd s; ps_calls := cs; ps_st := ps_st s |}
  end.

Definition pstep (s : psys) (ev : pevent) : psys :=
  match ev with
  | PvProcess cid f =>
      match nth_error (ps_calls s) cid with
      | Some {| c_rpc := q; c_st := Unprocessed |} =>
          let '(n', y) := node_exec (ps_nd s) q f in
          let st' := match y with
                     | Some r => Replied r
                     | None => match q with QPay _ _ _ _ _ => Running | _ => Unprocessed end
                     end in
          {| ps_nd := n'; ps_calls := set_status cid st' (ps_calls s); ps_st := ps_st s |}
      | _ => s
      end
  | PvDeliver cid =>
      match nth_error (ps_calls s) cid with
      | Some {| c_rpc := _; c_st := Replied y |} => p_deliver s cid y
      | _ => s
      end
  | PvPart pid st =>
      match nth_error (parts (ps_nd s)) pid, st with
      | Some PPend, PDone _ | Some PPend, PFailed =>
          {| ps_nd := set_parts (ps_nd s) (upd pid st (parts (ps_nd s))); ps_calls := ps_calls s; ps_st := ps_st s |}
      | _, _ => s
      end
  | PvNewPart cid =>
      match nth_error (ps_calls s) cid with
      | Some {| c_rpc := QPay _ _ _ _ _; c_st := Running |} =>
          {| ps_nd := set_parts (ps_nd s) (parts (ps_nd s) ++ [PPend]); ps_calls := ps_calls s; ps_st := ps_st s |}
      | _ => s
      end
  | PvPayFinish cid o =>
      match nth_error (ps_calls s) cid with
      | Some {| c_rpc := QPay _ _ _ _ _; c_st := Running |} =>
          {| ps_nd := set_payrun (ps_nd s) (payrun (ps_nd s) - 1); ps_calls := set_status cid (Replied (YPay o)) (ps_calls s); ps_st := ps_st s |}
      | _ => s
      end
  end.

Definition prun (s : psys) (evs : list pevent) : psys := fold_left pstep evs s.

(* the environment contract on events (N1-N3, N6 is inside node_exec) *)
Definition busyb (ps : list pstat) : bool := existsb (fun p => match p with PFailed => false | _ => true end) ps.
Definition is_read (q : rpc) : bool := match q with QListState | QListPend | QListDone | QWaitPart _ => true | _ => false end.
Definition pwf (s : psys) (ev : pevent) : bool :=
  match ev with
  | PvPayFinish cid (PayComplete p) => existsb (fun st => match st with PDone p' => list_eq_N p p' | _ => false end) (parts (ps_nd s))   (* N1 *)
  | PvPayFinish cid PayFailed => negb (busyb (parts (ps_nd s)))                                                                        (* N2 *)
  | PvProcess cid AppliedButError =>
      match nth_error (ps_calls s) cid with Some {| c_rpc := QPay _ _ _ _ _; c_st := _ |} => false | _ => true end                    (* N3 *)
  | _ => true
  end.
(* no injected fault on a read RPC (outside the known-finding class) *)
Definition no_read_fault (s : psys) (ev : pevent) : bool :=
  match ev with
  | PvProcess cid NoFault => true
  | PvProcess cid _ => match nth_error (ps_calls s) cid with Some cl => negb (is_read (c_rpc cl)) | None => true end
  | _ => true
  end.
