(* Config.v — model of option handling in /repo/src/main.rs: every integer option arrives as an
   i64, is converted with try_into() to the width its consumer needs (failure = the plugin refuses to
   start), the policy delta must be strictly greater than the safety delta, and the values are wired
   into the routing policy, the HtlcManager and the payment provider. *)
From Tramp Require Import Model.Base Model.Fee.
Open Scope Z_scope.

Record opts := {
  o_cltv_delta : Z;         (* trampoline-cltv-delta *)
  o_policy_delta : Z;       (* trampoline-policy-cltv-delta *)
  o_fee_base : Z;           (* trampoline-policy-fee-base *)
  o_fee_ppm : Z;            (* trampoline-policy-fee-per-satoshi *)
  o_mpp_timeout : Z;        (* trampoline-mpp-timeout, seconds *)
  o_no_self_hints : bool;   (* trampoline-no-self-route-hints *)
  o_pay_timeout : Z         (* trampoline-payment-timeout, seconds *)
}.

Record conf := {
  k_cltv_delta : N;
  k_policy : policy;
  k_mpp_s : N;
  k_allow_self : bool;
  k_retry_for : N
}.

Definition fits (hi : Z) (v : Z) : bool := (0 <=? v) && (v <=? hi).

Definition configure (o : opts) : option conf :=
  if fits 65535 (o_cltv_delta o) && fits 65535 (o_policy_delta o) && (o_cltv_delta o <? o_policy_delta o)
     && fits 4294967295 (o_fee_base o) && fits 4294967295 (o_fee_ppm o)
     && (0 <=? o_mpp_timeout o) && (0 <=? o_pay_timeout o)
  then Some {| k_cltv_delta := Z.to_N (o_cltv_delta o);
               k_policy := {| fee_base := Z.to_N (o_fee_base o); fee_ppm := Z.to_N (o_fee_ppm o); pol_delta := Z.to_N (o_policy_delta o) |};
               k_mpp_s := Z.to_N (o_mpp_timeout o);
               k_allow_self := negb (o_no_self_hints o);
               k_retry_for := Z.to_N (Z.min (o_pay_timeout o) 65535) |}
  else None.
