(* C06 — every htlc_accepted call gets exactly one response; no input panics or hangs it.

   "Every htlc_accepted invocation eventually yields exactly one well-formed response (continue, fail or resolve)
    for arbitrary payload bytes, amounts and expiries and under every interleaving, provided the node's RPC keeps
    answering (with results or errors). No request can make the handler panic, deadlock or stay unanswered, and HTLCs
    of sets that never complete are answered no later than one MPP timeout after the plugin has read the payment's
    stored state."

   What is proved, for the trampoline path (classification of arbitrary bytes is a total function: C13/C18; the
   non-trampoline answers are immediate):
     exactly one   — an accepted HTLC is held from the step it arrives (C06_held_or_answered, C06_poll_held_or_answered); answers
                     go to ALL held HTLCs of the hash at once and the entry is dropped in the same step, so nobody is
                     answered twice (C06_answered_together_once);
     no panic      — no lifecycle ever panics (C06_no_panic);
     no deadlock   — while HTLCs are held their lifecycle is either in the select! with a deadline at most one MPP
                     timeout ahead, or awaits an rpc that is still live, so an rpc that "keeps answering" always moves it
                     (C06_never_stuck); the two capacity-1 channels are written at most once per entry (Proofs/SysEntry),
                     which is why [e_add]/[e_fail] never block;
     deadline      — when the clock reaches the deadline every held HTLC is answered (C06_answered_at_deadline).
     eventually    — from EVERY reachable state and for EVERY held HTLC there is a finite, crash-free continuation by
                     contract-respecting events (the node answers the outstanding RPCs, pending parts resolve, the pay command
                     ends, time passes) in which that HTLC is answered (C06_every_held_htlc_is_answered): no reachable state is a
                     trap, whatever happened before (faults, crashes, overtaking HTLCs, several lifecycles).
     no divergence — and on EVERY schedule the plugin and the node can take only a bounded number of state-changing internal
                     steps between two events of the environment (C06_no_internal_divergence): it cannot keep itself busy for ever.
     every run     — C06_progress_runs_are_bounded + C06_at_rest_means_all_answered: a run without new work in which every event
                     does something is bounded, and it can end only when no HTLC is held: every schedule on which the environment
                     keeps making progress answers every held HTLC (AF relative to the environment's progress).
   PARTIAL: that the environment does keep making progress (the pay command ends, pending parts resolve, the clock advances)
   is the environment's part — lightningd's and the network's — and is a hypothesis of the last two theorems, not proved; RPC errors on reads are
   the known-finding class kf_read_error (stored Pending + error from wait_payment reaches a todo!(): KF-A), excluded by
   [hist_wf]; thread scheduling and real time are runtime (the correspondence runs the real handler deterministically). *)
From Tramp Require Import Model.Base Model.Fee Model.Classify Model.Node Model.Provider Model.ProviderSys Model.Sys.
From Tramp Require Import Proofs.SysBasics Proofs.SysShape Proofs.SysTheorems Proofs.SysTimers Proofs.SysReach Proofs.SysCalls Proofs.SysNode Proofs.SysSafety Proofs.SysLive.
From Tramp Require Import Proofs.SysTerm Proofs.SysAccount.
From Coq Require Import Permutation.

Theorem C06_held_or_answered : forall c s h,
  (exists en, entry_ (pl (fst (step c s (EvHtlc h)))) = Some en /\ In h (listeners en)) \/
  (exists r, In (OResp (hid h) r) (snd (step c s (EvHtlc h)))).
Proof. exact htlc_held_or_answered. Qed.

(* when the lifecycle looks at its queues the set stays held as it is, or every held HTLC is answered *)
Theorem C06_poll_held_or_answered : forall c s sel en,
  entry_ (pl s) = Some en ->
  (exists en', entry_ (pl (fst (step c s (EvPoll sel)))) = Some en' /\ listeners en' = listeners en) \/
  (exists r, forall h, In h (listeners en) -> In (OResp (hid h) r) (snd (step c s (EvPoll sel)))).
Proof. exact poll_held_or_answered. Qed.

Theorem C06_answered_together_once : forall c s ev,
  resps (snd (step c s ev)) = [] \/
  exists r, resps (snd (step c s ev)) = map (fun h => OResp (hid h) r) (held c s ev) /\ entry_ (pl (fst (step c s ev))) = None.
Proof. exact step_same_resolution. Qed.

Theorem C06_no_panic : forall c n t0 h0 a0 evs ev,
  node_ok n -> hist_wf true c (sys_start n t0 h0 a0) evs ->
  let s := after c n t0 h0 a0 evs in
  ~ In OPanic (snd (step c s ev)) /\ forall i x, nth_error (lcs (pl s)) i = Some x -> l_pc x <> PPanicked.
Proof.
  intros c n t0 h0 a0 evs ev Hn Hwf s. destruct (wreach_no_panic true c s eq_refl (after_wreach true c n t0 h0 a0 evs Hn Hwf)) as (A & B).
  split; [exact (B ev)|exact A].
Qed.

Theorem C06_never_stuck : forall c n t0 h0 a0 evs e,
  node_ok n -> hist_wf true c (sys_start n t0 h0 a0) evs ->
  let s := after c n t0 h0 a0 evs in
  entry_ (pl s) = Some e ->
  exists i x, nth_error (lcs (pl s)) i = Some x /\ attached (l_pc x) = true /\
    ((exists d, l_pc x = PSelect d /\ now s < d /\ d <= now s + mpp_ms c) \/
     (awaits (l_pc x) <> [] /\ forall k, In k (awaits (l_pc x)) -> exists cl, nth_error (calls s) k = Some cl /\ live (c_st cl))).
Proof. intros c n t0 h0 a0 evs e Hn Hwf. exact (never_stuck true c _ e eq_refl (after_wreach true c n t0 h0 a0 evs Hn Hwf)). Qed.

Theorem C06_answered_at_deadline : forall c s dt en i x dl,
  entry_ (pl s) = Some en -> nth_error (lcs (pl s)) i = Some x -> l_pc x = PSelect dl -> dl <= now s + dt ->
  resps (snd (step c s (EvTick dt))) = map (fun h => OResp (hid h) r_tramp_fail) (listeners en) /\
  entry_ (pl (fst (step c s (EvTick dt)))) = None.
Proof. intros c s dt en i x dl He Hx Hp Hd. destruct (tick_at_deadline c s dt en i x dl He Hx Hp Hd) as (A & B & _). auto. Qed.

Theorem C06_every_held_htlc_is_answered : forall c n t0 h0 a0 evs en h,
  node_ok n -> hist_wf true c (sys_start n t0 h0 a0) evs ->
  let s := after c n t0 h0 a0 evs in
  entry_ (pl s) = Some en -> In h (listeners en) -> Answered c (hid h) s.
Proof. intros c n t0 h0 a0 evs en h Hn Hwf. exact (held_htlc_is_answered c _ en h (after_wreach true c n t0 h0 a0 evs Hn Hwf)). Qed.

(* no HTLC is silently dropped, along EVERY history from EVERY state (no hypothesis on the environment): an HTLC that is held, or that
   arrives during the history, is still held at the end, or a response carrying its id was written, or the node crashed during the
   history (it then replays the HTLC: a new arrival) *)
Theorem C06_no_htlc_is_silently_dropped : forall c evs s h,
  In h (lis (entry_ (pl s))) \/ In (EvHtlc h) evs ->
  In h (lis (entry_ (pl (fst (run c s evs))))) \/ answered_in (hid h) (snd (run c s evs)) \/ In EvCrash evs.
Proof. exact run_account. Qed.

(* exactly once, as a ledger over EVERY history without a crash, from EVERY state (no hypothesis on the environment): the ids answered
   during the history (with multiplicity, in order) followed by the ids still held at its end are a permutation of the ids that arrived
   during it followed by the ids held at its start. So an id that arrives once is answered at most once and is answered or still
   held - never both, never neither. (A crash forgets the held HTLCs; the node replays them: new arrivals of the next ledger.) *)
Theorem C06_exactly_once_ledger : forall c evs s, ~ In EvCrash evs ->
  Permutation (run_resp_ids (snd (run c s evs)) ++ held_ids (fst (run c s evs))) (arrivals evs ++ held_ids s).
Proof. exact run_ids. Qed.

Theorem C06_nobody_is_answered_twice : forall c evs s,
  ~ In EvCrash evs -> NoDup (arrivals evs ++ held_ids s) -> NoDup (run_resp_ids (snd (run c s evs))).
Proof. exact nobody_answered_twice. Qed.

(* no internal divergence, on EVERY schedule: from any reachable state, a run made only of internal events (the node answering an
   RPC, a reply reaching its lifecycle, a lifecycle polling its queues) in which every step changes the state has at most
   [phi s] steps — a potential (stage of every lifecycle + weight of every outstanding call) strictly decreases. So the plugin
   cannot chatter with the node for ever instead of answering: after finitely many steps it is waiting for the environment
   (its timer, the pay command, a pending part) — where C06_never_stuck and C06_every_held_htlc_is_answered take over. *)
Theorem C06_no_internal_divergence : forall c s evs,
  reachable c s -> forallb internal evs = true ->
  (forall k e, nth_error evs k = Some e -> seffective c (srun c s (firstn k evs)) e) ->
  (length evs <= phi s)%nat.
Proof. exact reachable_internal_runs_are_bounded. Qed.

(* ... and the environment's own progress included. Take any run from a reachable state that brings NO NEW WORK — no HTLC
   arriving, no part created by the pay command, no new block, no crash — and in which every event does something: the node
   answers an RPC, a reply is delivered, a lifecycle polls, a pending part resolves, a running pay command ends, or time
   passes while some lifecycle sits on its timer. Such a run has at most [Phi c s] events (a potential: lifecycle stages +
   outstanding calls + pending parts + time left on the timers) ... *)
Theorem C06_progress_runs_are_bounded : forall c s evs,
  reachable c s ->
  (forall k e, nth_error evs k = Some e -> progress_ev (srun c s (firstn k evs)) e = true /\ seffective c (srun c s (firstn k evs)) e) ->
  (length evs <= Phi c s)%nat.
Proof. intros c s evs Hr. apply progress_runs_are_bounded, reachable_InvC, Hr. Qed.

(* ... and it can only end — no contract-respecting progress event changes the state any more — when no HTLC is held: every
   held HTLC has been answered. So on EVERY schedule on which the environment keeps making progress (the node answers, the
   pay command ends, pending parts resolve, time passes) every held HTLC is answered after finitely many steps: AF, not
   only EF. (Level true: no read RPC answered with an error — the known-finding class kf_read_error.) *)
Theorem C06_at_rest_means_all_answered : forall c n t0 h0 a0 evs,
  node_ok n -> hist_wf true c (sys_start n t0 h0 a0) evs ->
  let s := after c n t0 h0 a0 evs in
  (forall ev, progress_ev s ev = true -> ev_wf true s ev -> ~ seffective c s ev) -> entry_ (pl s) = None.
Proof.
  intros c n t0 h0 a0 evs Hn Hwf s. exact (at_rest_means_all_answered c s (after_wreach true c n t0 h0 a0 evs Hn Hwf)).
Qed.

(* non-vacuity: an HTLC is held, its lifecycle awaits the live state fetch *)
Example C06_nonvacuous :
  let c := {| mpp_ms := 60000; pol := {| fee_base := 0; fee_ppm := 0; pol_delta := 40 |}; cltv_delta := 6; retry_for := 60 |} in
  let h := {| hid := 7; blob := [1]; deliver := 10; inv_amount := Some 10; amt := 5; total := 10; expiry := 1000; rel := 100%Z |} in
  let s := after c node0 0 0 0 [EvHtlc h] in
  option_map listeners (entry_ (pl s)) = Some [h] /\ map l_pc (lcs (pl s)) = [PFetch 0] /\ map c_st (calls s) = [Unprocessed].
Proof. vm_compute. repeat split. Qed.
