(* C07 — all HTLCs aggregated into one payment receive the same resolution.

   "All HTLCs the plugin is holding for the same payment hash when that payment is decided receive the
    identical response: the same preimage, or the same failure. If an HTLC of a still-incomplete set
    triggers a rejection (conflicting invoice or amount, expiry too low, declared total too low), the
    whole set is failed back together and no outgoing payment is started for it." *)
From Tramp Require Import Model.Base Model.Fee Model.Classify Model.Node Model.Provider Model.Sys.
From Tramp Require Import Proofs.SysBasics Proofs.EntryProofs Proofs.SysEntry Proofs.SysShape Proofs.SysTheorems Proofs.SysTimers Proofs.SysReach.

(* in ANY state (reachable or not) and for ANY event (= task segment): either nobody is answered, or EVERY HTLC held for
   the hash is answered in this very step with one and the same response, and the entry is gone. The handle_htlc segment
   itself (EvHtlc) answers nobody; the lifecycle's look at its queues (EvPoll) is its own event, so later HTLCs may
   overtake it — they then simply belong to the set that is answered together. *)
Theorem C07_same_resolution : forall c s ev,
  resps (snd (step c s ev)) = [] \/
  exists r, resps (snd (step c s ev)) = map (fun h => OResp (hid h) r) (held c s ev) /\ entry_ (pl (fst (step c s ev))) = None.
Proof. exact step_same_resolution. Qed.

(* at the granularity of a runtime that runs to quiescence (HTLC segment + poll back to back): the arriving HTLC is
   among the ones answered together *)
Theorem C07_same_resolution_at_arrival : forall c s h sel,
  resps (snd (step_htlc c s h sel)) = [] \/
  exists r, resps (snd (step_htlc c s h sel)) = map (fun x => OResp (hid x) r) (h :: held c s (EvHtlc h)) /\ entry_ (pl (fst (step_htlc c s h sel))) = None.
Proof. exact step_htlc_same_resolution. Qed.

(* a rejection in a still-incomplete set (no ready signal queued, lifecycle has not started to pay) dooms the set ... *)
Theorem C07_rejection_dooms : forall c s h e,
  reachable c s -> entry_ (pl s) = Some e -> gate_rejects c e h = true -> rdy_q e = false ->
  (forall i x, nth_error (lcs (pl s)) i = Some x -> attached (l_pc x) = true -> prepay (l_pc x) = true) ->
  entry_ (pl (fst (step c s (EvHtlc h)))) = None \/ Doomed (fst (step c s (EvHtlc h))).
Proof. intros c s h e Hr. destruct (reachable_inv c s Hr) as (HU & HE & _). exact (rejection_dooms c s h e HU HE). Qed.

(* ... and a doomed set is never paid: until its entry is dropped (which answers all of it at once, C07_same_resolution)
   no step starts an outgoing attempt; the later HTLCs of the set cannot undo this *)
Theorem C07_doomed_never_paid : forall c s ev,
  reachable c s -> Doomed s ->
  (forall cid q, In (OCall cid q) (snd (step c s ev)) -> is_attempt_start q = false) /\
  (entry_ (pl (fst (step c s ev))) = None \/ Doomed (fst (step c s ev))).
Proof. intros c s ev Hr Hd. destruct (reachable_inv c s Hr) as (HU & HE & _). exact (doomed_step c s ev HU HE Hd). Qed.

(* the gates are exactly the four rejection causes of the property *)
Theorem C07_gates : forall c e h,
  gate_rejects c e h = negb (bytes_eq (blob h) (e_blob e) && (deliver h =? e_deliver e))     (* conflicting invoice or amount *)
                       || (rel h <? Z.of_N (pol_delta (pol c)))%Z                           (* expiry too low *)
                       || negb (fee_sufficient (pol c) (total h) (deliver h)).               (* declared total too low *)
Proof. reflexivity. Qed.
