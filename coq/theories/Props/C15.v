(* C15 — waiting on a payment reports 'none' only if nothing is pending or complete.

   "When the plugin waits for the outgoing payment of a hash, it returns a preimage only if some
    part completed with it, and reports 'no payment' only if at that moment no part for that hash is
    pending or complete, whatever the order in which parts resolve relative to its queries.
    Part-level failure codes do not abort the wait while other parts are still pending."

   Model: Model/Provider.v (wait_deliver) run alone in Model/ProviderSys.v against the node's parts,
   for ANY number of parts in ANY initial status and ANY interleaving of: the node processing a query,
   a reply reaching the plugin, a part resolving, any RPC failing (injected error) — the history is
   an arbitrary event list. During wait_payment no pay command is running, so no new parts appear
   (contract N3; with a running pay the statement is false of any implementation that does not lock
   the node). The tree is the one after the D5 repair (pending parts are listed BEFORE completed
   parts, sequentially); the pinned order is refuted by Findings below. *)
From Tramp Require Import Model.Base Model.Node Model.Provider Model.ProviderSys Proofs.ProviderProofs Proofs.ProviderTyped Proofs.ProviderLive.

Theorem C15_wait : forall (parts0 : list pstat) (evs : list pevent),
  hist_ok (wait_init parts0) evs = true ->
  let s := prun (wait_init parts0) evs in
  forall r, ps_st s = SFin r ->
  match r with
  | POk p => In (PDone p) (parts (ps_nd s))                                        (* a preimage only if some part completed with it *)
  | PNone => forall i st, nth_error (parts (ps_nd s)) i = Some st -> st = PFailed   (* 'none' only if every part has failed *)
  | PErr => True
  end.
Proof.
  intros parts0 evs Hok s r Hr.
  pose proof (PInv_fin s r (PInv_run evs _ (PInv_wait_init parts0) Hok) Hr) as H.
  destruct r; [exact H|exact (proj1 H)|exact I].
Qed.

(* and it returns an error only after a read RPC (listsendpays / waitsendpay) was answered with an error: in a history that
   respects the contract and has no such fault, wait_payment ends with a preimage or with 'none' — whatever the order in which
   parts resolve relative to its queries, whatever their failure codes *)
Theorem C15_error_only_after_a_read_error : forall (parts0 : list pstat) (evs : list pevent),
  hist_ok (wait_init parts0) evs = true -> hist_clean (wait_init parts0) evs = true ->
  ps_st (prun (wait_init parts0) evs) <> SFin PErr.
Proof. exact wait_no_read_error_no_PErr. Qed.

(* it RETURNS, on every schedule. In any contract-respecting history from the start of wait_payment in which every step does
   something (changes the state: the node answers a query, a reply reaches the plugin, a pending part resolves — in any order,
   with any RPC error injected), the call has returned after at most [ppot] steps, a number fixed by the parts at the start ... *)
Theorem C15_returns_within_bounded_steps : forall (parts0 : list pstat) (evs : list pevent),
  hist_ok (wait_init parts0) evs = true ->
  (forall k e, nth_error evs k = Some e -> peffective (prun (wait_init parts0) (firstn k evs)) e) ->
  waiting (prun (wait_init parts0) evs) <> None ->
  (length evs <= ppot (wait_init parts0))%nat.
Proof.
  intros parts0 evs Hok Heff Hw. apply wait_effective_runs_are_bounded; auto.
  - apply PInv_wait_init.
  - intros k. discriminate.
Qed.

(* ... and as long as it has not returned there is always something to do: an RPC to process, a reply to deliver, or — when
   every outstanding query waits for a pending part — a part for the network to resolve. wait_payment never deadlocks. *)
Theorem C15_never_at_rest_before_returning : forall (parts0 : list pstat) (evs : list pevent) w,
  hist_ok (wait_init parts0) evs = true ->
  waiting (prun (wait_init parts0) evs) = Some w ->
  exists ev, pwf (prun (wait_init parts0) evs) ev = true /\ peffective (prun (wait_init parts0) evs) ev.
Proof.
  intros parts0 evs w Hok Hw. apply (waiting_is_never_at_rest _ w); [|exact Hw|].
  - apply PInv_run; [apply PInv_wait_init|exact Hok].
  - apply NE_run. exact I.
Qed.

(* the answer stays true afterwards: once it returned, parts can only stay as they are (no pay is running) *)
Theorem C15_invariant_everywhere : forall (parts0 : list pstat) (evs : list pevent),
  hist_ok (wait_init parts0) evs = true -> PInv (prun (wait_init parts0) evs).
Proof. intros. apply PInv_run; [apply PInv_wait_init|assumption]. Qed.

(* a part-level failure (202/203/204/208/209 = YPartFailed) does not end the wait while another part is awaited *)
Theorem C15_part_failure_does_not_abort : forall base aw cid,
  (exists pid' cid', In (pid', cid') aw /\ cid' <> cid) ->
  existsb (fun x => Nat.eqb (snd x) cid) aw = true ->
  exists rest, wait_deliver base (WParts aw) cid YPartFailed = Some (WGo (WParts rest) []) /\ rest <> []
               /\ forall pid' cid', In (pid', cid') rest <-> In (pid', cid') aw /\ cid' <> cid.
Proof. exact wait_continues_on_part_failure. Qed.

(* non-vacuity: one pending part that completes while the plugin is between its two list queries *)
Example C15_between_queries :
  let evs := [PvProcess 0 NoFault; PvDeliver 0; PvPart 0 (PDone [7]); PvProcess 1 NoFault; PvDeliver 1] in
  hist_ok (wait_init [PPend]) evs = true /\ ps_st (prun (wait_init [PPend]) evs) = SFin (POk [7]).
Proof. vm_compute. auto. Qed.

(* the pinned tree queried 'complete' and 'pending' concurrently; processed in the order complete, pending,
   with the part completing in between, both answers are empty: 'none' with a completed part (D5) *)
Example C15_pinned_refuted :
  let parts_at_complete_query := [PPend] in
  let parts_at_pending_query := [PDone [7]] in
  done_pres parts_at_complete_query = [] /\ pend_ids 0 parts_at_pending_query = [].
Proof. vm_compute. auto. Qed.
