(* C03 — pay only when fully covered, for the right amount, within the held budget.

   "The plugin asks the node to pay only when the HTLCs it is holding unanswered for that hash total
    at least the amount to deliver plus the policy fee, and the fee budget it grants never exceeds
    (held total - amount to deliver). It pays the invoice's own amount for fixed-amount invoices and
    exactly the sender-declared amount for amountless ones, and the HTLCs counted stay held until the
    payment's fate is known."

   Model: Model/Sys.v (per-hash composite system after the D3/D3b repairs). [reachable] starts from ANY
   durable node state, clock and height and closes under ANY event (HTLC arrival, node processing an RPC
   with or without fault, reply delivery, part resolution, pay progress, ticks, height changes, crashes):
   no bound on the number of HTLCs, events or crashes. [sum_amt] is the UNBOUNDED sum of the amounts of
   the HTLCs held (the listeners of the table entry = delivered and not yet answered since the entry was
   created; after a crash only replayed HTLCs are listeners). *)
From Tramp Require Import Model.Base Model.Fee Model.Classify Model.Node Model.Provider Model.Sys.
From Tramp Require Import Proofs.SysBasics Proofs.EntryProofs Proofs.SysEntry Proofs.SysShape Proofs.SysTheorems Proofs.SysReach.

Theorem C03_pay_covered : forall c s ev cid b am mf md rt,
  reachable c s -> In (OCall cid (QPay b am mf md rt)) (snd (step c s ev)) ->
  exists en, entry_ (pl s) = Some en /\ entry_ (pl (fst (step c s ev))) = Some en /\
    (* covered: held total >= amount to deliver + base fee + proportional fee *)
    e_deliver en + fee_base (pol c) + e_deliver en * fee_ppm (pol c) / 1000000 <= sum_amt (listeners en) /\
    (* fee budget within what is held beyond the amount to deliver *)
    mf <= sum_amt (listeners en) - e_deliver en /\
    (* the invoice's own amount (no amount argument) or exactly the declared amount *)
    am = match e_inv_amount en with Some _ => None | None => Some (e_deliver en) end /\
    b = e_blob en /\ rt = retry_for c /\ md <= pol_delta (pol c) /\
    (* nobody is answered in the step that issues the pay request *)
    resps (snd (step c s ev)) = [].
Proof.
  intros c s ev cid b am mf md rt Hr Hin. destruct (reachable_inv c s Hr) as (HU & HE & _).
  destruct (pay_request_facts c s ev cid b am mf md rt HU HE Hin) as (en & A & B & C & D & E & F & G & H & I).
  exists en. auto 12.
Qed.

(* the HTLCs counted stay held until the payment's fate is known: while the pay request is outstanding, the only event
   that makes the plugin answer HTLCs of this hash is the delivery of the reply to that request *)
Theorem C03_held_until_fate : forall c s ev i x k a g,
  reachable c s -> nth_error (lcs (pl s)) i = Some x -> l_pc x = PPay k a g ->
  resps (snd (step c s ev)) <> [] -> exists sel, ev = EvDeliver k sel.
Proof. intros c s ev i x k a g Hr. destruct (reachable_inv c s Hr) as (HU & _). exact (held_while_paying c s ev i x k a g HU). Qed.

(* the received total only grows while the entry lives, and saturates instead of wrapping (after the D3b repair) *)
Theorem C03_received_is_saturated_sum : forall c s e, reachable c s -> entry_ (pl s) = Some e -> recv e = N.min u64max (sum_amt (listeners e)).
Proof. intros c s e Hr He. destruct (reachable_inv c s Hr) as (_ & HE & _). exact (ei_recv c e (ie_entry c s HE e He)). Qed.
