(* C12 — fee check is arithmetically exact; its rejection carries the current policy.

   "The sufficiency test equals the exact integer predicate
      total >= amount + base_fee + floor(amount * ppm / 10^6)
    for all 64-bit amounts and 32-bit policy values (false whenever the right-hand side
    exceeds 64 bits), without panicking. Whenever the plugin answers with a
    fee-or-expiry-insufficient failure, it encodes exactly the node's configured base fee,
    proportional fee and CLTV delta; ..."  (third clause: Props/C12sys.v, composite model)

   The model (Model/Fee.v, [fee_sufficient]) is the code after the D3 repair and is the
   same function in both build modes ([fee_sufficient_gen true m] = it, for every m).

   KNOWN FINDING KF-D (class [kf_mul_overflow]): when the 64-bit product amount*ppm
   overflows, the code answers "insufficient" although the exact right-hand side may fit
   in 64 bits. The repository's own test `fee_mul_overflow` demands that answer, so it
   cannot be repaired without editing the test suite; it errs on the safe side. The full
   statement is proved outside the class, the class is characterised and witnessed. *)
From Tramp Require Import Model.Base Model.Fee Proofs.TlvProofs Proofs.FeeProofs.

Theorem C12_fee_exact : forall (m : build_mode) (p : policy) (total amount : N),
  total <= u64max -> kf_mul_overflow p amount = false ->
  fee_sufficient_gen true m p total amount = Ok (fee_exact p total amount).
Proof. intros m p t a Ht Hk. rewrite fee_sufficient_gen_fixed. f_equal. exact (fee_sufficient_exact p t a Ht Hk). Qed.

(* right-hand side above 64 bits => false (spelled out; it is a consequence of exactness) *)
Theorem C12_false_above_64_bits : forall (p : policy) (total amount : N),
  total <= u64max -> u64max < amount + fee_base p + amount * fee_ppm p / 1000000 ->
  fee_sufficient p total amount = false.
Proof.
  intros p t a Ht Hbig. destruct (kf_mul_overflow p a) eqn:Hk.
  - exact (fee_sufficient_in_class p t a Hk).
  - rewrite (fee_sufficient_exact p t a Ht Hk). unfold fee_exact. apply N.leb_gt. unfold u64max in *. lia.
Qed.

(* the known-finding class: always "insufficient", and it is not empty *)
Theorem C12_class_is_conservative : forall p total amount,
  kf_mul_overflow p amount = true -> fee_sufficient p total amount = false.
Proof. exact fee_sufficient_in_class. Qed.

Theorem C12_class_witness :
  let p := {| fee_base := 0; fee_ppm := 2; pol_delta := 144 |} in
  kf_mul_overflow p 9223372036854775808 = true /\
  fee_sufficient p u64max 9223372036854775808 = false /\
  fee_exact p u64max 9223372036854775808 = true.
Proof. exact fee_sufficient_class_witness. Qed.

Theorem C12_encoding : forall p : policy,
  encode_failure (TrampolineFeeOrExpiryInsufficient p) =
  [32; 26] ++ be_enc 4 (fee_base p) ++ be_enc 4 (fee_ppm p) ++ be_enc 2 (pol_delta p).
Proof. exact encode_fee_failure_shape. Qed.

Theorem C12_encoding_injective : forall p : policy, policy_ok p ->
  decode_fee_failure (encode_failure (TrampolineFeeOrExpiryInsufficient p)) = Some p.
Proof. exact decode_encode_fee_failure. Qed.

(* be_enc is the big-endian representation: decoding it gives the value back *)
Theorem C12_be_enc_is_big_endian : forall n v, v < 256 ^ N.of_nat n -> be_val (be_enc n v) = v.
Proof. exact be_val_enc_small. Qed.

(* the pinned tree (before the D3 repair): panic with overflow checks, wrong answer without *)
Theorem C12_pinned_refuted :
  fee_sufficient_gen false Checked {| fee_base := 1; fee_ppm := 0; pol_delta := 144 |} u64max u64max = Panic /\
  fee_sufficient_gen false Wrapping {| fee_base := 1; fee_ppm := 0; pol_delta := 144 |} u64max u64max = Ok true /\
  fee_exact {| fee_base := 1; fee_ppm := 0; pol_delta := 144 |} u64max u64max = false.
Proof. vm_compute. auto. Qed.

Example C12_nonvacuous :
  kf_mul_overflow {| fee_base := 1000; fee_ppm := 5000; pol_delta := 144 |} 1000000 = false /\
  fee_sufficient {| fee_base := 1000; fee_ppm := 5000; pol_delta := 144 |} 1006000 1000000 = true /\
  fee_sufficient {| fee_base := 1000; fee_ppm := 5000; pol_delta := 144 |} 1005999 1000000 = false.
Proof. vm_compute. auto. Qed.
