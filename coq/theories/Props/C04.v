(* C04 — the outgoing payment always expires safely before the incoming HTLCs funding it.

   "For every pay request, the maximum route delay granted is at most (lowest absolute expiry among the
    incoming HTLCs funding it, i.e. those held when the payment was initiated - chain height known at
    that time - configured safety delta), floored at zero, and never above the policy's CLTV delta. An
    HTLC whose relative expiry is below the policy delta and that arrives before its set is fully funded
    causes the set to be rejected rather than paid."

   "Initiated" = the step in which the lifecycle leaves the select! and issues the in-flight marker
   (QWriteState .. (DPending a t)); the parameters are fixed there (pc PAdd1), travel unchanged through
   PAdd2 to the pay request (C04_values_travel), and the height used is the one of that step. *)
From Tramp Require Import Model.Base Model.Fee Model.Classify Model.Node Model.Provider Model.Sys.
From Tramp Require Import Proofs.SysBasics Proofs.EntryProofs Proofs.SysEntry Proofs.SysShape Proofs.SysTheorems Proofs.SysTimers Proofs.SysReach.
From Coq Require Import ZifyBool ZifyN.

Theorem C04_initiation : forall c s ev cid a t,
  reachable c s -> In (OCall cid (QWriteState CreateOrReplace None (DPending a t))) (snd (step c s ev)) ->
  exists en fq i x am mf md,
    entry_seen c s ev = Some en /\
    entry_ (pl (fst (step c s ev))) = Some (set_queues en false fq) /\
    nth_error (lcs (pl (fst (step c s ev)))) i = Some x /\ l_pc x = PAdd1 cid a am mf md /\
    (* the delay granted: min over the HTLCs held now, height of this step, safety delta, floored at zero, capped *)
    md = N.min (clamp16 ((min_expiry (listeners en) - height s) - cltv_delta c)) (pol_delta (pol c)) /\
    md <= pol_delta (pol c) /\ md <= (min_expiry (listeners en) - height s) - cltv_delta c /\
    t = now s /\ a = next_att (pl s).
Proof.
  intros c s ev cid a t Hr Hin. destruct (reachable_inv c s Hr) as (HU & HE & _).
  destruct (attempt_start_facts c s ev cid a t HU HE Hin) as (en & fq & i & x & A & B & C & D & E & F & G & H & I & J).
  rewrite I in E. exists en, fq, i, x. eexists _, _, _. repeat split; eauto; unfold clamp16; lia.
Qed.

Theorem C04_values_travel : forall c li base tnow p cid y sh,
  lc_shape c li base tnow p cid y = Some sh ->
  (forall k a am mf md, p = PAdd1 k a am mf md -> forall g, y = YGen g -> sh = LKeep (PAdd2 base a g am mf md) [QWriteAtt MustCreate a false false (li_deliver li) (li_blob li)] [] []) /\
  (forall k a g am mf md, p = PAdd2 k a g am mf md -> y = YUnit -> sh = LKeep (PPay base a g) [QPay (li_blob li) am mf md (retry_for c)] [] []).
Proof. exact pay_values_travel. Qed.

(* never above the policy delta, at the pay request itself *)
Theorem C04_capped_at_pay : forall c s ev cid b am mf md rt,
  reachable c s -> In (OCall cid (QPay b am mf md rt)) (snd (step c s ev)) -> md <= pol_delta (pol c).
Proof.
  intros c s ev cid b am mf md rt Hr Hin. destruct (reachable_inv c s Hr) as (HU & HE & _).
  destruct (pay_request_facts c s ev cid b am mf md rt HU HE Hin) as (en & _ & _ & _ & _ & _ & _ & _ & H & _). exact H.
Qed.

(* a rejecting HTLC (too low relative expiry is one of the gates) arriving before the set is funded dooms the set:
   the doomed set is never paid — no attempt is started while it lives *)
Theorem C04_low_expiry_rejects : forall c s h e,
  reachable c s -> entry_ (pl s) = Some e ->
  (rel h <? Z.of_N (pol_delta (pol c)))%Z = true -> rdy_q e = false ->
  (forall i x, nth_error (lcs (pl s)) i = Some x -> attached (l_pc x) = true -> prepay (l_pc x) = true) ->
  entry_ (pl (fst (step c s (EvHtlc h)))) = None \/ Doomed (fst (step c s (EvHtlc h))).
Proof.
  intros c s h e Hr He Hrel Hq Hpre. destruct (reachable_inv c s Hr) as (HU & HE & _).
  apply (rejection_dooms c s h e HU HE He); auto. unfold gate_rejects. rewrite Hrel. rewrite orb_true_r. reflexivity.
Qed.

Theorem C04_doomed_never_paid : forall c s ev,
  reachable c s -> Doomed s ->
  (forall cid q, In (OCall cid q) (snd (step c s ev)) -> is_attempt_start q = false) /\
  (entry_ (pl (fst (step c s ev))) = None \/ Doomed (fst (step c s ev))).
Proof. intros c s ev Hr Hd. destruct (reachable_inv c s Hr) as (HU & HE & _). exact (doomed_step c s ev HU HE Hd). Qed.
