(* C04 - placeholder while the invariant is built *)
From Tramp Require Import Model.Base Model.Sys.
Theorem C04_placeholder : True. Proof. exact I. Qed.
