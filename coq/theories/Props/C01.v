(* C01 — an incoming HTLC is settled only with a preimage of its own payment hash.

   "Whenever the plugin tells the node to settle an incoming HTLC, the key it supplies hashes (SHA-256)
    to that HTLC's payment hash and comes from a completed outgoing payment, or the durable record of
    one, for that same hash. Consequently the plugin never pays an invoice on behalf of an HTLC whose
    payment hash differs from the invoice's payment hash."

   The theorems are generic in a predicate [good] on keys. The ENVIRONMENT is assumed to produce only good
   keys: a part completes with a good key, a 'complete' pay answer carries a good key (contract N1:
   Lightning guarantees a part of hash H completes only with a preimage of H), and the node state found at
   start is good. Then every key the plugin ever settles with is good — for every history: any HTLC
   arrivals, RPC faults, interleavings of lifecycles, crashes. Two instances:
     good p := sha p = H          (the key hashes to the hash of this component; SHA-256 itself is not modelled)
     good p := In p keys          (the key IS one the node reported for this hash: "comes from a completed
                                   outgoing payment, or the durable record of one")
   The tree is the one after the D1 repair: an HTLC is routed to the component of ITS OWN hash (C01_own_hash). *)
From Tramp Require Import Model.Base Model.Tlv Model.Fee Model.Classify Model.Node Model.Provider Model.Sys.
From Tramp Require Import Proofs.SysBasics Proofs.EntryProofs Proofs.SysEntry Proofs.SysShape Proofs.SysTheorems Proofs.SysReach Proofs.SysPreimage
  Proofs.ClassifyProofs Check.SysCheck.

(* all outputs of a history *)
Fixpoint all_outs (c : cfg) (s : sys) (evs : list event) : list output :=
  match evs with [] => [] | ev :: r => snd (step c s ev) ++ all_outs c (fst (step c s ev)) r end.

Lemma InvS_start good n t0 h0 a0 : node_good good n -> InvS good (sys_start n t0 h0 a0).
Proof. intros H. constructor; [exact H|]. intros [|k] cl Hk; discriminate. Qed.

Theorem C01_key : forall (good : list N -> Prop) c n t0 h0 a0 evs,
  node_good good n -> Forall (ev_good good) evs ->
  forall h p, In (OResp h (Resolve p)) (all_outs c (sys_start n t0 h0 a0) evs) -> good p.
Proof.
  intros good c n t0 h0 a0 evs Hn Hev.
  assert (G : forall evs s, reachable c s -> InvS good s -> InvF s -> Forall (ev_good good) evs ->
              forall h p, In (OResp h (Resolve p)) (all_outs c s evs) -> good p).
  { induction evs0 as [|ev r IH]; intros s Hr HS HF Hevs h p Hin; [destruct Hin|].
    inversion Hevs as [|? ? He Hr']; subst. cbn [all_outs] in Hin. apply in_app_or in Hin as [Hin|Hin].
    - exact (settle_key_good good c s ev h p HS HF He Hin).
    - destruct (reachable_inv c s Hr) as (HU & HE & _).
      exact (IH _ (reach_step c s ev Hr) (step_InvS good c s ev HS He) (step_InvF c s ev HU HE HF) Hr' h p Hin). }
  apply (G evs _ (reach_start c n t0 h0 a0) (InvS_start good n t0 h0 a0 Hn)); [intros e He; discriminate|exact Hev].
Qed.

(* instance 1: the key hashes to the payment hash (for ANY function sha; N1 is the hypothesis on the environment) *)
Corollary C01_key_hashes_to_own_hash : forall (sha : list N -> list N) (H : list N) c n t0 h0 a0 evs,
  node_good (fun p => sha p = H) n -> Forall (ev_good (fun p => sha p = H)) evs ->
  forall h p, In (OResp h (Resolve p)) (all_outs c (sys_start n t0 h0 a0) evs) -> sha p = H.
Proof. intros sha H. exact (C01_key (fun p => sha p = H)). Qed.

(* instance 2: the key is one the node produced: a completed part, a 'complete' pay answer, or the record found at start *)
Definition env_keys (n : node) (evs : list event) : list (list N) :=
  match ds n with Some (DSucc p, _) => [p] | _ => [] end ++ done_pres (parts n) ++
  flat_map (fun ev => match ev with EvPart _ (PDone p) => [p] | EvPayFinish _ (PayComplete p) => [p] | _ => [] end) evs.

Corollary C01_key_comes_from_completed_payment : forall c n t0 h0 a0 evs h p,
  In (OResp h (Resolve p)) (all_outs c (sys_start n t0 h0 a0) evs) -> In p (env_keys n evs).
Proof.
  intros c n t0 h0 a0 evs h p. apply (C01_key (fun p => In p (env_keys n evs))).
  - split.
    + intros p0 g Hd. unfold env_keys. rewrite Hd. left. reflexivity.
    + intros p0 Hp. unfold env_keys. apply in_or_app. right. apply in_or_app. left. apply done_pres_spec. exact Hp.
  - apply Forall_forall. intros ev Hev. unfold ev_good, env_keys.
    destruct ev as [| | | |pid [|p0|]| |cid [p0| | | |]| | |]; try exact I;
      (apply in_or_app; right; apply in_or_app; right; apply in_flat_map; eexists; split; [exact Hev|left; reflexivity]).
Qed.

(* an HTLC is handed to the component of its OWN payment hash: the invoice attached to it is for that hash (D1 repair),
   so the invoice paid for a component is never paid on behalf of an HTLC with another hash *)
Theorem C01_own_hash : forall (w : world) (rq : request) (h : nat) (t : tramp_info),
  gclassify w rq = KTramp h t -> hash_index w (r_hash rq) = Some h /\ ti_hash t = r_hash rq.
Proof.
  intros w rq h t H. unfold gclassify in H.
  destruct (try_from true (r_payload rq)) as [es| |] eqn:Ees; try discriminate.
  destruct (classify_entries (oracle_of (w_oracle w)) true (w_ccfg w) rq es) as [r|t'|] eqn:Ec; try discriminate.
  destruct (hash_index w (ti_hash t')) as [h'|] eqn:Eh; [|discriminate]. inversion H; subst h' t'.
  assert (Hc : classify (oracle_of (w_oracle w)) true (w_ccfg w) rq = CTramp t) by (unfold classify; rewrite Ees; exact Ec).
  destruct (classify_tramp_sound _ _ _ _ Hc) as (es' & md & mes & ib & iv & _ & _ & _ & _ & _ & _ & _ & Hh & Ht & _).
  rewrite Ht, Hh in Eh. split; [exact Eh|congruence].
Qed.

Example C01_nonvacuous :
  let c := {| mpp_ms := 60000; pol := {| fee_base := 0; fee_ppm := 0; pol_delta := 40 |}; cltv_delta := 6; retry_for := 60 |} in
  let h := {| hid := 7; blob := [1]; deliver := 10; inv_amount := Some 10; amt := 10; total := 10; expiry := 1000; rel := 100%Z |} in
  let n := {| ds := Some (DSucc [9; 9], 3); atts := []; parts := []; payrun := 0 |} in
  all_outs c (sys_start n 0 0 0) [EvHtlc h; EvProcess 0 NoFault; EvDeliver 0 true] = [OCall 0 QListState; OResp 7 (Resolve [9; 9])].
Proof. vm_compute. reflexivity. Qed.
