(* C11 — incomplete multi-part sets fail at the MPP timeout: not before, not much later.

   "A set of HTLCs that never reaches the required total, for a payment with no outgoing attempt pending
    or completed, is failed back with a temporary trampoline failure once the configured MPP timeout has
    elapsed since the plugin began waiting for it, and no outgoing payment is started for it. For a set
    with no earlier attempt this never happens before the timeout unless a policy rejection occurs, and
    a restart never grants more than one further timeout period."

   PARTIAL as to real time: [now] is the model's virtual clock (tokio's paused clock in the correspondence);
   the 1 ms granularity of tokio's timer wheel and the OS clock are runtime. *)
From Tramp Require Import Model.Base Model.Fee Model.Classify Model.Node Model.Provider Model.Sys.
From Tramp Require Import Proofs.SysBasics Proofs.EntryProofs Proofs.SysEntry Proofs.SysShape Proofs.SysTheorems Proofs.SysTimers Proofs.SysReach.
From Tramp Require Props.C03.
From Coq Require Import ZifyBool ZifyN.

(* every lifecycle sleeping in the select! has its deadline strictly ahead and at most one MPP timeout away *)
Theorem C11_deadline_window : forall c s i x dl,
  reachable c s -> nth_error (lcs (pl s)) i = Some x -> l_pc x = PSelect dl -> now s < dl /\ dl <= now s + mpp_ms c.
Proof. intros c s i x dl Hr. destruct (reachable_inv c s Hr) as (_ & _ & HT). exact (HT i x dl). Qed.

(* not before: a tick that does not reach any deadline changes nothing but the clock *)
Theorem C11_not_before : forall c s dt,
  (forall i x dl, nth_error (lcs (pl s)) i = Some x -> l_pc x = PSelect dl -> now s + dt < dl) ->
  step c s (EvTick dt) = ({| nd := nd s; pl := pl s; calls := calls s; now := now s + dt; height := height s |}, []).
Proof. exact tick_before_deadline. Qed.

(* at the timeout: every HTLC held is failed with temporary_trampoline_failure, the entry is dropped, no RPC is issued *)
Theorem C11_at_timeout : forall c s dt en i x dl,
  entry_ (pl s) = Some en -> nth_error (lcs (pl s)) i = Some x -> l_pc x = PSelect dl -> dl <= now s + dt ->
  resps (snd (step c s (EvTick dt))) = map (fun h => OResp (hid h) r_tramp_fail) (listeners en) /\
  entry_ (pl (fst (step c s (EvTick dt)))) = None /\
  (forall cid q, ~ In (OCall cid q) (snd (step c s (EvTick dt)))).
Proof. exact tick_at_deadline. Qed.

(* how long the lifecycle will wait when it goes to the select!: the full timeout when the stored state was Free/absent,
   the timeout minus the age of the interrupted attempt after a restart — never more than one timeout *)
Theorem C11_restart_bound : forall c li base tnow p cid y d,
  lc_shape c li base tnow p cid y = Some (LSelect d) ->
  d <= mpp_ms c /\
  ((exists k, p = PFetch k /\ d = mpp_ms c) \/ (exists k a g t, p = PMarkF2 k a g t /\ d = mpp_ms c - (tnow - t))).
Proof.
  intros c li base tnow p cid y d H. split; [exact (select_deadline_bound _ _ _ _ _ _ _ _ H)|].
  destruct (lc_shape_select_attached _ _ _ _ _ _ _ _ H) as (_ & _ & [(k & ->)|(k & a & g & t & ->)]).
  - left. exists k. split; [reflexivity|]. unfold lc_shape in H. destruct (negb _); [discriminate|].
    destruct y as [[[[| | |] ?]|]| | | | | | | |]; inversion H; reflexivity.
  - right. exists k, a, g, t. split; [reflexivity|]. unfold lc_shape in H. destruct (negb _); [discriminate|].
    destruct y; inversion H; reflexivity.
Qed.

(* zero time left (the interrupted attempt is older than the timeout): failed at once *)
Theorem C11_zero_left_fails_now : forall c li base hgt tnow e sel na,
  enter_select c li base hgt tnow 0 e sel na = do_resolve e r_tramp_fail PEnd [] [] [] na.
Proof. reflexivity. Qed.

(* "and no outgoing payment is started for it": at every reachable state, under every event, a pay request is issued only
   for a set whose held total has reached the amount to deliver plus the policy fee — so a set that never reaches the
   required total never has an outgoing payment started (contrapositive of C03's first clause) *)
Theorem C11_no_pay_below_total : forall c s ev en,
  reachable c s -> entry_ (pl s) = Some en ->
  sum_amt (listeners en) < e_deliver en + fee_base (pol c) + e_deliver en * fee_ppm (pol c) / 1000000 ->
  forall cid b am mf md rt, ~ In (OCall cid (QPay b am mf md rt)) (snd (step c s ev)).
Proof.
  intros c s ev en Hr He Hlow cid b am mf md rt Hin.
  destruct (C03.C03_pay_covered c s ev cid b am mf md rt Hr Hin) as (en' & He' & _ & Hcov & _).
  rewrite He in He'. inversion He'; subst en'. lia.
Qed.
