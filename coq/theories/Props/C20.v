(* C20 — chain height never decreases and catches up within one poll interval.

   "The height the plugin uses equals the maximum of all heights it has been told so far (startup
    query, periodic poll, block notifications) and therefore never decreases under any interleaving
    of those sources. If notifications are lost, the height still catches up with the node within
    one poll interval."  *)
From Tramp Require Import Model.Base Model.Blocks Proofs.BlocksProofs.

Theorem C20_max : forall (evs : list bevent), b_height (brun bsys0 evs) = fold_left N.max (told bsys0 evs) 0.
Proof. intros evs. exact (brun_is_max evs bsys0). Qed.

Theorem C20_never_decreases : forall (s : bsys) (evs : list bevent), b_height s <= b_height (brun s evs).
Proof. intros s evs. exact (brun_monotone evs s). Qed.

Theorem C20_poll_period : forall s r dt,
  b_phase s = BPolling ->
  let s1 := fst (bstep s (BvReply r)) in
  b_phase s1 = BSleeping (b_now s + POLL_MS) /\
  (b_now s + dt < b_now s + POLL_MS -> bstep s1 (BvTick dt) = ({| b_height := b_height s1; b_now := b_now s + dt; b_phase := BSleeping (b_now s + POLL_MS) |}, [])) /\
  (b_now s + POLL_MS <= b_now s + dt -> snd (bstep s1 (BvTick dt)) = [BGetInfo] /\ b_phase (fst (bstep s1 (BvTick dt))) = BPolling).
Proof. exact poll_period. Qed.

Theorem C20_catch_up : forall s v evs,
  b_phase s = BPolling \/ b_phase s = BStarting ->
  v <= b_height (brun (fst (bstep s (BvReply (Some v)))) evs).
Proof. exact catch_up. Qed.

(* "within one poll interval", over EVERY history: whenever the loop is sleeping (after any history [pre]), any continuation in which
   60 s of time pass - whatever notifications, stray replies and tick sizes it is made of - contains the next getinfo; with
   C20_catch_up its reply makes the height at least what the node reports. What stays outside is the latency of that RPC. *)
Theorem C20_poll_within_interval : forall pre evs d,
  b_phase (brun bsys0 pre) = BSleeping d -> POLL_MS <= ticks evs -> In BGetInfo (bouts (brun bsys0 pre) evs).
Proof. exact poll_within_interval. Qed.

(* in every reachable state the sleep deadline lies ahead of the clock by at most one poll interval *)
Theorem C20_deadline_window : forall evs, sleep_ok (brun bsys0 evs).
Proof. intros evs. exact (sleep_ok_run evs bsys0 sleep_ok_init). Qed.

Theorem C20_poll_never_stops : forall s ev, b_phase s <> BStopped -> b_phase s <> BStarting -> b_phase (fst (bstep s ev)) <> BStopped.
Proof. exact poll_never_stops. Qed.

Example C20_stale_and_repeated :
  b_height (brun bsys0 [BvReply (Some 100); BvNotify 99; BvNotify 101; BvNotify 101; BvTick 60000; BvReply (Some 100); BvNotify 7]) = 101.
Proof. vm_compute. reflexivity. Qed.
