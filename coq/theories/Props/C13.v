(* C13 — non-trampoline HTLCs pass through untouched and without side effects.

   "An HTLC that is a plain forward, or carries no (or unusable) trampoline metadata, is answered
    with `continue` without waiting on any external event; the plugin makes no RPC call, stores
    nothing and retains no state for it. If the plugin rewrites the onion payload at all, the rewrite
    only removes the payment-metadata record and preserves every other record byte-for-byte and in
    order." *)
From Tramp Require Import Model.Base Model.Tlv Model.Fee Model.Classify Model.Sys
  Proofs.TlvProofs Proofs.ClassifyProofs Check.SysCheck.

(* answered in the same step, state unchanged, nothing else output *)
Theorem C13_no_effect : forall (w : world) (g : gsys) (rq : request) (r : response) (sel : bool),
  gclassify w rq = KResp r -> gstep w g (GHtlc rq) sel = (g, [GResp (r_id rq) r]).
Proof. intros w g rq r sel H. unfold gstep. rewrite H. reflexivity. Qed.

Theorem C13_decode_error_no_effect : forall (w : world) (g : gsys) (rq : request) (sel : bool),
  gclassify w rq = KDecodeErr -> gstep w g (GHtlc rq) sel = (g, [GDecodeErr (r_id rq)]).
Proof. intros w g rq sel H. unfold gstep. rewrite H. reflexivity. Qed.

(* what such an answer can be: continue (possibly with a rewritten payload) or the self-route-hint failure *)
Theorem C13_answer_shape : forall parse c rq r,
  classify parse true c rq = CResp r ->
  r = Continue None \/ r = Fail (encode_failure TemporaryNodeFailure) \/
  exists es, try_from true (r_payload rq) = Ok es /\ r = Continue (Some (to_bytes (tlv_remove TLV_PAYMENT_METADATA es))).
Proof. exact classify_resp_shape. Qed.

(* plain forwards and requests without forward_msat are never treated as trampoline *)
Theorem C13_forward_never_tramp : forall parse c rq t,
  classify parse true c rq = CTramp t -> r_scid rq = false /\ r_forward rq <> None.
Proof. exact classify_forward_never_tramp. Qed.

(* the rewrite removes exactly the first payment-metadata record; all others keep their bytes and order *)
Theorem C13_rewrite_only_strips : forall es,
  to_bytes (tlv_remove TLV_PAYMENT_METADATA es) = to_bytes es /\ (forall e, In e es -> typ e <> TLV_PAYMENT_METADATA)
  \/ exists es1 e es2, es = es1 ++ e :: es2 /\ typ e = TLV_PAYMENT_METADATA /\
       (forall x, In x es1 -> typ x <> TLV_PAYMENT_METADATA) /\
       to_bytes es = to_bytes es1 ++ entry_bytes e ++ to_bytes es2 /\
       to_bytes (tlv_remove TLV_PAYMENT_METADATA es) = to_bytes es1 ++ to_bytes es2.
Proof. exact rewrite_only_strips. Qed.

(* and for a valid BOLT stream the re-encoded records ARE the original bytes (C18) *)
Theorem C13_valid_stream_bytes : forall bs, valid_stream bs ->
  exists es, from_bytes true bs = Ok es /\ to_bytes es = bs.
Proof. intros bs H. destruct (decode_encode true bs H) as (es & H1 & H2 & _). eauto. Qed.
