(* C19 — startup configuration is validated and applied faithfully.

   "For every combination of option values the plugin either refuses to start (a value out of range,
    or a policy CLTV delta not greater than the safety CLTV delta) or runs with exactly those values:
    the policy it advertises and enforces, the MPP timeout, the payment retry time (capped at 65535 s)
    and the safety margin applied to pay requests equal the configured ones."

   The theorem is small (the model is the decision table of main.rs); the composite theorems are
   parametric in the configuration, which is what "runs with exactly those values" means for them.
   The assurance for this property is mostly the end-to-end agreement of the real binary with
   [configure] (started / refused; policy bytes; retry_for; maxdelay; MPP timing; self-route-hint flag).
   PARTIAL: real time (MPP timing is observed within +-0.6 s) and lightningd's own option parsing are runtime. *)
From Tramp Require Import Model.Base Model.Fee Model.Config.
From Coq Require Import ZifyBool.
Open Scope Z_scope.

Theorem C19_config : forall (o : opts) (c : conf),
  configure o = Some c <->
  (0 <= o_cltv_delta o <= 65535 /\ 0 <= o_policy_delta o <= 65535 /\ o_cltv_delta o < o_policy_delta o /\
   0 <= o_fee_base o <= 4294967295 /\ 0 <= o_fee_ppm o <= 4294967295 /\ 0 <= o_mpp_timeout o /\ 0 <= o_pay_timeout o) /\
  c = {| k_cltv_delta := Z.to_N (o_cltv_delta o);
         k_policy := {| fee_base := Z.to_N (o_fee_base o); fee_ppm := Z.to_N (o_fee_ppm o); pol_delta := Z.to_N (o_policy_delta o) |};
         k_mpp_s := Z.to_N (o_mpp_timeout o);
         k_allow_self := negb (o_no_self_hints o);
         k_retry_for := Z.to_N (Z.min (o_pay_timeout o) 65535) |}.
Proof.
  intros o c. unfold configure, fits.
  destruct (_ && _) eqn:E.
  - split.
    + intros H; inversion H; subst. split; [lia|reflexivity].
    + intros [_ ->]. reflexivity.
  - split; [discriminate|]. intros [H _]. exfalso. lia.
Qed.

Theorem C19_refuses : forall o,
  configure o = None <->
  ~ (0 <= o_cltv_delta o <= 65535 /\ 0 <= o_policy_delta o <= 65535 /\ o_cltv_delta o < o_policy_delta o /\
     0 <= o_fee_base o <= 4294967295 /\ 0 <= o_fee_ppm o <= 4294967295 /\ 0 <= o_mpp_timeout o /\ 0 <= o_pay_timeout o).
Proof.
  intros o. unfold configure, fits. destruct (_ && _) eqn:E; split; try discriminate; try reflexivity; intros H.
  - exfalso. apply H. lia.
  - intros H'. lia.
Qed.

Theorem C19_retry_capped : forall o c, configure o = Some c -> (k_retry_for c <= 65535)%N.
Proof. intros o c H. apply C19_config in H as [Hr ->]. cbn. lia. Qed.

Example C19_defaults :
  configure {| o_cltv_delta := 34; o_policy_delta := 1008; o_fee_base := 0; o_fee_ppm := 5000; o_mpp_timeout := 60; o_no_self_hints := false; o_pay_timeout := 60 |}
  = Some {| k_cltv_delta := 34; k_policy := {| fee_base := 0; fee_ppm := 5000; pol_delta := 1008 |}; k_mpp_s := 60; k_allow_self := true; k_retry_for := 60 |}.
Proof. reflexivity. Qed.
