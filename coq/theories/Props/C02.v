(* C02 — incoming HTLCs are never failed back while the outgoing payment can succeed.

   "Once an outgoing payment attempt for a payment hash exists on the node, the plugin fails an incoming HTLC it is
    holding for that hash only at a moment when no outgoing part for the hash is pending or complete and no pay
    command for it is running. This holds across restarts: replayed HTLCs of a payment that was in flight stay held
    until the fate of the interrupted attempt is known, and are settled with its preimage if it completes."

   Histories as in C08 (any start image respecting write-ahead; any interleaving; crashes anywhere; injected faults on
   every write and on pay). EXCLUDED, and recorded as the known-finding class kf_read_error (KF-A/B/C): an injected
   error on a READ rpc (listdatastore, listsendpays, waitsendpay) — the code turns wait_payment's error into a failed
   payment, so a Fail can go out while a part is pending; [hist_wf] forbids exactly those events and nothing else. *)
From Tramp Require Import Model.Base Model.Fee Model.Classify Model.Node Model.Provider Model.ProviderSys Model.Sys.
From Tramp Require Import Proofs.SysBasics Proofs.SysShape Proofs.SysTheorems Proofs.SysReach Proofs.SysCalls Proofs.SysNode Proofs.SysSafety Proofs.SysLive.
From Tramp Require Import Proofs.SysTerm.

(* every Fail response to a held HTLC is given at a moment when every outgoing part has failed (none pending, none
   complete) and no pay command runs — stronger than the statement: it does not even need an attempt to exist *)
Theorem C02_fail_only_when_nothing_live : forall c n t0 h0 a0 evs ev h m,
  node_ok n -> hist_wf true c (sys_start n t0 h0 a0) evs ->
  let s := after c n t0 h0 a0 evs in
  In (OResp h (Fail m)) (snd (step c s ev)) ->
  all_failed (parts (nd s)) /\ payrun (nd s) = 0.
Proof.
  intros c n t0 h0 a0 evs ev h m Hn Hwf s Hin.
  exact (fail_only_when_quiet true c s ev h m eq_refl (after_wreach true c n t0 h0 a0 evs Hn Hwf) Hin).
Qed.

(* while a part is pending — before or after any number of restarts — no held HTLC is failed *)
Theorem C02_held_while_pending : forall c n t0 h0 a0 evs ev h m pid,
  node_ok n -> hist_wf true c (sys_start n t0 h0 a0) evs ->
  let s := after c n t0 h0 a0 evs in
  nth_error (parts (nd s)) pid = Some PPend -> ~ In (OResp h (Fail m)) (snd (step c s ev)).
Proof.
  intros c n t0 h0 a0 evs ev h m pid Hn Hwf s Hp Hin.
  destruct (fail_only_when_quiet true c s ev h m eq_refl (after_wreach true c n t0 h0 a0 evs Hn Hwf) Hin) as (Haf & _).
  specialize (Haf pid _ Hp). discriminate.
Qed.

(* once a part has completed, no HTLC of the hash is ever failed again, whatever happens later (restarts included):
   every answer from then on is a settle — with a key of this hash, by C01 *)
Theorem C02_never_failed_after_completion : forall c n t0 h0 a0 evs evs' ev p h m,
  node_ok n -> hist_wf true c (sys_start n t0 h0 a0) (evs ++ evs') ->
  has_done p (parts (nd (after c n t0 h0 a0 evs))) ->
  ~ In (OResp h (Fail m)) (snd (step c (after c n t0 h0 a0 (evs ++ evs')) ev)).
Proof.
  intros c n t0 h0 a0 evs evs' ev p h m Hn Hwf Hd Hin.
  destruct (fail_only_when_quiet true c _ ev h m eq_refl (after_wreach true c n t0 h0 a0 (evs ++ evs') Hn Hwf) Hin) as (Haf & _).
  apply (has_done_not_all_failed p _) in Haf; [exact Haf|].
  unfold after in *.
  assert (R : forall l1 l2 s0, fst (run c s0 (l1 ++ l2)) = fst (run c (fst (run c s0 l1)) l2)).
  { induction l1 as [|e r IH]; intros l2 s0; cbn [app run]; [reflexivity|].
    destruct (step c s0 e) as [s1 o]. specialize (IH l2 s1). destruct (run c s1 (r ++ l2)) as [sa oa]. destruct (run c s1 r) as [sb ob]. cbn [fst] in *. exact IH. }
  rewrite R. apply has_done_run. exact Hd.
Qed.

(* ... and they ARE settled: from any reachable state in which a part has completed, every held HTLC of the hash is
   settled along a finite crash-free continuation by contract-respecting events (the node keeps answering) — with a key
   of this hash by C01. "Settled with its preimage if it completes", across any number of earlier restarts. *)
Theorem C02_completed_is_settled : forall c n t0 h0 a0 evs en h p0,
  node_ok n -> hist_wf true c (sys_start n t0 h0 a0) evs ->
  let s := after c n t0 h0 a0 evs in
  has_done p0 (parts (nd s)) -> entry_ (pl s) = Some en -> In h (listeners en) -> Settled c (hid h) s.
Proof. intros c n t0 h0 a0 evs en h p0 Hn Hwf. exact (completed_is_settled c _ en h p0 (after_wreach true c n t0 h0 a0 evs Hn Hwf)). Qed.

(* ... and on EVERY schedule, not only along one continuation: once a part has completed, whatever happens next (any
   contract-respecting continuation evs') no step ever fails an HTLC back, and when the continuation has run out of things to do
   (no contract-respecting progress event changes the state: C06_at_rest_means_all_answered; such runs are bounded:
   C06_progress_runs_are_bounded) no HTLC is held any more. Every HTLC held when the part completed has then been answered, and
   not with a failure: it was settled. *)
Lemma hist_wf_prefix lv c : forall a b s, hist_wf lv c s (a ++ b) -> hist_wf lv c s a.
Proof. induction a as [|e a IH]; intros b s H; [exact I|]. cbn [app hist_wf] in *. destruct H as [H1 H2]. split; [exact H1|exact (IH b _ H2)]. Qed.

Theorem C02_completed_is_settled_on_every_run : forall c n t0 h0 a0 evs evs' p,
  node_ok n -> hist_wf true c (sys_start n t0 h0 a0) (evs ++ evs') ->
  has_done p (parts (nd (after c n t0 h0 a0 evs))) ->
  (forall k ev h m, nth_error evs' k = Some ev ->
     ~ In (OResp h (Fail m)) (snd (step c (after c n t0 h0 a0 (evs ++ firstn k evs')) ev))) /\
  (let s' := after c n t0 h0 a0 (evs ++ evs') in
   (forall ev, progress_ev s' ev = true -> ev_wf true s' ev -> ~ seffective c s' ev) -> entry_ (pl s') = None).
Proof.
  intros c n t0 h0 a0 evs evs' p Hn Hwf Hd. split.
  - intros k ev h m _. apply (C02_never_failed_after_completion c n t0 h0 a0 evs (firstn k evs') ev p h m Hn); [|exact Hd].
    apply (hist_wf_prefix true c (evs ++ firstn k evs') (skipn k evs')). rewrite <- app_assoc, firstn_skipn. exact Hwf.
  - intros s'. exact (at_rest_means_all_answered c s' (after_wreach true c n t0 h0 a0 (evs ++ evs') Hn Hwf)).
Qed.

(* the restart path: replayed HTLCs of a Pending record are settled with the interrupted attempt's preimage when it
   completes (here: found complete), and failed only after every part of it is known to have failed *)
Example C02_restart_settles_or_waits :
  let c := {| mpp_ms := 60000; pol := {| fee_base := 0; fee_ppm := 0; pol_delta := 40 |}; cltv_delta := 6; retry_for := 60 |} in
  let h := {| hid := 7; blob := [1]; deliver := 10; inv_amount := Some 10; amt := 10; total := 10; expiry := 1000; rel := 100%Z |} in
  let n1 := {| ds := Some (DPending 0 0, 0); atts := []; parts := [PPend]; payrun := 0 |} in
  let wait := [EvHtlc h; EvProcess 0 NoFault; EvDeliver 0 true; EvProcess 1 NoFault; EvDeliver 1 true; EvProcess 2 NoFault; EvDeliver 2 true; EvProcess 3 NoFault] in
  (* the part is still pending: nothing is answered, the lifecycle waits on waitsendpay *)
  snd (run c (sys_start n1 0 0 0) wait) = [[OCall 0 QListState]; []; [OCall 1 QListPend]; []; [OCall 2 QListDone]; []; [OCall 3 (QWaitPart 0)]; []] /\
  (* it completes: settled with its preimage *)
  resps (snd (step c (after c n1 0 0 0 (wait ++ [EvPart 0 (PDone [9]); EvProcess 3 NoFault])) (EvDeliver 3 true))) = [OResp 7 (Resolve [9])].
Proof. vm_compute. split; reflexivity. Qed.
