(* C16 — pay wrapper: success only with a real preimage, failure only when final.

   "For every way the node's pay command can end (complete, pending, failed with or without a
    partial-completion warning, RPC error) combined with every state of the payment's parts, the
    wrapper returns success only with the preimage of a completed part and returns failure only when
    no part of that payment is pending or complete."

   Model: Model/ProviderSys.v in pay mode: ANY initial parts, the pay command may create parts while it
   runs and ends in any of its outcomes subject to the contract ([pwf]): N1 'complete' carries the
   preimage of a completed part, N2 'failed' WITHOUT warning only when no part is pending or complete,
   N3 an error reply means the command is not running. Results: POk p (Ok), PNone (Err, final),
   PErr (Err because a list/wait RPC failed: known-finding class kf_read_error, KF-B). *)
From Tramp Require Import Model.Base Model.Node Model.Provider Model.ProviderSys Proofs.ProviderProofs Proofs.ProviderTyped Proofs.ProviderLive.

Theorem C16_pay : forall (parts0 : list pstat) (b : list N) (a : option N) (f d rt : N) (evs : list pevent),
  hist_ok (pay_init parts0 (QPay b a f d rt)) evs = true ->
  let s := prun (pay_init parts0 (QPay b a f d rt)) evs in
  forall r, ps_st s = SFin r ->
  match r with
  | POk p => In (PDone p) (parts (ps_nd s))
  | PNone => (forall i st, nth_error (parts (ps_nd s)) i = Some st -> st = PFailed) /\ payrun (ps_nd s) = 0
  | PErr => True
  end.
Proof.
  intros parts0 b a f d rt evs Hok s r Hr.
  exact (PInv_fin s r (PInv_run evs _ (PInv_pay_init parts0 b a f d rt) Hok) Hr).
Qed.

(* PErr (an Err that is not known to be final) arises only from a reply that is not the answer the query
   asks for — in the node model that is exactly an injected error (YErr) *)
Theorem C16_err_only_from_read_error : forall base w cid y cancel,
  wait_deliver base w cid y = Some (WFin WErr cancel) -> answers w y = false.
Proof. exact wait_err_not_answer. Qed.

(* ... and over whole histories: when the contract holds and NO read RPC (listsendpays, waitsendpay) is answered with an error,
   the wrapper never returns an Err of unknown finality — every failure it reports is final: no part pending or complete, no
   pay command running. This closes C16 outside the known-finding class kf_read_error. *)
Theorem C16_failure_is_final_without_read_errors : forall (parts0 : list pstat) (b : list N) (a : option N) (f d rt : N) (evs : list pevent),
  hist_ok (pay_init parts0 (QPay b a f d rt)) evs = true ->
  hist_clean (pay_init parts0 (QPay b a f d rt)) evs = true ->
  let s := prun (pay_init parts0 (QPay b a f d rt)) evs in
  forall r, ps_st s = SFin r ->
  match r with
  | POk p => In (PDone p) (parts (ps_nd s))
  | PNone | PErr => (forall i st, nth_error (parts (ps_nd s)) i = Some st -> st = PFailed) /\ payrun (ps_nd s) = 0
  end.
Proof.
  intros parts0 b a f d rt evs Hok Hcl s r Hr.
  pose proof (C16_pay parts0 b a f d rt evs Hok r Hr) as H.
  destruct r; [exact H|exact H|].
  exfalso. exact (pay_no_read_error_no_PErr parts0 b a f d rt evs Hok Hcl Hr).
Qed.

(* the wait_payment the wrapper falls back to (pay answered pending / failed with a warning / with an error) RETURNS on every
   schedule: once the wrapper is in it, a contract-respecting continuation in which every step changes the state has at most
   [ppot] steps before the wrapper has returned, and until then there is always a step to take (an RPC to process, a reply to
   deliver, a pending part to resolve) *)
Theorem C16_fallback_wait_returns : forall (parts0 : list pstat) (b : list N) (a : option N) (f d rt : N) (evs0 evs : list pevent),
  hist_ok (pay_init parts0 (QPay b a f d rt)) evs0 = true ->
  let s := prun (pay_init parts0 (QPay b a f d rt)) evs0 in
  waiting s <> None ->
  hist_ok s evs = true ->
  (forall k e, nth_error evs k = Some e -> peffective (prun s (firstn k evs)) e) ->
  waiting (prun s evs) <> None ->
  (length evs <= ppot s)%nat.
Proof.
  intros parts0 b a f d rt evs0 evs Hok0 s Hw Hok Heff Hw'.
  apply wait_effective_runs_are_bounded; auto.
  - apply PInv_run; [apply PInv_pay_init|exact Hok0].
  - intros k Hk. apply Hw. unfold waiting. rewrite Hk. reflexivity.
Qed.

Theorem C16_fallback_wait_never_at_rest : forall (parts0 : list pstat) (b : list N) (a : option N) (f d rt : N) (evs0 : list pevent) w,
  hist_ok (pay_init parts0 (QPay b a f d rt)) evs0 = true ->
  let s := prun (pay_init parts0 (QPay b a f d rt)) evs0 in
  waiting s = Some w -> exists ev, pwf s ev = true /\ peffective s ev.
Proof.
  intros parts0 b a f d rt evs0 w Hok0 s Hw. apply (waiting_is_never_at_rest s w); [|exact Hw|].
  - apply PInv_run; [apply PInv_pay_init|exact Hok0].
  - apply NE_run. exact I.
Qed.

(* the contract boundary: without N2 the statement is false of the code (it returns Err without looking) *)
Example C16_needs_N2 :
  let evs := [PvProcess 0 NoFault; PvNewPart 0; PvPayFinish 0 PayFailed; PvDeliver 0] in
  let s := prun (pay_init [] (QPay [] None 0 0 0)) evs in
  hist_ok (pay_init [] (QPay [] None 0 0 0)) evs = false /\ ps_st s = SFin PNone /\ parts (ps_nd s) = [PPend].
Proof. vm_compute. auto. Qed.

Example C16_nonvacuous :
  let evs := [PvProcess 0 NoFault; PvNewPart 0; PvPayFinish 0 PayPending; PvDeliver 0; PvProcess 1 NoFault; PvDeliver 1;
              PvProcess 2 NoFault; PvDeliver 2; PvPart 1 (PDone [9]); PvProcess 3 NoFault; PvDeliver 3] in
  hist_ok (pay_init [PFailed] (QPay [] None 0 0 0)) evs = true /\
  ps_st (prun (pay_init [PFailed] (QPay [] None 0 0 0)) evs) = SFin (POk [9]).
Proof. vm_compute. auto. Qed.
