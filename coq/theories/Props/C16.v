(* C16 — pay wrapper: success only with a real preimage, failure only when final.

   "For every way the node's pay command can end (complete, pending, failed with or without a
    partial-completion warning, RPC error) combined with every state of the payment's parts, the
    wrapper returns success only with the preimage of a completed part and returns failure only when
    no part of that payment is pending or complete."

   Model: Model/ProviderSys.v in pay mode: ANY initial parts, the pay command may create parts while it
   runs and ends in any of its outcomes subject to the contract ([pwf]): N1 'complete' carries the
   preimage of a completed part, N2 'failed' WITHOUT warning only when no part is pending or complete,
   N3 an error reply means the command is not running. Results: POk p (Ok), PNone (Err, final),
   PErr (Err because a list/wait RPC failed: known-finding class kf_read_error, KF-B). *)
From Tramp Require Import Model.Base Model.Node Model.Provider Model.ProviderSys Proofs.ProviderProofs.

Theorem C16_pay : forall (parts0 : list pstat) (b : list N) (a : option N) (f d rt : N) (evs : list pevent),
  hist_ok (pay_init parts0 (QPay b a f d rt)) evs = true ->
  let s := prun (pay_init parts0 (QPay b a f d rt)) evs in
  forall r, ps_st s = SFin r ->
  match r with
  | POk p => In (PDone p) (parts (ps_nd s))
  | PNone => (forall i st, nth_error (parts (ps_nd s)) i = Some st -> st = PFailed) /\ payrun (ps_nd s) = 0
  | PErr => True
  end.
Proof.
  intros parts0 b a f d rt evs Hok s r Hr.
  exact (PInv_fin s r (PInv_run evs _ (PInv_pay_init parts0 b a f d rt) Hok) Hr).
Qed.

(* PErr (an Err that is not known to be final) arises only from a reply that is not the answer the query
   asks for — in the node model that is exactly an injected error (YErr) *)
Definition answers (w : waitst) (y : reply) : bool :=
  match w, y with
  | WListP _, YPids _ | WListD _ _, YPres _ | WParts _, YPre _ | WParts _, YPartFailed => true
  | _, _ => false
  end.
Theorem C16_err_only_from_read_error : forall base w cid y cancel,
  wait_deliver base w cid y = Some (WFin WErr cancel) -> answers w y = false.
Proof.
  intros base w cid y cancel H. destruct w as [k|k l|aw]; cbn in H.
  - destruct (negb (Nat.eqb k cid)); [discriminate|]. destruct y; inversion H; reflexivity.
  - destruct (negb (Nat.eqb k cid)); [discriminate|]. destruct y as [| | | |[|p l']| | | |]; try (inversion H; reflexivity).
    destruct l; inversion H.
  - destruct (negb (existsb _ aw)); [discriminate|]. destruct y; try (inversion H; reflexivity).
    destruct (filter _ aw); inversion H.
Qed.

(* the contract boundary: without N2 the statement is false of the code (it returns Err without looking) *)
Example C16_needs_N2 :
  let evs := [PvProcess 0 NoFault; PvNewPart 0; PvPayFinish 0 PayFailed; PvDeliver 0] in
  let s := prun (pay_init [] (QPay [] None 0 0 0)) evs in
  hist_ok (pay_init [] (QPay [] None 0 0 0)) evs = false /\ ps_st s = SFin PNone /\ parts (ps_nd s) = [PPend].
Proof. vm_compute. auto. Qed.

Example C16_nonvacuous :
  let evs := [PvProcess 0 NoFault; PvNewPart 0; PvPayFinish 0 PayPending; PvDeliver 0; PvProcess 1 NoFault; PvDeliver 1;
              PvProcess 2 NoFault; PvDeliver 2; PvPart 1 (PDone [9]); PvProcess 3 NoFault; PvDeliver 3] in
  hist_ok (pay_init [PFailed] (QPay [] None 0 0 0)) evs = true /\
  ps_st (prun (pay_init [PFailed] (QPay [] None 0 0 0)) evs) = SFin (POk [9]).
Proof. vm_compute. auto. Qed.
