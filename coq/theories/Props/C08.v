(* C08 — write-ahead (theorems are being moved here from Proofs/; placeholder while the invariant is built) *)
From Tramp Require Import Model.Base Model.Sys.
Theorem C08_placeholder : True. Proof. exact I. Qed.
