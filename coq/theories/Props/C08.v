(* C08 — write-ahead: the durable record never understates the outgoing payment.

   "At every instant, if any outgoing part for a payment hash is pending or complete on the node, the durable
    record for that hash says in-flight or succeeded, never free or absent. In particular the in-flight marker is
    durably written before the pay request is issued, a free marker is written only when nothing is pending or
    complete, and a succeeded record always holds a preimage of that hash."

   Quantification: any durable start image [n] that itself respects the property ([node_ok]: no pay command runs
   at start-up, the record found covers the parts found, the record parses), any history [evs] of HTLC arrivals,
   RPC processing WITH injected faults on every write and on pay (rejected, or applied-but-reported-failed), reply
   deliveries in any order, part resolutions, pay-command progress, timer ticks, block heights and CRASHES; every
   prefix is a possible crash image because [evs] is arbitrary. [hist_wf false] is the environment contract at its weaker
   level: N1/N2 on what a finished pay command reports, and no injected error on the reads of the wait_payment that pay()
   falls back to (with one, that wait's error is taken for a failed payment and Free is written early: known finding KF-B).
   Injected errors on every other read (listdatastore; the wait_payment of the restart path) ARE allowed: they make the
   plugin fail HTLCs or panic (KF-C, KF-A) but never write the record wrongly. *)
From Tramp Require Import Model.Base Model.Fee Model.Classify Model.Node Model.Provider Model.ProviderSys Model.Sys.
From Tramp Require Import Proofs.SysBasics Proofs.SysReach Proofs.SysPreimage Proofs.SysCalls Proofs.SysNode Proofs.SysSafety.

(* at every instant: something pending or complete, or a pay command running  ==>  the record says Pending or Succeeded *)
Theorem C08_write_ahead : forall c n t0 h0 a0 evs,
  node_ok n -> hist_wf false c (sys_start n t0 h0 a0) evs ->
  let s := after c n t0 h0 a0 evs in
  busy (nd s) \/ payrun (nd s) <> 0 -> hot (nd s).
Proof. intros c n t0 h0 a0 evs Hn Hwf. exact (write_ahead false c _ (after_wreach false c n t0 h0 a0 evs Hn Hwf)). Qed.

(* the same, read the other way: whenever the record is free or absent, every part has failed and no pay command runs
   — so a free marker can only ever be in place (hence only be written) when nothing is pending or complete *)
Theorem C08_free_only_when_nothing_live : forall c n t0 h0 a0 evs,
  node_ok n -> hist_wf false c (sys_start n t0 h0 a0) evs ->
  let s := after c n t0 h0 a0 evs in
  free_view (ds (nd s)) -> all_failed (parts (nd s)) /\ payrun (nd s) = 0.
Proof. intros c n t0 h0 a0 evs Hn Hwf. exact (free_means_quiet false c _ (after_wreach false c n t0 h0 a0 evs Hn Hwf)). Qed.

(* the in-flight marker is durable in the node at the moment the pay request is issued *)
Theorem C08_marker_before_pay : forall c n t0 h0 a0 evs ev cid b am mf md rt,
  node_ok n -> hist_wf false c (sys_start n t0 h0 a0) evs ->
  let s := after c n t0 h0 a0 evs in
  In (OCall cid (QPay b am mf md rt)) (snd (step c s ev)) -> hot (nd s).
Proof.
  intros c n t0 h0 a0 evs ev cid b am mf md rt Hn Hwf s Hin.
  exact (proj2 (pay_only_when_quiet false c s ev cid b am mf md rt (after_wreach false c n t0 h0 a0 evs Hn Hwf) Hin)).
Qed.

(* a succeeded record holds a good key (good := "hashes to this payment hash", or "was produced by the node for this
   hash": the two instances of C01), for ANY history, read faults included *)
Theorem C08_succeeded_record_holds_preimage : forall (good : list N -> Prop) c evs s,
  InvS good s -> Forall (ev_good good) evs ->
  forall p g, ds (nd (fst (run c s evs))) = Some (DSucc p, g) -> good p.
Proof.
  intros good c. induction evs as [|ev r IH]; intros s HS Hev p g Hd; cbn [run] in Hd.
  - exact (proj1 (is_node good s HS) p g Hd).
  - inversion Hev as [|? ? He Hr]; subst. pose proof (step_InvS good c s ev HS He) as HS1.
    destruct (step c s ev) as [s1 o]. cbn [fst] in *. specialize (IH s1 HS1 Hr p g).
    destruct (run c s1 r) as [s2 os]. exact (IH Hd).
Qed.

(* non-vacuity: a crash after the marker was written and pay started leaves Pending + a pending part; the invariant holds there *)
Example C08_nonvacuous :
  let c := {| mpp_ms := 60000; pol := {| fee_base := 0; fee_ppm := 0; pol_delta := 40 |}; cltv_delta := 6; retry_for := 60 |} in
  let h := {| hid := 7; blob := [1]; deliver := 10; inv_amount := Some 10; amt := 10; total := 10; expiry := 1000; rel := 100%Z |} in
  let evs := [EvHtlc h; EvProcess 0 NoFault; EvDeliver 0 true; EvProcess 1 NoFault; EvDeliver 1 true; EvProcess 2 NoFault; EvDeliver 2 true;
              EvProcess 3 NoFault; EvPayNewPart 3; EvCrash] in
  let s := after c node0 0 0 0 evs in
  parts (nd s) = [PPend] /\ ds (nd s) = Some (DPending 0 0, 0).
Proof. vm_compute. split; reflexivity. Qed.
