(* C14 — payments for different hashes are isolated from each other.

   "Progress and outcome of a payment for one hash never depend on another hash: a stalled, slow or
    failing payment (or a stuck RPC issued for it) neither delays nor alters the responses for HTLCs
    of a different hash. Amounts, expiries and stored state are never pooled across hashes."

   In the model the global system IS a product of per-hash components (every table access, datastore
   key, listsendpays/waitsendpay query and pay request in the code is keyed by the one hash), so the
   theorems are short. The weight of this property is on the correspondence: freeze schedules, in which
   every RPC of hash A is withheld at each stage of A's lifecycle while hash B runs to completion, and
   B's observations must equal those of B running alone (implementation against implementation), while
   the two-hash trace must also replay through this product model. *)
From Tramp Require Import Model.Base Model.Tlv Model.Fee Model.Classify Model.Sys Check.Common Check.SysCheck Proofs.IsolationProofs Proofs.IsolationRun.

(* an event of hash h: component h makes exactly its own per-hash step with its own outputs, every other component is untouched *)
Theorem C14_event_is_local : forall w g h ev sel,
  let ev' := match ev with EvDeliver c _ => EvDeliver c sel | x => x end in
  get_comp (fst (gstep w g (GEv h ev) sel)) h = fst (step (w_cfg w) (get_comp g h) ev') /\
  snd (gstep w g (GEv h ev) sel) = map (lift_out h) (snd (step (w_cfg w) (get_comp g h) ev')) /\
  forall h', h <> h' -> get_comp (fst (gstep w g (GEv h ev) sel)) h' = get_comp g h'.
Proof. exact gev_component. Qed.

Theorem C14_htlc_is_local : forall w g rq sel,
  match gclassify w rq with
  | KTramp h t =>
      get_comp (fst (gstep w g (GHtlc rq) sel)) h = fst (step_htlc (w_cfg w) (get_comp g h) (htlc_of rq t) sel) /\
      snd (gstep w g (GHtlc rq) sel) = map (lift_out h) (snd (step_htlc (w_cfg w) (get_comp g h) (htlc_of rq t) sel)) /\
      forall h', h <> h' -> get_comp (fst (gstep w g (GHtlc rq) sel)) h' = get_comp g h'
  | _ => fst (gstep w g (GHtlc rq) sel) = g
  end.
Proof. exact ghtlc_component. Qed.

(* time, height and crashes reach every existing component as its own per-hash event, whatever the others are doing *)
Theorem C14_global_events_pointwise : forall w g h x dt,
  find (fun y => Nat.eqb (fst y) h) (comps g) = Some x ->
  find (fun y => Nat.eqb (fst y) h) (comps (fst (gstep w g (GTick dt) true))) = Some (fst x, fst (step (w_cfg w) (snd x) (EvTick dt))) /\
  find (fun y => Nat.eqb (fst y) h) (comps (fst (gstep w g GCrash true))) = Some (fst x, fst (step (w_cfg w) (snd x) EvCrash)).
Proof.
  intros w g h x dt Hx. cbn [gstep].
  split.
  - destruct (map_comps (fun s => step (w_cfg w) s (EvTick dt)) g) as [cs o] eqn:E. cbn [fst comps].
    pose proof (map_comps_find (fun s => step (w_cfg w) s (EvTick dt)) g h) as M. rewrite E, Hx in M. exact M.
  - destruct (map_comps (fun s => step (w_cfg w) s EvCrash) g) as [cs o] eqn:E. cbn [fst comps].
    pose proof (map_comps_find (fun s => step (w_cfg w) s EvCrash) g h) as M. rewrite E, Hx in M. exact M.
Qed.

(* non-interference over whole histories: two global histories (event, select-order) that contain the same events CONCERNING hash h -
   its HTLCs, its node and lifecycle events, the global clock / chain / crash events - and ANY other events of other hashes in between,
   from states that agree on h, end with the same component for h, the same clock and the same chain height. What another payment does,
   how often and in which order relative to h's events, is invisible to h; with C14_event_is_local (the outputs of an event of h are a
   function of h's component) so are all of h's responses and RPC requests. Bursts are excluded (a Check-layer scheduling artefact). *)
Theorem C14_noninterference : forall w h evs1 evs2 g1 g2,
  forallb no_burst evs1 = true -> forallb no_burst evs2 = true ->
  view w h evs1 = view w h evs2 -> same_for h g1 g2 ->
  same_for h (grun w g1 evs1) (grun w g2 evs2).
Proof. exact noninterference. Qed.

(* in particular: h alone behaves as h among any others *)
Theorem C14_alone_or_among_others : forall w h evs g,
  forallb no_burst evs = true -> same_for h (grun w g evs) (grun w g (view w h evs)).
Proof. intros w h evs g Hb. exact (run_view w h evs g g Hb (same_for_refl h g)). Qed.
