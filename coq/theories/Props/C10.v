(* C10 — trampoline parameters come only from a signed invoice with unambiguous amount.

   "An HTLC is treated as a trampoline payment only if its metadata carries a BOLT11 invoice that
    parses, has a valid signature and whose payment hash equals the HTLC's. The amount to deliver is
    the invoice amount when present (a well-formed accompanying amount field must agree), otherwise
    exactly the sender-declared amount, and the payee is the key the invoice's signature verifies
    against; if the local node is the last hop of a route hint and that is disallowed by
    configuration, the HTLC is failed, not paid."

   Model: Model/Classify.v (request decoding of plugin.rs, check_htlc, extract_trampoline_info, the
   forward_msat test), [hashfix = true] = the tree after the D1 repair. BOLT11 parsing and signature
   recovery are the oracle [parse] — universally quantified here; the correspondence check feeds the
   graph computed with the plugin's own lightning-invoice crate, including the recovered key, so
   "payee = the key the signature verifies against" is checked on the implementation by the monitor. *)
From Tramp Require Import Model.Base Model.Tlv Model.Fee Model.Classify Proofs.TlvProofs Proofs.ClassifyProofs.

Theorem C10_sound : forall (parse : list N -> option invoice_view) (c : ccfg) (rq : request) (t : tramp_info),
  classify parse true c rq = CTramp t ->
  exists es md mes ib iv,
    try_from true (r_payload rq) = Ok es /\
    tlv_get TLV_PAYMENT_METADATA es = Some md /\ from_bytes true (value md) = Ok mes /\
    tlv_get TLV_TRAMPOLINE_INVOICE mes = Some ib /\ ti_blob t = value ib /\ parse (value ib) = Some iv /\
    iv_sig_ok iv = true /\ iv_hash iv = r_hash rq /\ ti_hash t = iv_hash iv /\ ti_payee t = iv_payee iv /\
    ti_inv_amount t = iv_amount iv /\ amount_rule iv mes (ti_amount t) /\
    (self_is_last_hop c iv = true -> c_allow_self c = true) /\
    r_scid rq = false /\ r_forward rq <> None.
Proof. exact classify_tramp_sound. Qed.

Theorem C10_self_hint : forall parse c rq es t iv,
  try_from true (r_payload rq) = Ok es -> r_scid rq = false ->
  extract parse true rq es = XInfo t -> parse (ti_blob t) = Some iv ->
  self_is_last_hop c iv = true -> c_allow_self c = false ->
  classify parse true c rq = CResp (Fail (encode_failure TemporaryNodeFailure)).
Proof. exact classify_self_hint. Qed.

Theorem C10_no_panic : forall parse c rq, classify parse true c rq <> CPanic.
Proof. exact classify_no_panic. Qed.

(* the pinned tree (before the D1 repair) accepted an invoice for another hash: witness *)
Definition w_iv : invoice_view :=
  {| iv_hash := [1]; iv_amount := Some 1000; iv_sig_ok := true; iv_payee := [2]; iv_recovered := Some [2]; iv_last_hops := [] |}.
Definition w_parse (b : list N) : option invoice_view := Some w_iv.
Definition w_rq : request :=
  {| r_payload := [9; 16; 7; 253; 128; 233; 3; 108; 110; 98]; r_scid := false; r_forward := Some 1; r_total := None; r_id := 0;
     r_amount := 1; r_expiry := 1; r_rel := 1%Z; r_hash := [7] |}.
Definition w_c : ccfg := {| c_local := []; c_allow_self := true; c_policy := {| fee_base := 0; fee_ppm := 0; pol_delta := 0 |} |}.

Theorem C10_pinned_refuted :
  (exists t, classify w_parse false w_c w_rq = CTramp t /\ ti_hash t <> r_hash w_rq) /\
  classify w_parse true w_c w_rq = CResp (Continue None).
Proof. split; [eexists; split; [vm_compute; reflexivity|vm_compute; discriminate]|vm_compute; reflexivity]. Qed.

(* non-vacuity: the same request with the matching hash IS classified as trampoline by the repaired code *)
Example C10_nonvacuous :
  exists t, classify w_parse true w_c {| r_payload := r_payload w_rq; r_scid := false; r_forward := Some 1; r_total := None; r_id := 0;
                                         r_amount := 1; r_expiry := 1; r_rel := 1%Z; r_hash := [1] |} = CTramp t /\ ti_amount t = 1000.
Proof. eexists; split; vm_compute; reflexivity. Qed.
