(* C18 — TLV codec is total and lossless.

   "Decoding never panics on any byte string: it either returns records or an error.
    For every valid BOLT TLV stream, decoding then encoding reproduces the input bytes
    exactly, and encoding then decoding reproduces the records; truncated-integer fields
    decode to their big-endian value for lengths 0 to 8 and are rejected above 8."

   The model is Model/Tlv.v with [chk = true] (the tree after the D2 repair).
   [valid_stream] is the BOLT #1 grammar (minimal BigSize, length within the buffer)
   without the ordering demand, i.e. a superset of the BOLT-valid streams. *)
From Tramp Require Import Model.Base Model.Tlv Proofs.TlvProofs Check.TlvCheck Proofs.TlvCheckProofs.

Theorem C18_total : forall bs : list N,
  from_bytes true bs <> Panic /\ try_from true bs <> Panic /\ get_tu64 bs <> Panic.
Proof. intros bs. exact (conj (from_bytes_no_panic bs) (conj (try_from_no_panic bs) (get_tu64_no_panic bs))). Qed.

Theorem C18_decode_encode : forall bs : list N, valid_stream bs ->
  exists es, from_bytes true bs = Ok es /\ to_bytes es = bs /\ Forall wf_entry es.
Proof. exact (decode_encode true). Qed.

Theorem C18_encode_decode : forall es : list tlv_entry, Forall wf_entry es ->
  from_bytes true (to_bytes es) = Ok es.
Proof. exact (encode_decode true). Qed.

Theorem C18_tu64 : forall bs : list N,
  (len bs <= 8 -> get_tu64 bs = Ok (be_val bs)) /\ (8 < len bs -> get_tu64 bs = Err).
Proof. intros bs. exact (conj (get_tu64_small bs) (get_tu64_large bs)). Qed.

(* the value of a big-endian field is what BOLT says: sum of b_i * 256^(n-1-i) *)
Theorem C18_be_val_snoc : forall bs b, be_val (bs ++ [b]) = be_val bs * 256 + b.
Proof. exact be_val_snoc. Qed.

(* monitor soundness: the boolean grammar used on implementation traces implies the inductive one *)
Theorem C18_monitor_grammar_sound : forall bs, valid_streamb bs = true -> valid_stream bs.
Proof. exact valid_streamb_sound. Qed.

Theorem C18_model_passes_monitor : forall bs, bytes_ok bs -> monitor_d bs (model_dobs true bs) = true.
Proof. exact model_passes_monitor. Qed.

(* non-vacuity: a concrete three-record stream with a 3-byte BigSize type is valid *)
Example C18_valid_example :
  valid_streamb [1; 2; 170; 187; 16; 0; 253; 1; 44; 1; 0] = true /\
  from_bytes true [1; 2; 170; 187; 16; 0; 253; 1; 44; 1; 0]
    = Ok [ {| typ := 1; value := [170; 187] |}; {| typ := 16; value := [] |}; {| typ := 300; value := [0] |} ].
Proof. vm_compute. auto. Qed.

(* the pinned tree (before the D2 repair) violates totality: the recorded witness *)
Theorem C18_pinned_refuted :
  from_bytes false [253; 0] = Panic /\ try_from false [253] = Panic.
Proof. vm_compute. auto. Qed.
