(* C17 — wire protocol: any chunking decodes each request once; one response per id.

   "However the node's byte stream is split across reads, each JSON-RPC message is decoded exactly
    once and in order; every request for a hook or method the plugin registered receives exactly one
    reply carrying that request's id, even when handlers finish out of order. Every message the
    plugin writes (replies and log notifications, possibly concurrently) is a complete JSON document
    followed by a blank line, never interleaved with another."

   Proved here: the framing layer (MultiLineCodec under FramedRead) for ALL byte streams and ALL
   partitions into reads, and the encoder/decoder round trip for any sequence of whole-message appends.
   PARTIAL: that serde_json never emits a raw newline, that FramedWrite::send under the output mutex
   writes a whole frame, and the scheduling of handler tasks are library/runtime behaviour: exercised
   by the `driver` engine (real Builder/PluginDriver on small duplex pipes) and by the e2e engine, not proved. *)
From Tramp Require Import Model.Base Model.Codec Proofs.CodecProofs.

(* any partition of the stream into read chunks yields the frames of the whole stream: each once, in order,
   and the same undecoded remainder *)
Theorem C17_chunking : forall chunks : list (list N), feed [] chunks = frames (concat chunks).
Proof. exact feed_chunking. Qed.

(* in particular two partitions of the same stream decode identically (splits inside "\n\n" or inside a UTF-8 sequence included) *)
Theorem C17_partition_independent : forall c1 c2 : list (list N), concat c1 = concat c2 -> feed [] c1 = feed [] c2.
Proof. intros c1 c2 H. rewrite !feed_chunking, H. reflexivity. Qed.

(* whole-message appends (the writer holds the lock for message + separator) decode back to exactly those messages *)
Theorem C17_writer : forall ms : list (list N), Forall no_nl ms -> frames (concat (map encode ms)) = (ms, []).
Proof. exact frames_of_encoded. Qed.

(* a completion writes exactly one reply, with that request's id, and only for a pending request *)
Theorem C17_ids : forall pending id, snd (dstep pending (DComplete id)) = if existsb (N.eqb id) pending then [id] else [].
Proof. exact dstep_reply. Qed.

Example C17_split_inside_separator :
  feed [] [[97; 98; 10]; [10; 99]; [10]; [10; 10; 10; 100]] = ([[97; 98]; [99]; []], [100]).
Proof. vm_compute. reflexivity. Qed.
