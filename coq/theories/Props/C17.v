(* C17 — wire protocol: any chunking decodes each request once; one response per id.

   "However the node's byte stream is split across reads, each JSON-RPC message is decoded exactly
    once and in order; every request for a hook or method the plugin registered receives exactly one
    reply carrying that request's id, even when handlers finish out of order. Every message the
    plugin writes (replies and log notifications, possibly concurrently) is a complete JSON document
    followed by a blank line, never interleaved with another."

   Proved here: the framing layer (MultiLineCodec under FramedRead) for ALL byte streams and ALL
   partitions into reads, the encoder/decoder round trip for any sequence of whole-message appends, and — over
   Model/Driver.v, the select! loop of PluginDriver::run with its handler tasks and the log writer task sharing the
   output mutex — for EVERY schedule of {request arrives, dispatched, handler finishes, reply taken from the channel,
   log line emitted / taken, lock acquired by driver or logger, n bytes accepted by the pipe, lock released}: the node's
   decoder sees exactly the completed messages, whole, once, in order (never interleaved); at most one reply per request
   id at every moment, exactly one whenever nothing is in flight; and from every reachable state the in-flight work can
   be finished (no reply is ever lost or stuck).
   PARTIAL: that serde_json never emits a raw newline, that FramedWrite::send under the output mutex
   writes a whole frame, and that tokio schedules the tasks as Model/Driver.v's events (in particular that select! does
   not cancel a branch HANDLER) are library/runtime behaviour: exercised by the `driver` engine (real
   Builder/PluginDriver on small duplex pipes, with the real log writer and a node that stops reading) and by the e2e
   engine, not proved. Model/Driver.v is tied to the code through the frames the node reads back, not event by event. *)
From Tramp Require Import Model.Base Model.Codec Model.Driver Proofs.CodecProofs Proofs.DriverProofs Check.CodecCheck Proofs.CodecCheckProofs.
From Coq Require Import Permutation.

(* any partition of the stream into read chunks yields the frames of the whole stream: each once, in order,
   and the same undecoded remainder *)
Theorem C17_chunking : forall chunks : list (list N), feed [] chunks = frames (concat chunks).
Proof. exact feed_chunking. Qed.

(* in particular two partitions of the same stream decode identically (splits inside "\n\n" or inside a UTF-8 sequence included) *)
Theorem C17_partition_independent : forall c1 c2 : list (list N), concat c1 = concat c2 -> feed [] c1 = feed [] c2.
Proof. intros c1 c2 H. rewrite !feed_chunking, H. reflexivity. Qed.

(* whole-message appends (the writer holds the lock for message + separator) decode back to exactly those messages *)
Theorem C17_writer : forall ms : list (list N), Forall no_nl ms -> frames (concat (map encode ms)) = (ms, []).
Proof. exact frames_of_encoded. Qed.

(* a completion writes exactly one reply, with that request's id, and only for a pending request *)
Theorem C17_ids : forall pending id, snd (dstep pending (DComplete id)) = if existsb (N.eqb id) pending then [id] else [].
Proof. exact dstep_reply. Qed.

(* ---- the driver loop, the handler tasks and the log writer, under every schedule ---- *)

(* never interleaved: what the node has received decodes to exactly the messages written completely so far (replies and
   log notifications), each whole, once, in the order their writers got the lock; the rest is a proper prefix of the one
   message being written *)
Theorem C17_never_interleaved : forall (body : msg -> list N) (evs : list dev), (forall m, no_nl (body m)) ->
  let s := drun body evs dinit in
  exists p, frames (d_out s) = (map body (d_done s), p) /\
            match d_lock s with Some (_, m, x :: rest) => p ++ x :: rest = enc body m | _ => p = [] end.
Proof. exact driver_frames. Qed.

(* end to end on the plugin's output: however the node splits what it has received into reads, its decoder yields exactly the
   completed messages (framing theorem composed with the writer theorem) *)
Theorem C17_node_reads_whole_messages : forall (body : msg -> list N) (evs : list dev) (chunks : list (list N)),
  (forall m, no_nl (body m)) ->
  let s := drun body evs dinit in
  concat chunks = d_out s ->
  fst (feed [] chunks) = map body (d_done s).
Proof.
  intros body evs chunks Hb s Hc. rewrite feed_chunking, Hc.
  destruct (driver_frames body evs Hb) as [p [Hf _]]. fold s in Hf. rewrite Hf. reflexivity.
Qed.

(* at every moment of every schedule: no request id is answered twice, and only requested ids are answered *)
Theorem C17_at_most_one_reply : forall (body : msg -> list N) (evs : list dev),
  let s := drun body evs dinit in
  NoDup (d_req s) -> NoDup (replies (d_done s)) /\ incl (replies (d_done s)) (d_req s).
Proof. exact driver_at_most_one_reply. Qed.

(* whenever nothing is in flight, every request sent has exactly one reply on the wire and every log line is there once *)
Theorem C17_exactly_one_reply_when_quiet : forall (body : msg -> list N) (evs : list dev),
  let s := drun body evs dinit in
  quiescent s = true -> Permutation (d_req s) (replies (d_done s)) /\ Permutation (d_emit s) (logs (d_done s)).
Proof. exact driver_quiescent_all_answered. Qed.

(* and that state can always be reached: after ANY schedule, letting the handlers finish and the writers run (nothing
   new arriving) answers every request sent — no reply is lost, no writer is stuck, whatever the completion order *)
Theorem C17_every_request_is_answered : forall (body : msg -> list N) (evs : list dev),
  exists more, forallb (fun e => negb (is_input e)) more = true /\
    let s := drun body (evs ++ more) dinit in
    quiescent s = true /\ Permutation (d_req s) (replies (d_done s)) /\ Permutation (d_emit s) (logs (d_done s)) /\
    d_req s = d_req (drun body evs dinit).
Proof. exact driver_can_always_finish. Qed.

(* ... on EVERY schedule, not only a cooperative one. Without new requests or log lines, a run in which every step does
   something (changes the state) has at most [pot s] steps — the driver loop, the handlers' replies and the two writers cannot
   go on for ever — and the only states in which nothing more can be done are the quiescent ones, where (C17_exactly_one_reply_
   when_quiet) every request has its reply on the wire. So every maximal run ends with every request answered exactly once. *)
Theorem C17_runs_without_input_are_bounded : forall (body : msg -> list N) (evs : list dev) (s : dst),
  forallb (fun e => negb (is_input e)) evs = true ->
  (forall k e, nth_error evs k = Some e -> effective body (drun body (firstn k evs) s) e) ->
  (length evs <= pot body s)%nat.
Proof. exact driver_effective_runs_are_bounded. Qed.

Theorem C17_nothing_left_to_do_means_all_answered : forall (body : msg -> list N) (s : dst),
  (forall e, is_input e = false -> ~ effective body s e) -> quiescent s = true.
Proof. exact driver_stuck_only_when_quiescent. Qed.

(* what the correspondence check of the driver engine compares the real replies with ([run_driver], the machine under the
   schedule the harness forces: all requests dispatched, handlers released one by one, each reply written before the next
   release) is exactly the completion order, followed by the handlers the scenario leaves uncontrolled *)
Theorem C17_forced_schedule_is_completion_order : forall n order,
  NoDup order -> (forall id, In id order -> id < N.of_nat n) ->
  run_driver n order = order ++ filter (fun id => negb (existsb (N.eqb id) order)) (map N.of_nat (seq 0 n)).
Proof. exact run_driver_is_completion_order. Qed.

(* non-vacuity, and why the shape of the select! matters: with the write inside the branch FUTURE (cancellable) the same
   schedule loses the reply to request 1 *)
Example C17_cancellable_select_loses_a_reply :
  let b := fun _ : msg => [65] in
  let s := fold_left (dstep_cancellable b) cancel_witness dinit in
  quiescent s = true /\ d_req s = [1; 2] /\ replies (d_done s) = [2].
Proof. exact select_cancel_loses_reply. Qed.

Example C17_split_inside_separator :
  feed [] [[97; 98; 10]; [10; 99]; [10]; [10; 10; 10; 100]] = ([[97; 98]; [99]; []], [100]).
Proof. vm_compute. reflexivity. Qed.
