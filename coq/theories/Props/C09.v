(* C09 — no crash point or failed write leaves a payment hash permanently unpayable.

   "After a crash at any point, or any single failed or lost datastore write, a later fully funded set of HTLCs for the
    same invoice is still either paid and settled, or settled from the recorded preimage. No payment hash becomes
    permanently failing because of the state an interrupted run left behind."

   Two halves.
   (1) WHICH images an interrupted run can leave: [C09_crash_image_is_a_start_image] — after ANY history (crash at any
       point, any number of rejected / applied-but-error writes, any interleaving) the durable node state satisfies
       [node_ok] again, so every theorem about histories from a start image (C02, C05, C06, C08) holds for the next run.
   (2) FROM EVERY such image (quantified over ALL [node_ok] nodes, not only the reachable ones — in particular the D4
       image "Pending without attempt record"), with no part still pending, an explicit cooperative schedule (no fault,
       the recipient accepts) brings a fully funded set to a settle: from the record (Succeeded), from the completed
       interrupted attempt, or by a new payment after mark_failed. The one exception is what C11 demands: an interrupted
       attempt OLDER than the MPP timeout makes the replayed set fail once — after which the record is Free
       ([C09_aged_fails_once_then_free]) and the NEXT funded set is paid ([C09_aged_next_set_is_paid]).
   These are existence-of-a-run (liveness under a cooperative environment) theorems, proved by symbolic execution of
   the model over an arbitrary node (arbitrary attempt records, arbitrary list of failed/complete parts).
   (3) ON EVERY SCHEDULE: [C09_cooperative_runs_never_fail] — no step of any cooperative history from any start image fails an
       HTLC (see the comment there); with C06's termination theorems such a run ends with every HTLC answered, never by a failure.
   PARTIAL: (2) exhibits one schedule per image class; in the per-case theorems "no part pending" is a hypothesis, which
   [C09_never_wedged_whatever_the_pending_parts_do] discharges by letting the pending parts resolve (in any way) before the
   probe arrives; (3) covers every schedule but assumes the environment cooperates and the interrupted attempt is younger
   than the MPP timeout (the aged case is (2)'s exception); attempt ids are assumed fresh (nanosecond timestamps in the code). *)
From Tramp Require Import Model.Base Model.Fee Model.Classify Model.Node Model.Provider Model.ProviderSys Model.Sys.
From Tramp Require Import Proofs.SysBasics Proofs.SysShape Proofs.SysTheorems Proofs.SysReach Proofs.SysCalls Proofs.SysNode Proofs.SysSafety Proofs.SysRecover Proofs.SysLive Proofs.SysTerm Proofs.SysCoop Proofs.SysAccount.

Theorem C09_crash_image_is_a_start_image : forall c n t0 h0 a0 evs,
  node_ok n -> hist_wf false c (sys_start n t0 h0 a0) evs ->
  node_ok (nd (fst (step c (after c n t0 h0 a0 evs) EvCrash))).
Proof. intros c n t0 h0 a0 evs Hn Hwf. exact (crash_image_ok false c _ (after_wreach false c n t0 h0 a0 evs Hn Hwf)). Qed.

Theorem C09_never_wedged : forall c n t0 h0 a0 h (p : list N),
  funded c h -> mpp_ms c <> 0 -> node_ok n -> (forall i, nth_error (parts n) i <> Some PPend) ->
  mem_att a0 (atts n) = false -> (forall a t g, ds n = Some (DPending a t, g) -> a0 <> a) ->
  exists evs,
    (exists p', In [OResp (hid h) (Resolve p')] (map resps (snd (run c (sys_start n t0 h0 a0) evs)))) \/
    (In [OResp (hid h) r_tramp_fail] (map resps (snd (run c (sys_start n t0 h0 a0) evs))) /\
     free_view (ds (nd (fst (run c (sys_start n t0 h0 a0) evs)))) /\ parts (nd (fst (run c (sys_start n t0 h0 a0) evs))) = parts n).
Proof. exact never_wedged. Qed.

(* the same without the "no part pending" hypothesis: the parts the interrupted attempt left pending resolve in ANY way
   ([res i] is the fate of part i: failed, or complete with any preimage) before the next funded set arrives — the
   schedule contains those resolutions explicitly — and the set is then settled (or, aged and nothing completed, failed
   once with the record left Free) *)
Theorem C09_never_wedged_whatever_the_pending_parts_do : forall c n t0 h0 a0 h (p : list N) (res : nat -> pstat),
  funded c h -> mpp_ms c <> 0 -> node_ok n -> (forall i, res i <> PPend) ->
  mem_att a0 (atts n) = false -> (forall a t g, ds n = Some (DPending a t, g) -> a0 <> a) ->
  exists evs,
    (exists p', In [OResp (hid h) (Resolve p')] (map resps (snd (run c (sys_start n t0 h0 a0) evs)))) \/
    (In [OResp (hid h) r_tramp_fail] (map resps (snd (run c (sys_start n t0 h0 a0) evs))) /\
     free_view (ds (nd (fst (run c (sys_start n t0 h0 a0) evs)))) /\
     parts (nd (fst (run c (sys_start n t0 h0 a0) evs))) = resolve_with res 0 (parts n)).
Proof. exact never_wedged_pending. Qed.

(* ... and on EVERY schedule (Proofs/SysCoop.v). Take ANY history from ANY start image that is cooperative: every HTLC belongs to one
   consistent acceptable set (same invoice [B] and amount [Dl], enough relative expiry, a declared total covering amount and
   fee), no RPC fault is injected, the pay command ends only `complete`, and the whole history ends by a time [T] that is less
   than one MPP timeout after its start and after the date of an interrupted attempt in the image (time passes: [EvTick] events
   are part of the history; a set that takes longer than the MPP timeout to complete is RIGHTLY failed, C11) — crashes at any point,
   any interleaving of the node's answers, deliveries, polls, part resolutions (failing or completing) and HTLC arrivals, any
   number of lifecycles and retries included. If the attempt ids handed out from [a0] on are unused, then NO step of the history fails any HTLC: the recovering lifecycle's
   generation-guarded Free write is never refused (nobody else writes the record unless a part completed), the new attempt's
   must-create write is never refused, the remaining MPP time is never zero. With C06 (a run that brings progress is finite and
   can end only when no HTLC is held; answers go to all held HTLCs at once) every such run that has nothing left to do has
   answered every HTLC it was given, and never with a failure: no start image makes the hash permanently failing, whatever
   the schedule. What stays a hypothesis is the environment's cooperation itself. *)
Theorem C09_cooperative_runs_never_fail : forall c B Dl T n t0 h0 a0 evs,
  mpp_ms c <> 0 -> node_ok n ->
  (forall a, mem_att a (atts n) = true -> a < a0) ->
  (forall a t g, ds n = Some (DPending a t, g) -> a < a0 /\ T - t < mpp_ms c) ->
  t0 <= T -> T - t0 < mpp_ms c ->
  hist_wf true c (sys_start n t0 h0 a0) evs -> hist_coop c B Dl T (sys_start n t0 h0 a0) evs ->
  forall o h m, In o (snd (run c (sys_start n t0 h0 a0) evs)) -> ~ In (OResp h (Fail m)) o.
Proof. intros c B Dl T n t0 h0 a0 evs Hm. exact (coop_runs_never_fail c B Dl T Hm n t0 h0 a0 evs). Qed.

(* ... and the composition: a cooperative history in which the HTLC [h] arrives (after [pre]) and no crash follows it, and which
   has NOTHING LEFT TO DO at its end (no contract-respecting progress event changes the state any more: C06's notion of rest), has
   written a response for [h], and that response settles it. No schedule, fairness or bound is assumed: the history IS the
   schedule. (An HTLC followed by a crash is replayed by the node: a new arrival, to which the same theorem applies.) *)
Theorem C09_cooperative_run_at_rest_has_settled_everything : forall c B Dl T n t0 h0 a0 pre h post,
  mpp_ms c <> 0 -> node_ok n ->
  (forall a, mem_att a (atts n) = true -> a < a0) ->
  (forall a t g, ds n = Some (DPending a t, g) -> a < a0 /\ T - t < mpp_ms c) ->
  t0 <= T -> T - t0 < mpp_ms c ->
  let evs := pre ++ EvHtlc h :: post in
  hist_wf true c (sys_start n t0 h0 a0) evs -> hist_coop c B Dl T (sys_start n t0 h0 a0) evs -> ~ In EvCrash post ->
  let s := after c n t0 h0 a0 evs in
  (forall ev, progress_ev s ev = true -> ev_wf true s ev -> ~ seffective c s ev) ->
  exists o pr, In o (snd (run c (sys_start n t0 h0 a0) evs)) /\ In (OResp (hid h) (Resolve pr)) o.
Proof.
  intros c B Dl T n t0 h0 a0 pre h post Hm Hn Ha Hd Ht1 Ht2 evs Hwf Hco Hnc s Hrest.
  assert (He : entry_ (pl s) = None) by exact (at_rest_means_all_answered c s (after_wreach true c n t0 h0 a0 evs Hn Hwf) Hrest).
  pose proof (coop_runs_only_settle c B Dl T Hm n t0 h0 a0 evs Hn Ha Hd Ht1 Ht2 Hwf Hco) as Hset.
  unfold s, after in He. unfold evs in He, Hset |- *. rewrite run_app in He, Hset |- *.
  destruct (run c (sys_start n t0 h0 a0) pre) as [s1 o1].
  pose proof (run_account c (EvHtlc h :: post) s1 h (or_intror (or_introl eq_refl))) as Hacc.
  destruct (run c s1 (EvHtlc h :: post)) as [s2 o2]. cbn [fst snd] in *.
  destruct Hacc as [Hin|[(o & r & Ho & Hr)|[Hc|Hc]]].
  - rewrite He in Hin. destruct Hin.
  - assert (Ho' : In o (o1 ++ o2)) by (apply in_or_app; right; exact Ho).
    destruct (Hset o (hid h) r Ho' Hr) as (pr & ->). exists o, pr. split; assumption.
  - discriminate.
  - contradiction.
Qed.

(* one cooperative step: the invariant K is kept and nobody is failed, from every state reachable under the contract *)
Theorem C09_cooperative_step : forall c B Dl T s ev,
  mpp_ms c <> 0 -> wreach true c s -> K c B Dl T s -> ev_coop c B Dl T s ev ->
  K c B Dl T (fst (step c s ev)) /\ forall h m, ~ In (OResp h (Fail m)) (snd (step c s ev)).
Proof.
  intros c B Dl T s ev Hm Hw HK Hev. split; [exact (K_step c B Dl T Hm s ev Hw HK Hev)|].
  intros h m. exact (coop_step_never_fails c B Dl T Hm s ev h m Hw HK Hev).
Qed.

(* non-vacuity: the D4 image (Pending, no attempt record) with the schedule of C09_D4_image_recovers is such a history *)
Example C09_cooperative_nonvacuous :
  let c := {| mpp_ms := 60000; pol := {| fee_base := 0; fee_ppm := 0; pol_delta := 40 |}; cltv_delta := 6; retry_for := 60 |} in
  let h := {| hid := 7; blob := [1]; deliver := 10; inv_amount := Some 10; amt := 10; total := 10; expiry := 1000; rel := 100%Z |} in
  let n := {| ds := Some (DPending 3 1000, 0); atts := []; parts := []; payrun := 0 |} in
  let evs := recover_schedule h ++ pay_schedule_from 5 0 [9] in
  hist_wf true c (sys_start n 2000 0 4) evs /\ hist_coop c [1] 10 2000 (sys_start n 2000 0 4) evs /\
  (forall a t g, ds n = Some (DPending a t, g) -> a < 4 /\ 2000 - t < mpp_ms c).
Proof.
  split; [|split].
  - vm_compute. repeat split; auto.
  - vm_compute. repeat split; auto; try (eexists; reflexivity).
  - intros a t g H. inversion H; subst. vm_compute. split; reflexivity.
Qed.

(* ... and the hypotheses of the composition are satisfiable: the same history, continued by the lifecycle's bookkeeping writes, is at
   rest (no progress event changes the state), cooperative, and contains no crash *)
Example C09_cooperative_at_rest_nonvacuous :
  let c := {| mpp_ms := 60000; pol := {| fee_base := 0; fee_ppm := 0; pol_delta := 40 |}; cltv_delta := 6; retry_for := 60 |} in
  let h := {| hid := 7; blob := [1]; deliver := 10; inv_amount := Some 10; amt := 10; total := 10; expiry := 1000; rel := 100%Z |} in
  let n := {| ds := Some (DPending 3 1000, 0); atts := []; parts := []; payrun := 0 |} in
  let post := EvTick 500 :: tl (recover_schedule h) ++ EvTick 400 :: pay_schedule_from 5 0 [9] ++ [EvProcess 8 NoFault; EvDeliver 8 true; EvProcess 9 NoFault; EvDeliver 9 true] in
  let evs := [] ++ EvHtlc h :: post in
  hist_wf true c (sys_start n 2000 0 4) evs /\ hist_coop c [1] 10 3000 (sys_start n 2000 0 4) evs /\ ~ In EvCrash post /\
  (forall ev, progress_ev (after c n 2000 0 4 evs) ev = true -> ev_wf true (after c n 2000 0 4 evs) ev -> ~ seffective c (after c n 2000 0 4 evs) ev) /\
  ds (nd (after c n 2000 0 4 evs)) = Some (DSucc [9], 3).
Proof.
  cbv zeta. split; [|split; [|split; [|split]]].
  - vm_compute. repeat split; auto.
  - vm_compute. repeat split; auto; try (eexists; reflexivity); try discriminate.
  - vm_compute. intros H. repeat (destruct H as [H|H]; [discriminate|]). exact H.
  - match goal with |- forall ev, progress_ev ?s0 ev = true -> _ => remember s0 as sF eqn:HsF end.
    vm_compute in HsF. subst sF. intros ev Hp _ Hne. apply Hne. clear Hne.
    destruct ev as [h1|sel|cid f|cid sel|pid st|cid|cid o|dt|h1|]; try discriminate Hp.
    + reflexivity.
    + do 11 (destruct cid as [|cid]; [reflexivity|]). reflexivity.
    + do 11 (destruct cid as [|cid]; [reflexivity|]). reflexivity.
    + destruct pid as [|[|pid]]; destruct st; reflexivity.
    + do 11 (destruct cid as [|cid]; [reflexivity|]). reflexivity.
  - vm_compute. reflexivity.
Qed.

(* the cases, each with its schedule *)
Theorem C09_free_image_pays : forall c n t0 h0 a0 h p,
  funded c h -> mpp_ms c <> 0 -> free_view (ds n) -> mem_att a0 (atts n) = false ->
  In [OResp (hid h) (Resolve p)] (map resps (snd (run c (sys_start n t0 h0 a0) (pay_schedule h (length (parts n)) p)))).
Proof. exact recover_free. Qed.

Theorem C09_succeeded_image_settles_from_record : forall c n t0 h0 a0 h pr g,
  funded c h -> ds n = Some (DSucc pr, g) ->
  In [OResp (hid h) (Resolve pr)] (map resps (snd (run c (sys_start n t0 h0 a0) [EvHtlc h; EvProcess 0 NoFault; EvDeliver 0 true]))).
Proof. exact recover_succ. Qed.

Theorem C09_interrupted_completed_settles : forall c n t0 h0 a0 h a t g pr rest,
  funded c h -> ds n = Some (DPending a t, g) -> pend_ids 0 (parts n) = [] -> done_pres (parts n) = pr :: rest ->
  In [OResp (hid h) (Resolve pr)]
     (map resps (snd (run c (sys_start n t0 h0 a0) [EvHtlc h; EvProcess 0 NoFault; EvDeliver 0 true; EvProcess 1 NoFault; EvDeliver 1 true; EvProcess 2 NoFault; EvDeliver 2 true]))).
Proof. exact recover_done. Qed.

(* the D4 image is covered: nothing is assumed about the attempt records [atts n] except that the NEW id is unused *)
Theorem C09_interrupted_failed_is_marked_failed_and_paid : forall c n t0 h0 a0 h a t g p,
  funded c h -> ds n = Some (DPending a t, g) -> pend_ids 0 (parts n) = [] -> done_pres (parts n) = [] ->
  (mpp_ms c - (t0 - t) =? 0) = false -> a0 <> a -> mem_att a0 (atts n) = false ->
  In [OResp (hid h) (Resolve p)]
     (map resps (snd (run c (sys_start n t0 h0 a0) (recover_schedule h ++ pay_schedule_from 5 (length (parts n)) p)))).
Proof. exact recover_pending. Qed.

Theorem C09_aged_fails_once_then_free : forall c n t0 h0 a0 h a t g,
  funded c h -> ds n = Some (DPending a t, g) -> pend_ids 0 (parts n) = [] -> done_pres (parts n) = [] ->
  (mpp_ms c - (t0 - t) =? 0) = true ->
  In [OResp (hid h) r_tramp_fail] (map resps (snd (run c (sys_start n t0 h0 a0) (recover_schedule h)))) /\
  ds (nd (fst (run c (sys_start n t0 h0 a0) (recover_schedule h)))) = Some (DFree, g + 1) /\
  parts (nd (fst (run c (sys_start n t0 h0 a0) (recover_schedule h)))) = parts n.
Proof. exact recover_pending_aged. Qed.

Theorem C09_aged_next_set_is_paid : forall c n t0 h0 a0 h h2 a t g p,
  funded c h -> funded c h2 -> mpp_ms c <> 0 -> ds n = Some (DPending a t, g) -> pend_ids 0 (parts n) = [] -> done_pres (parts n) = [] ->
  (mpp_ms c - (t0 - t) =? 0) = true -> a0 <> a -> mem_att a0 (atts n) = false ->
  In [OResp (hid h2) (Resolve p)]
     (map resps (snd (run c (sys_start n t0 h0 a0) (recover_schedule h ++ second_schedule h2 (length (parts n)) p)))).
Proof. exact recover_aged_second_set. Qed.

(* the write that wedged the pinned tree (D4): mark_failed's attempt write now is create-or-replace, which the node
   accepts whether or not the attempt record exists; the must-replace of the pinned tree is refused when it does not *)
Theorem C09_markfailed_write_never_refused : forall n a am b,
  snd (node_exec n (QWriteAtt CreateOrReplace a true false am b) NoFault) = Some YUnit.
Proof. intros. unfold node_exec. destruct (mem_att a (atts n)); reflexivity. Qed.
Theorem C09_D4_pinned_write_refused : forall n a am b,
  mem_att a (atts n) = false -> node_exec n (QWriteAtt MustReplace a true false am b) NoFault = (n, Some YErr).
Proof. intros n a am b H. unfold node_exec. rewrite H. reflexivity. Qed.

(* non-vacuity: the D4 image itself (Pending, no attempt record, no parts), probed with one funded HTLC *)
Example C09_D4_image_recovers :
  let c := {| mpp_ms := 60000; pol := {| fee_base := 0; fee_ppm := 0; pol_delta := 40 |}; cltv_delta := 6; retry_for := 60 |} in
  let h := {| hid := 7; blob := [1]; deliver := 10; inv_amount := Some 10; amt := 10; total := 10; expiry := 1000; rel := 100%Z |} in
  let n := {| ds := Some (DPending 3 1000, 0); atts := []; parts := []; payrun := 0 |} in
  funded c h /\ node_ok n /\
  map resps (snd (run c (sys_start n 2000 0 4) (recover_schedule h ++ pay_schedule_from 5 0 [9]))) =
    [[]; []; []; []; []; []; []; []; []; []; []; []; []; []; []; []; []; []; []; [OResp 7 (Resolve [9])]].
Proof.
  split; [vm_compute; auto|]. split; [|vm_compute; reflexivity].
  split; [reflexivity|]. split; [intros (i & st & Hi & _); destruct i; discriminate|intros g; discriminate].
Qed.
