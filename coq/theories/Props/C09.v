(* C09 - placeholder while the invariant is built *)
From Tramp Require Import Model.Base Model.Sys.
Theorem C09_placeholder : True. Proof. exact I. Qed.
