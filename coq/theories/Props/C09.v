(* C09 — no crash point or failed write leaves a payment hash permanently unpayable.

   "After a crash at any point, or any single failed or lost datastore write, a later fully funded set of HTLCs for the
    same invoice is still either paid and settled, or settled from the recorded preimage. No payment hash becomes
    permanently failing because of the state an interrupted run left behind."

   Two halves.
   (1) WHICH images an interrupted run can leave: [C09_crash_image_is_a_start_image] — after ANY history (crash at any
       point, any number of rejected / applied-but-error writes, any interleaving) the durable node state satisfies
       [node_ok] again, so every theorem about histories from a start image (C02, C05, C06, C08) holds for the next run.
   (2) FROM EVERY such image (quantified over ALL [node_ok] nodes, not only the reachable ones — in particular the D4
       image "Pending without attempt record"), with no part still pending, an explicit cooperative schedule (no fault,
       the recipient accepts) brings a fully funded set to a settle: from the record (Succeeded), from the completed
       interrupted attempt, or by a new payment after mark_failed. The one exception is what C11 demands: an interrupted
       attempt OLDER than the MPP timeout makes the replayed set fail once — after which the record is Free
       ([C09_aged_fails_once_then_free]) and the NEXT funded set is paid ([C09_aged_next_set_is_paid]).
   These are existence-of-a-run (liveness under a cooperative environment) theorems, proved by symbolic execution of
   the model over an arbitrary node (arbitrary attempt records, arbitrary list of failed/complete parts).
   PARTIAL: the schedule is one cooperative schedule, not every fair one; in the per-case theorems "no part pending" is a
   hypothesis, which [C09_never_wedged_whatever_the_pending_parts_do] discharges by letting the pending parts resolve
   (in any way) before the probe arrives; attempt ids are assumed fresh (they are nanosecond timestamps in the code). *)
From Tramp Require Import Model.Base Model.Fee Model.Classify Model.Node Model.Provider Model.ProviderSys Model.Sys.
From Tramp Require Import Proofs.SysBasics Proofs.SysShape Proofs.SysTheorems Proofs.SysReach Proofs.SysCalls Proofs.SysNode Proofs.SysSafety Proofs.SysRecover.

Theorem C09_crash_image_is_a_start_image : forall c n t0 h0 a0 evs,
  node_ok n -> hist_wf false c (sys_start n t0 h0 a0) evs ->
  node_ok (nd (fst (step c (after c n t0 h0 a0 evs) EvCrash))).
Proof. intros c n t0 h0 a0 evs Hn Hwf. exact (crash_image_ok false c _ (after_wreach false c n t0 h0 a0 evs Hn Hwf)). Qed.

Theorem C09_never_wedged : forall c n t0 h0 a0 h (p : list N),
  funded c h -> mpp_ms c <> 0 -> node_ok n -> (forall i, nth_error (parts n) i <> Some PPend) ->
  mem_att a0 (atts n) = false -> (forall a t g, ds n = Some (DPending a t, g) -> a0 <> a) ->
  exists evs,
    (exists p', In [OResp (hid h) (Resolve p')] (map resps (snd (run c (sys_start n t0 h0 a0) evs)))) \/
    (In [OResp (hid h) r_tramp_fail] (map resps (snd (run c (sys_start n t0 h0 a0) evs))) /\
     free_view (ds (nd (fst (run c (sys_start n t0 h0 a0) evs)))) /\ parts (nd (fst (run c (sys_start n t0 h0 a0) evs))) = parts n).
Proof. exact never_wedged. Qed.

(* the same without the "no part pending" hypothesis: the parts the interrupted attempt left pending resolve in ANY way
   ([res i] is the fate of part i: failed, or complete with any preimage) before the next funded set arrives — the
   schedule contains those resolutions explicitly — and the set is then settled (or, aged and nothing completed, failed
   once with the record left Free) *)
Theorem C09_never_wedged_whatever_the_pending_parts_do : forall c n t0 h0 a0 h (p : list N) (res : nat -> pstat),
  funded c h -> mpp_ms c <> 0 -> node_ok n -> (forall i, res i <> PPend) ->
  mem_att a0 (atts n) = false -> (forall a t g, ds n = Some (DPending a t, g) -> a0 <> a) ->
  exists evs,
    (exists p', In [OResp (hid h) (Resolve p')] (map resps (snd (run c (sys_start n t0 h0 a0) evs)))) \/
    (In [OResp (hid h) r_tramp_fail] (map resps (snd (run c (sys_start n t0 h0 a0) evs))) /\
     free_view (ds (nd (fst (run c (sys_start n t0 h0 a0) evs)))) /\
     parts (nd (fst (run c (sys_start n t0 h0 a0) evs))) = resolve_with res 0 (parts n)).
Proof. exact never_wedged_pending. Qed.

(* the cases, each with its schedule *)
Theorem C09_free_image_pays : forall c n t0 h0 a0 h p,
  funded c h -> mpp_ms c <> 0 -> free_view (ds n) -> mem_att a0 (atts n) = false ->
  In [OResp (hid h) (Resolve p)] (map resps (snd (run c (sys_start n t0 h0 a0) (pay_schedule h (length (parts n)) p)))).
Proof. exact recover_free. Qed.

Theorem C09_succeeded_image_settles_from_record : forall c n t0 h0 a0 h pr g,
  funded c h -> ds n = Some (DSucc pr, g) ->
  In [OResp (hid h) (Resolve pr)] (map resps (snd (run c (sys_start n t0 h0 a0) [EvHtlc h; EvProcess 0 NoFault; EvDeliver 0 true]))).
Proof. exact recover_succ. Qed.

Theorem C09_interrupted_completed_settles : forall c n t0 h0 a0 h a t g pr rest,
  funded c h -> ds n = Some (DPending a t, g) -> pend_ids 0 (parts n) = [] -> done_pres (parts n) = pr :: rest ->
  In [OResp (hid h) (Resolve pr)]
     (map resps (snd (run c (sys_start n t0 h0 a0) [EvHtlc h; EvProcess 0 NoFault; EvDeliver 0 true; EvProcess 1 NoFault; EvDeliver 1 true; EvProcess 2 NoFault; EvDeliver 2 true]))).
Proof. exact recover_done. Qed.

(* the D4 image is covered: nothing is assumed about the attempt records [atts n] except that the NEW id is unused *)
Theorem C09_interrupted_failed_is_marked_failed_and_paid : forall c n t0 h0 a0 h a t g p,
  funded c h -> ds n = Some (DPending a t, g) -> pend_ids 0 (parts n) = [] -> done_pres (parts n) = [] ->
  (mpp_ms c - (t0 - t) =? 0) = false -> a0 <> a -> mem_att a0 (atts n) = false ->
  In [OResp (hid h) (Resolve p)]
     (map resps (snd (run c (sys_start n t0 h0 a0) (recover_schedule h ++ pay_schedule_from 5 (length (parts n)) p)))).
Proof. exact recover_pending. Qed.

Theorem C09_aged_fails_once_then_free : forall c n t0 h0 a0 h a t g,
  funded c h -> ds n = Some (DPending a t, g) -> pend_ids 0 (parts n) = [] -> done_pres (parts n) = [] ->
  (mpp_ms c - (t0 - t) =? 0) = true ->
  In [OResp (hid h) r_tramp_fail] (map resps (snd (run c (sys_start n t0 h0 a0) (recover_schedule h)))) /\
  ds (nd (fst (run c (sys_start n t0 h0 a0) (recover_schedule h)))) = Some (DFree, g + 1) /\
  parts (nd (fst (run c (sys_start n t0 h0 a0) (recover_schedule h)))) = parts n.
Proof. exact recover_pending_aged. Qed.

Theorem C09_aged_next_set_is_paid : forall c n t0 h0 a0 h h2 a t g p,
  funded c h -> funded c h2 -> mpp_ms c <> 0 -> ds n = Some (DPending a t, g) -> pend_ids 0 (parts n) = [] -> done_pres (parts n) = [] ->
  (mpp_ms c - (t0 - t) =? 0) = true -> a0 <> a -> mem_att a0 (atts n) = false ->
  In [OResp (hid h2) (Resolve p)]
     (map resps (snd (run c (sys_start n t0 h0 a0) (recover_schedule h ++ second_schedule h2 (length (parts n)) p)))).
Proof. exact recover_aged_second_set. Qed.

(* the write that wedged the pinned tree (D4): mark_failed's attempt write now is create-or-replace, which the node
   accepts whether or not the attempt record exists; the must-replace of the pinned tree is refused when it does not *)
Theorem C09_markfailed_write_never_refused : forall n a am b,
  snd (node_exec n (QWriteAtt CreateOrReplace a true false am b) NoFault) = Some YUnit.
Proof. intros. unfold node_exec. destruct (mem_att a (atts n)); reflexivity. Qed.
Theorem C09_D4_pinned_write_refused : forall n a am b,
  mem_att a (atts n) = false -> node_exec n (QWriteAtt MustReplace a true false am b) NoFault = (n, Some YErr).
Proof. intros n a am b H. unfold node_exec. rewrite H. reflexivity. Qed.

(* non-vacuity: the D4 image itself (Pending, no attempt record, no parts), probed with one funded HTLC *)
Example C09_D4_image_recovers :
  let c := {| mpp_ms := 60000; pol := {| fee_base := 0; fee_ppm := 0; pol_delta := 40 |}; cltv_delta := 6; retry_for := 60 |} in
  let h := {| hid := 7; blob := [1]; deliver := 10; inv_amount := Some 10; amt := 10; total := 10; expiry := 1000; rel := 100%Z |} in
  let n := {| ds := Some (DPending 3 1000, 0); atts := []; parts := []; payrun := 0 |} in
  funded c h /\ node_ok n /\
  map resps (snd (run c (sys_start n 2000 0 4) (recover_schedule h ++ pay_schedule_from 5 0 [9]))) =
    [[]; []; []; []; []; []; []; []; []; []; []; []; []; []; []; []; []; []; []; [OResp 7 (Resolve [9])]].
Proof.
  split; [vm_compute; auto|]. split; [|vm_compute; reflexivity].
  split; [reflexivity|]. split; [intros (i & st & Hi & _); destruct i; discriminate|intros g; discriminate].
Qed.
