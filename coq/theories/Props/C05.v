(* C05 — at most one outgoing attempt live per hash; a paid invoice is never paid again.

   "For a given payment hash the plugin never issues a pay request while an earlier outgoing attempt for that hash
    still has pending parts or has completed, including after a restart that interrupted the earlier attempt. Once
    the invoice has been paid, later HTLCs for it are settled from the known preimage without paying again."

   Histories as in C08: any durable start image respecting write-ahead, any interleaving (a new HTLC set arriving while
   the previous lifecycle is still finishing its bookkeeping included: the model runs any number of lifecycles of the
   hash side by side), crashes anywhere, faults on every write and on pay, injected errors on listdatastore and on the restart
   path's wait_payment; only an injected error on a read of the wait_payment inside pay() is excluded (KF-B), level [false]. *)
From Tramp Require Import Model.Base Model.Fee Model.Classify Model.Node Model.Provider Model.ProviderSys Model.Sys.
From Tramp Require Import Proofs.SysBasics Proofs.SysShape Proofs.SysTheorems Proofs.SysReach Proofs.SysCalls Proofs.SysNode Proofs.SysSafety.

(* when a pay request is issued: every earlier part has failed (none pending, none complete) and no pay command runs *)
Theorem C05_pay_only_when_nothing_live : forall c n t0 h0 a0 evs ev cid b am mf md rt,
  node_ok n -> hist_wf false c (sys_start n t0 h0 a0) evs ->
  let s := after c n t0 h0 a0 evs in
  In (OCall cid (QPay b am mf md rt)) (snd (step c s ev)) ->
  all_failed (parts (nd s)) /\ payrun (nd s) = 0.
Proof.
  intros c n t0 h0 a0 evs ev cid b am mf md rt Hn Hwf s Hin.
  exact (proj1 (pay_only_when_quiet false c s ev cid b am mf md rt (after_wreach false c n t0 h0 a0 evs Hn Hwf) Hin)).
Qed.

(* at most one pay request is outstanding (unprocessed, running, or answered and not yet consumed) at any instant *)
Theorem C05_one_pay_at_a_time : forall c n t0 h0 a0 evs k1 k2 cl1 cl2,
  node_ok n -> hist_wf false c (sys_start n t0 h0 a0) evs ->
  let s := after c n t0 h0 a0 evs in
  nth_error (calls s) k1 = Some cl1 -> nth_error (calls s) k2 = Some cl2 ->
  is_pay (c_rpc cl1) = true -> is_pay (c_rpc cl2) = true -> live (c_st cl1) -> live (c_st cl2) -> k1 = k2.
Proof. intros c n t0 h0 a0 evs k1 k2 cl1 cl2 Hn Hwf. exact (one_pay_at_a_time false c _ k1 k2 cl1 cl2 (after_wreach false c n t0 h0 a0 evs Hn Hwf)). Qed.

(* once a part has completed (the invoice is paid) no pay request is ever issued again, whatever happens later *)
Theorem C05_paid_never_paid_again : forall c n t0 h0 a0 evs evs' ev p cid b am mf md rt,
  node_ok n -> hist_wf false c (sys_start n t0 h0 a0) (evs ++ evs') ->
  has_done p (parts (nd (after c n t0 h0 a0 evs))) ->
  ~ In (OCall cid (QPay b am mf md rt)) (snd (step c (after c n t0 h0 a0 (evs ++ evs')) ev)).
Proof.
  intros c n t0 h0 a0 evs evs' ev p cid b am mf md rt Hn Hwf Hd Hin.
  pose proof (pay_only_when_quiet false c _ ev cid b am mf md rt (after_wreach false c n t0 h0 a0 (evs ++ evs') Hn Hwf) Hin) as ((Haf & _) & _).
  apply (has_done_not_all_failed p _ ) in Haf; [exact Haf|].
  unfold after in *. 
  assert (R : forall l1 l2 s0, fst (run c s0 (l1 ++ l2)) = fst (run c (fst (run c s0 l1)) l2)).
  { induction l1 as [|e r IH]; intros l2 s0; cbn [app run]; [reflexivity|].
    destruct (step c s0 e) as [s1 o]. specialize (IH l2 s1). destruct (run c s1 (r ++ l2)) as [sa oa]. destruct (run c s1 r) as [sb ob]. cbn [fst] in *. exact IH. }
  rewrite R. apply has_done_run. exact Hd.
Qed.

(* a lifecycle that finds the Succeeded record settles every held HTLC with the recorded preimage and issues no rpc at all *)
Theorem C05_settled_from_record : forall c li base tnow k pr g,
  lc_shape c li base tnow (PFetch k) k (YState (Some (DSucc pr, g))) = Some (LResolve (Resolve pr) PEnd [] []).
Proof. intros. unfold lc_shape. rewrite Nat.eqb_refl. reflexivity. Qed.

(* non-vacuity: a pay request is issued on a fresh hash; and a restart on Pending with a completed part settles instead of paying *)
Example C05_nonvacuous :
  let c := {| mpp_ms := 60000; pol := {| fee_base := 0; fee_ppm := 0; pol_delta := 40 |}; cltv_delta := 6; retry_for := 60 |} in
  let h := {| hid := 7; blob := [1]; deliver := 10; inv_amount := Some 10; amt := 10; total := 10; expiry := 1000; rel := 100%Z |} in
  let evs := [EvHtlc h; EvProcess 0 NoFault; EvDeliver 0 true; EvProcess 1 NoFault; EvDeliver 1 true; EvProcess 2 NoFault] in
  snd (step c (after c node0 0 0 0 evs) (EvDeliver 2 true)) = [OCall 3 (QPay [1] None 0 40 60)] /\
  let n1 := {| ds := Some (DPending 0 0, 0); atts := []; parts := [PDone [9]]; payrun := 0 |} in
  let evs1 := [EvHtlc h; EvProcess 0 NoFault; EvDeliver 0 true; EvProcess 1 NoFault; EvDeliver 1 true; EvProcess 2 NoFault] in
  resps (snd (step c (after c n1 0 0 0 evs1) (EvDeliver 2 true))) = [OResp 7 (Resolve [9])].
Proof. vm_compute. split; reflexivity. Qed.
