(* C05 - placeholder while the invariant is built *)
From Tramp Require Import Model.Base Model.Sys.
Theorem C05_placeholder : True. Proof. exact I. Qed.
