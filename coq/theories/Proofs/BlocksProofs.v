(* BlocksProofs.v — C20 over Model/Blocks.v. *)
From Tramp Require Import Model.Base Model.Blocks.
From Coq Require Import ZifyBool ZifyN.

Lemma update_height_max cur new : update_height cur new = N.max cur new.
Proof. unfold update_height. destruct (cur <? new) eqn:E; lia. Qed.

Lemma bstep_monotone s ev : b_height s <= b_height (fst (bstep s ev)).
Proof.
  destruct ev as [[h|]|h|dt]; cbn [bstep]; destruct (b_phase s); cbn; rewrite ?update_height_max; try lia.
  destruct (_ <=? _); cbn; lia.
Qed.

Lemma brun_monotone evs : forall s, b_height s <= b_height (brun s evs).
Proof.
  induction evs as [|ev r IH]; intros s; cbn [brun]; [lia|].
  pose proof (bstep_monotone s ev). specialize (IH (fst (bstep s ev))). lia.
Qed.

Lemma fold_max_acc l a b : fold_left N.max l (N.max a b) = N.max a (fold_left N.max l b).
Proof. revert a b; induction l as [|x l IH]; intros a b; cbn; [reflexivity|]. rewrite <- IH. f_equal. lia. Qed.

Lemma brun_is_max evs : forall s, b_height (brun s evs) = fold_left N.max (told s evs) (b_height s).
Proof.
  induction evs as [|ev r IH]; intros s; cbn [brun told]; [reflexivity|].
  rewrite fold_left_app, IH. f_equal.
  destruct ev as [[h|]|h|dt]; cbn [bstep]; destruct (b_phase s); cbn; rewrite ?update_height_max; try reflexivity.
  destruct (_ <=? _); reflexivity.
Qed.

(* after a poll completes at time t, the next getinfo is issued by the first tick reaching t + 60 s, not before *)
Lemma poll_period s r dt :
  b_phase s = BPolling ->
  let s1 := fst (bstep s (BvReply r)) in
  b_phase s1 = BSleeping (b_now s + POLL_MS) /\
  (b_now s + dt < b_now s + POLL_MS -> bstep s1 (BvTick dt) = ({| b_height := b_height s1; b_now := b_now s + dt; b_phase := BSleeping (b_now s + POLL_MS) |}, [])) /\
  (b_now s + POLL_MS <= b_now s + dt -> snd (bstep s1 (BvTick dt)) = [BGetInfo] /\ b_phase (fst (bstep s1 (BvTick dt))) = BPolling).
Proof.
  intros Hp. cbn [bstep]. rewrite Hp. cbn. split; [reflexivity|]. split; intros H.
  - destruct (b_now s + POLL_MS <=? b_now s + dt) eqn:E; [lia|reflexivity].
  - destruct (b_now s + POLL_MS <=? b_now s + dt) eqn:E; [auto|lia].
Qed.

(* a successful poll reply carrying v makes the height at least v, for ever (whatever happens to notifications) *)
Lemma catch_up s v evs :
  b_phase s = BPolling \/ b_phase s = BStarting ->
  v <= b_height (brun (fst (bstep s (BvReply (Some v)))) evs).
Proof.
  intros Hp. pose proof (brun_monotone evs (fst (bstep s (BvReply (Some v))))) as H.
  assert (v <= b_height (fst (bstep s (BvReply (Some v))))).
  { cbn [bstep]. destruct Hp as [-> | ->]; cbn; rewrite update_height_max; lia. }
  lia.
Qed.

(* the poll loop never stops once started: every phase but BStopped leads to another getinfo *)
Lemma poll_never_stops s ev : b_phase s <> BStopped -> b_phase s <> BStarting -> b_phase (fst (bstep s ev)) <> BStopped.
Proof.
  intros H1 H2. destruct ev as [[h|]|h|dt]; cbn [bstep]; destruct (b_phase s) eqn:E; cbn; try congruence;
  try (destruct (deadline <=? b_now s + dt); cbn; rewrite ?E; congruence).
Qed.

(* ---------- "within one poll interval", over every history ---------- *)
Fixpoint bouts (s : bsys) (evs : list bevent) : list bout :=
  match evs with [] => [] | ev :: r => snd (bstep s ev) ++ bouts (fst (bstep s ev)) r end.
Fixpoint ticks (evs : list bevent) : N :=
  match evs with [] => 0 | BvTick dt :: r => dt + ticks r | _ :: r => ticks r end.

(* the sleep deadline lies ahead of the clock, by at most one poll interval *)
Definition sleep_ok (s : bsys) : Prop := match b_phase s with BSleeping d => b_now s < d <= b_now s + POLL_MS | _ => True end.

Lemma sleep_ok_step s ev : sleep_ok s -> sleep_ok (fst (bstep s ev)).
Proof.
  unfold sleep_ok, POLL_MS. intros H. destruct ev as [[h|]|h|dt]; cbn [bstep]; destruct (b_phase s) as [|d| |] eqn:E;
    cbn [fst b_phase b_now]; rewrite ?E; unfold POLL_MS in *; try exact I; try exact H; try lia.
  destruct (d <=? b_now s + dt) eqn:E2; cbn [fst b_phase b_now]; [exact I|lia].
Qed.

Lemma sleep_ok_run evs : forall s, sleep_ok s -> sleep_ok (brun s evs).
Proof. induction evs as [|ev r IH]; intros s H; cbn [brun]; [exact H|]. apply IH, sleep_ok_step, H. Qed.

Lemma sleep_ok_init : sleep_ok bsys0.
Proof. exact I. Qed.

(* while the loop sleeps, ticks that reach its deadline make it issue the next getinfo — whatever else happens in between *)
Lemma sleeping_polls evs : forall s d, b_phase s = BSleeping d -> b_now s < d -> d <= b_now s + ticks evs -> In BGetInfo (bouts s evs).
Proof.
  induction evs as [|ev r IH]; intros s d Hp Hlt Hd; cbn [bouts ticks] in *; [lia|].
  destruct ev as [[h|]|h|dt]; cbn [bstep]; rewrite Hp; cbn [fst snd app].
  - apply (IH s d Hp Hlt Hd).
  - apply (IH s d Hp Hlt Hd).
  - apply (IH _ d); cbn [b_phase b_now]; auto.
  - destruct (d <=? b_now s + dt) eqn:E; cbn [fst snd app]; [left; reflexivity|].
    apply (IH _ d); cbn [b_phase b_now]; [reflexivity|lia|lia].
Qed.

(* from every state of every history: if the loop sleeps, any continuation in which one poll interval of time passes contains a getinfo *)
Theorem poll_within_interval pre evs d :
  b_phase (brun bsys0 pre) = BSleeping d -> POLL_MS <= ticks evs -> In BGetInfo (bouts (brun bsys0 pre) evs).
Proof.
  intros Hp Ht. pose proof (sleep_ok_run pre bsys0 sleep_ok_init) as Hs. unfold sleep_ok in Hs. rewrite Hp in Hs.
  apply (sleeping_polls evs _ d Hp); lia.
Qed.
