(* SysCoop.v — cooperative histories never fail an HTLC, on EVERY schedule (C09, C06).

   A history is cooperative when the environment does nothing wrong and time stands still: every HTLC belongs to one
   consistent, acceptable set (same invoice and amount, enough relative expiry, a declared total that covers amount
   and fee), no RPC fault is injected, the pay command only ever ends `complete`, and no clock tick occurs. Crashes,
   any interleaving of the events, any number of lifecycles, parts of the interrupted attempt failing or completing,
   and any start image are included.

   The invariant K records what the plugin then knows about the durable record:
     - the lifecycle recovering an interrupted attempt (a, t, g) still finds the record at generation g when all parts
       have failed — nobody else writes it (a detached lifecycle writes only after a part COMPLETED), so its
       generation-guarded Free write is never refused (the D4 wedge);
     - the id of a new attempt is unused, so its must-create attempt write is never refused;
     - an interrupted attempt is younger than the MPP timeout, so the remaining wait is not zero.
   Hence no lifecycle step answers an HTLC with a failure. Together with SysTerm (a run that brings progress is finite
   and can end only when no HTLC is held) every cooperative run settles every HTLC it was given. *)
From Tramp Require Import Model.Base Model.Fee Model.Classify Model.Node Model.Provider Model.ProviderSys Model.Sys.
From Tramp Require Import Proofs.FeeProofs Proofs.ProviderProofs Proofs.SysBasics Proofs.EntryProofs Proofs.SysEntry Proofs.SysShape Proofs.SysTheorems
  Proofs.SysTimers Proofs.SysReach Proofs.SysCalls Proofs.SysNode Proofs.SysSafety.
From Coq Require Import ZifyBool ZifyNat ZifyN.

Section Coop.
Variable c : cfg.
Variable B : list N.      (* the invoice of the set *)
Variable Dl : N.          (* the amount it delivers *)
Variable T : N.           (* the history ends by time T, less than one MPP timeout after it began *)
Hypothesis mpp_pos : mpp_ms c <> 0.

Definition good_htlc (h : htlc) : Prop :=
  blob h = B /\ deliver h = Dl /\ (rel h <? Z.of_N (pol_delta (pol c)))%Z = false /\ fee_sufficient (pol c) (total h) (deliver h) = true.

Definition ev_coop (s : sys) (ev : event) : Prop :=
  match ev with
  | EvHtlc h => good_htlc h
  | EvProcess _ f => f = NoFault
  | EvPayFinish _ o => exists p, o = PayComplete p
  | EvTick dt => now s + dt <= T
  | _ => True
  end.

(* the interrupted attempt (a, t, g) as a recovering lifecycle knows it *)
Definition krec (n : node) (na tnow a t g : N) : Prop :=
  a < na /\ T - t < mpp_ms c /\ (ds n = Some (DPending a t, g) \/ exists pr, has_done pr (parts n)).

Definition k_ok (n : node) (cs : list call) (na tnow : N) (p : pc) : Prop :=
  match p with
  | PFetch k => forall a t g, st_of cs k = Some (Replied (YState (Some (DPending a t, g)))) -> krec n na tnow a t g
  | PWait (AfterRestart a g t) _ => krec n na tnow a t g
  | PWait (AfterPay _ _) _ => False
  | PMarkF1 k a g t => krec n na tnow a t g /\ forall y, st_of cs k = Some (Replied y) -> y = YUnit
  | PMarkF2 k a g t => a < na /\ T - t < mpp_ms c /\
       match st_of cs k with Some Unprocessed => ds n = Some (DPending a t, g) | Some (Replied y) => exists g', y = YGen g' | _ => True end
  | PAdd1 k a _ _ _ => a < na /\ mem_att a (atts n) = false /\ (forall y, st_of cs k = Some (Replied y) -> exists g, y = YGen g) /\
       forall cl m gg a' t, nth_error cs k = Some cl -> c_rpc cl = QWriteState m gg (DPending a' t) -> T - t < mpp_ms c
  | PAdd2 k a _ _ _ _ => a < na /\
       match st_of cs k with Some Unprocessed => mem_att a (atts n) = false | Some (Replied y) => y = YUnit | _ => True end
  | PPay k _ _ => forall y, st_of cs k = Some (Replied y) -> exists p, y = YPay (PayComplete p)
  | PMS1 _ _ pr => has_done pr (parts n)
  | PMFp1 _ _ _ | PMFp2 _ _ _ => False
  | PSelect d => T < d
  | PMS2 _ _ | PEnd | PPanicked => True
  end.

Definition clean_entry (e : option entry) : Prop :=
  forall en, e = Some en -> fail_q en = None /\ is_fail en = false /\ e_blob en = B /\ e_deliver en = Dl.

Record K (s : sys) : Prop := {
  k_entry : clean_entry (entry_ (pl s));
  k_atts : forall a, mem_att a (atts (nd s)) = true -> a < next_att (pl s);
  k_ds : forall a t g, ds (nd s) = Some (DPending a t, g) -> a < next_att (pl s) /\ T - t < mpp_ms c;
  k_lc : forall i x, nth_error (lcs (pl s)) i = Some x -> k_ok (nd s) (calls s) (next_att (pl s)) (now s) (l_pc x);
  k_now : now s <= T /\ T - now s < mpp_ms c
}.

(* ---------- frame lemmas ---------- *)
Lemma krec_ext n n' na na' tnow a t g :
  ds n' = ds n -> (forall pr, has_done pr (parts n) -> has_done pr (parts n')) -> na <= na' ->
  krec n na tnow a t g -> krec n' na' tnow a t g.
Proof.
  intros Hd Hp Hna (H1 & H2 & H3). split; [lia|]. split; [exact H2|].
  destruct H3 as [H3|(pr & H3)]; [left; rewrite Hd; exact H3|right; exists pr; apply Hp; exact H3].
Qed.

Lemma k_ok_ext n n' cs cs' na na' tnow p :
  ds n' = ds n -> (forall a, mem_att a (atts n') = mem_att a (atts n)) ->
  (forall pr, has_done pr (parts n) -> has_done pr (parts n')) -> na <= na' ->
  (forall k, In k (awaits p) -> nth_error cs' k = nth_error cs k) ->
  k_ok n cs na tnow p -> k_ok n' cs' na' tnow p.
Proof.
  intros Hd Ha Hp Hna Hn.
  assert (Hs : forall k, In k (awaits p) -> st_of cs' k = st_of cs k) by (intros k Hk; unfold st_of; rewrite (Hn k Hk); reflexivity).
  destruct p as [k1|kk w|k1 a g t|k1 a g t|d|k1 a am mf md|k1 a g am mf md|k1 a g|k1 a pr|k1 a|k1 a g|k1 a g| |];
    cbn [k_ok awaits] in *; auto.
  - intros H a t g Hst. rewrite (Hs k1 (or_introl eq_refl)) in Hst. exact (krec_ext n n' na na' tnow a t g Hd Hp Hna (H a t g Hst)).
  - destruct kk as [a g t|a g]; [|auto]. apply krec_ext; assumption.
  - intros (H1 & H2). split; [exact (krec_ext n n' na na' tnow a t g Hd Hp Hna H1)|].
    intros y Hy. rewrite (Hs k1 (or_introl eq_refl)) in Hy. exact (H2 y Hy).
  - intros (H1 & H2 & H3). split; [lia|]. split; [exact H2|]. rewrite (Hs k1 (or_introl eq_refl)), Hd. exact H3.
  - intros (H1 & H2 & H3 & H4). split; [lia|]. split; [rewrite Ha; exact H2|]. split.
    + intros y Hy. rewrite (Hs k1 (or_introl eq_refl)) in Hy. exact (H3 y Hy).
    + intros cl m gg a' t Hk. rewrite (Hn k1 (or_introl eq_refl)) in Hk. exact (H4 cl m gg a' t Hk).
  - intros (H1 & H2). split; [lia|]. rewrite (Hs k1 (or_introl eq_refl)), Ha. exact H2.
  - intros H y Hy. rewrite (Hs k1 (or_introl eq_refl)) in Hy. exact (H y Hy).
Qed.

(* a detached lifecycle knows nothing about the record *)
Lemma k_ok_detached n n' cs cs' na na' tnow tnow' p :
  attached p = false -> (forall pr, has_done pr (parts n) -> has_done pr (parts n')) -> k_ok n cs na tnow p -> k_ok n' cs' na' tnow' p.
Proof. destruct p; cbn [attached k_ok]; try discriminate; auto. Qed.

(* the record is overwritten by a lifecycle that saw a part complete *)
Lemma k_ok_ds_done n v cs cs' na tnow p pr0 :
  has_done pr0 (parts n) -> lc_ok n cs p ->
  (forall k, In k (awaits p) -> nth_error cs' k = nth_error cs k) ->
  k_ok n cs na tnow p -> k_ok (set_ds n v) cs' na tnow p.
Proof.
  intros Hdone Hlc Hn.
  assert (Hs : forall k, In k (awaits p) -> st_of cs' k = st_of cs k) by (intros k Hk; unfold st_of; rewrite (Hn k Hk); reflexivity).
  assert (R : forall a t g, krec n na tnow a t g -> krec (set_ds n v) na tnow a t g).
  { intros a t g (H1 & H2 & _). split; [exact H1|]. split; [exact H2|]. right. exists pr0. exact Hdone. }
  destruct p as [k1|kk w|k1 a g t|k1 a g t|d|k1 a am mf md|k1 a g am mf md|k1 a g|k1 a pr|k1 a|k1 a g|k1 a g| |];
    cbn [k_ok awaits lc_ok] in *; auto.
  - intros H a t g Hst. rewrite (Hs k1 (or_introl eq_refl)) in Hst. exact (R a t g (H a t g Hst)).
  - destruct kk as [a g t|a g]; [|auto]. apply R.
  - intros (H1 & H2). split; [exact (R _ _ _ H1)|]. intros y Hy. rewrite (Hs k1 (or_introl eq_refl)) in Hy. exact (H2 y Hy).
  - exfalso. exact (has_done_not_all_failed _ _ Hdone Hlc).
  - intros (H1 & H2 & H3 & H4). split; [exact H1|]. split; [exact H2|]. split.
    + intros y Hy. rewrite (Hs k1 (or_introl eq_refl)) in Hy. exact (H3 y Hy).
    + intros cl m gg a' t Hk. rewrite (Hn k1 (or_introl eq_refl)) in Hk. exact (H4 cl m gg a' t Hk).
  - intros (H1 & H2). split; [exact H1|]. rewrite (Hs k1 (or_introl eq_refl)). exact H2.
  - intros H y Hy. rewrite (Hs k1 (or_introl eq_refl)) in Hy. exact (H y Hy).
Qed.

Lemma K_start n t0 h0 a0 :
  (forall a, mem_att a (atts n) = true -> a < a0) ->
  (forall a t g, ds n = Some (DPending a t, g) -> a < a0 /\ T - t < mpp_ms c) ->
  t0 <= T -> T - t0 < mpp_ms c ->
  K (sys_start n t0 h0 a0).
Proof.
  intros Ha Hd Ht1 Ht2. constructor; cbn [sys_start nd pl entry_ lcs calls next_att now].
  - intros en H. discriminate.
  - exact Ha.
  - exact Hd.
  - intros [|i] x H; discriminate.
  - split; assumption.
Qed.

(* ---------- EvHtlc ---------- *)
Lemma bytes_eq_same l : bytes_eq l l = true.
Proof. induction l as [|x r IH]; cbn; [reflexivity|]. rewrite N.eqb_refl, IH. reflexivity. Qed.

Lemma e_handle_clean e h :
  fail_q e = None -> is_fail e = false -> e_blob e = B -> e_deliver e = Dl -> good_htlc h ->
  fail_q (e_handle c e h) = None /\ is_fail (e_handle c e h) = false /\ e_blob (e_handle c e h) = B /\ e_deliver (e_handle c e h) = Dl.
Proof.
  intros Hf Hi Hb Hd (Gb & Gd & Gr & Gf). unfold e_handle.
  rewrite Hb, Gb, bytes_eq_same, Hd, Gd, N.eqb_refl. cbn [andb]. rewrite Gr. rewrite <- Gd, Gf.
  unfold e_add. cbn [fail_q is_fail e_blob e_deliver]. rewrite Gd. auto.
Qed.

Lemma st_of_app_old cs new k : (k < length cs)%nat -> st_of (cs ++ new) k = st_of cs k.
Proof. intros H. unfold st_of. rewrite nth_error_app1 by exact H. reflexivity. Qed.

Lemma K_htlc s h : InvC c s -> K s -> good_htlc h -> K (fst (step c s (EvHtlc h))).
Proof.
  intros HC HK Hg. pose proof HC as [Ht _]. cbn [step].
  destruct (entry_ (pl s)) as [e|] eqn:He; cbn [fst].
  - destruct (k_entry s HK e He) as (E1 & E2 & E3 & E4).
    constructor; cbn [nd pl entry_ lcs calls next_att now]; try (destruct HK; assumption).
    intros en Hen. inversion Hen; subst en. exact (e_handle_clean e h E1 E2 E3 E4 Hg).
  - constructor; cbn [nd pl entry_ lcs calls next_att now].
    + intros en Hen. inversion Hen; subst en. destruct Hg as (Gb & Gd & Gr & Gf).
      apply e_handle_clean; cbn [new_entry fail_q is_fail e_blob e_deliver]; auto. repeat split; assumption.
    + exact (k_atts s HK).
    + exact (k_ds s HK).
    + intros i x Hx. destruct (Nat.lt_ge_cases i (length (lcs (pl s)))) as [Hlt|Hge].
      * rewrite nth_error_app1 in Hx by exact Hlt.
        apply (k_ok_ext (nd s) (nd s) (calls s) _ (next_att (pl s)) (next_att (pl s))); auto; [lia| |exact (k_lc s HK i x Hx)].
        intros k Hk. apply nth_error_app1. exact (pc_calls_ok_awaits_lt c _ _ _ (Ht i x Hx) k Hk).
      * rewrite nth_error_app2 in Hx by exact Hge. destruct (i - length (lcs (pl s)))%nat as [|[|?]]; cbn in Hx; inversion Hx; subst x.
        cbn [l_pc k_ok]. intros a t g Hst. change (mk_calls [QListState]) with (mk_calls (QListState :: [])) in Hst. rewrite st_of_new0 in Hst. discriminate.
    + exact (k_now s HK).
Qed.

(* ---------- installing one lifecycle step ---------- *)
Lemma K_apply s i a x cid :
  InvC c s -> K s -> nth_error (lcs (pl s)) i = Some x ->
  (In cid (awaits (l_pc x)) \/ (length (calls s) <= cid)%nat) ->
  (forall k, In k (a_cancel a) -> In k (awaits (l_pc x)) /\ k <> cid) ->
  next_att (pl s) <= a_att a ->
  clean_entry (a_entry a) ->
  k_ok (nd s) (cancel_calls (a_cancel a) (set_status cid Delivered (calls s)) ++ mk_calls (a_new a)) (a_att a) (now s) (a_pc a) ->
  K (fst (apply_adv (with_calls s (set_status cid Delivered (calls s))) i a)).
Proof.
  intros HC HK Hx Hcid Hcn Hna Hen Hpc. pose proof HC as [Ht Hd].
  destruct (apply_adv_lcs (with_calls s (set_status cid Delivered (calls s))) i a x Hx) as (Hl & He & Hnd & Hnow & _ & Hcalls & Hatt).
  cbn [with_calls calls pl lcs nd now] in Hl, Hcalls, Hnd, Hnow.
  set (s' := fst (apply_adv (with_calls s (set_status cid Delivered (calls s))) i a)) in *.
  set (tbl := cancel_calls (a_cancel a) (set_status cid Delivered (calls s)) ++ mk_calls (a_new a)) in *.
  assert (Other : forall j y, j <> i -> nth_error (lcs (pl s)) j = Some y -> forall k, In k (awaits (l_pc y)) -> nth_error tbl k = nth_error (calls s) k).
  { intros j y Hne Hy k Hk. apply table_other.
    - exact (pc_calls_ok_awaits_lt c _ _ _ (Ht j y Hy) k Hk).
    - intros ->. destruct Hcid as [Hin|Hge].
      + exact (Hd i j x y cid (not_eq_sym Hne) Hx Hy Hin Hk).
      + pose proof (pc_calls_ok_awaits_lt c _ _ _ (Ht j y Hy) cid Hk). lia.
    - intros Hin. destruct (Hcn k Hin) as (Hkx & _). exact (Hd i j x y k (not_eq_sym Hne) Hx Hy Hkx Hk). }
  constructor; rewrite ?Hnd, ?Hnow, ?Hatt, ?Hcalls, ?He.
  - exact Hen.
  - intros a0 H. pose proof (k_atts s HK a0 H). lia.
  - intros a0 t g H. destruct (k_ds s HK a0 t g H). split; [lia|assumption].
  - intros j y Hy. rewrite Hl in Hy. destruct (nth_upd_cases _ _ _ _ _ Hy) as [[-> ->]|[Hne Hy']].
    + cbn [set_pc l_pc]. exact Hpc.
    + apply (k_ok_ext (nd s) (nd s) (calls s) tbl (next_att (pl s)) (a_att a)); auto.
      * exact (Other j y (not_eq_sym Hne) Hy').
      * exact (k_lc s HK j y Hy').
  - exact (k_now s HK).
Qed.

(* the select! with a clean entry: it stays, or starts a payment with a fresh attempt id *)
Lemma select_poll_clean_cases li base hgt tnow d en sel na :
  fail_q en = None ->
  select_poll c li base hgt tnow d (Some en) sel na = stay (PSelect d) (Some en) na \/
  exists am mf md,
    select_poll c li base hgt tnow d (Some en) sel na =
    {| a_pc := PAdd1 base na am mf md; a_entry := Some (set_queues en false None);
       a_new := [QWriteState CreateOrReplace None (DPending na tnow)]; a_out := []; a_cancel := []; a_att := na + 1 |}.
Proof.
  intros Hf. unfold select_poll. rewrite Hf. destruct (rdy_q en); [right|left; reflexivity].
  unfold go_pay. eexists _, _, _. reflexivity.
Qed.

Lemma clean_set_queues en rq :
  clean_entry (Some en) -> clean_entry (Some (set_queues en rq None)).
Proof.
  intros H e' He'. inversion He'; subst e'. destruct (H en eq_refl) as (H1 & H2 & H3 & H4).
  unfold set_queues. cbn [fail_q is_fail e_blob e_deliver]. auto.
Qed.

(* ---------- the select! ---------- *)
Lemma select_poll_k s li d sel cs' :
  K s -> length cs' = length (calls s) -> T < d ->
  let a := select_poll c li (length (calls s)) (height s) (now s) d (entry_ (pl s)) sel (next_att (pl s)) in
  a_cancel a = [] /\ next_att (pl s) <= a_att a /\ clean_entry (a_entry a) /\
  k_ok (nd s) (cancel_calls (a_cancel a) cs' ++ mk_calls (a_new a)) (a_att a) (now s) (a_pc a) /\
  forall h r, ~ In (OResp h r) (a_out a).
Proof.
  intros HK Hlen HTd. pose proof (k_now s HK) as Hnow. cbv zeta. destruct (entry_ (pl s)) as [en|] eqn:He.
  2:{ unfold select_poll, stay. cbn [a_cancel a_att a_entry a_pc a_new a_out k_ok].
      split; [reflexivity|]. split; [lia|]. split; [intros en0 H0; discriminate|]. split; [exact HTd|intros h r H0; exact H0]. }
  destruct (k_entry s HK en He) as (E1 & E2 & E3 & E4).
  destruct (select_poll_clean_cases li (length (calls s)) (height s) (now s) d en sel (next_att (pl s)) E1) as [->|(am & mf & md & ->)].
  - unfold stay. cbn [a_cancel a_att a_entry a_pc a_new a_out k_ok].
    split; [reflexivity|]. split; [lia|]. split; [rewrite <- He; exact (k_entry s HK)|]. split; [exact HTd|intros h r H0; exact H0].
  - cbn [a_cancel a_att a_entry a_pc a_new a_out]. split; [reflexivity|]. split; [lia|]. split.
    + apply clean_set_queues. rewrite <- He. exact (k_entry s HK).
    + split; [|intros h r H; exact H]. cbn [cancel_calls fold_left]. rewrite <- Hlen.
      cbn [k_ok]. split; [lia|]. split.
      * destruct (mem_att (next_att (pl s)) (atts (nd s))) eqn:Em; [|reflexivity]. pose proof (k_atts s HK _ Em). lia.
      * split.
        -- intros y Hy. rewrite st_of_new0 in Hy. discriminate.
        -- intros cl m gg a' t Hk Hr. rewrite nth_new0 in Hk. inversion Hk; subst cl. cbn [c_rpc] in Hr. inversion Hr; subst. lia.
Qed.

Lemma with_calls_same s : with_calls s (calls s) = s.
Proof. destruct s; reflexivity. Qed.

Lemma K_poll s sel : InvC c s -> K s -> K (fst (step c s (EvPoll sel))).
Proof.
  intros HC HK. cbn [step].
  destruct (find_select 0 (lcs (pl s))) as [[[i d] li]|] eqn:Hf; [|exact HK].
  destruct (find_select_spec _ _ _ _ _ Hf) as (x & Hx & Hp & Hli & _). rewrite Nat.sub_0_r in Hx. subst li.
  assert (HTd : T < d) by (pose proof (k_lc s HK i x Hx) as Hk0; rewrite Hp in Hk0; exact Hk0).
  pose proof (select_poll_k s (l_info x) d sel (calls s) HK eq_refl HTd) as (T1 & T2 & T3 & T4 & _).
  match goal with |- K (fst (apply_adv ?s0 ?i0 ?aa)) => pose proof (K_apply s i aa x (length (calls s)) HC HK Hx) as G end.
  rewrite set_status_oob in G by lia. rewrite with_calls_same in G.
  apply G; auto.
  - rewrite T1. intros k [].
Qed.

(* ---------- EvDeliver ---------- *)
Definition shape_kgoal (s : sys) (cid : nat) (sh : lres) : Prop :=
  match sh with
  | LKeep p' new _ cn => k_ok (nd s) (cancel_calls cn (set_status cid Delivered (calls s)) ++ mk_calls new) (next_att (pl s)) (now s) p'
  | LResolve r p' new cn =>
      k_ok (nd s) (cancel_calls cn (set_status cid Delivered (calls s)) ++ mk_calls new) (next_att (pl s)) (now s) p' /\ exists pr, r = Resolve pr
  | LSelect d => d <> 0 /\ T < now s + d
  end.

Lemma st_of_tbl_new cs cid cn q rest : st_of (cancel_calls cn (set_status cid Delivered cs) ++ mk_calls (q :: rest)) (length cs) = Some Unprocessed.
Proof. rewrite <- (table_length cs cid cn). apply st_of_new0. Qed.

Lemma shape_k s i x cid cl y sh :
  InvU s -> InvC c s -> InvO s -> NInv true s -> K s ->
  nth_error (lcs (pl s)) i = Some x -> nth_error (calls s) cid = Some cl -> c_st cl = Replied y ->
  lc_shape c (l_info x) (length (calls s)) (now s) (l_pc x) cid y = Some sh ->
  shape_kgoal s cid sh.
Proof.
  intros HU HC HO HN HK Hx Hcl Hrep Hsh.
  assert (Hst : st_of (calls s) cid = Some (Replied y)) by (rewrite (st_of_nth _ _ _ Hcl), Hrep; reflexivity).
  pose proof (ni_lc true s HN i x Hx) as Hlc. pose proof (ic_typed c s HC i x Hx) as Hty. pose proof (ni_r true s HN cid cl y Hcl Hrep) as Hry.
  pose proof (k_lc s HK i x Hx) as Hk. pose proof (k_now s HK) as Hnow.
  unfold typed_reply in Hry.
  assert (NN : forall w, attached (l_pc x) = true -> (forall k a g, l_pc x <> PPay k a g) -> no_new (wproj (nd s) (calls s) w))
    by (intros w Ax Hnp; exact (no_new_of true c s i x w HU HC HO HN Hx Ax Hnp)).
  destruct (l_pc x) as [k1|kk w|k1 a g t|k1 a g t|d|k1 a am mf md|k1 a g am mf md|k1 a g|k1 a pr|k1 a|k1 a g|k1 a g| |] eqn:Hp;
    unfold lc_shape in Hsh; try discriminate;
    try (destruct (Nat.eqb k1 cid) eqn:E; cbn [negb] in Hsh; [apply Nat.eqb_eq in E; subst k1|discriminate]);
    cbn [lc_ok pc_calls_ok k_ok] in Hlc, Hty, Hk.
  - (* PFetch *)
    rewrite (has_call_rpc _ _ _ _ Hty Hcl) in Hry. destruct Hry as (v & -> & Hng).
    destruct v as [[[|a t|pr|] g]|]; inversion Hsh; subst sh; cbn [shape_kgoal k_ok].
    + split; [exact mpp_pos|lia].
    + exact (Hk a t g Hst).
    + split; [exact I|eauto].
    + exfalso. exact (Hng g eq_refl).
    + split; [exact mpp_pos|lia].
  - (* PWait *)
    destruct kk as [a g t|a g]; [|destruct Hk].
    destruct Hlc as (Hw & _).
    assert (Hnn : no_new (wproj (nd s) (calls s) w)) by (apply NN; [reflexivity|intros; discriminate]).
    assert (Hcl' : nth_error (ps_calls (wproj (nd s) (calls s) w)) cid = Some {| c_rpc := c_rpc cl; c_st := Replied y |})
      by (cbn [wproj ps_calls]; rewrite Hcl; destruct cl; cbn in *; subst; reflexivity).
    pose proof (deliver_go (wproj (nd s) (calls s) w) w cid y (c_rpc cl) SWait (or_introl eq_refl) eq_refl Hnn Hw Hcl') as HP.
    unfold go_result in HP. cbn [wproj ps_calls ps_nd] in HP.
    destruct (wait_deliver (length (calls s)) w cid y) as [[w' nw|r cn0]|] eqn:Ew; [| |discriminate].
    + inversion Hsh; subst sh. cbn [shape_kgoal k_ok]. exact Hk.
    + destruct r as [pr| |]; inversion Hsh; subst sh; cbn [shape_kgoal shape_succeed k_ok].
      * split; [|eauto]. unfold PInv in HP. cbn [ps_st res_of_wait ps_nd] in HP. exact HP.
      * split; [exact Hk|]. intros y0 Hy0. rewrite st_of_tbl_new in Hy0. discriminate.
      * exact I.
  - (* PMarkF1 *)
    destruct Hk as (Hr & Hy). rewrite (Hy y Hst) in Hsh. inversion Hsh; subst sh. cbn [shape_kgoal k_ok].
    destruct Hr as (R1 & R2 & R3). split; [exact R1|]. split; [exact R2|]. rewrite st_of_tbl_new.
    destruct R3 as [R3|(pr & R3)]; [exact R3|exfalso; exact (has_done_not_all_failed _ _ R3 Hlc)].
  - (* PMarkF2 *)
    destruct Hk as (R1 & R2 & R3). rewrite Hst in R3. destruct R3 as (g' & ->). inversion Hsh; subst sh. cbn [shape_kgoal]. lia.
  - (* PAdd1 *)
    destruct Hk as (R1 & R2 & R3 & _). destruct (R3 y Hst) as (g0 & ->). inversion Hsh; subst sh. cbn [shape_kgoal k_ok].
    split; [exact R1|]. rewrite st_of_tbl_new. exact R2.
  - (* PAdd2 *)
    destruct Hk as (R1 & R2). rewrite Hst in R2. subst y. inversion Hsh; subst sh. cbn [shape_kgoal k_ok].
    intros y0 Hy0. rewrite st_of_tbl_new in Hy0. discriminate.
  - (* PPay *)
    destruct (Hk y Hst) as (p0 & ->). cbn [pay_reply] in Hsh. inversion Hsh; subst sh. cbn [shape_kgoal shape_succeed k_ok].
    split; [|eauto]. destruct Hlc as (_ & Hm). rewrite Hst in Hm. exact (proj2 Hm).
  - (* PMS1 *) destruct y; inversion Hsh; subst sh; cbn [shape_kgoal k_ok]; exact I.
  - (* PMS2 *) inversion Hsh; subst sh; cbn [shape_kgoal k_ok]; exact I.
  - destruct Hk.
  - destruct Hk.
Qed.

Lemma enter_select_nz li base hgt tnow d e sel na : d <> 0 ->
  enter_select c li base hgt tnow d e sel na = select_poll c li base hgt tnow (tnow + d) e sel na.
Proof. intros H. unfold enter_select. destruct (d =? 0) eqn:E; [apply N.eqb_eq in E; contradiction|reflexivity]. Qed.

Lemma K_deliver s cid sel : InvU s -> InvC c s -> InvO s -> NInv true s -> K s -> K (fst (step c s (EvDeliver cid sel))).
Proof.
  intros HU HC HO HN HK. cbn [step].
  destruct (nth_error (calls s) cid) as [cl|] eqn:Hcl; [|exact HK]. destruct (c_st cl) eqn:Hst; try exact HK.
  destruct (find_owner c 0 (lcs (pl s)) cid y sel (entry_ (pl s)) (length (calls s)) (height s) (now s) (next_att (pl s))) as [[i a]|] eqn:Hf.
  2:{ exfalso. destruct (HO cid cl Hcl ltac:(rewrite Hst; right; right; eauto)) as (j & z & Hz & Hin).
      exact (find_owner_awaited c cid y sel _ _ _ _ _ _ 0%nat j z Hz Hin Hf). }
  destruct (find_owner_spec _ _ _ _ _ _ _ _ _ _ _ _ _ Hf) as (x & Hx & _ & Hdl). rewrite Nat.sub_0_r in Hx.
  pose proof (lc_deliver_awaits _ _ _ _ _ _ _ _ _ _ _ _ Hdl) as Hcidx.
  rewrite lc_deliver_shape in Hdl. destruct (lc_shape c (l_info x) (length (calls s)) (now s) (l_pc x) cid y) as [sh|] eqn:Hsh; [|discriminate].
  cbn [option_map] in Hdl. inversion Hdl; subst a; clear Hdl.
  pose proof (shape_k s i x cid cl y sh HU HC HO HN HK Hx Hcl Hst Hsh) as Hg.
  assert (Hlen : length (set_status cid Delivered (calls s)) = length (calls s)) by apply set_status_length.
  apply (K_apply s i _ x cid HC HK Hx).
  - left. exact Hcidx.
  - destruct sh as [p' new out cancel|r p' new cancel|d]; cbn [adv_of a_cancel].
    + exact (proj2 (lc_shape_awaits _ _ _ _ _ _ _ _ _ _ Hsh eq_refl)).
    + unfold do_resolve. destruct (entry_ (pl s)); cbn [a_cancel]; exact (proj2 (lc_shape_awaits _ _ _ _ _ _ _ _ _ _ Hsh eq_refl)).
    + cbn [shape_kgoal] in Hg. rewrite (enter_select_nz _ _ _ _ _ _ _ _ (proj1 Hg)).
      rewrite (proj1 (select_poll_k s (l_info x) (now s + d) sel _ HK Hlen (proj2 Hg))). intros k [].
  - destruct sh as [p' new out cancel|r p' new cancel|d]; cbn [adv_of a_att].
    + lia.
    + unfold do_resolve. destruct (entry_ (pl s)); cbn [a_att]; lia.
    + cbn [shape_kgoal] in Hg. rewrite (enter_select_nz _ _ _ _ _ _ _ _ (proj1 Hg)).
      exact (proj1 (proj2 (select_poll_k s (l_info x) (now s + d) sel _ HK Hlen (proj2 Hg)))).
  - destruct sh as [p' new out cancel|r p' new cancel|d]; cbn [adv_of a_entry].
    + exact (k_entry s HK).
    + unfold do_resolve. destruct (entry_ (pl s)); cbn [a_entry]; intros en0 H0; discriminate.
    + cbn [shape_kgoal] in Hg. rewrite (enter_select_nz _ _ _ _ _ _ _ _ (proj1 Hg)).
      exact (proj1 (proj2 (proj2 (select_poll_k s (l_info x) (now s + d) sel _ HK Hlen (proj2 Hg))))).
  - destruct sh as [p' new out cancel|r p' new cancel|d]; cbn [adv_of a_pc a_new a_cancel a_att]; cbn [shape_kgoal] in Hg.
    + exact Hg.
    + unfold do_resolve. destruct (entry_ (pl s)); cbn [a_pc a_new a_cancel a_att k_ok]; [exact (proj1 Hg)|exact I].
    + rewrite (enter_select_nz _ _ _ _ _ _ _ _ (proj1 Hg)).
      exact (proj1 (proj2 (proj2 (proj2 (select_poll_k s (l_info x) (now s + d) sel _ HK Hlen (proj2 Hg)))))).
Qed.

(* ---------- EvProcess ---------- *)
Lemma mem_att_set_att a a' v l : mem_att a (set_att a' v l) = (a' =? a) || mem_att a l.
Proof.
  unfold mem_att. induction l as [|x r IH]; cbn [set_att existsb fst]; [reflexivity|].
  destruct (fst x =? a') eqn:E; cbn [existsb fst].
  - apply N.eqb_eq in E. rewrite E. destruct (a' =? a); reflexivity.
  - rewrite IH. destruct (fst x =? a), (a' =? a); reflexivity.
Qed.

Lemma att_owner s i x cid cl m a cm su am b :
  InvC c s -> nth_error (lcs (pl s)) i = Some x -> In cid (awaits (l_pc x)) -> nth_error (calls s) cid = Some cl ->
  c_rpc cl = QWriteAtt m a cm su am b ->
  (exists g t, l_pc x = PMarkF1 cid a g t /\ m = CreateOrReplace) \/
  (exists g am0 mf md, l_pc x = PAdd2 cid a g am0 mf md /\ m = MustCreate) \/
  (l_pc x = PMS2 cid a /\ m = MustReplace) \/
  (exists g, l_pc x = PMFp1 cid a g).
Proof.
  intros HC Hx Hin Hcl Hq. pose proof (ic_typed c s HC i x Hx) as Hty.
  destruct (l_pc x) as [k1|kk w|k1 a1 g t|k1 a1 g t|d|k1 a1 am1 mf md|k1 a1 g am1 mf md|k1 a1 g|k1 a1 pr|k1 a1|k1 a1 g|k1 a1 g| |] eqn:Hp;
    cbn [awaits] in Hin; try (destruct Hin; fail); cbn [pc_calls_ok] in Hty.
  - destruct Hin as [<-|[]]. rewrite (has_call_rpc _ _ _ _ Hty Hcl) in Hq. discriminate.
  - exfalso. destruct w as [k1|k1 l|aw]; cbn [awaits] in Hin.
    + destruct Hin as [<-|[]]. rewrite (has_call_rpc _ _ _ _ Hty Hcl) in Hq. discriminate.
    + destruct Hin as [<-|[]]. rewrite (has_call_rpc _ _ _ _ Hty Hcl) in Hq. discriminate.
    + apply in_map_iff in Hin as ((pid & c0) & Hc & Hi). cbn in Hc. subst c0. rewrite (has_call_rpc _ _ _ _ (Hty pid cid Hi) Hcl) in Hq. discriminate.
  - destruct Hin as [<-|[]]. rewrite (has_call_rpc _ _ _ _ Hty Hcl) in Hq. inversion Hq; subst. left. eauto.
  - destruct Hin as [<-|[]]. rewrite (has_call_rpc _ _ _ _ Hty Hcl) in Hq. discriminate.
  - destruct Hin as [<-|[]]. destruct Hty as (t & Hty). rewrite (has_call_rpc _ _ _ _ Hty Hcl) in Hq. discriminate.
  - destruct Hin as [<-|[]]. rewrite (has_call_rpc _ _ _ _ Hty Hcl) in Hq. inversion Hq; subst. right. left. eauto 6.
  - destruct Hin as [<-|[]]. destruct Hty as (? & ? & ? & Hty). rewrite (has_call_rpc _ _ _ _ Hty Hcl) in Hq. discriminate.
  - destruct Hin as [<-|[]]. rewrite (has_call_rpc _ _ _ _ Hty Hcl) in Hq. discriminate.
  - destruct Hin as [<-|[]]. rewrite (has_call_rpc _ _ _ _ Hty Hcl) in Hq. inversion Hq; subst. right. right. left. auto.
  - destruct Hin as [<-|[]]. rewrite (has_call_rpc _ _ _ _ Hty Hcl) in Hq. inversion Hq; subst. right. right. right. eauto.
  - destruct Hin as [<-|[]]. rewrite (has_call_rpc _ _ _ _ Hty Hcl) in Hq. discriminate.
Qed.

(* a step of the node that leaves record, attempt ids and parts alone and changes the status of one call *)
Lemma K_process_frame s i x cid n' st' :
  InvC c s -> K s -> nth_error (lcs (pl s)) i = Some x -> In cid (awaits (l_pc x)) ->
  ds n' = ds (nd s) -> (forall a, mem_att a (atts n') = mem_att a (atts (nd s))) -> parts n' = parts (nd s) ->
  k_ok n' (set_status cid st' (calls s)) (next_att (pl s)) (now s) (l_pc x) ->
  K {| nd := n'; pl := pl s; calls := set_status cid st' (calls s); now := now s; height := height s |}.
Proof.
  intros HC HK Hx Hin Hd Ha Hp Hown. pose proof HC as [_ Hdj].
  constructor; cbn [nd pl calls now].
  - exact (k_entry s HK).
  - intros a H. rewrite Ha in H. exact (k_atts s HK a H).
  - intros a t g H. rewrite Hd in H. exact (k_ds s HK a t g H).
  - intros j z Hz. destruct (Nat.eq_dec j i) as [->|Hne].
    + rewrite Hx in Hz. inversion Hz; subst z. exact Hown.
    + apply (k_ok_ext (nd s) n' (calls s) _ (next_att (pl s)) (next_att (pl s))); auto; [intros pr; rewrite Hp; auto|lia| |exact (k_lc s HK j z Hz)].
      intros k Hk. apply nth_set_status_other. intros <-. exact (Hdj i j x z cid (not_eq_sym Hne) Hx Hz Hin Hk).
  - exact (k_now s HK).
Qed.

Lemma K_process s cid : InvU s -> InvC c s -> InvO s -> NInv true s -> K s -> K (fst (step c s (EvProcess cid NoFault))).
Proof.
  intros HU HC HO HN HK. cbn [step].
  destruct (nth_error (calls s) cid) as [cl|] eqn:Hcl; [|exact HK]. destruct (c_st cl) eqn:Hst; try exact HK.
  destruct (node_exec (nd s) (c_rpc cl) NoFault) as [n' y] eqn:Hex. cbn [fst].
  destruct (live_owner c s cid cl HC HO Hcl ltac:(rewrite Hst; left; reflexivity)) as (i & x & Hx & Hin & Hs).
  pose proof HC as [Ht Hdj].
  pose proof (k_lc s HK i x Hx) as Hk. pose proof (ni_lc true s HN i x Hx) as Hlc.
  assert (StU : st_of (calls s) cid = Some Unprocessed) by (rewrite (st_of_nth _ _ _ Hcl), Hst; reflexivity).
  assert (StN : forall st', st_of (set_status cid st' (calls s)) cid = Some st')
    by (intros st'; rewrite (st_of_nth _ _ _ (nth_set_status_same _ _ _ _ Hcl)); reflexivity).
  assert (Oth : forall st' j z, j <> i -> nth_error (lcs (pl s)) j = Some z -> forall k, In k (awaits (l_pc z)) ->
                  nth_error (set_status cid st' (calls s)) k = nth_error (calls s) k).
  { intros st' j z Hne Hz k Hk0. apply nth_set_status_other. intros <-. exact (Hdj i j x z cid (not_eq_sym Hne) Hx Hz Hin Hk0). }
  (* a write by the attached lifecycle: every other lifecycle is detached and knows nothing about the record *)
  assert (WA : forall n1 st', attached (l_pc x) = true -> parts n1 = parts (nd s) ->
            (forall a, mem_att a (atts n1) = true -> a < next_att (pl s)) ->
            (forall a t g, ds n1 = Some (DPending a t, g) -> a < next_att (pl s) /\ T - t < mpp_ms c) ->
            k_ok n1 (set_status cid st' (calls s)) (next_att (pl s)) (now s) (l_pc x) ->
            K {| nd := n1; pl := pl s; calls := set_status cid st' (calls s); now := now s; height := height s |}).
  { intros n1 st' Ax Hp1 Ha1 Hd1 Hown. constructor; cbn [nd pl calls now]; auto.
    - exact (k_entry s HK).
    - intros j z Hz. destruct (Nat.eq_dec j i) as [->|Hne].
      + rewrite Hx in Hz. inversion Hz; subst z. exact Hown.
      + apply (k_ok_detached (nd s) n1 (calls s) _ (next_att (pl s)) (next_att (pl s)) (now s) (now s)); [|intros pr; rewrite Hp1; auto|exact (k_lc s HK j z Hz)].
        destruct (attached (l_pc z)) eqn:Az; [|reflexivity]. exfalso. apply Hne. exact (proj1 (att_unique s j i z x HU Hz Hx Az Ax)).
    - exact (k_now s HK). }
  destruct (c_rpc cl) as [|m gen v|m a cm su am b| | |pid|b am mf md rt] eqn:Hq.
  - (* listdatastore *)
    cbn [owner_shape] in Hs. unfold node_exec in Hex. inversion Hex; subst n' y.
    apply (K_process_frame s i x cid _ _ HC HK Hx Hin); auto.
    rewrite Hs. cbn [k_ok]. intros a t g H. rewrite StN in H. inversion H as [H1]. destruct (k_ds s HK a t g H1). split; [|split]; auto.
  - (* a write of the state record *)
    destruct v as [|a t|pr|]; cbn [owner_shape] in Hs.
    + destruct Hs as (-> & [(a & g & t & Hp & ->)|(a & g & Hp & ->)]); [|rewrite Hp in Hk; destruct Hk].
      rewrite Hp in Hk, Hlc. cbn [k_ok lc_ok] in Hk, Hlc. destruct Hk as (R1 & R2 & R3). rewrite StU in R3.
      unfold node_exec in Hex. rewrite R3, N.eqb_refl in Hex. inversion Hex; subst n' y.
      apply WA; [rewrite Hp; reflexivity|reflexivity|exact (k_atts s HK)|cbn [set_ds ds]; intros ? ? ? H; discriminate|].
      rewrite Hp. cbn [k_ok]. split; [exact R1|]. split; [exact R2|]. rewrite StN. eauto.
    + destruct Hs as (-> & -> & am & mf & md & Hp). rewrite Hp in Hk. cbn [k_ok] in Hk. destruct Hk as (R1 & R2 & R3 & R4).
      assert (Own : forall n1 g1, atts n1 = atts (nd s) ->
                k_ok n1 (set_status cid (Replied (YGen g1)) (calls s)) (next_att (pl s)) (now s) (PAdd1 cid a am mf md)).
      { intros n1 g1 Ha1. cbn [k_ok]. rewrite Ha1. split; [exact R1|]. split; [exact R2|]. split.
        - intros y0 Hy0. rewrite StN in Hy0. inversion Hy0. eauto.
        - intros cl' m' gg' a' t' Hk' Hr'. rewrite (nth_set_status_same _ _ _ _ Hcl) in Hk'. inversion Hk'; subst cl'. cbn [c_rpc] in Hr'.
          exact (R4 cl m' gg' a' t' Hcl Hr'). }
      assert (Age : T - t < mpp_ms c) by exact (R4 cl _ _ _ _ Hcl Hq).
      unfold node_exec in Hex. destruct (ds (nd s)) as [[v0 cur]|] eqn:Eds; inversion Hex; subst n' y.
      * apply WA; [rewrite Hp; reflexivity|reflexivity|exact (k_atts s HK)| |rewrite Hp; apply Own; reflexivity].
        cbn [set_ds ds]. intros a1 t1 g1 H. inversion H; subst. auto.
      * apply WA; [rewrite Hp; reflexivity|reflexivity|exact (k_atts s HK)| |rewrite Hp; apply Own; reflexivity].
        cbn [set_ds ds]. intros a1 t1 g1 H. inversion H; subst. auto.
    + destruct Hs as (-> & -> & a & Hp). rewrite Hp in Hk. cbn [k_ok] in Hk.
      assert (G : forall v1 st', K {| nd := set_ds (nd s) (Some (DSucc pr, v1)); pl := pl s; calls := set_status cid st' (calls s); now := now s; height := height s |}).
      { intros v1 st'. constructor; cbn [nd pl calls now set_ds ds atts].
        - exact (k_entry s HK).
        - exact (k_atts s HK).
        - intros ? ? ? H. discriminate.
        - intros j z Hz. destruct (Nat.eq_dec j i) as [->|Hne].
          + rewrite Hx in Hz. inversion Hz; subst z. rewrite Hp. cbn [k_ok set_ds parts]. exact Hk.
          + apply (k_ok_ds_done (nd s) _ (calls s) _ _ _ _ pr Hk (ni_lc true s HN j z Hz) (Oth st' j z Hne Hz) (k_lc s HK j z Hz)).
        - exact (k_now s HK). }
      unfold node_exec in Hex. destruct (ds (nd s)) as [[v0 cur]|] eqn:Eds; inversion Hex; subst n' y; apply G.
    + destruct Hs.
  - (* a write of an attempt record *)
    destruct (att_owner s i x cid cl m a cm su am b HC Hx Hin Hcl Hq) as [(g & t & Hp & ->)|[(g & am0 & mf & md & Hp & ->)|[(Hp & ->)|(g & Hp)]]].
    + rewrite Hp in Hk. cbn [k_ok] in Hk. destruct Hk as ((R1 & R2 & R3) & _).
      unfold node_exec in Hex.
      assert (E : n' = set_atts (nd s) (set_att a (cm, su) (atts (nd s))) /\ y = Some YUnit)
        by (destruct (mem_att a (atts (nd s))); inversion Hex; auto).
      destruct E as (-> & ->).
      apply WA; [rewrite Hp; reflexivity|reflexivity| |exact (k_ds s HK)|].
      * cbn [set_atts atts]. intros a0 H. rewrite mem_att_set_att in H. destruct (a =? a0) eqn:E; [apply N.eqb_eq in E; subst; exact R1|exact (k_atts s HK a0 H)].
      * rewrite Hp. cbn [k_ok]. split; [split; [exact R1|split; [exact R2|exact R3]]|]. intros y0 Hy0. rewrite StN in Hy0. inversion Hy0. reflexivity.
    + rewrite Hp in Hk. cbn [k_ok] in Hk. destruct Hk as (R1 & R2). rewrite StU in R2.
      unfold node_exec in Hex. rewrite R2 in Hex. inversion Hex; subst n' y.
      apply WA; [rewrite Hp; reflexivity|reflexivity| |exact (k_ds s HK)|].
      * cbn [set_atts atts]. intros a0 H. rewrite mem_att_set_att in H. destruct (a =? a0) eqn:E; [apply N.eqb_eq in E; subst; exact R1|exact (k_atts s HK a0 H)].
      * rewrite Hp. cbn [k_ok]. split; [exact R1|]. rewrite StN. reflexivity.
    + unfold node_exec in Hex. destruct (mem_att a (atts (nd s))) eqn:Em; inversion Hex; subst n' y.
      * apply (K_process_frame s i x cid _ _ HC HK Hx Hin); auto; [|rewrite Hp; exact I].
        intros a0. cbn [set_atts atts]. rewrite mem_att_set_att. destruct (a =? a0) eqn:E; [apply N.eqb_eq in E; subst; rewrite Em; reflexivity|reflexivity].
      * apply (K_process_frame s i x cid _ _ HC HK Hx Hin); auto. rewrite Hp. exact I.
    + rewrite Hp in Hk. destruct Hk.
  - (* listsendpays pending *)
    pose proof (owner_pc_by_rpc c s i x cid cl HC Hx Hin Hcl) as Hob. rewrite Hq in Hob. destruct Hob as (kk & w & Hp).
    unfold node_exec in Hex. inversion Hex; subst n' y.
    apply (K_process_frame s i x cid _ _ HC HK Hx Hin); auto. rewrite Hp in *. cbn [k_ok] in *. exact Hk.
  - pose proof (owner_pc_by_rpc c s i x cid cl HC Hx Hin Hcl) as Hob. rewrite Hq in Hob. destruct Hob as (kk & w & Hp).
    unfold node_exec in Hex. inversion Hex; subst n' y.
    apply (K_process_frame s i x cid _ _ HC HK Hx Hin); auto. rewrite Hp in *. cbn [k_ok] in *. exact Hk.
  - pose proof (owner_pc_by_rpc c s i x cid cl HC Hx Hin Hcl) as Hob. rewrite Hq in Hob. destruct Hob as (kk & w & Hp).
    assert (E : n' = nd s) by (unfold node_exec in Hex; destruct (nth_error (parts (nd s)) pid) as [[| |]|]; inversion Hex; reflexivity).
    subst n'.
    apply (K_process_frame s i x cid _ _ HC HK Hx Hin); auto. rewrite Hp in *. cbn [k_ok] in *. exact Hk.
  - (* pay *)
    cbn [owner_shape] in Hs. destruct Hs as (a & g & Hp).
    unfold node_exec in Hex. inversion Hex; subst n' y.
    apply (K_process_frame s i x cid _ _ HC HK Hx Hin); auto.
    rewrite Hp. cbn [k_ok]. intros y0 Hy0. rewrite StN in Hy0. discriminate.
Qed.

(* ---------- the other events ---------- *)
Lemma K_with_nd s n1 :
  ds n1 = ds (nd s) -> atts n1 = atts (nd s) -> (forall pr, has_done pr (parts (nd s)) -> has_done pr (parts n1)) ->
  K s -> K (with_nd s n1).
Proof.
  intros Hd Ha Hp HK. constructor; cbn [with_nd nd pl calls now].
  - exact (k_entry s HK).
  - rewrite Ha. exact (k_atts s HK).
  - rewrite Hd. exact (k_ds s HK).
  - intros i x Hx. apply (k_ok_ext (nd s) n1 (calls s) (calls s) (next_att (pl s)) (next_att (pl s))); auto; [rewrite Ha; reflexivity|lia|exact (k_lc s HK i x Hx)].
  - exact (k_now s HK).
Qed.

Lemma K_part s pid st : K s -> K (fst (step c s (EvPart pid st))).
Proof.
  intros HK. cbn [step]. destruct (nth_error (parts (nd s)) pid) as [[| |]|] eqn:Hp; try exact HK.
  destruct st; try exact HK; cbn [fst]; apply K_with_nd; auto; intros pr H; cbn [set_parts parts]; apply has_done_upd; assumption.
Qed.

Lemma K_newpart s cid : K s -> K (fst (step c s (EvPayNewPart cid))).
Proof.
  intros HK. cbn [step]. destruct (nth_error (calls s) cid) as [[q st]|]; [|exact HK]. destruct q; try exact HK. destruct st; try exact HK.
  cbn [fst]. apply K_with_nd; auto. intros pr H. cbn [set_parts parts]. apply has_done_app. exact H.
Qed.

Lemma K_payfinish s cid p : InvC c s -> InvO s -> K s -> K (fst (step c s (EvPayFinish cid (PayComplete p)))).
Proof.
  intros HC HO HK. cbn [step].
  destruct (nth_error (calls s) cid) as [[q st]|] eqn:Hcl; [|exact HK]. destruct q; try exact HK. destruct st; try exact HK.
  destruct (running_pay_owner c s cid _ _ _ _ _ HC HO Hcl) as (i & x & a & g & Hx & Hp). cbn [fst].
  apply (K_process_frame s i x cid _ _ HC HK Hx); auto; [rewrite Hp; left; reflexivity|].
  rewrite Hp. cbn [k_ok]. intros y Hy. rewrite (st_of_nth _ _ _ (nth_set_status_same _ _ _ _ Hcl)) in Hy. cbn [c_st] in Hy. inversion Hy. eauto.
Qed.

Lemma K_crash s : K s -> K (fst (step c s EvCrash)).
Proof.
  intros HK. cbn [step fst]. constructor; cbn [nd pl entry_ lcs calls next_att now set_payrun ds atts].
  - intros en H. discriminate.
  - exact (k_atts s HK).
  - exact (k_ds s HK).
  - intros [|i] x H; discriminate.
  - exact (k_now s HK).
Qed.

Lemma K_height s h : K s -> K (fst (step c s (EvHeight h))).
Proof. intros [A1 A2 A3 A4 A5]. cbn [step fst]. constructor; cbn [nd pl calls now]; assumption. Qed.

Lemma K_silent s dt : K s -> now s + dt <= T ->
  fire_timers (lcs (pl s)) (entry_ (pl s)) (now s + dt) = (lcs (pl s), entry_ (pl s), []).
Proof.
  intros HK Hle. apply fire_timers_silent. intros i x dl Hx Hp. pose proof (k_lc s HK i x Hx) as Hk. rewrite Hp in Hk. cbn [k_ok] in Hk. lia.
Qed.

(* time passes, no deadline is reached: only the clock changes *)
Lemma K_tick s dt : K s -> now s + dt <= T -> K (fst (step c s (EvTick dt))).
Proof.
  intros HK Hle. cbn [step]. rewrite (K_silent s dt HK Hle). cbn [fst].
  destruct HK as [A1 A2 A3 A4 A5]. constructor; cbn [nd pl entry_ lcs calls next_att now]; try assumption.
  - lia.
Qed.

(* ---------- every cooperative step keeps K and fails nobody ---------- *)
Theorem K_step s ev : wreach true c s -> K s -> ev_coop s ev -> K (fst (step c s ev)).
Proof.
  intros Hw HK Hev. destruct (wreach_inv true c s Hw) as (_ & HC & HO & HN). pose proof (wreach_U true c s Hw) as HU.
  destruct ev as [h|sel|cid f|cid sel|pid st|cid|cid o|dt|h|]; cbn [ev_coop] in Hev.
  - exact (K_htlc s h HC HK Hev).
  - exact (K_poll s sel HC HK).
  - subst f. exact (K_process s cid HU HC HO HN HK).
  - exact (K_deliver s cid sel HU HC HO HN HK).
  - exact (K_part s pid st HK).
  - exact (K_newpart s cid HK).
  - destruct Hev as (p & ->). exact (K_payfinish s cid p HC HO HK).
  - exact (K_tick s dt HK Hev).
  - exact (K_height s h HK).
  - exact (K_crash s HK).
Qed.

Lemma apply_adv_resp_in s1 i a h r : In (OResp h r) (snd (apply_adv s1 i a)) -> In (OResp h r) (a_out a).
Proof.
  rewrite apply_adv_outs. intros Hin. apply in_app_or in Hin as [H|H]; [exact H|]. exfalso.
  apply in_app_or in H as [H|H].
  - revert H. generalize (length (calls s1)). induction (a_new a) as [|q rr IH]; intros b H; [destruct H|].
    cbn in H. destruct H as [H|H]; [discriminate|exact (IH _ H)].
  - apply in_map_iff in H as (? & H & _). discriminate.
Qed.

Theorem coop_step_only_settles s ev h r :
  wreach true c s -> K s -> ev_coop s ev -> In (OResp h r) (snd (step c s ev)) -> exists pr, r = Resolve pr.
Proof.
  intros Hw HK Hev Hin. destruct (wreach_inv true c s Hw) as (_ & HC & HO & HN). pose proof (wreach_U true c s Hw) as HU.
  destruct ev as [h0|sel|cid f|cid sel|pid st|cid|cid o|dt|h0|]; cbn [ev_coop] in Hev; cbn [step] in Hin; try (destruct Hin; fail).
  - destruct (entry_ (pl s)) as [e|] eqn:He; [destruct Hin|destruct Hin as [Hin|[]]; discriminate].
  - destruct (find_select 0 (lcs (pl s))) as [[[i d] li]|] eqn:Hf; [|destruct Hin].
    apply apply_adv_resp_in in Hin.
    destruct (find_select_spec _ _ _ _ _ Hf) as (x & Hx & Hp & _ & _). rewrite Nat.sub_0_r in Hx.
    assert (HTd : T < d) by (pose proof (k_lc s HK i x Hx) as Hk0; rewrite Hp in Hk0; exact Hk0).
    exfalso. exact (proj2 (proj2 (proj2 (proj2 (select_poll_k s li d sel (calls s) HK eq_refl HTd)))) h r Hin).
  - destruct (nth_error (calls s) cid) as [cl|]; [|destruct Hin]. destruct (c_st cl); try (destruct Hin; fail).
    destruct (node_exec (nd s) (c_rpc cl) f). destruct Hin.
  - destruct (nth_error (calls s) cid) as [cl|] eqn:Hcl; [|destruct Hin]. destruct (c_st cl) eqn:Hst; try (destruct Hin; fail).
    destruct (find_owner c 0 (lcs (pl s)) cid y sel (entry_ (pl s)) (length (calls s)) (height s) (now s) (next_att (pl s))) as [[i a]|] eqn:Hf; [|destruct Hin].
    destruct (find_owner_spec _ _ _ _ _ _ _ _ _ _ _ _ _ Hf) as (x & Hx & _ & Hdl). rewrite Nat.sub_0_r in Hx.
    apply apply_adv_resp_in in Hin.
    rewrite lc_deliver_shape in Hdl. destruct (lc_shape c (l_info x) (length (calls s)) (now s) (l_pc x) cid y) as [sh|] eqn:Hsh; [|discriminate].
    cbn [option_map] in Hdl. inversion Hdl; subst a; clear Hdl.
    pose proof (shape_k s i x cid cl y sh HU HC HO HN HK Hx Hcl Hst Hsh) as Hg.
    destruct sh as [p' new out cancel|r0 p' new cancel|d]; cbn [adv_of] in Hin; cbn [shape_kgoal] in Hg.
    + exfalso. cbn [a_out] in Hin. pose proof (lc_shape_keep_out _ _ _ _ _ _ _ _ _ _ _ Hsh) as Hno.
      assert (H : In (OResp h r) (resps out)) by (apply filter_In; split; [exact Hin|reflexivity]). rewrite Hno in H. destruct H.
    + unfold do_resolve in Hin. destruct (entry_ (pl s)) as [en|]; cbn [a_out] in Hin; [|destruct Hin as [H|[]]; discriminate].
      rewrite app_nil_r in Hin. unfold resolve_outs in Hin. apply in_map_iff in Hin as (h1 & Hh1 & _). inversion Hh1; subst r0.
      exact (proj2 Hg).
    + exfalso. rewrite (enter_select_nz _ _ _ _ _ _ _ _ (proj1 Hg)) in Hin.
      exact (proj2 (proj2 (proj2 (proj2 (select_poll_k s (l_info x) (now s + d) sel (calls s) HK eq_refl (proj2 Hg))))) h r Hin).
  - destruct (nth_error (parts (nd s)) pid) as [[]|], st; destruct Hin.
  - destruct (nth_error (calls s) cid) as [[q st]|]; [|destruct Hin]. destruct q; try (destruct Hin; fail). destruct st; destruct Hin.
  - destruct (nth_error (calls s) cid) as [[q st]|]; [|destruct Hin]. destruct q; try (destruct Hin; fail). destruct st; destruct Hin.
  - rewrite (K_silent s dt HK Hev) in Hin. destruct Hin.
Qed.

Theorem coop_step_never_fails s ev h m :
  wreach true c s -> K s -> ev_coop s ev -> ~ In (OResp h (Fail m)) (snd (step c s ev)).
Proof. intros Hw HK Hev Hin. destruct (coop_step_only_settles s ev h (Fail m) Hw HK Hev Hin) as (pr & H). discriminate. Qed.

(* ---------- every cooperative history ---------- *)
Fixpoint hist_coop (s : sys) (evs : list event) : Prop :=
  match evs with [] => True | ev :: r => ev_coop s ev /\ hist_coop (fst (step c s ev)) r end.

Lemma coop_run_inv : forall evs s,
  wreach true c s -> K s -> hist_wf true c s evs -> hist_coop s evs ->
  (wreach true c (fst (run c s evs)) /\ K (fst (run c s evs))) /\
  forall o h r, In o (snd (run c s evs)) -> In (OResp h r) o -> exists pr, r = Resolve pr.
Proof.
  induction evs as [|ev r IH]; intros s Hw HK Hwf Hco; cbn [run].
  - split; [split; assumption|]. intros o h r0 [].
  - destruct Hwf as (H1 & H2). destruct Hco as (Hc1 & Hc2).
    pose proof (wr_step true c s ev Hw H1) as Hw1. pose proof (K_step s ev Hw HK Hc1) as HK1.
    pose proof (coop_step_only_settles s ev) as NF.
    destruct (step c s ev) as [s1 o1] eqn:Est. cbn [fst snd] in *.
    destruct (IH s1 Hw1 HK1 H2 Hc2) as (A & Bn). destruct (run c s1 r) as [s2 os]. cbn [fst snd] in *.
    split; [exact A|]. intros o h r0 [<-|Hin]; [exact (NF h r0 Hw HK Hc1)|exact (Bn o h r0 Hin)].
Qed.

Theorem coop_runs_never_fail n t0 h0 a0 evs :
  node_ok n ->
  (forall a, mem_att a (atts n) = true -> a < a0) ->
  (forall a t g, ds n = Some (DPending a t, g) -> a < a0 /\ T - t < mpp_ms c) ->
  t0 <= T -> T - t0 < mpp_ms c ->
  hist_wf true c (sys_start n t0 h0 a0) evs -> hist_coop (sys_start n t0 h0 a0) evs ->
  forall o h m, In o (snd (run c (sys_start n t0 h0 a0) evs)) -> ~ In (OResp h (Fail m)) o.
Proof.
  intros Hn Ha Hd Ht1 Ht2 Hwf Hco o h m Ho Hin.
  destruct (proj2 (coop_run_inv evs _ (wr_start true c n t0 h0 a0 Hn) (K_start n t0 h0 a0 Ha Hd Ht1 Ht2) Hwf Hco) o h (Fail m) Ho Hin) as (pr & H). discriminate.
Qed.

Theorem coop_runs_only_settle n t0 h0 a0 evs :
  node_ok n ->
  (forall a, mem_att a (atts n) = true -> a < a0) ->
  (forall a t g, ds n = Some (DPending a t, g) -> a < a0 /\ T - t < mpp_ms c) ->
  t0 <= T -> T - t0 < mpp_ms c ->
  hist_wf true c (sys_start n t0 h0 a0) evs -> hist_coop (sys_start n t0 h0 a0) evs ->
  forall o h r, In o (snd (run c (sys_start n t0 h0 a0) evs)) -> In (OResp h r) o -> exists pr, r = Resolve pr.
Proof.
  intros Hn Ha Hd Ht1 Ht2 Hwf Hco.
  exact (proj2 (coop_run_inv evs _ (wr_start true c n t0 h0 a0 Hn) (K_start n t0 h0 a0 Ha Hd Ht1 Ht2) Hwf Hco)).
Qed.

End Coop.
