(* SysCalls.v — call typing and ownership (invariant InvC): every lifecycle's awaited call ids name live calls carrying
   exactly the RPC that program counter issued, and no two lifecycles await the same call. *)
From Tramp Require Import Model.Base Model.Fee Model.Classify Model.Node Model.Provider Model.Sys.
From Tramp Require Import Proofs.FeeProofs Proofs.SysBasics Proofs.EntryProofs Proofs.SysEntry Proofs.SysShape Proofs.SysTheorems.
From Coq Require Import ZifyBool ZifyNat ZifyN.

Definition live (st : cstatus) : Prop := st = Unprocessed \/ st = Running \/ exists y, st = Replied y.
Definition has_call (cs : list call) (k : nat) (q : rpc) : Prop :=
  exists st, nth_error cs k = Some {| c_rpc := q; c_st := st |} /\ live st.

Definition pc_calls_ok (c : cfg) (li : linfo) (cs : list call) (p : pc) : Prop :=
  match p with
  | PFetch k => has_call cs k QListState
  | PWait _ (WListP k) => has_call cs k QListPend
  | PWait _ (WListD k _) => has_call cs k QListDone
  | PWait _ (WParts aw) => forall pid cid, In (pid, cid) aw -> has_call cs cid (QWaitPart pid)
  | PMarkF1 k a g t => has_call cs k (QWriteAtt CreateOrReplace a true false (li_deliver li) (li_blob li))
  | PMarkF2 k a g t => has_call cs k (QWriteState MustReplace (Some g) DFree)
  | PAdd1 k a am mf md => exists t, has_call cs k (QWriteState CreateOrReplace None (DPending a t))
  | PAdd2 k a g am mf md => has_call cs k (QWriteAtt MustCreate a false false (li_deliver li) (li_blob li))
  | PPay k a g => exists am mf md, has_call cs k (QPay (li_blob li) am mf md (retry_for c))
  | PMS1 k a p => has_call cs k (QWriteState CreateOrReplace None (DSucc p))
  | PMS2 k a => has_call cs k (QWriteAtt MustReplace a true true (li_deliver li) (li_blob li))
  | PMFp1 k a g => has_call cs k (QWriteAtt CreateOrReplace a true false (li_deliver li) (li_blob li))
  | PMFp2 k a g => has_call cs k (QWriteState MustReplace (Some g) DFree)
  | PSelect _ | PEnd | PPanicked => True
  end.

Record InvC (c : cfg) (s : sys) : Prop := {
  ic_typed : forall i x, nth_error (lcs (pl s)) i = Some x -> pc_calls_ok c (l_info x) (calls s) (l_pc x);
  ic_disjoint : forall i j x y k, i <> j -> nth_error (lcs (pl s)) i = Some x -> nth_error (lcs (pl s)) j = Some y ->
                In k (awaits (l_pc x)) -> ~ In k (awaits (l_pc y))
}.

Lemma has_call_lt cs k q : has_call cs k q -> (k < length cs)%nat.
Proof. intros (st & H & _). apply nth_error_Some. congruence. Qed.

(* every awaited id is a valid index *)
Lemma pc_calls_ok_awaits_lt c li cs p : pc_calls_ok c li cs p -> forall k', In k' (awaits p) -> (k' < length cs)%nat.
Proof.
  destruct p; cbn [pc_calls_ok awaits]; intros H k' Hk; try (destruct Hk as [<-|[]]; eapply has_call_lt; eauto; fail); try (destruct Hk; fail).
  - destruct w as [k0|k0 l|aw]; cbn [awaits] in Hk.
    + destruct Hk as [<-|[]]. eapply has_call_lt; eauto.
    + destruct Hk as [<-|[]]. eapply has_call_lt; eauto.
    + apply in_map_iff in Hk as ((pid & cid) & <- & Hin). eapply has_call_lt. exact (H pid cid Hin).
  - destruct Hk as [<-|[]]. destruct H as (t & H). eapply has_call_lt; eauto.
  - destruct Hk as [<-|[]]. destruct H as (? & ? & ? & H). eapply has_call_lt; eauto.
Qed.

(* calls not touched by a step keep their typing *)
Definition same_on (cs cs' : list call) (k : nat) : Prop :=
  forall q, has_call cs k q -> has_call cs' k q.

Lemma pc_calls_ok_mono c li cs cs' p :
  (forall k, In k (awaits p) -> same_on cs cs' k) -> pc_calls_ok c li cs p -> pc_calls_ok c li cs' p.
Proof.
  intros Hs. destruct p; cbn [pc_calls_ok awaits] in *; try (intros H; apply (Hs _ (or_introl eq_refl)); exact H); auto.
  - destruct w as [k0|k0 l|aw]; cbn [awaits] in Hs; intros H.
    + apply (Hs _ (or_introl eq_refl)); exact H.
    + apply (Hs _ (or_introl eq_refl)); exact H.
    + intros pid cid Hin. apply (Hs cid); [apply in_map_iff; exists (pid, cid); auto|exact (H pid cid Hin)].
  - intros (t & H). exists t. apply (Hs _ (or_introl eq_refl)); exact H.
  - intros (am & mf & md & H). exists am, mf, md. apply (Hs _ (or_introl eq_refl)); exact H.
Qed.

(* the call table after installing a step: old calls keep rpc; statuses change only for the delivered and the cancelled ones *)
Lemma has_call_after cs cid cn new k q :
  has_call cs k q -> k <> cid -> ~ In k cn ->
  has_call (cancel_calls cn (set_status cid Delivered cs) ++ mk_calls new) k q.
Proof.
  intros (st & Hk & Hl) Hne Hnc.
  assert (H1 : nth_error (set_status cid Delivered cs) k = Some {| c_rpc := q; c_st := st |}) by (rewrite nth_set_status_other by congruence; exact Hk).
  assert (H2 : exists cl, nth_error (cancel_calls cn (set_status cid Delivered cs)) k = Some cl).
  { destruct (nth_error (cancel_calls cn (set_status cid Delivered cs)) k) eqn:E; [eauto|].
    apply nth_error_None in E. rewrite cancel_calls_length in E.
    assert (k < length (set_status cid Delivered cs))%nat by (apply nth_error_Some; congruence). lia. }
  destruct H2 as (cl & Hcl). destruct (cancel_calls_spec _ _ _ _ Hcl) as (cl0 & H0 & _ & Hsame & _).
  rewrite H1 in H0. inversion H0; subst cl0. rewrite (Hsame Hnc) in Hcl.
  exists st. split; [apply nth_app_l; exact Hcl|exact Hl].
Qed.

Lemma has_call_new cs' new j q : nth_error new j = Some q -> has_call (cs' ++ mk_calls new) (length cs' + j) q.
Proof.
  intros H. exists Unprocessed. split; [|left; reflexivity].
  rewrite nth_error_app2 by lia. replace (length cs' + j - length cs')%nat with j by lia.
  unfold mk_calls. rewrite nth_error_map, H. reflexivity.
Qed.

Lemma has_call_new0 cs' q rest : has_call (cs' ++ mk_calls (q :: rest)) (length cs') q.
Proof. pose proof (has_call_new cs' (q :: rest) 0 q eq_refl) as H. rewrite Nat.add_0_r in H. exact H. Qed.

Lemma table_length cs cid cn : length (cancel_calls cn (set_status cid Delivered cs)) = length cs.
Proof. rewrite cancel_calls_length, set_status_length. reflexivity. Qed.

(* ---------- the new pc of every shape is typed in the new table ---------- *)
Lemma wait_deliver_go_typed c li kk cs base w cid y w' new :
  base = length cs -> pc_calls_ok c li cs (PWait kk w) -> wait_deliver base w cid y = Some (WGo w' new) ->
  pc_calls_ok c li (cancel_calls [] (set_status cid Delivered cs) ++ mk_calls new) (PWait kk w').
Proof.
  intros Hb Hok Hw. pose proof (table_length cs cid []) as Hlen.
  destruct w as [k|k l|aw]; cbn in Hw.
  - destruct (negb _); [discriminate|]. destruct y; inversion Hw; subst. cbn [pc_calls_ok].
    rewrite <- Hlen. apply has_call_new0.
  - destruct (negb _); [discriminate|]. destruct y as [| | | |[|? ?]| | | |]; try (inversion Hw; fail).
    destruct l as [|l0 l]; inversion Hw; subst. cbn [pc_calls_ok]. intros pid c0 Hin.
    change ((l0, length cs) :: number_from (S (length cs)) l) with (number_from (length cs) (l0 :: l)) in Hin.
    destruct (number_from_spec _ _ _ _ Hin) as (j & Hj & ->).
    rewrite <- Hlen. change (QWaitPart l0 :: map QWaitPart l) with (map QWaitPart (l0 :: l)). apply has_call_new. rewrite nth_error_map, Hj. reflexivity.
  - destruct (negb (existsb _ aw)) eqn:Eex; [discriminate|]. destruct y; try (inversion Hw; fail).
    destruct (filter (fun x => negb (Nat.eqb (snd x) cid)) aw) as [|r0 rest] eqn:Ef; inversion Hw; subst.
    cbn [pc_calls_ok] in *. intros pid c0 Hin.
    assert (Hin' : In (pid, c0) (filter (fun x => negb (Nat.eqb (snd x) cid)) aw)) by (rewrite Ef; exact Hin).
    apply filter_In in Hin' as (Ha & Hc). cbn in Hc. apply negb_true_iff, Nat.eqb_neq in Hc.
    cbn [mk_calls map]. rewrite app_nil_r. unfold cancel_calls; cbn [fold_left].
    destruct (Hok pid c0 Ha) as (st & Hk & Hl). exists st. split; [rewrite nth_set_status_other by congruence; exact Hk|exact Hl].
Qed.

Lemma lc_shape_typed c li cs base tnow p cid y sh :
  base = length cs -> pc_calls_ok c li cs p -> lc_shape c li base tnow p cid y = Some sh ->
  match sh with
  | LKeep p' new _ cancel => pc_calls_ok c li (cancel_calls cancel (set_status cid Delivered cs) ++ mk_calls new) p'
  | LResolve _ p' new cancel => pc_calls_ok c li (cancel_calls cancel (set_status cid Delivered cs) ++ mk_calls new) p'
  | LSelect _ => True
  end.
Proof.
  intros Hb Hok.
  assert (New1 : forall cn q, has_call (cancel_calls cn (set_status cid Delivered cs) ++ mk_calls [q]) base q).
  { intros cn q. subst base. rewrite <- (table_length cs cid cn). apply has_call_new0. }
  destruct p; unfold lc_shape; try discriminate;
    try (destruct (negb (Nat.eqb cid0 cid)); [discriminate|]).
  - destruct y as [[[[| | |] ?]|]| | | | | | | |]; intros H; inversion H; subst; cbn [pc_calls_ok wait_start fst snd]; auto; apply New1.
  - destruct (wait_deliver base w cid y) as [[w' nw|[pr| |] cn]|] eqn:Ew; try discriminate.
    + intros H; inversion H; subst. eapply wait_deliver_go_typed; eauto.
    + intros H; inversion H; subst. cbn [shape_succeed pc_calls_ok]. apply New1.
    + destruct k; intros H; inversion H; subst; cbn [shape_pay_failed pc_calls_ok]; apply New1.
    + destruct k; intros H; inversion H; subst; cbn [shape_pay_failed pc_calls_ok]; auto; apply New1.
  - destruct y; intros H; inversion H; subst; cbn [pc_calls_ok]; auto; apply New1.
  - destruct y; intros H; inversion H; subst; cbn [pc_calls_ok]; auto.
  - destruct y; intros H; inversion H; subst; cbn [pc_calls_ok]; auto; apply New1.
  - destruct y; intros H; inversion H; subst; cbn [pc_calls_ok]; auto. eexists _, _, _. apply New1.
  - destruct (pay_reply y); intros H; inversion H; subst; cbn [shape_succeed shape_pay_failed pc_calls_ok wait_start fst snd]; apply New1.
  - destruct y; intros H; inversion H; subst; cbn [pc_calls_ok]; auto; apply New1.
  - intros H; inversion H; subst; cbn [pc_calls_ok]; auto.
  - destruct y; intros H; inversion H; subst; cbn [pc_calls_ok]; auto; apply New1.
  - intros H; inversion H; subst; cbn [pc_calls_ok]; auto.
Qed.

(* ---------- which ids the new pc awaits: fresh ones, or ones the old pc awaited that were neither delivered nor cancelled ---------- *)
Definition shape_pc (sh : lres) : option (pc * list nat) :=
  match sh with LKeep p' _ _ cn | LResolve _ p' _ cn => Some (p', cn) | LSelect _ => None end.

Lemma wait_deliver_awaits base w cid y w' new :
  wait_deliver base w cid y = Some (WGo w' new) ->
  forall kk k, In k (awaits (PWait kk w')) -> (base <= k)%nat \/ (In k (awaits (PWait kk w)) /\ k <> cid).
Proof.
  intros Hw kk k Hk. destruct w as [k0|k0 l|aw]; cbn in Hw.
  - destruct (negb _); [discriminate|]. destruct y; inversion Hw; subst. cbn in Hk. destruct Hk as [<-|[]]. left; lia.
  - destruct (negb _); [discriminate|]. destruct y as [| | | |[|? ?]| | | |]; try (inversion Hw; fail).
    destruct l as [|l0 l]; inversion Hw; subst. cbn [awaits] in Hk. apply in_map_iff in Hk as ((pid & c0) & <- & Hin).
    change ((l0, base) :: number_from (S base) l) with (number_from base (l0 :: l)) in Hin.
    destruct (number_from_spec _ _ _ _ Hin) as (j & _ & ->). left. cbn. lia.
  - destruct (negb (existsb _ aw)); [discriminate|]. destruct y; try (inversion Hw; fail).
    destruct (filter (fun x => negb (Nat.eqb (snd x) cid)) aw) as [|r0 rest] eqn:Ef; inversion Hw; subst.
    cbn [awaits] in *. apply in_map_iff in Hk as ((pid & c0) & <- & Hin).
    assert (Hin' : In (pid, c0) (filter (fun x => negb (Nat.eqb (snd x) cid)) aw)) by (rewrite Ef; exact Hin).
    apply filter_In in Hin' as (Ha & Hc). cbn in Hc. apply negb_true_iff, Nat.eqb_neq in Hc.
    right. split; [apply in_map_iff; exists (pid, c0); auto|cbn; congruence].
Qed.

Lemma wait_deliver_cancel base w cid y r cancel :
  wait_deliver base w cid y = Some (WFin r cancel) -> forall kk k, In k cancel -> In k (awaits (PWait kk w)) /\ k <> cid.
Proof.
  intros Hw kk k Hk. destruct w as [k0|k0 l|aw]; cbn in Hw.
  - destruct (negb _); [discriminate|]. destruct y; inversion Hw; subst; destruct Hk.
  - destruct (negb _); [discriminate|]. destruct y as [| | | |[|? ?]| | | |]; try (inversion Hw; subst; destruct Hk; fail).
    destruct l; inversion Hw; subst; destruct Hk.
  - destruct (negb (existsb _ aw)); [discriminate|].
    assert (G : In k (map snd (filter (fun x => negb (Nat.eqb (snd x) cid)) aw)) -> In k (awaits (PWait kk (WParts aw))) /\ k <> cid).
    { intros H. apply in_map_iff in H as ((pid & c0) & <- & Hin). apply filter_In in Hin as (Ha & Hc). cbn in Hc. apply negb_true_iff, Nat.eqb_neq in Hc.
      split; [cbn; apply in_map_iff; exists (pid, c0); auto|cbn; congruence]. }
    destruct y; try (inversion Hw; subst; auto; fail).
    destruct (filter (fun x => negb (Nat.eqb (snd x) cid)) aw); inversion Hw; subst; destruct Hk.
Qed.

Lemma lc_shape_awaits c li base tnow p cid y sh p' cn :
  lc_shape c li base tnow p cid y = Some sh -> shape_pc sh = Some (p', cn) ->
  (forall k, In k (awaits p') -> (base <= k)%nat \/ (In k (awaits p) /\ k <> cid /\ ~ In k cn)) /\
  (forall k, In k cn -> In k (awaits p) /\ k <> cid).
Proof.
  destruct p; unfold lc_shape; try discriminate;
    try (destruct (negb (Nat.eqb cid0 cid)); [discriminate|]).
  - destruct y as [[[[| | |] ?]|]| | | | | | | |]; intros H; inversion H; subst; cbn [shape_pc]; intros Hs; inversion Hs; subst; cbn [awaits wait_start fst];
      (split; [intros k0 Hk; try (destruct Hk as [<-|[]]; left; lia); try destruct Hk|intros k0 []]).
  - destruct (wait_deliver base w cid y) as [[w' nw|[pr| |] cn0]|] eqn:Ew; try discriminate.
    + intros H; inversion H; subst. cbn [shape_pc]. intros Hs; inversion Hs; subst. split; [|intros k0 []].
      intros k0 Hk. destruct (wait_deliver_awaits _ _ _ _ _ _ Ew k k0 Hk) as [A|(A & B)]; [left; exact A|right; auto].
    + intros H; inversion H; subst. cbn [shape_succeed shape_pc]. intros Hs; inversion Hs; subst. split.
      * intros k0 Hk. cbn in Hk. destruct Hk as [<-|[]]. left; lia.
      * intros k0 Hk. exact (wait_deliver_cancel _ _ _ _ _ _ Ew k k0 Hk).
    + destruct k; intros H; inversion H; subst; cbn [shape_pay_failed shape_pc]; intros Hs; inversion Hs; subst;
        (split; [intros k0 Hk; cbn in Hk; destruct Hk as [<-|[]]; left; lia|intros k0 []]).
    + destruct k; intros H; inversion H; subst; cbn [shape_pay_failed shape_pc]; intros Hs; inversion Hs; subst.
      * split; [intros k0 []|intros k0 Hk; exact (wait_deliver_cancel _ _ _ _ _ _ Ew (AfterRestart a g t) k0 Hk)].
      * split; [intros k0 Hk; cbn in Hk; destruct Hk as [<-|[]]; left; lia|intros k0 Hk; exact (wait_deliver_cancel _ _ _ _ _ _ Ew (AfterPay a g) k0 Hk)].
  - destruct y; intros H; inversion H; subst; cbn [shape_pc]; intros Hs; inversion Hs; subst; cbn [awaits];
      (split; [intros k0 Hk; try (destruct Hk as [<-|[]]; left; lia); try destruct Hk|intros k0 []]).
  - destruct y; intros H; inversion H; subst; cbn [shape_pc]; intros Hs; inversion Hs; subst; cbn [awaits];
      (split; [intros k0 Hk; try (destruct Hk as [<-|[]]; left; lia); try destruct Hk|intros k0 []]).
  - destruct y; intros H; inversion H; subst; cbn [shape_pc]; intros Hs; inversion Hs; subst; cbn [awaits];
      (split; [intros k0 Hk; try (destruct Hk as [<-|[]]; left; lia); try destruct Hk|intros k0 []]).
  - destruct y; intros H; inversion H; subst; cbn [shape_pc]; intros Hs; inversion Hs; subst; cbn [awaits];
      (split; [intros k0 Hk; try (destruct Hk as [<-|[]]; left; lia); try destruct Hk|intros k0 []]).
  - destruct (pay_reply y); intros H; inversion H; subst; cbn [shape_succeed shape_pay_failed shape_pc]; intros Hs; inversion Hs; subst; cbn [awaits wait_start fst];
      (split; [intros k0 Hk; try (destruct Hk as [<-|[]]; left; lia); try destruct Hk|intros k0 []]).
  - destruct y; intros H; inversion H; subst; cbn [shape_pc]; intros Hs; inversion Hs; subst; cbn [awaits];
      (split; [intros k0 Hk; try (destruct Hk as [<-|[]]; left; lia); try destruct Hk|intros k0 []]).
  - intros H; inversion H; subst; cbn [shape_pc]; intros Hs; inversion Hs; subst; cbn [awaits]; (split; [intros k0 []|intros k0 []]).
  - destruct y; intros H; inversion H; subst; cbn [shape_pc]; intros Hs; inversion Hs; subst; cbn [awaits];
      (split; [intros k0 Hk; try (destruct Hk as [<-|[]]; left; lia); try destruct Hk|intros k0 []]).
  - intros H; inversion H; subst; cbn [shape_pc]; intros Hs; inversion Hs; subst; cbn [awaits]; (split; [intros k0 []|intros k0 []]).
Qed.

(* ---------- installing a step preserves InvC ---------- *)
Lemma set_status_oob cid st (cs : list call) : (length cs <= cid)%nat -> set_status cid st cs = cs.
Proof. intros H. unfold set_status. destruct (nth_error cs cid) eqn:E; [|reflexivity]. apply nth_error_None in H. congruence. Qed.

Lemma apply_adv_InvC c s i a x cid :
  InvC c s -> nth_error (lcs (pl s)) i = Some x ->
  (forall j y, j <> i -> nth_error (lcs (pl s)) j = Some y -> ~ In cid (awaits (l_pc y))) ->
  pc_calls_ok c (l_info x) (cancel_calls (a_cancel a) (set_status cid Delivered (calls s)) ++ mk_calls (a_new a)) (a_pc a) ->
  (forall k, In k (awaits (a_pc a)) -> (length (calls s) <= k)%nat \/ (In k (awaits (l_pc x)) /\ k <> cid /\ ~ In k (a_cancel a))) ->
  (forall k, In k (a_cancel a) -> In k (awaits (l_pc x)) /\ k <> cid) ->
  InvC c (fst (apply_adv (with_calls s (set_status cid Delivered (calls s))) i a)).
Proof.
  intros [Ht Hd] Hx Hcid Hnew Haw Hcn.
  destruct (apply_adv_lcs (with_calls s (set_status cid Delivered (calls s))) i a x Hx) as (Hl & _ & _ & _ & _ & Hcalls & _).
  cbn [with_calls calls] in Hcalls.
  constructor.
  - intros j y Hy. rewrite Hl in Hy. rewrite Hcalls.
    destruct (nth_upd_cases _ _ _ _ _ Hy) as [[-> ->]|[Hne Hy']].
    + cbn [set_pc l_pc l_info]. exact Hnew.
    + cbn [with_calls pl lcs] in Hy'. apply (pc_calls_ok_mono c (l_info y) (calls s)); [|exact (Ht j y Hy')].
      intros k Hk q Hq. apply has_call_after; [exact Hq| |].
      * intros ->. exact (Hcid j y (not_eq_sym Hne) Hy' Hk).
      * intros Hin. destruct (Hcn k Hin) as (Hkx & _). exact (Hd i j x y k Hne Hx Hy' Hkx Hk).
  - intros j1 j2 y1 y2 k Hne Hy1 Hy2 Hk1 Hk2. rewrite Hl in Hy1, Hy2. cbn [with_calls pl lcs] in Hy1, Hy2.
    destruct (nth_upd_cases _ _ _ _ _ Hy1) as [[E1 ->]|[Hn1 Hy1']]; destruct (nth_upd_cases _ _ _ _ _ Hy2) as [[E2 ->]|[Hn2 Hy2']]; try congruence.
    + subst j1. cbn [set_pc l_pc] in Hk1. destruct (Haw k Hk1) as [Hge|(Hkx & _)].
      * pose proof (pc_calls_ok_awaits_lt c _ _ _ (Ht j2 y2 Hy2') k Hk2). lia.
      * exact (Hd i j2 x y2 k Hn2 Hx Hy2' Hkx Hk2).
    + subst j2. cbn [set_pc l_pc] in Hk2. destruct (Haw k Hk2) as [Hge|(Hkx & _)].
      * pose proof (pc_calls_ok_awaits_lt c _ _ _ (Ht j1 y1 Hy1') k Hk1). lia.
      * exact (Hd i j1 x y1 k Hn1 Hx Hy1' Hkx Hk1).
    + exact (Hd j1 j2 y1 y2 k Hne Hy1' Hy2' Hk1 Hk2).
Qed.

(* what the select! can turn a lifecycle into, and the typing of that *)
Lemma select_poll_typed c li cs base hgt tnow d e sel na :
  base = length cs ->
  let a := select_poll c li base hgt tnow d e sel na in
  pc_calls_ok c li (cancel_calls (a_cancel a) cs ++ mk_calls (a_new a)) (a_pc a) /\
  (forall k, In k (awaits (a_pc a)) -> (base <= k)%nat) /\ a_cancel a = [].
Proof.
  intros Hb. unfold select_poll. destruct e as [en|]; [|unfold stay; cbn; repeat split; auto; intros k []].
  assert (GP : forall e0, let a := go_pay c li base hgt tnow (Some e0) na in
          pc_calls_ok c li (cancel_calls (a_cancel a) cs ++ mk_calls (a_new a)) (a_pc a) /\ (forall k, In k (awaits (a_pc a)) -> (base <= k)%nat) /\ a_cancel a = []).
  { intros e0. unfold go_pay. cbn [a_pc a_cancel a_new cancel_calls fold_left pc_calls_ok awaits]. split; [|split; [intros k [<-|[]]; lia|reflexivity]].
    exists tnow. subst base. apply has_call_new0. }
  assert (DR : forall e0 r, let a := do_resolve e0 r PEnd [] [] [] na in
          pc_calls_ok c li (cancel_calls (a_cancel a) cs ++ mk_calls (a_new a)) (a_pc a) /\ (forall k, In k (awaits (a_pc a)) -> (base <= k)%nat) /\ a_cancel a = []).
  { intros e0 r. unfold do_resolve. destruct e0; cbn; repeat split; auto; intros k []. }
  destruct (rdy_q en); destruct (fail_q en) as [r|].
  - destruct sel; [apply GP|apply DR].
  - apply GP.
  - apply DR.
  - unfold stay. cbn. repeat split; auto. intros k [].
Qed.

Lemma enter_select_typed c li cs base hgt tnow d e sel na :
  base = length cs ->
  let a := enter_select c li base hgt tnow d e sel na in
  pc_calls_ok c li (cancel_calls (a_cancel a) cs ++ mk_calls (a_new a)) (a_pc a) /\
  (forall k, In k (awaits (a_pc a)) -> (base <= k)%nat) /\ a_cancel a = [].
Proof.
  intros Hb. unfold enter_select. destruct (d =? 0); [|apply select_poll_typed; exact Hb].
  unfold do_resolve. destruct e; cbn; repeat split; auto; intros k [].
Qed.

Lemma live_change cs k st' cl :
  nth_error cs k = Some cl -> live st' ->
  forall k' q, has_call cs k' q -> has_call (set_status k st' cs) k' q.
Proof.
  intros Hk Hl k' q (st & Hq & Hlq). destruct (Nat.eq_dec k k') as [->|Hne].
  - rewrite Hk in Hq. inversion Hq; subst. exists st'. split; [exact (nth_set_status_same _ _ _ _ Hk)|exact Hl].
  - exists st. split; [rewrite nth_set_status_other by exact Hne; exact Hq|exact Hlq].
Qed.

Lemma InvC_calls_change c s cs' :
  (forall k q, has_call (calls s) k q -> has_call cs' k q) ->
  forall s', pl s' = pl s -> calls s' = cs' -> InvC c s -> InvC c s'.
Proof.
  intros H s' Hp Hc [Ht Hd]. constructor; rewrite Hp.
  - intros i x Hx. rewrite Hc. apply (pc_calls_ok_mono c _ (calls s)); [intros k _ q; apply H|exact (Ht i x Hx)].
  - exact Hd.
Qed.

Lemma fire_timers_pcs : forall l e t l' e' o' i y,
  fire_timers l e t = (l', e', o') -> nth_error l' i = Some y ->
  exists x, nth_error l i = Some x /\ l_info y = l_info x /\ (l_pc y = l_pc x \/ ((exists d, l_pc x = PSelect d) /\ (l_pc y = PEnd \/ l_pc y = PPanicked))).
Proof.
  induction l as [|z r IH]; intros e t l' e' o' i y H Hy; unfold fire_timers in H; fold fire_timers in H; [inversion H; subst; destruct i; discriminate|].
  destruct (l_pc z) eqn:Hz;
    try (destruct (fire_timers r e t) as [[r' e1] o1] eqn:E2; inversion H; subst;
         destruct i as [|i]; cbn in Hy; [inversion Hy; subst; exists y; cbn; auto|destruct (IH _ _ _ _ _ _ _ E2 Hy) as (x & A & B); exists x; auto]).
  destruct (deadline <=? t).
  - destruct e as [en|]; destruct (fire_timers r None t) as [[r' e1] o1] eqn:E2; inversion H; subst;
      (destruct i as [|i]; cbn in Hy; [inversion Hy; subst; exists z; cbn; split; [reflexivity|split; [reflexivity|right; split; [eauto|auto]]]|destruct (IH _ _ _ _ _ _ _ E2 Hy) as (x & A & B); exists x; auto]).
  - destruct (fire_timers r e t) as [[r' e1] o1] eqn:E2; inversion H; subst.
    destruct i as [|i]; cbn in Hy; [inversion Hy; subst; exists y; cbn; auto|destruct (IH _ _ _ _ _ _ _ E2 Hy) as (x & A & B); exists x; auto].
Qed.

(* ---------- reusable pieces ---------- *)
(* an awaited call always finds its owner *)
Lemma find_owner_awaited c cid y sel e base hgt tnow na : forall l n j z,
  nth_error l j = Some z -> In cid (awaits (l_pc z)) ->
  find_owner c n l cid y sel e base hgt tnow na <> None.
Proof.
  induction l as [|w r IH]; intros n j z Hj Hin; [destruct j; discriminate|].
  unfold find_owner; fold find_owner. destruct (lc_deliver c (l_info w) base hgt tnow (l_pc w) cid y sel e na) eqn:E; [discriminate|].
  destruct j as [|j]; cbn in Hj; [|exact (IH _ j z Hj Hin)].
  inversion Hj; subst w. exfalso. rewrite lc_deliver_shape in E.
  destruct (lc_shape c (l_info z) base tnow (l_pc z) cid y) eqn:Es; [discriminate|].
  clear -Hin Es. destruct (l_pc z); cbn [awaits] in Hin; unfold lc_shape in Es;
    try (destruct Hin as [<-|[]]; rewrite Nat.eqb_refl in Es; cbn in Es; discriminate); try (destruct Hin; fail).
  destruct w as [k0|k0 l|aw]; cbn [awaits] in Hin.
  - destruct Hin as [<-|[]]. cbn in Es. rewrite Nat.eqb_refl in Es. cbn in Es. destruct y; discriminate.
  - destruct Hin as [<-|[]]. cbn in Es. rewrite Nat.eqb_refl in Es. cbn in Es. destruct y as [| | | |[|? ?]| | | |]; try discriminate; destruct l; try discriminate; destruct k; discriminate.
  - cbn in Es. assert (X : existsb (fun x => Nat.eqb (snd x) cid) aw = true).
    { apply in_map_iff in Hin as ((pid & c0) & Hc & Hi). apply existsb_exists. exists (pid, c0). split; [exact Hi|]. cbn in *. subst. apply Nat.eqb_refl. }
    rewrite X in Es. cbn in Es. destruct y; try (destruct k; discriminate). destruct (filter _ aw); [destruct k; discriminate|discriminate].
Qed.

(* the first HTLC of a set: a new lifecycle is spawned with its state fetch *)
Definition spawn (s : sys) (h : htlc) (e1 : entry) : sys :=
  {| nd := nd s;
     pl := {| entry_ := Some e1;
              lcs := lcs (pl s) ++ [{| l_pc := PFetch (length (calls s)); l_info := {| li_blob := blob h; li_deliver := deliver h; li_inv_amount := inv_amount h |} |}];
              next_att := next_att (pl s) |};
     calls := calls s ++ mk_calls [QListState]; now := now s; height := height s |}.

Lemma spawn_lcs s h e1 i x :
  nth_error (lcs (pl (spawn s h e1))) i = Some x ->
  (nth_error (lcs (pl s)) i = Some x /\ (i < length (lcs (pl s)))%nat) \/ (i = length (lcs (pl s)) /\ l_pc x = PFetch (length (calls s))).
Proof.
  cbn [spawn pl lcs]. intros H0. destruct (Nat.lt_ge_cases i (length (lcs (pl s)))) as [Hlt|Hge].
  - rewrite nth_error_app1 in H0 by exact Hlt. auto.
  - rewrite nth_error_app2 in H0 by exact Hge. destruct (i - length (lcs (pl s)))%nat as [|k0] eqn:Ek; cbn in H0; [|destruct k0; discriminate].
    inversion H0; subst. right. split; [lia|reflexivity].
Qed.

Lemma spawn_InvC c s h e1 : InvC c s -> InvC c (spawn s h e1).
Proof.
  intros [Ht Hd]. constructor.
  - intros i x Hx. destruct (spawn_lcs s h e1 i x Hx) as [(Hx' & _)|(_ & Hp)]; cbn [spawn calls].
    + apply (pc_calls_ok_mono c _ (calls s)); [|exact (Ht i x Hx')].
      intros k _ q (st & Hq & Hl). exists st. split; [apply nth_app_l; exact Hq|exact Hl].
    + rewrite Hp. cbn [pc_calls_ok]. apply has_call_new0.
  - intros i j x y k Hne Hx Hy Hkx Hky.
    destruct (spawn_lcs s h e1 i x Hx) as [(Hx' & Hi)|(Hi & Hpx)]; destruct (spawn_lcs s h e1 j y Hy) as [(Hy' & Hj)|(Hj & Hpy)].
    + exact (Hd i j x y k Hne Hx' Hy' Hkx Hky).
    + rewrite Hpy in Hky. cbn in Hky. destruct Hky as [<-|[]]. pose proof (pc_calls_ok_awaits_lt c _ _ _ (Ht i x Hx') _ Hkx). lia.
    + rewrite Hpx in Hkx. cbn in Hkx. destruct Hkx as [<-|[]]. pose proof (pc_calls_ok_awaits_lt c _ _ _ (Ht j y Hy') _ Hky). lia.
    + lia.
Qed.



Lemma spawn_InvU s h e1 : InvU s -> entry_ (pl s) = None -> InvU (spawn s h e1).
Proof. unfold InvU. intros H E. rewrite E in H. cbn [spawn pl entry_ lcs]. rewrite n_att_app, H. reflexivity. Qed.

Theorem step_InvC c s ev : InvC c s -> InvC c (fst (step c s ev)).
Proof.
  intros HC. pose proof HC as [Ht Hd]. destruct ev; cbn [step].
  - (* EvHtlc *)
    destruct (entry_ (pl s)) as [e|] eqn:He.
    + constructor; cbn; assumption.
    + exact (spawn_InvC c s h _ HC).
  - (* EvPoll *)
    destruct (find_select 0 (lcs (pl s))) as [[[i d] li]|] eqn:Hf; [|exact HC].
    destruct (find_select_spec _ _ _ _ _ Hf) as (x & Hx & Hp & Hli & _). rewrite Nat.sub_0_r in Hx. subst li.
    pose proof (select_poll_typed c (l_info x) (calls s) (length (calls s)) (height s) (now s) d (entry_ (pl s)) sel (next_att (pl s)) eq_refl) as (T1 & T2 & T3).
    pose proof (apply_adv_InvC c s i (select_poll c (l_info x) (length (calls s)) (height s) (now s) d (entry_ (pl s)) sel (next_att (pl s))) x (length (calls s)) HC Hx) as G.
    rewrite set_status_oob in G by lia.
    assert (E : with_calls s (calls s) = s) by (destruct s; reflexivity). rewrite E in G.
    apply G.
    + intros j y Hne Hy Hin. pose proof (pc_calls_ok_awaits_lt c _ _ _ (Ht j y Hy) _ Hin). lia.
    + exact T1.
    + intros k Hk. left. exact (T2 k Hk).
    + rewrite T3. intros k [].
  - (* EvProcess *)
    destruct (nth_error (calls s) cid) as [cl|] eqn:Hcl; [|exact HC]. destruct (c_st cl) eqn:Hst; try exact HC.
    destruct (node_exec (nd s) (c_rpc cl) f) as [n' y].
    eapply (InvC_calls_change c s); [|reflexivity|reflexivity|exact HC].
    apply (live_change _ _ _ cl Hcl). destruct y; [right; right; eauto|destruct (c_rpc cl); [left|left|left|left|left|left|right; left]; reflexivity].
  - (* EvDeliver *)
    destruct (nth_error (calls s) cid) as [cl|] eqn:Hcl; [|exact HC]. destruct (c_st cl) eqn:Hst; try exact HC.
    destruct (find_owner c 0 (lcs (pl s)) cid y sel (entry_ (pl s)) (length (calls s)) (height s) (now s) (next_att (pl s))) as [[i a]|] eqn:Hf.
    2:{ (* nobody awaits it: every awaited call keeps its status *)
        constructor; cbn [fst with_calls pl lcs calls]; [|exact Hd].
        intros i x Hx. apply (pc_calls_ok_mono c _ (calls s)); [|exact (Ht i x Hx)].
        intros k Hk q (st & Hq & Hl). destruct (Nat.eq_dec k cid) as [->|Hne].
        - exfalso. clear -Hf Hx Hk Hcl Hst.
          assert (G : forall l n j z, nth_error l j = Some z -> In cid (awaits (l_pc z)) ->
                      find_owner c n l cid y sel (entry_ (pl s)) (length (calls s)) (height s) (now s) (next_att (pl s)) <> None).
          { induction l as [|w r IH]; intros n j z Hj Hin; [destruct j; discriminate|].
            unfold find_owner; fold find_owner. destruct (lc_deliver c (l_info w) (length (calls s)) (height s) (now s) (l_pc w) cid y sel (entry_ (pl s)) (next_att (pl s))) eqn:E; [discriminate|].
            destruct j as [|j]; cbn in Hj; [|exact (IH _ j z Hj Hin)].
            inversion Hj; subst w. exfalso. rewrite lc_deliver_shape in E.
            destruct (lc_shape c (l_info z) (length (calls s)) (now s) (l_pc z) cid y) eqn:Es; [discriminate|].
            clear -Hin Es. destruct (l_pc z); cbn [awaits] in Hin; unfold lc_shape in Es;
              try (destruct Hin as [<-|[]]; rewrite Nat.eqb_refl in Es; cbn in Es; discriminate); try (destruct Hin; fail).
            destruct w as [k0|k0 l|aw]; cbn [awaits] in Hin.
            - destruct Hin as [<-|[]]. cbn in Es. rewrite Nat.eqb_refl in Es. cbn in Es. destruct y; discriminate.
            - destruct Hin as [<-|[]]. cbn in Es. rewrite Nat.eqb_refl in Es. cbn in Es. destruct y as [| | | |[|? ?]| | | |]; try discriminate; destruct l; try discriminate; destruct k; discriminate.
            - cbn in Es. assert (X : existsb (fun x => Nat.eqb (snd x) cid) aw = true).
              { apply in_map_iff in Hin as ((pid & c0) & Hc & Hi). apply existsb_exists. exists (pid, c0). split; [exact Hi|]. cbn in *. subst. apply Nat.eqb_refl. }
              rewrite X in Es. cbn in Es. destruct y; try (destruct k; discriminate). destruct (filter _ aw); [destruct k; discriminate|discriminate]. }
          exact (G _ _ _ _ Hx Hk Hf).
        - exists st. split; [cbn [fst with_calls calls]; rewrite nth_set_status_other by congruence; exact Hq|exact Hl]. }
    destruct (find_owner_spec _ _ _ _ _ _ _ _ _ _ _ _ _ Hf) as (x & Hx & _ & Hdl). rewrite Nat.sub_0_r in Hx.
    pose proof (lc_deliver_awaits _ _ _ _ _ _ _ _ _ _ _ _ Hdl) as Hcidx.
    apply (apply_adv_InvC c s i a x cid HC Hx).
    + intros j z Hne Hz Hin. exact (Hd i j x z cid (not_eq_sym Hne) Hx Hz Hcidx Hin).
    + rewrite lc_deliver_shape in Hdl. destruct (lc_shape c (l_info x) (length (calls s)) (now s) (l_pc x) cid y) as [sh|] eqn:Hsh; [|discriminate].
      cbn [option_map] in Hdl. inversion Hdl; subst a; clear Hdl.
      pose proof (lc_shape_typed c (l_info x) (calls s) _ _ _ _ _ _ eq_refl (Ht i x Hx) Hsh) as Hty.
      destruct sh as [p' new out cancel|r p' new cancel|d]; cbn [adv_of a_pc a_new a_cancel].
      * exact Hty.
      * unfold do_resolve. destruct (entry_ (pl s)); cbn [a_pc a_new a_cancel]; [exact Hty|exact I].
      * pose proof (enter_select_typed c (l_info x) (set_status cid Delivered (calls s)) (length (calls s)) (height s) (now s) d (entry_ (pl s)) sel (next_att (pl s)) ltac:(rewrite set_status_length; reflexivity)) as (T1 & _ & _). exact T1.
    + rewrite lc_deliver_shape in Hdl. destruct (lc_shape c (l_info x) (length (calls s)) (now s) (l_pc x) cid y) as [sh|] eqn:Hsh; [|discriminate].
      cbn [option_map] in Hdl. inversion Hdl; subst a; clear Hdl.
      destruct sh as [p' new out cancel|r p' new cancel|d]; cbn [adv_of a_pc a_new a_cancel].
      * exact (proj1 (lc_shape_awaits _ _ _ _ _ _ _ _ _ _ Hsh eq_refl)).
      * unfold do_resolve. destruct (entry_ (pl s)); cbn [a_pc a_cancel]; [exact (proj1 (lc_shape_awaits _ _ _ _ _ _ _ _ _ _ Hsh eq_refl))|intros k []].
      * pose proof (enter_select_typed c (l_info x) (calls s) (length (calls s)) (height s) (now s) d (entry_ (pl s)) sel (next_att (pl s)) eq_refl) as (_ & T2 & _).
        intros k Hk. left. exact (T2 k Hk).
    + rewrite lc_deliver_shape in Hdl. destruct (lc_shape c (l_info x) (length (calls s)) (now s) (l_pc x) cid y) as [sh|] eqn:Hsh; [|discriminate].
      cbn [option_map] in Hdl. inversion Hdl; subst a; clear Hdl.
      destruct sh as [p' new out cancel|r p' new cancel|d]; cbn [adv_of a_cancel].
      * exact (proj2 (lc_shape_awaits _ _ _ _ _ _ _ _ _ _ Hsh eq_refl)).
      * unfold do_resolve. destruct (entry_ (pl s)); cbn [a_cancel]; exact (proj2 (lc_shape_awaits _ _ _ _ _ _ _ _ _ _ Hsh eq_refl)).
      * pose proof (enter_select_typed c (l_info x) (calls s) (length (calls s)) (height s) (now s) d (entry_ (pl s)) sel (next_att (pl s)) eq_refl) as (_ & _ & T3).
        rewrite T3. intros k [].
  - destruct (nth_error (parts (nd s)) pid) as [[]|], st; try exact HC; (eapply (InvC_calls_change c s); [|reflexivity|reflexivity|exact HC]; auto).
  - destruct (nth_error (calls s) cid) as [[q st]|]; [|exact HC]. destruct q; try exact HC. destruct st; try exact HC.
    eapply (InvC_calls_change c s); [|reflexivity|reflexivity|exact HC]; auto.
  - (* EvPayFinish *)
    destruct (nth_error (calls s) cid) as [[q st]|] eqn:Hcl; [|exact HC]. destruct q; try exact HC. destruct st; try exact HC.
    eapply (InvC_calls_change c s); [|reflexivity|reflexivity|exact HC].
    apply (live_change _ _ _ _ Hcl). right; right; eauto.
  - (* EvTick *)
    destruct (fire_timers (lcs (pl s)) (entry_ (pl s)) (now s + dt)) as [[l' e'] o'] eqn:Hf.
    constructor; cbn [fst pl lcs calls].
    + intros i y Hy. destruct (fire_timers_pcs _ _ _ _ _ _ _ _ Hf Hy) as (x & Hx & Hi & [Hp|(_ & [Hp|Hp])]); rewrite Hi, Hp; [exact (Ht i x Hx)|exact I|exact I].
    + intros i j x y k Hne Hx Hy Hkx Hky.
      destruct (fire_timers_pcs _ _ _ _ _ _ _ _ Hf Hx) as (x0 & Hx0 & _ & Hpx).
      destruct (fire_timers_pcs _ _ _ _ _ _ _ _ Hf Hy) as (y0 & Hy0 & _ & Hpy).
      destruct Hpx as [Hpx|(_ & [Hpx|Hpx])]; rewrite Hpx in Hkx; try (destruct Hkx; fail).
      destruct Hpy as [Hpy|(_ & [Hpy|Hpy])]; rewrite Hpy in Hky; try (destruct Hky; fail).
      exact (Hd i j x0 y0 k Hne Hx0 Hy0 Hkx Hky).
  - eapply (InvC_calls_change c s); [|reflexivity|reflexivity|exact HC]; auto.
  - (* EvCrash *) constructor; cbn; [intros [|i] x Hx; discriminate|intros [|i] j x y k _ Hx; discriminate].
Qed.

(* ---------- totality of ownership: every live call is awaited by some lifecycle (InvO) ---------- *)
Definition InvO (s : sys) : Prop :=
  forall k cl, nth_error (calls s) k = Some cl -> live (c_st cl) -> exists i x, nth_error (lcs (pl s)) i = Some x /\ In k (awaits (l_pc x)).

Lemma spawn_InvO s h e1 : InvO s -> InvO (spawn s h e1).
Proof.
  intros HO k cl Hk Hl. cbn [spawn calls pl lcs] in *. destruct (Nat.lt_ge_cases k (length (calls s))) as [Hlt|Hge].
  - rewrite nth_error_app1 in Hk by exact Hlt. destruct (HO k cl Hk Hl) as (i & x & Hx & Hin). exists i, x. split; [apply nth_app_l; exact Hx|exact Hin].
  - rewrite nth_error_app2 in Hk by exact Hge. destruct (k - length (calls s))%nat as [|k0] eqn:Ek; cbn in Hk; [|destruct k0; discriminate].
    eexists (length (lcs (pl s))), _. split; [rewrite nth_error_app2 by lia; rewrite Nat.sub_diag; reflexivity|]. cbn. left. lia.
Qed.

(* the ids of the calls a shape issues are awaited by its new pc *)
Lemma lc_shape_new_awaited c li base tnow p cid y sh p' cn :
  lc_shape c li base tnow p cid y = Some sh -> shape_pc sh = Some (p', cn) ->
  forall j, (j < length (shape_new sh))%nat -> In (base + j)%nat (awaits p').
Proof.
  assert (One : forall k0 j, (j < 1)%nat -> In (base + j)%nat [k0] -> True) by auto.
  destruct p; unfold lc_shape; try discriminate;
    try (destruct (negb (Nat.eqb cid0 cid)); [discriminate|]).
  - destruct y as [[[[| | |] ?]|]| | | | | | | |]; intros H; inversion H; subst; cbn [shape_pc shape_new]; intros Hs; inversion Hs; subst; cbn [awaits wait_start fst snd length];
      intros j Hj; try lia; left; lia.
  - destruct (wait_deliver base w cid y) as [[w' nw|[pr| |] cn0]|] eqn:Ew; try discriminate.
    + intros H; inversion H; subst. cbn [shape_pc shape_new]. intros Hs; inversion Hs; subst. intros j Hj.
      destruct w as [k0|k0 l|aw]; cbn in Ew.
      * destruct (negb _); [discriminate|]. destruct y; inversion Ew; subst. cbn in *. left. lia.
      * destruct (negb _); [discriminate|]. destruct y as [| | | |[|? ?]| | | |]; try (inversion Ew; fail).
        destruct l as [|l0 l]; inversion Ew; subst. cbn [awaits].
        change ((l0, base) :: number_from (S base) l) with (number_from base (l0 :: l)).
        change (QWaitPart l0 :: map QWaitPart l) with (map QWaitPart (l0 :: l)) in Hj. rewrite map_length in Hj.
        clear -Hj. revert base j Hj. induction (l0 :: l) as [|z r IH]; intros base j Hj; cbn in *; [lia|].
        destruct j as [|j]; [left; lia|right]. replace (base + S j)%nat with (S base + j)%nat by lia. apply IH. lia.
      * destruct (negb (existsb _ aw)); [discriminate|]. destruct y; try (inversion Ew; fail).
        destruct (filter _ aw); inversion Ew; subst. cbn in Hj. lia.
    + intros H; inversion H; subst. cbn [shape_succeed shape_pc shape_new]. intros Hs; inversion Hs; subst. cbn. intros j Hj. left. lia.
    + destruct k; intros H; inversion H; subst; cbn [shape_pay_failed shape_pc shape_new]; intros Hs; inversion Hs; subst; cbn; intros j Hj; left; lia.
    + destruct k; intros H; inversion H; subst; cbn [shape_pay_failed shape_pc shape_new]; intros Hs; inversion Hs; subst; cbn; intros j Hj; try lia; left; lia.
  - destruct y; intros H; inversion H; subst; cbn [shape_pc shape_new]; intros Hs; inversion Hs; subst; cbn; intros j Hj; try lia; left; lia.
  - destruct y; intros H; inversion H; subst; cbn [shape_pc shape_new]; intros Hs; inversion Hs; subst; cbn; intros j Hj; lia.
  - destruct y; intros H; inversion H; subst; cbn [shape_pc shape_new]; intros Hs; inversion Hs; subst; cbn; intros j Hj; try lia; left; lia.
  - destruct y; intros H; inversion H; subst; cbn [shape_pc shape_new]; intros Hs; inversion Hs; subst; cbn; intros j Hj; try lia; left; lia.
  - destruct (pay_reply y); intros H; inversion H; subst; cbn [shape_succeed shape_pay_failed shape_pc shape_new]; intros Hs; inversion Hs; subst; cbn; intros j Hj; left; lia.
  - destruct y; intros H; inversion H; subst; cbn [shape_pc shape_new]; intros Hs; inversion Hs; subst; cbn; intros j Hj; try lia; left; lia.
  - intros H; inversion H; subst; cbn [shape_pc shape_new]; intros Hs; inversion Hs; subst; cbn; intros j Hj; lia.
  - destruct y; intros H; inversion H; subst; cbn [shape_pc shape_new]; intros Hs; inversion Hs; subst; cbn; intros j Hj; try lia; left; lia.
  - intros H; inversion H; subst; cbn [shape_pc shape_new]; intros Hs; inversion Hs; subst; cbn; intros j Hj; lia.
Qed.

Lemma lc_shape_retains c li base tnow p cid y sh p' cn :
  lc_shape c li base tnow p cid y = Some sh -> shape_pc sh = Some (p', cn) ->
  forall k, In k (awaits p) -> k <> cid -> In k cn \/ In k (awaits p').
Proof.
  intros Hsh Hpc k Hk Hne.
  destruct p as [k1|kk w|k1 a g t|k1 a g t|d|k1 a am mf md|k1 a g am mf md|k1 a g|k1 a pr|k1 a|k1 a g|k1 a g| |];
    cbn [awaits] in Hk; try (destruct Hk; fail);
    try (exfalso; destruct Hk as [<-|[]]; unfold lc_shape in Hsh;
         destruct (Nat.eqb k1 cid) eqn:E; [apply Nat.eqb_eq in E; congruence|cbn in Hsh; discriminate]).
  (* PWait *)
  unfold lc_shape in Hsh.
  destruct w as [k1|k1 l|aw].
  1,2: exfalso; cbn [awaits] in Hk; destruct Hk as [<-|[]]; cbn [wait_deliver] in Hsh;
       destruct (Nat.eqb k1 cid) eqn:E; [apply Nat.eqb_eq in E; congruence|cbn in Hsh; discriminate].
  cbn [awaits] in Hk. apply in_map_iff in Hk as ((pid & c0) & Hc0 & Hin). cbn [snd] in Hc0. subst c0.
  assert (Hrest : In (pid, k) (filter (fun x => negb (Nat.eqb (snd x) cid)) aw)).
  { apply filter_In. split; [exact Hin|]. cbn. apply negb_true_iff, Nat.eqb_neq. exact Hne. }
  assert (Hrest' : In k (map snd (filter (fun x => negb (Nat.eqb (snd x) cid)) aw))).
  { apply in_map_iff. exists (pid, k). split; [reflexivity|exact Hrest]. }
  cbn [wait_deliver] in Hsh. destruct (negb (existsb _ aw)); [discriminate|].
  destruct y; try (destruct kk; inversion Hsh; subst; cbn in Hpc; inversion Hpc; subst; left; exact Hrest'; fail).
  (* this part failed *)
  destruct (filter (fun x => negb (Nat.eqb (snd x) cid)) aw) as [|r0 rest] eqn:Ef; [destruct Hrest|].
  inversion Hsh; subst. cbn in Hpc. inversion Hpc; subst. right. cbn [awaits]. exact Hrest'.
Qed.

Lemma apply_adv_InvO c s i a x cid :
  InvO s -> InvC c s -> nth_error (lcs (pl s)) i = Some x ->
  (forall j, (j < length (a_new a))%nat -> In (length (calls s) + j)%nat (awaits (a_pc a))) ->
  (forall k, In k (awaits (l_pc x)) -> k <> cid -> In k (a_cancel a) \/ In k (awaits (a_pc a))) ->
  InvO (fst (apply_adv (with_calls s (set_status cid Delivered (calls s))) i a)).
Proof.
  intros HO HC Hx Hnew Hret.
  destruct (apply_adv_lcs (with_calls s (set_status cid Delivered (calls s))) i a x Hx) as (Hl & _ & _ & _ & _ & Hcalls & _).
  cbn [with_calls calls pl lcs] in Hcalls, Hl.
  intros k cl Hk Hlive. rewrite Hcalls in Hk. rewrite Hl.
  assert (Self : In k (awaits (a_pc a)) -> exists i0 x0, nth_error (upd i (set_pc x (a_pc a)) (lcs (pl s))) i0 = Some x0 /\ In k (awaits (l_pc x0))).
  { intros Hin. exists i, (set_pc x (a_pc a)). split; [apply nth_error_upd_same; apply nth_error_Some; congruence|exact Hin]. }
  destruct (Nat.lt_ge_cases k (length (calls s))) as [Hlt|Hge].
  - rewrite nth_error_app1 in Hk by (rewrite table_length; exact Hlt).
    destruct (cancel_calls_spec _ _ _ _ Hk) as (cl1 & H1 & _ & Hsame & Hst).
    destruct (nth_set_status _ _ _ _ _ H1) as (cl0 & H0 & _ & Hne & Heq).
    destruct (Nat.eq_dec k cid) as [->|Hkc].
    { exfalso. destruct Hst as [E|E]; rewrite E in Hlive; [rewrite (Heq eq_refl) in Hlive|]; destruct Hlive as [L|[L|(? & L)]]; discriminate. }
    destruct (in_dec Nat.eq_dec k (a_cancel a)) as [Hin|Hnin].
    { destruct Hst as [E|E].
      - (* cancelled ids end up Cancelled *) exfalso.
        assert (c_st cl = Cancelled).
        { clear -Hin Hk. unfold cancel_calls in Hk. revert Hk. generalize (set_status cid Delivered (calls s)).
          induction (a_cancel a) as [|z r IH]; intros cs0 Hk; [destruct Hin|]. cbn [fold_left] in Hk.
          destruct (in_dec Nat.eq_dec k r) as [Hr|Hr]; [exact (IH Hr _ Hk)|].
          destruct Hin as [->|Hin]; [|contradiction].
          fold (cancel_calls r (set_status k Cancelled cs0)) in Hk.
          destruct (cancel_calls_spec _ _ _ _ Hk) as (cl2 & H2 & _ & Hs2 & _). rewrite (Hs2 Hr).
          destruct (nth_set_status _ _ _ _ _ H2) as (? & _ & _ & _ & Hq). exact (Hq eq_refl). }
        rewrite H in Hlive. destruct Hlive as [L|[L|(? & L)]]; discriminate.
      - exfalso. rewrite E in Hlive. destruct Hlive as [L|[L|(? & L)]]; discriminate. }
    rewrite (Hsame Hnin), (Hne Hkc) in Hlive.
    destruct (HO k cl0 H0 Hlive) as (j & y & Hy & Hin).
    destruct (Nat.eq_dec j i) as [->|Hji].
    + rewrite Hx in Hy. inversion Hy; subst y. destruct (Hret k Hin Hkc) as [Hc|Ha]; [contradiction|exact (Self Ha)].
    + exists j, y. split; [rewrite nth_error_upd_other by congruence; exact Hy|exact Hin].
  - rewrite nth_error_app2 in Hk by (rewrite table_length; exact Hge). rewrite table_length in Hk.
    destruct (nth_mk_calls _ _ _ Hk) as (q & Hq & _).
    assert (k - length (calls s) < length (a_new a))%nat by (apply nth_error_Some; congruence).
    apply Self. replace k with (length (calls s) + (k - length (calls s)))%nat by lia. apply Hnew. exact H.
Qed.

(* a resolving shape continues at a pc that awaits only the calls it has just issued *)
Lemma lc_shape_resolve_fresh c li base tnow p cid y r p' new cn :
  lc_shape c li base tnow p cid y = Some (LResolve r p' new cn) -> forall k, In k (awaits p') -> (base <= k)%nat.
Proof.
  destruct p as [k1|kk w|k1 a g t|k1 a g t|d|k1 a am mf md|k1 a g am mf md|k1 a g|k1 a pr|k1 a|k1 a g|k1 a g| |];
    unfold lc_shape; try discriminate; try (destruct (negb (Nat.eqb k1 cid)); [discriminate|]).
  - destruct y as [[[[| | |] ?]|]| | | | | | | |]; intros H; inversion H; subst; intros k [].
  - destruct (wait_deliver base w cid y) as [[w' nw|[pr| |] cn0]|]; try discriminate.
    + intros H; inversion H; subst. intros k [<-|[]]. lia.
    + destruct kk; intros H; inversion H; subst. intros k [<-|[]]. lia.
    + destruct kk; intros H; inversion H; subst. intros k [<-|[]]. lia.
  - destruct y; intros H; inversion H; subst; intros k [].
  - destruct y; intros H; inversion H; subst; intros k [].
  - destruct y; intros H; inversion H; subst; intros k [].
  - destruct y; intros H; inversion H; subst; intros k [].
  - destruct (pay_reply y); intros H; inversion H; subst; intros k [<-|[]]; lia.
  - destruct y; intros H; inversion H.
  - intros H; inversion H.
  - destruct y; intros H; inversion H.
  - intros H; inversion H.
Qed.

Lemma select_poll_new_awaited c li base hgt tnow d e sel na :
  let a := select_poll c li base hgt tnow d e sel na in
  forall j, (j < length (a_new a))%nat -> In (base + j)%nat (awaits (a_pc a)).
Proof.
  unfold select_poll. destruct e as [en|]; [|cbn; intros; lia].
  assert (GP : forall e0, let a := go_pay c li base hgt tnow (Some e0) na in forall j, (j < length (a_new a))%nat -> In (base + j)%nat (awaits (a_pc a))).
  { intros e0. unfold go_pay. cbn. intros j Hj. left. lia. }
  assert (DR : forall e0 r, let a := do_resolve e0 r PEnd [] [] [] na in forall j, (j < length (a_new a))%nat -> In (base + j)%nat (awaits (a_pc a))).
  { intros e0 r. unfold do_resolve. destruct e0; cbn; intros; lia. }
  destruct (rdy_q en); destruct (fail_q en) as [r|].
  - destruct sel; [apply GP|apply DR].
  - apply GP.
  - apply DR.
  - cbn. intros; lia.
Qed.

Lemma enter_select_new_awaited c li base hgt tnow d e sel na :
  let a := enter_select c li base hgt tnow d e sel na in
  forall j, (j < length (a_new a))%nat -> In (base + j)%nat (awaits (a_pc a)).
Proof.
  unfold enter_select. destruct (d =? 0); [|apply select_poll_new_awaited].
  unfold do_resolve. destruct e; cbn; intros; lia.
Qed.

Lemma fire_timers_length : forall l e t l' e' o', fire_timers l e t = (l', e', o') -> length l' = length l.
Proof.
  induction l as [|z r IH]; intros e t l' e' o' H; unfold fire_timers in H; fold fire_timers in H; [inversion H; reflexivity|].
  destruct (l_pc z);
    try (destruct (fire_timers r e t) as [[r' e1] o1] eqn:E2; inversion H; subst; cbn; f_equal; eapply IH; eauto).
  destruct (deadline <=? t).
  - destruct e as [en|]; destruct (fire_timers r None t) as [[r' e1] o1] eqn:E2; inversion H; subst; cbn; f_equal; eapply IH; eauto.
  - destruct (fire_timers r e t) as [[r' e1] o1] eqn:E2; inversion H; subst; cbn; f_equal; eapply IH; eauto.
Qed.

Lemma not_live_final st : st = Delivered \/ st = Cancelled \/ st = Dead -> ~ live st.
Proof. intros [-> | [-> | ->]] [L|[L|(? & L)]]; discriminate. Qed.

Theorem step_InvO c s ev : InvC c s -> InvO s -> InvO (fst (step c s ev)).
Proof.
  intros HC HO. destruct ev; cbn [step].
  - (* EvHtlc *)
    destruct (entry_ (pl s)) as [e|] eqn:He.
    + exact HO.
    + exact (spawn_InvO s h _ HO).
  - (* EvPoll *)
    destruct (find_select 0 (lcs (pl s))) as [[[i d] li]|] eqn:Hf; [|exact HO].
    destruct (find_select_spec _ _ _ _ _ Hf) as (x & Hx & Hp & Hli & _). rewrite Nat.sub_0_r in Hx. subst li.
    pose proof (apply_adv_InvO c s i (select_poll c (l_info x) (length (calls s)) (height s) (now s) d (entry_ (pl s)) sel (next_att (pl s))) x (length (calls s)) HO HC Hx) as G.
    rewrite set_status_oob in G by lia.
    assert (E : with_calls s (calls s) = s) by (destruct s; reflexivity). rewrite E in G.
    apply G.
    + apply select_poll_new_awaited.
    + rewrite Hp. intros k [].
  - (* EvProcess *)
    destruct (nth_error (calls s) cid) as [cl|] eqn:Hcl; [|exact HO]. destruct (c_st cl) eqn:Hst; try exact HO.
    destruct (node_exec (nd s) (c_rpc cl) f) as [n' y]. cbn [fst]. intros k cl' Hk Hl. cbn [calls pl] in *.
    destruct (nth_set_status _ _ _ _ _ Hk) as (cl0 & H0 & _ & Hne & _).
    destruct (Nat.eq_dec k cid) as [->|Hkc].
    + rewrite Hcl in H0. inversion H0; subst cl0. apply (HO cid cl Hcl). rewrite Hst. left; reflexivity.
    + rewrite (Hne Hkc) in Hl. exact (HO k cl0 H0 Hl).
  - (* EvDeliver *)
    destruct (nth_error (calls s) cid) as [cl|] eqn:Hcl; [|exact HO]. destruct (c_st cl) eqn:Hst; try exact HO.
    destruct (find_owner c 0 (lcs (pl s)) cid y sel (entry_ (pl s)) (length (calls s)) (height s) (now s) (next_att (pl s))) as [[i a]|] eqn:Hf.
    2:{ cbn [fst with_calls]. intros k cl' Hk Hl. cbn [calls pl] in *.
        destruct (nth_set_status _ _ _ _ _ Hk) as (cl0 & H0 & _ & Hne & Heq).
        destruct (Nat.eq_dec k cid) as [->|Hkc]; [exfalso; rewrite (Heq eq_refl) in Hl; revert Hl; apply not_live_final; auto|].
        rewrite (Hne Hkc) in Hl. exact (HO k cl0 H0 Hl). }
    destruct (find_owner_spec _ _ _ _ _ _ _ _ _ _ _ _ _ Hf) as (x & Hx & _ & Hdl). rewrite Nat.sub_0_r in Hx.
    rewrite lc_deliver_shape in Hdl. destruct (lc_shape c (l_info x) (length (calls s)) (now s) (l_pc x) cid y) as [sh|] eqn:Hsh; [|discriminate].
    cbn [option_map] in Hdl. inversion Hdl; subst a; clear Hdl.
    apply (apply_adv_InvO c s i _ x cid HO HC Hx).
    + destruct sh as [p' new out cancel|r p' new cancel|d]; cbn [adv_of a_pc a_new].
      * exact (lc_shape_new_awaited _ _ _ _ _ _ _ _ _ _ Hsh eq_refl).
      * unfold do_resolve. destruct (entry_ (pl s)); cbn [a_pc a_new]; [exact (lc_shape_new_awaited _ _ _ _ _ _ _ _ _ _ Hsh eq_refl)|cbn; intros; lia].
      * apply enter_select_new_awaited.
    + destruct sh as [p' new out cancel|r p' new cancel|d]; cbn [adv_of a_pc a_cancel].
      * exact (lc_shape_retains _ _ _ _ _ _ _ _ _ _ Hsh eq_refl).
      * unfold do_resolve. destruct (entry_ (pl s)); cbn [a_pc a_cancel].
        -- exact (lc_shape_retains _ _ _ _ _ _ _ _ _ _ Hsh eq_refl).
        -- intros k Hk Hne. destruct (lc_shape_retains _ _ _ _ _ _ _ _ _ _ Hsh eq_refl k Hk Hne) as [A|A]; [left; exact A|].
           pose proof (lc_shape_resolve_fresh _ _ _ _ _ _ _ _ _ _ _ Hsh k A) as Hge.
           destruct HC as [Ht _]. pose proof (pc_calls_ok_awaits_lt c _ _ _ (Ht i x Hx) k Hk). lia.
      * intros k Hk Hne. exfalso. clear -Hsh Hk Hne.
        destruct (l_pc x) as [k1|kk w|k1 a g t|k1 a g t|d0|k1 a am mf md|k1 a g am mf md|k1 a g|k1 a pr|k1 a|k1 a g|k1 a g| |];
          cbn [awaits] in Hk; try (destruct Hk; fail);
          try (destruct Hk as [<-|[]]; unfold lc_shape in Hsh; destruct (Nat.eqb k1 cid) eqn:E; [apply Nat.eqb_eq in E; congruence|cbn in Hsh; discriminate]).
        unfold lc_shape in Hsh. destruct (wait_deliver (length (calls s)) w cid y) as [[w' nw|[pr| |] cn0]|]; try discriminate; destruct kk; discriminate.
  - destruct (nth_error (parts (nd s)) pid) as [[]|], st; exact HO.
  - destruct (nth_error (calls s) cid) as [[q st]|]; [|exact HO]. destruct q; try exact HO. destruct st; exact HO.
  - (* EvPayFinish *)
    destruct (nth_error (calls s) cid) as [[q st]|] eqn:Hcl; [|exact HO]. destruct q; try exact HO. destruct st; try exact HO.
    cbn [fst]. intros k cl' Hk Hl. cbn [calls pl] in *.
    destruct (nth_set_status _ _ _ _ _ Hk) as (cl0 & H0 & _ & Hne & _).
    destruct (Nat.eq_dec k cid) as [->|Hkc].
    + rewrite Hcl in H0. inversion H0; subst cl0. apply (HO cid _ Hcl). right; left; reflexivity.
    + rewrite (Hne Hkc) in Hl. exact (HO k cl0 H0 Hl).
  - (* EvTick *)
    destruct (fire_timers (lcs (pl s)) (entry_ (pl s)) (now s + dt)) as [[l' e'] o'] eqn:Hf. cbn [fst].
    intros k cl Hk Hl. cbn [calls pl lcs] in *. destruct (HO k cl Hk Hl) as (i & x & Hx & Hin).
    assert (Hi : (i < length l')%nat) by (rewrite (fire_timers_length _ _ _ _ _ _ Hf); apply nth_error_Some; congruence).
    destruct (nth_error l' i) as [y|] eqn:Hy; [|apply nth_error_None in Hy; lia].
    destruct (fire_timers_pcs _ _ _ _ _ _ _ _ Hf Hy) as (x0 & Hx0 & _ & Hp). rewrite Hx in Hx0. inversion Hx0; subst x0.
    exists i, y. split; [exact Hy|]. destruct Hp as [Hp|((d & Hd) & _)]; [rewrite Hp; exact Hin|rewrite Hd in Hin; destruct Hin].
  - exact HO.
  - (* EvCrash *) cbn [fst]. intros k cl Hk Hl. exfalso. cbn [calls] in Hk. unfold kill_calls in Hk. rewrite nth_error_map in Hk.
    destruct (nth_error (calls s) k) as [cl0|]; [|discriminate]. inversion Hk; subst cl. cbn in Hl.
    revert Hl. apply not_live_final. destruct (c_st cl0); auto.
Qed.

