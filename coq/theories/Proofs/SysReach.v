(* SysReach.v — reachable states of the per-hash system (from ANY durable node state, clock and height) and the
   invariants they satisfy; the held-until-fate lemma of C03. *)
From Tramp Require Import Model.Base Model.Fee Model.Classify Model.Node Model.Provider Model.Sys.
From Tramp Require Import Proofs.FeeProofs Proofs.SysBasics Proofs.EntryProofs Proofs.SysEntry Proofs.SysShape Proofs.SysTheorems Proofs.SysTimers.
From Coq Require Import ZifyBool ZifyNat ZifyN.

(* a freshly started plugin over whatever the node remembers *)
Definition sys_start (n : node) (t0 h0 : N) (att0 : N) : sys :=
  {| nd := n; pl := {| entry_ := None; lcs := []; next_att := att0 |}; calls := []; now := t0; height := h0 |}.

Inductive reachable (c : cfg) : sys -> Prop :=
| reach_start n t0 h0 a0 : reachable c (sys_start n t0 h0 a0)
| reach_step s ev : reachable c s -> reachable c (fst (step c s ev)).

Theorem reachable_inv c s : reachable c s -> InvU s /\ InvE c s /\ InvT c s.
Proof.
  induction 1 as [n t0 h0 a0|s ev Hr (HU & HE & HT)].
  - split; [reflexivity|]. split; [apply InvE_none; reflexivity|]. intros [|i] x dl H; discriminate.
  - split; [apply step_InvU; exact HU|]. split; [apply step_InvE; assumption|apply step_InvT; exact HT].
Qed.

Lemma run_reachable c : forall evs s, reachable c s -> reachable c (fst (run c s evs)).
Proof.
  induction evs as [|ev r IH]; intros s Hs; cbn [run]; [exact Hs|].
  pose proof (reach_step c s ev Hs) as H1. destruct (step c s ev) as [s1 o]. cbn [fst] in H1.
  specialize (IH s1 H1). destruct (run c s1 r) as [s2 os]. exact IH.
Qed.

(* a lifecycle that is not attached never answers anybody *)
Lemma detached_no_resps c li base hgt tnow p cid y sel e na a :
  lc_deliver c li base hgt tnow p cid y sel e na = Some a -> attached p = false -> resps (a_out a) = [].
Proof.
  intros Hd Ap. pose proof (lc_deliver_ok _ _ _ _ _ _ _ _ _ _ _ _ Hd) as Hok. rewrite Ap in Hok. destruct Hok as (_ & Hsame).
  destruct (lc_deliver_answers _ _ _ _ _ _ _ _ _ _ _ _ Hd) as [H|(en & r & E1 & E2 & E3)]; [exact H|]. congruence.
Qed.

(* C03, last clause: while the pay request is outstanding, the HTLCs that fund it stay held — only the reply to that
   very request (or a crash, which answers nobody) ends this *)
Theorem held_while_paying c s ev i x k a g :
  InvU s -> nth_error (lcs (pl s)) i = Some x -> l_pc x = PPay k a g ->
  resps (snd (step c s ev)) <> [] -> exists sel, ev = EvDeliver k sel.
Proof.
  intros HU Hx Hp Hr.
  assert (Ax : attached (l_pc x) = true) by (rewrite Hp; reflexivity).
  assert (He : entry_ (pl s) <> None) by exact (InvU_attached_entry s i x HU Hx Ax).
  destruct (entry_ (pl s)) as [e|] eqn:Ee; [|congruence].
  assert (Uniq : forall j y, nth_error (lcs (pl s)) j = Some y -> attached (l_pc y) = true -> j = i /\ y = x).
  { intros j y Hy Ay. unfold InvU in HU. rewrite Ee in HU. pose proof (n_att_one_unique _ HU j i y x Hy Hx Ay Ax). subst j. split; congruence. }
  destruct ev; cbn [step] in Hr; try (exfalso; apply Hr; reflexivity).
  - (* EvHtlc: the segment answers nobody *)
    exfalso. rewrite Ee in Hr. apply Hr; reflexivity.
  - (* EvPoll: a response needs a lifecycle in the select! *)
    exfalso.
    destruct (find_select 0 (lcs (pl s))) as [[[j d] li]|] eqn:Hf; [|apply Hr; reflexivity].
    destruct (find_select_spec _ _ _ _ _ Hf) as (y & Hy & Hpy & _). rewrite Nat.sub_0_r in Hy.
    destruct (Uniq j y Hy ltac:(rewrite Hpy; reflexivity)) as (_ & ->). congruence.
  - destruct (nth_error (calls s) cid) as [cl|]; [|exfalso; apply Hr; reflexivity]. destruct (c_st cl); try (exfalso; apply Hr; reflexivity).
    destruct (node_exec (nd s) (c_rpc cl) f). exfalso; apply Hr; reflexivity.
  - (* EvDeliver *)
    destruct (nth_error (calls s) cid) as [cl|]; [|exfalso; apply Hr; reflexivity]. destruct (c_st cl); try (exfalso; apply Hr; reflexivity).
    destruct (find_owner c 0 (lcs (pl s)) cid y sel (entry_ (pl s)) (length (calls s)) (height s) (now s) (next_att (pl s))) as [[j a0]|] eqn:Hf; [|exfalso; apply Hr; reflexivity].
    destruct (find_owner_spec _ _ _ _ _ _ _ _ _ _ _ _ _ Hf) as (z & Hz & _ & Hd). rewrite Nat.sub_0_r in Hz.
    rewrite apply_adv_resps in Hr.
    destruct (attached (l_pc z)) eqn:Az; [|exfalso; apply Hr; exact (detached_no_resps _ _ _ _ _ _ _ _ _ _ _ _ Hd Az)].
    destruct (Uniq j z Hz Az) as (-> & ->).
    pose proof (lc_deliver_awaits _ _ _ _ _ _ _ _ _ _ _ _ Hd) as Haw. rewrite Hp in Haw. cbn in Haw. destruct Haw as [<-|[]].
    exists sel. reflexivity.
  - destruct (nth_error (parts (nd s)) pid) as [[]|], st; exfalso; apply Hr; reflexivity.
  - destruct (nth_error (calls s) cid) as [[q st]|]; [|exfalso; apply Hr; reflexivity]. destruct q; try (exfalso; apply Hr; reflexivity). destruct st; exfalso; apply Hr; reflexivity.
  - destruct (nth_error (calls s) cid) as [[q st]|]; [|exfalso; apply Hr; reflexivity]. destruct q; try (exfalso; apply Hr; reflexivity). destruct st; exfalso; apply Hr; reflexivity.
  - (* EvTick: a response needs a lifecycle in the select! *)
    exfalso. destruct (fire_timers (lcs (pl s)) (entry_ (pl s)) (now s + dt)) as [[l' e'] o'] eqn:Hf. cbn [snd] in Hr.
    assert (NoSel : forall j y dl, nth_error (lcs (pl s)) j = Some y -> l_pc y = PSelect dl -> now s + dt < dl).
    { intros j y dl Hy Hpy. destruct (Uniq j y Hy ltac:(rewrite Hpy; reflexivity)) as (_ & ->). congruence. }
    rewrite (fire_timers_silent _ _ _ NoSel) in Hf. inversion Hf; subst. apply Hr. reflexivity.
Qed.
