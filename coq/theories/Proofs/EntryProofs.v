(* EntryProofs.v — arithmetic and queue discipline of the table entry (PaymentState):
   what add_htlc / fail / the three gates of handle_htlc maintain. Used by C03, C04, C06, C07, C12. *)
From Tramp Require Import Model.Base Model.Fee Model.Classify Model.Node Model.Provider Model.Sys Proofs.FeeProofs.
From Coq Require Import ZifyBool ZifyNat ZifyN.

Definition sum_amt (l : list htlc) : N := fold_right (fun h acc => amt h + acc) 0 l.
Definition min_expiry (l : list htlc) : N := fold_right (fun h acc => N.min (expiry h) acc) u32max l.

Record EInv (c : cfg) (e : entry) : Prop := {
  ei_recv : recv e = N.min u64max (sum_amt (listeners e));
  ei_minexp : minexp e = min_expiry (listeners e);
  ei_ready_funded : rdy_q e = true -> fee_sufficient (pol c) (recv e) (e_deliver e) = true;
  ei_isready_funded : is_ready e = true -> fee_sufficient (pol c) (recv e) (e_deliver e) = true;
  ei_failq : forall r, fail_q e = Some r -> is_fail e = true;
  ei_rdy_excl : rdy_q e = true -> is_ready e = true \/ is_fail e = true   (* a queued ready signal was sent while ready *)
}.

Lemma set_queues_fields en rq fq :
  listeners (set_queues en rq fq) = listeners en /\ recv (set_queues en rq fq) = recv en /\ minexp (set_queues en rq fq) = minexp en /\
  is_ready (set_queues en rq fq) = is_ready en /\ is_fail (set_queues en rq fq) = is_fail en /\
  e_deliver (set_queues en rq fq) = e_deliver en /\ e_blob (set_queues en rq fq) = e_blob en /\ e_inv_amount (set_queues en rq fq) = e_inv_amount en /\
  rdy_q (set_queues en rq fq) = rq /\ fail_q (set_queues en rq fq) = fq.
Proof. unfold set_queues; cbn. auto 12. Qed.

Lemma EInv_new c h : EInv c (new_entry h).
Proof. constructor; cbn; try discriminate; try reflexivity. Qed.

Lemma e_fail_fields e r :
  listeners (e_fail e r) = listeners e /\ recv (e_fail e r) = recv e /\ minexp (e_fail e r) = minexp e /\
  e_deliver (e_fail e r) = e_deliver e /\ e_blob (e_fail e r) = e_blob e /\ e_inv_amount (e_fail e r) = e_inv_amount e /\
  rdy_q (e_fail e r) = rdy_q e /\ is_fail (e_fail e r) = true /\
  (is_fail e = true -> e_fail e r = e) /\
  (is_fail e = false -> fail_q (e_fail e r) = Some r /\ is_ready (e_fail e r) = false).
Proof.
  unfold e_fail. destruct (is_fail e) eqn:E; cbn [listeners recv minexp e_deliver e_blob e_inv_amount rdy_q is_fail fail_q is_ready].
  - repeat split; auto; congruence.
  - repeat split; auto; congruence.
Qed.

Lemma EInv_fail c e r : EInv c e -> EInv c (e_fail e r).
Proof.
  intros [H1 H2 H3 H4 H5 H6]. unfold e_fail. destruct (is_fail e) eqn:E; [constructor; auto|].
  constructor; cbn; auto; try discriminate.
Qed.

Lemma min_sat a b : N.min u64max (N.min u64max a + b) = N.min u64max (a + b).
Proof. unfold u64max. lia. Qed.

Lemma EInv_add c e h : EInv c e -> EInv c (e_add c e h).
Proof.
  intros [H1 H2 H3 H4 H5 H6].
  assert (Hmono : recv e <= N.min u64max (recv e + amt h)) by (rewrite H1; unfold u64max; lia).
  constructor; unfold e_add; cbn [listeners recv minexp rdy_q is_ready is_fail fail_q e_deliver sum_amt min_expiry fold_right].
  - rewrite H1, min_sat. f_equal. fold (sum_amt (listeners e)). lia.
  - rewrite H2. reflexivity.
  - intros Hq. apply orb_prop in Hq as [Hq|Hq].
    + eapply fee_sufficient_mono; [exact Hmono|auto].
    + apply andb_prop in Hq as [_ Hq]. exact Hq.
  - intros Hq. apply orb_prop in Hq as [Hq|Hq].
    + eapply fee_sufficient_mono; [exact Hmono|auto].
    + apply andb_prop in Hq as [_ Hq]. exact Hq.
  - exact H5.
  - intros Hq. apply orb_prop in Hq as [Hq|Hq].
    + destruct (H6 Hq) as [X|X]; [left; rewrite X; reflexivity|right; exact X].
    + left. rewrite Hq. apply orb_true_r.
Qed.

Lemma EInv_handle c e h : EInv c e -> EInv c (e_handle c e h).
Proof.
  intros H. unfold e_handle. apply EInv_add.
  destruct (fee_sufficient (pol c) (total h) (deliver h)); [|apply EInv_fail];
  (destruct (rel h <? Z.of_N (pol_delta (pol c)))%Z; [apply EInv_fail|]);
  (destruct (bytes_eq (blob h) (e_blob e) && (deliver h =? e_deliver e)); [exact H|apply EInv_fail; exact H]).
Qed.

Lemma EInv_set_queues c en rq fq :
  EInv c en -> (rq = true -> rdy_q en = true) -> (forall r, fq = Some r -> is_fail en = true) -> EInv c (set_queues en rq fq).
Proof.
  intros [H1 H2 H3 H4 H5 H6] Hr Hf. constructor; unfold set_queues; cbn; auto.
Qed.

(* the entry's identity never changes *)
Lemma e_handle_ident c e h :
  e_blob (e_handle c e h) = e_blob e /\ e_deliver (e_handle c e h) = e_deliver e /\ e_inv_amount (e_handle c e h) = e_inv_amount e /\
  listeners (e_handle c e h) = h :: listeners e.
Proof.
  unfold e_handle, e_add. cbn.
  destruct (fee_sufficient (pol c) (total h) (deliver h)); destruct (rel h <? Z.of_N (pol_delta (pol c)))%Z;
  destruct (bytes_eq (blob h) (e_blob e) && (deliver h =? e_deliver e));
  repeat match goal with |- context [e_fail ?x ?r] => destruct (e_fail_fields x r) as (-> & _ & _ & -> & -> & -> & _) end; auto.
Qed.

(* received amount and the ready flag only grow, the fail flag is sticky *)
Lemma e_handle_mono c e h : EInv c e ->
  recv e <= recv (e_handle c e h) /\ (is_fail e = true -> is_fail (e_handle c e h) = true) /\
  (rdy_q e = true -> rdy_q (e_handle c e h) = true).
Proof.
  intros HE. unfold e_handle.
  set (e1 := if bytes_eq (blob h) (e_blob e) && (deliver h =? e_deliver e) then e else e_fail e r_tramp_fail).
  set (e2 := if (rel h <? Z.of_N (pol_delta (pol c)))%Z then e_fail e1 (r_fee_fail c) else e1).
  set (e3 := if fee_sufficient (pol c) (total h) (deliver h) then e2 else e_fail e2 (r_fee_fail c)).
  assert (K : forall x r, recv (e_fail x r) = recv x /\ rdy_q (e_fail x r) = rdy_q x /\ (is_fail x = true -> is_fail (e_fail x r) = true))
    by (intros x r; destruct (e_fail_fields x r) as (_ & -> & _ & _ & _ & _ & -> & -> & _); auto).
  assert (K1 : recv e1 = recv e /\ rdy_q e1 = rdy_q e /\ (is_fail e = true -> is_fail e1 = true))
    by (unfold e1; destruct (_ && _); [auto|apply K]).
  assert (K2 : recv e2 = recv e /\ rdy_q e2 = rdy_q e /\ (is_fail e = true -> is_fail e2 = true)).
  { unfold e2. destruct (_ <? _)%Z; [|exact K1]. destruct (K e1 (r_fee_fail c)) as (-> & -> & X). destruct K1 as (-> & -> & Y). auto. }
  assert (K3 : recv e3 = recv e /\ rdy_q e3 = rdy_q e /\ (is_fail e = true -> is_fail e3 = true)).
  { unfold e3. destruct (fee_sufficient _ _ _); [exact K2|]. destruct (K e2 (r_fee_fail c)) as (-> & -> & X). destruct K2 as (-> & -> & Y). auto. }
  destruct K3 as (R & Q & F). unfold e_add; cbn. rewrite R, Q.
  split; [destruct HE as [H1 _ _ _ _ _]; rewrite H1; unfold u64max; lia|]. split; [exact F|]. intros ->. reflexivity.
Qed.

(* an HTLC that any gate rejects leaves the fail flag set *)
Definition gate_rejects (c : cfg) (e : entry) (h : htlc) : bool :=
  negb (bytes_eq (blob h) (e_blob e) && (deliver h =? e_deliver e))
  || (rel h <? Z.of_N (pol_delta (pol c)))%Z
  || negb (fee_sufficient (pol c) (total h) (deliver h)).

Lemma e_handle_reject_sets_fail c e h : gate_rejects c e h = true -> is_fail (e_handle c e h) = true.
Proof.
  unfold gate_rejects, e_handle, e_add. cbn [is_fail]. intros H.
  destruct (fee_sufficient (pol c) (total h) (deliver h)) eqn:E3.
  2:{ destruct (e_fail_fields (if (rel h <? Z.of_N (pol_delta (pol c)))%Z then e_fail (if bytes_eq (blob h) (e_blob e) && (deliver h =? e_deliver e) then e else e_fail e r_tramp_fail) (r_fee_fail c)
                               else (if bytes_eq (blob h) (e_blob e) && (deliver h =? e_deliver e) then e else e_fail e r_tramp_fail)) (r_fee_fail c)) as (_ & _ & _ & _ & _ & _ & _ & X & _). exact X. }
  destruct (rel h <? Z.of_N (pol_delta (pol c)))%Z eqn:E2.
  { destruct (e_fail_fields (if bytes_eq (blob h) (e_blob e) && (deliver h =? e_deliver e) then e else e_fail e r_tramp_fail) (r_fee_fail c)) as (_ & _ & _ & _ & _ & _ & _ & X & _). exact X. }
  destruct (bytes_eq (blob h) (e_blob e) && (deliver h =? e_deliver e)) eqn:E1; [cbn in H; discriminate|].
  destruct (e_fail_fields e r_tramp_fail) as (_ & _ & _ & _ & _ & _ & _ & X & _). exact X.
Qed.

(* once failure is requested and no ready signal is queued, no ready signal will ever be queued (C07: the set is doomed) *)
Definition doomed (e : entry) : Prop := is_fail e = true /\ rdy_q e = false.

Lemma e_handle_doomed c e h : EInv c e -> doomed e -> doomed (e_handle c e h).
Proof.
  intros HE (Hf & Hq). split; [apply (e_handle_mono c e h HE); exact Hf|].
  unfold e_handle, e_add. cbn [rdy_q is_fail is_ready].
  set (e3 := if fee_sufficient (pol c) (total h) (deliver h) then _ else _).
  assert (F : forall x r, rdy_q x = false /\ is_fail x = true -> rdy_q (e_fail x r) = false /\ is_fail (e_fail x r) = true).
  { intros x r (A & B). destruct (e_fail_fields x r) as (_ & _ & _ & _ & _ & _ & X & Y & _). rewrite X, Y. auto. }
  assert (K : rdy_q e3 = false /\ is_fail e3 = true).
  { unfold e3.
    destruct (fee_sufficient (pol c) (total h) (deliver h)); [|apply F];
    (destruct (rel h <? Z.of_N (pol_delta (pol c)))%Z; [apply F|]);
    (destruct (bytes_eq (blob h) (e_blob e) && (deliver h =? e_deliver e)); [auto|apply F; auto]). }
  destruct K as (-> & ->). cbn. rewrite andb_false_r. reflexivity.
Qed.

(* the first HTLC of an entry: a gate rejection queues exactly the fee-or-expiry failure carrying the configured policy *)
Lemma first_htlc_rejected c h :
  ((rel h <? Z.of_N (pol_delta (pol c)))%Z || negb (fee_sufficient (pol c) (total h) (deliver h))) = true ->
  let e := e_handle c (new_entry h) h in fail_q e = Some (r_fee_fail c) /\ rdy_q e = false /\ is_fail e = true.
Proof.
  intros H. unfold e_handle, e_add, new_entry. cbn [e_blob e_deliver].
  assert (B : bytes_eq (blob h) (blob h) && (deliver h =? deliver h) = true).
  { rewrite N.eqb_refl, andb_true_r. induction (blob h) as [|x l IH]; cbn; [reflexivity|]. rewrite N.eqb_refl. exact IH. }
  rewrite B. unfold e_fail. cbn.
  destruct (rel h <? Z.of_N (pol_delta (pol c)))%Z eqn:E2; cbn.
  - destruct (fee_sufficient (pol c) (total h) (deliver h)); cbn; auto.
  - destruct (fee_sufficient (pol c) (total h) (deliver h)) eqn:E3; cbn in *; [discriminate|auto].
Qed.
