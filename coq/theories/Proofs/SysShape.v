(* SysShape.v — every lifecycle transition has one of three shapes with respect to the entry and the
   responses: it keeps the entry (LKeep), it resolves (LResolve: answer every listener with one
   response and drop the entry), or it goes to the select! (LSelect). [lc_deliver] factors through
   this classification, so facts about responses and the entry are proved once per shape. *)
From Tramp Require Import Model.Base Model.Fee Model.Classify Model.Node Model.Provider Model.Sys.
From Tramp Require Import Proofs.FeeProofs Proofs.SysBasics Proofs.EntryProofs.
From Coq Require Import ZifyBool ZifyNat ZifyN.

Inductive lres :=
| LKeep (p : pc) (new : list rpc) (out : list output) (cancel : list nat)
| LResolve (r : response) (p : pc) (new : list rpc) (cancel : list nat)
| LSelect (d : N).

Section Shape.
  Variable c : cfg.
  Variable li : linfo.
  Variable base : nat.
  Variable hgt tnow : N.

  Definition adv_of (e : option entry) (sel : bool) (na : N) (x : lres) : adv :=
    match x with
    | LKeep p new out cancel => {| a_pc := p; a_entry := e; a_new := new; a_out := out; a_cancel := cancel; a_att := na |}
    | LResolve r p new cancel => do_resolve e r p new [] cancel na
    | LSelect d => enter_select c li base hgt tnow d e sel na
    end.

  Definition att_of (k : after_wait) : N := match k with AfterRestart a _ _ | AfterPay a _ => a end.

  Definition shape_succeed (a : N) (p : list N) (cancel : list nat) : lres :=
    LResolve (Resolve p) (PMS1 base a p) [QWriteState CreateOrReplace None (DSucc p)] cancel.
  Definition shape_pay_failed (a g : N) (cancel : list nat) : lres :=
    LResolve r_tramp_fail (PMFp1 base a g) [QWriteAtt CreateOrReplace a true false (li_deliver li) (li_blob li)] cancel.

  Definition lc_shape (p : pc) (cid : nat) (y : reply) : option lres :=
    match p with
    | PFetch k => if negb (Nat.eqb k cid) then None else Some
        match y with
        | YState None | YState (Some (DFree, _)) => LSelect (mpp_ms c)
        | YState (Some (DSucc pr, _)) => LResolve (Resolve pr) PEnd [] []
        | YState (Some (DPending a t, g)) => LKeep (PWait (AfterRestart a g t) (fst (wait_start base))) (snd (wait_start base)) [] []
        | _ => LResolve r_node_fail PEnd [] []
        end
    | PWait kk ws =>
        match wait_deliver base ws cid y with
        | None => None
        | Some (WGo ws' new) => Some (LKeep (PWait kk ws') new [] [])
        | Some (WFin (WSome pr) cancel) => Some (shape_succeed (att_of kk) pr cancel)
        | Some (WFin WNone _) =>
            Some match kk with
                 | AfterRestart a g t => LKeep (PMarkF1 base a g t) [QWriteAtt CreateOrReplace a true false (li_deliver li) (li_blob li)] [] []
                 | AfterPay a g => shape_pay_failed a g []
                 end
        | Some (WFin WErr cancel) =>
            Some match kk with
                 | AfterRestart _ _ _ => LKeep PPanicked [] [OPanic] cancel
                 | AfterPay a g => shape_pay_failed a g cancel
                 end
        end
    | PMarkF1 k a g t => if negb (Nat.eqb k cid) then None else Some
        match y with
        | YUnit => LKeep (PMarkF2 base a g t) [QWriteState MustReplace (Some g) DFree] [] []
        | _ => LResolve r_node_fail PEnd [] []
        end
    | PMarkF2 k a g t => if negb (Nat.eqb k cid) then None else Some
        match y with
        | YGen _ => LSelect (mpp_ms c - (tnow - t))
        | _ => LResolve r_node_fail PEnd [] []
        end
    | PSelect _ => None
    | PAdd1 k a am mf md => if negb (Nat.eqb k cid) then None else Some
        match y with
        | YGen g => LKeep (PAdd2 base a g am mf md) [QWriteAtt MustCreate a false false (li_deliver li) (li_blob li)] [] []
        | _ => LResolve r_node_fail PEnd [] []
        end
    | PAdd2 k a g am mf md => if negb (Nat.eqb k cid) then None else Some
        match y with
        | YUnit => LKeep (PPay base a g) [QPay (li_blob li) am mf md (retry_for c)] [] []
        | _ => LResolve r_node_fail PEnd [] []
        end
    | PPay k a g => if negb (Nat.eqb k cid) then None else Some
        match pay_reply y with
        | PayOk pr => shape_succeed a pr []
        | PayErr => shape_pay_failed a g []
        | PayWait => LKeep (PWait (AfterPay a g) (fst (wait_start base))) (snd (wait_start base)) [] []
        end
    | PMS1 k a pr => if negb (Nat.eqb k cid) then None else Some
        match y with
        | YGen _ => LKeep (PMS2 base a) [QWriteAtt MustReplace a true true (li_deliver li) (li_blob li)] [] []
        | _ => LKeep PEnd [] [] []
        end
    | PMS2 k _ => if negb (Nat.eqb k cid) then None else Some (LKeep PEnd [] [] [])
    | PMFp1 k a g => if negb (Nat.eqb k cid) then None else Some
        match y with
        | YUnit => LKeep (PMFp2 base a g) [QWriteState MustReplace (Some g) DFree] [] []
        | _ => LKeep PEnd [] [ONotify] []
        end
    | PMFp2 k _ _ => if negb (Nat.eqb k cid) then None else Some (LKeep PEnd [] [ONotify] [])
    | PEnd | PPanicked => None
    end.

  Lemma lc_deliver_shape p cid y sel e na :
    lc_deliver c li base hgt tnow p cid y sel e na = option_map (adv_of e sel na) (lc_shape p cid y).
  Proof.
    destruct p; unfold lc_deliver, lc_shape; try reflexivity;
      try (destruct (negb (Nat.eqb cid0 cid)); [reflexivity|]; cbn [option_map]; f_equal).
    - destruct y as [[[[| | |] ?]|]| | | | | | | |]; reflexivity.
    - destruct (wait_deliver base w cid y) as [[w' new|[pr| |] cancel]|]; cbn [option_map]; try reflexivity.
      + destruct k; reflexivity.
      + destruct k; reflexivity.
      + destruct k; reflexivity.
    - destruct y; reflexivity.
    - destruct y; reflexivity.
    - destruct y; reflexivity.
    - destruct y; reflexivity.
    - destruct (pay_reply y); reflexivity.
    - destruct y; reflexivity.
    - destruct y; reflexivity.
  Qed.

  (* in a Keep shape the outputs never contain a response *)
  Definition is_resp (o : output) : bool := match o with OResp _ _ => true | _ => false end.
  Definition resps (l : list output) : list output := filter is_resp l.

  Lemma lc_shape_keep_out p cid y p' new out cancel :
    lc_shape p cid y = Some (LKeep p' new out cancel) -> resps out = [].
  Proof.
    destruct p; unfold lc_shape; try discriminate;
      try (destruct (negb (Nat.eqb cid0 cid)); [discriminate|]).
    - destruct y as [[[[| | |] ?]|]| | | | | | | |]; intros H; inversion H; reflexivity.
    - destruct (wait_deliver base w cid y) as [[w' nw|[pr| |] cn]|]; try discriminate.
      + intros H; inversion H; reflexivity.
      + destruct k; intros H; inversion H; reflexivity.
      + destruct k; intros H; inversion H; reflexivity.
    - destruct y; intros H; inversion H; reflexivity.
    - destruct y; intros H; inversion H; reflexivity.
    - destruct y; intros H; inversion H; reflexivity.
    - destruct y; intros H; inversion H; reflexivity.
    - destruct (pay_reply y); intros H; inversion H; reflexivity.
    - destruct y; intros H; inversion H; reflexivity.
    - intros H; inversion H; reflexivity.
    - destruct y; intros H; inversion H; reflexivity.
    - intros H; inversion H; reflexivity.
  Qed.
End Shape.

(* ---------- responses of one lifecycle step: none, or one response to every listener and the entry is gone ---------- *)
Definition all_answered (e : option entry) (a : adv) : Prop :=
  resps (a_out a) = [] \/
  exists en r, e = Some en /\ a_entry a = None /\ resps (a_out a) = map (fun h => OResp (hid h) r) (listeners en).

Lemma resps_app a b : resps (a ++ b) = resps a ++ resps b.
Proof. unfold resps. apply filter_app. Qed.

Lemma resps_resolve_outs en r : resps (resolve_outs en r) = map (fun h => OResp (hid h) r) (listeners en).
Proof. unfold resolve_outs, resps. induction (listeners en) as [|h l IH]; cbn; [reflexivity|]. rewrite IH. reflexivity. Qed.

Lemma do_resolve_answers e r p qs cn na : all_answered e (do_resolve e r p qs [] cn na).
Proof.
  unfold do_resolve, all_answered. destruct e as [en|]; cbn [a_entry a_out].
  - right. exists en, r. rewrite app_nil_r, resps_resolve_outs. auto.
  - left. reflexivity.
Qed.

Lemma do_resolve_sq_answers en rq fq r p qs cn na : all_answered (Some en) (do_resolve (Some (set_queues en rq fq)) r p qs [] cn na).
Proof.
  unfold do_resolve, all_answered. right. exists en, r. cbn [a_entry a_out]. rewrite app_nil_r, resps_resolve_outs.
  split; [reflexivity|]. split; [reflexivity|]. unfold set_queues; cbn [listeners]. reflexivity.
Qed.

Lemma select_poll_answers c li base hgt tnow d e sel na : all_answered e (select_poll c li base hgt tnow d e sel na).
Proof.
  unfold select_poll. destruct e as [en|]; [|left; reflexivity].
  destruct (rdy_q en), (fail_q en) as [r|]; try destruct sel;
    try (apply do_resolve_sq_answers); try (left; unfold go_pay; cbn; reflexivity).
Qed.

Lemma enter_select_answers c li base hgt tnow d e sel na : all_answered e (enter_select c li base hgt tnow d e sel na).
Proof. unfold enter_select. destruct (d =? 0); [apply do_resolve_answers|apply select_poll_answers]. Qed.

Lemma lc_deliver_answers c li base hgt tnow p cid y sel e na a :
  lc_deliver c li base hgt tnow p cid y sel e na = Some a -> all_answered e a.
Proof.
  rewrite lc_deliver_shape. destruct (lc_shape c li base tnow p cid y) as [[p' new out cancel|r p' new cancel|d]|] eqn:E; cbn; try discriminate;
    intros H; inversion H; subst; clear H.
  - left. cbn. eapply lc_shape_keep_out; eauto.
  - apply do_resolve_answers.
  - apply enter_select_answers.
Qed.
