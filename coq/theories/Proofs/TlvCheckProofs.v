(* TlvCheckProofs.v — the boolean grammar used by the C18 monitor is sound
   for the inductive grammar the theorems are stated with. *)
From Tramp Require Import Model.Base Model.Tlv Check.Common Check.TlvCheck Proofs.TlvProofs.
From Coq Require Import ZifyBool ZifyNat ZifyN.
Arguments N.add : simpl never.
Arguments N.mul : simpl never.
Arguments N.eqb : simpl never.
Arguments N.ltb : simpl never.
Arguments N.leb : simpl never.
Arguments N.of_nat : simpl never.
Arguments N.to_nat : simpl never.

Lemma bytes_okb_ok bs : bytes_okb bs = true -> bytes_ok bs.
Proof.
  unfold bytes_okb, bytes_ok. rewrite forallb_forall, Forall_forall.
  intros H x Hx. specialize (H x Hx). unfold byte_ok. lia.
Qed.

Lemma bigsize_dec_sound bs v r :
  bigsize_dec bs = Some (v, r) -> exists tb, bs = tb ++ r /\ bigsize v tb.
Proof.
  destruct bs as [|b t]; cbn [bigsize_dec]; [discriminate|].
  destruct (b <? 253) eqn:E0.
  { intros H; inversion H; subst. exists [v]. split; [reflexivity|constructor; lia]. }
  destruct (b =? 253) eqn:E1.
  { destruct t as [|b1 [|b2 t']]; try discriminate.
    destruct (bytes_okb [b1; b2] && _) eqn:E; [|discriminate].
    apply andb_prop in E as [Eo Ev]. intros H; inversion H; subst.
    exists [253; b1; b2]. assert (b = 253) by lia; subst. split; [reflexivity|].
    apply bigsize3; [apply bytes_okb_ok; exact Eo|lia]. }
  destruct (b =? 254) eqn:E2.
  { destruct t as [|b1 [|b2 [|b3 [|b4 t']]]]; try discriminate.
    destruct (bytes_okb [b1; b2; b3; b4] && _) eqn:E; [|discriminate].
    apply andb_prop in E as [Eo Ev]. intros H; inversion H; subst.
    exists [254; b1; b2; b3; b4]. assert (b = 254) by lia; subst. split; [reflexivity|].
    apply bigsize5; [apply bytes_okb_ok; exact Eo|lia]. }
  destruct (b =? 255) eqn:E3; [|discriminate].
  destruct t as [|b1 [|b2 [|b3 [|b4 [|b5 [|b6 [|b7 [|b8 t']]]]]]]]; try discriminate.
  destruct (bytes_okb [b1; b2; b3; b4; b5; b6; b7; b8] && _) eqn:E; [|discriminate].
  apply andb_prop in E as [Eo Ev]. intros H; inversion H; subst.
  exists [255; b1; b2; b3; b4; b5; b6; b7; b8]. assert (b = 255) by lia; subst. split; [reflexivity|].
  apply bigsize9; [apply bytes_okb_ok; exact Eo|lia].
Qed.

Lemma valid_streamb_fuel_sound fuel : forall bs, valid_streamb_fuel fuel bs = true -> valid_stream bs.
Proof.
  induction fuel as [|f IH]; intros bs; cbn [valid_streamb_fuel]; [discriminate|].
  destruct bs as [|b0 t]; [constructor|].
  destruct (bigsize_dec (b0 :: t)) as [[ty r1]|] eqn:E1; [|discriminate].
  destruct (bigsize_dec r1) as [[l r2]|] eqn:E2; [|discriminate].
  destruct (len r2 <? l) eqn:E3; [discriminate|].
  intros H. apply andb_prop in H as [Hok Hrest].
  apply bigsize_dec_sound in E1 as (tb & -> & Ht).
  apply bigsize_dec_sound in E2 as (lb & -> & Hl).
  rewrite <- (firstn_skipn (N.to_nat l) r2).
  apply vs_rec with (t := ty) (l := l); auto.
  - unfold len in *. rewrite firstn_length. lia.
  - apply bytes_okb_ok; exact Hok.
Qed.

Lemma valid_streamb_sound bs : valid_streamb bs = true -> valid_stream bs.
Proof. apply valid_streamb_fuel_sound. Qed.

(* The monitor accepts what the proved model does: if the implementation's observation
   equals the model's, the monitor cannot fail.  (So a monitor failure on the unchanged
   tree can only come with a correspondence failure.) *)
Lemma model_passes_monitor bs : bytes_ok bs -> monitor_d bs (model_dobs true bs) = true.
Proof.
  intros Hok. unfold monitor_d. apply andb_true_intro; split; [apply andb_true_intro; split|].
  - unfold no_panic_obs, model_dobs; cbn [o_fb o_tf o_tu].
    pose proof (from_bytes_no_panic bs). pose proof (try_from_no_panic bs). pose proof (get_tu64_no_panic bs).
    destruct (from_bytes true bs), (try_from true bs), (get_tu64 bs); cbn; congruence.
  - unfold roundtrip_obs. destruct (valid_streamb bs) eqn:E; [|reflexivity].
    apply valid_streamb_sound in E. destruct (decode_encode true bs E) as (es & H1 & H2 & _).
    unfold model_dobs; cbn [o_fb o_enc]. rewrite H1. cbn [map_res]. rewrite H2.
    clear. induction bs as [|b bs IH]; cbn; [reflexivity|]. rewrite N.eqb_refl. exact IH.
  - unfold tu64_obs, model_dobs; cbn [o_tu]. unfold get_tu64.
    destruct (len bs <=? 8) eqn:E.
    + destruct (8 <? len bs) eqn:E'; [lia|]. cbn. apply N.eqb_refl.
    + destruct (8 <? len bs) eqn:E'; [reflexivity|lia].
Qed.
