(* CodecCheckProofs.v — what the correspondence check of the driver engine computes (Check/CodecCheck.run_driver) is the
   completion order: the machine of Model/Driver.v under the schedule the harness forces writes the replies in the order the
   handlers were released. *)
From Tramp Require Import Model.Base Model.Codec Model.Driver Check.Common Check.CodecCheck Proofs.CodecProofs Proofs.DriverProofs.
From Coq Require Import ZifyBool ZifyNat ZifyN.

Lemma complete_one_dbody id : [VComplete id; VRecv; VAcquire WDriver; VWrite 3; VRelease] = complete_one dbody id.
Proof. reflexivity. Qed.

Lemma flat_map_ext_eq {A B} (f g : A -> list B) l : (forall x, f x = g x) -> flat_map f l = flat_map g l.
Proof. intros H. induction l as [|x l IH]; cbn [flat_map]; [reflexivity|]. rewrite H, IH. reflexivity. Qed.

Lemma NoDup_app_sub {A} (o l l' : list A) : NoDup (o ++ l) -> (forall y, In y l' -> In y l) -> NoDup l' -> NoDup (o ++ l').
Proof.
  intros Hl Hincl Hl'. induction o as [|y o IH]; cbn [app] in *; [exact Hl'|].
  inversion Hl as [|? ? Hy Hl2]; subst. constructor.
  - intros Hin. apply Hy. apply in_or_app. apply in_app_or in Hin. destruct Hin as [Hin|Hin]; [left; exact Hin|right; apply Hincl, Hin].
  - apply IH, Hl2.
Qed.

Theorem run_driver_is_completion_order n order :
  NoDup order -> (forall id, In id order -> id < N.of_nat n) ->
  run_driver n order = order ++ filter (fun id => negb (existsb (N.eqb id) order)) (map N.of_nat (seq 0 n)).
Proof.
  intros Hnd Hlt. unfold run_driver.
  set (reqs := map N.of_nat (seq 0 n)).
  set (full := order ++ filter (fun id => negb (existsb (N.eqb id) order)) reqs).
  rewrite (flat_map_ext_eq _ (complete_one dbody) full complete_one_dbody).
  change (flat_map (fun id => [VReq id; VDispatch]) reqs) with (dispatch_all reqs).
  apply forced_schedule_replies_in_completion_order.
  - (* NoDup full *)
    assert (Hreqs : NoDup reqs).
    { unfold reqs. apply FinFun.Injective_map_NoDup; [intros a b H; lia|apply seq_NoDup]. }
    unfold full. clear full.
    induction order as [|x order IH]; cbn [app].
    + apply NoDup_filter, Hreqs.
    + inversion Hnd as [|? ? Hx Hnd']; subst. constructor.
      * intros Hin. apply in_app_or in Hin. destruct Hin as [Hin|Hin]; [exact (Hx Hin)|].
        apply filter_In in Hin. destruct Hin as [_ Hf]. cbn [existsb] in Hf. rewrite N.eqb_refl in Hf. discriminate.
      * apply (NoDup_app_sub order (filter (fun id => negb (existsb (N.eqb id) order)) reqs)).
        -- apply IH; [exact Hnd'|intros id Hid; apply Hlt; right; exact Hid].
        -- intros y Hy. apply filter_In in Hy. destruct Hy as [Hy1 Hy2]. apply filter_In. split; [exact Hy1|].
           cbn [existsb] in Hy2. apply negb_true_iff in Hy2. apply orb_false_iff in Hy2. apply negb_true_iff. tauto.
        -- apply NoDup_filter, Hreqs.
  - (* incl full reqs *)
    intros id Hid. unfold full in Hid. apply in_app_or in Hid. destruct Hid as [Hid|Hid].
    + unfold reqs. apply in_map_iff. exists (N.to_nat id). split; [lia|]. apply in_seq. specialize (Hlt id Hid). lia.
    + apply filter_In in Hid. tauto.
Qed.
