(* SysTimers.v — the MPP timer (C11, C06 deadline clause), doomed sets (C07, C04 second clauses) and the
   answer to a first HTLC rejected by the gates (C12 third clause). *)
From Tramp Require Import Model.Base Model.Fee Model.Classify Model.Node Model.Provider Model.Sys.
From Tramp Require Import Proofs.FeeProofs Proofs.SysBasics Proofs.EntryProofs Proofs.SysEntry Proofs.SysShape Proofs.SysTheorems.
From Coq Require Import ZifyBool ZifyNat ZifyN.

(* ---------- every lifecycle sleeping in the select! has a deadline in (now, now + mpp] ---------- *)
Definition InvT (c : cfg) (s : sys) : Prop :=
  forall i x dl, nth_error (lcs (pl s)) i = Some x -> l_pc x = PSelect dl -> now s < dl /\ dl <= now s + mpp_ms c.

Lemma InvT_init c : InvT c sys0.
Proof. intros [|i] x dl H; discriminate. Qed.

Lemma select_poll_pc c li base hgt tnow dl e sel na :
  match a_pc (select_poll c li base hgt tnow dl e sel na) with PSelect d' => d' = dl | _ => True end.
Proof.
  unfold select_poll. destruct e as [en|]; [|cbn; reflexivity].
  destruct (rdy_q en), (fail_q en); try destruct sel; unfold go_pay, do_resolve, stay; cbn; auto.
Qed.

Lemma enter_select_pc c li base hgt tnow d e sel na :
  match a_pc (enter_select c li base hgt tnow d e sel na) with PSelect d' => d' = tnow + d /\ d <> 0 | _ => True end.
Proof.
  unfold enter_select. destruct (d =? 0) eqn:E.
  - unfold do_resolve. destruct e; cbn; auto.
  - pose proof (select_poll_pc c li base hgt tnow (tnow + d) e sel na) as H.
    destruct (a_pc (select_poll c li base hgt tnow (tnow + d) e sel na)); auto. split; [exact H|lia].
Qed.

Lemma lc_shape_not_select c li base tnow p cid y sh :
  lc_shape c li base tnow p cid y = Some sh ->
  match sh with LKeep p' _ _ _ | LResolve _ p' _ _ => match p' with PSelect _ => False | _ => True end | LSelect _ => True end.
Proof.
  destruct p; unfold lc_shape; try discriminate;
    try (destruct (negb (Nat.eqb cid0 cid)); [discriminate|]).
  - destruct y as [[[[| | |] ?]|]| | | | | | | |]; intros H; inversion H; subst; exact I.
  - destruct (wait_deliver base w cid y) as [[w' nw|[pr| |] cn]|]; try discriminate.
    + intros H; inversion H; exact I.
    + intros H; inversion H; exact I.
    + destruct k; intros H; inversion H; exact I.
    + destruct k; intros H; inversion H; exact I.
  - destruct y; intros H; inversion H; exact I.
  - destruct y; intros H; inversion H; exact I.
  - destruct y; intros H; inversion H; exact I.
  - destruct y; intros H; inversion H; exact I.
  - destruct (pay_reply y); intros H; inversion H; exact I.
  - destruct y; intros H; inversion H; exact I.
  - intros H; inversion H; exact I.
  - destruct y; intros H; inversion H; exact I.
  - intros H; inversion H; exact I.
Qed.

Lemma lc_deliver_pc_select c li base hgt tnow p cid y sel e na a dl :
  lc_deliver c li base hgt tnow p cid y sel e na = Some a -> a_pc a = PSelect dl -> tnow < dl /\ dl <= tnow + mpp_ms c.
Proof.
  rewrite lc_deliver_shape. destruct (lc_shape c li base tnow p cid y) as [sh|] eqn:E; [|discriminate].
  cbn [option_map]. intros H; inversion H; subst a; clear H.
  pose proof (lc_shape_not_select _ _ _ _ _ _ _ _ E) as NS.
  destruct sh as [p' new out cancel|r p' new cancel|d]; cbn [adv_of].
  - cbn. intros ->. contradiction.
  - unfold do_resolve. destruct e; cbn; [intros ->; contradiction|discriminate].
  - intros Hp. pose proof (enter_select_pc c li base hgt tnow d e sel na) as X. rewrite Hp in X. destruct X as (-> & Hd).
    destruct (lc_shape_select_attached _ _ _ _ _ _ _ _ E) as (_ & Hle & _). lia.
Qed.

Lemma fire_timers_left : forall l e t l' e' o' i x dl,
  fire_timers l e t = (l', e', o') -> nth_error l' i = Some x -> l_pc x = PSelect dl ->
  t < dl /\ exists x0, nth_error l i = Some x0 /\ l_pc x0 = PSelect dl.
Proof.
  induction l as [|z r IH]; intros e t l' e' o' i x dl H Hx Hp; unfold fire_timers in H; fold fire_timers in H.
  - inversion H; subst. destruct i; discriminate.
  - destruct (l_pc z) eqn:Hz;
      try (destruct (fire_timers r e t) as [[r' e1] o1] eqn:E2; inversion H; subst;
           destruct i as [|i]; cbn in Hx; [inversion Hx; subst; congruence|destruct (IH _ _ _ _ _ _ _ _ E2 Hx Hp) as (A & x0 & B & C); split; [exact A|exists x0; auto]]).
    destruct (deadline <=? t) eqn:Ed.
    + destruct e as [en|]; destruct (fire_timers r None t) as [[r' e1] o1] eqn:E2; inversion H; subst;
        (destruct i as [|i]; cbn in Hx; [inversion Hx; subst; cbn in Hp; discriminate|destruct (IH _ _ _ _ _ _ _ _ E2 Hx Hp) as (A & x0 & B & C); split; [exact A|exists x0; auto]]).
    + destruct (fire_timers r e t) as [[r' e1] o1] eqn:E2; inversion H; subst.
      destruct i as [|i]; cbn in Hx.
      * inversion Hx; subst. rewrite Hz in Hp. inversion Hp; subst. split; [lia|]. exists x. auto.
      * destruct (IH _ _ _ _ _ _ _ _ E2 Hx Hp) as (A & x0 & B & C). split; [exact A|exists x0; auto].
Qed.

Theorem step_InvT c s ev : InvT c s -> InvT c (fst (step c s ev)).
Proof.
  intros HT. destruct ev; cbn [step].
  - (* EvHtlc *)
    destruct (entry_ (pl s)) as [e|] eqn:He; [exact HT|].
    intros j y dl Hy Hpy. cbn in *. destruct (Nat.lt_ge_cases j (length (lcs (pl s)))) as [Hlt|Hge].
    + rewrite nth_error_app1 in Hy by exact Hlt. exact (HT _ _ _ Hy Hpy).
    + rewrite nth_error_app2 in Hy by exact Hge. destruct (j - length (lcs (pl s)))%nat as [|k]; cbn in Hy; [inversion Hy; subst; discriminate|destruct k; discriminate].
  - (* EvPoll *)
    destruct (find_select 0 (lcs (pl s))) as [[[i d] li]|] eqn:Hf; [|exact HT].
    destruct (find_select_spec _ _ _ _ _ Hf) as (x & Hx & Hp & _). rewrite Nat.sub_0_r in Hx.
    intros j y dl Hy Hpy.
    destruct (apply_adv_lcs s i (select_poll c li (length (calls s)) (height s) (now s) d (entry_ (pl s)) sel (next_att (pl s))) x Hx) as (Hl & _ & _ & Hnow & _).
    rewrite Hl in Hy. rewrite Hnow.
    destruct (nth_upd_cases _ _ _ _ _ Hy) as [[-> ->]|[Hne Hy']].
    + cbn [set_pc l_pc] in Hpy.
      pose proof (select_poll_pc c li (length (calls s)) (height s) (now s) d (entry_ (pl s)) sel (next_att (pl s))) as X.
      rewrite Hpy in X. subst dl. exact (HT _ _ _ Hx Hp).
    + exact (HT _ _ _ Hy' Hpy).
  - destruct (nth_error (calls s) cid) as [cl|]; [|exact HT]. destruct (c_st cl); try exact HT.
    destruct (node_exec (nd s) (c_rpc cl) f). exact HT.
  - (* EvDeliver *)
    destruct (nth_error (calls s) cid) as [cl|]; [|exact HT]. destruct (c_st cl); try exact HT.
    destruct (find_owner c 0 (lcs (pl s)) cid y sel (entry_ (pl s)) (length (calls s)) (height s) (now s) (next_att (pl s))) as [[i a]|] eqn:Hf; [|exact HT].
    destruct (find_owner_spec _ _ _ _ _ _ _ _ _ _ _ _ _ Hf) as (x & Hx & _ & Hd). rewrite Nat.sub_0_r in Hx.
    intros j y0 dl Hy Hpy.
    destruct (apply_adv_lcs (with_calls s (set_status cid Delivered (calls s))) i a x Hx) as (Hl & _ & _ & Hnow & _).
    rewrite Hl in Hy. rewrite Hnow. cbn [with_calls now].
    destruct (nth_upd_cases _ _ _ _ _ Hy) as [[-> ->]|[Hne Hy']].
    + cbn [set_pc l_pc] in Hpy. exact (lc_deliver_pc_select _ _ _ _ _ _ _ _ _ _ _ _ _ Hd Hpy).
    + exact (HT _ _ _ Hy' Hpy).
  - destruct (nth_error (parts (nd s)) pid) as [[]|], st; exact HT.
  - destruct (nth_error (calls s) cid) as [[q st]|]; [|exact HT]. destruct q; try exact HT. destruct st; exact HT.
  - destruct (nth_error (calls s) cid) as [[q st]|]; [|exact HT]. destruct q; try exact HT. destruct st; exact HT.
  - (* EvTick *)
    destruct (fire_timers (lcs (pl s)) (entry_ (pl s)) (now s + dt)) as [[l' e'] o'] eqn:Hf.
    intros j y dl Hy Hpy. cbn in *.
    destruct (fire_timers_left _ _ _ _ _ _ _ _ _ Hf Hy Hpy) as (Hlt & x0 & Hx0 & Hp0).
    destruct (HT _ _ _ Hx0 Hp0). split; lia.
  - exact HT.
  - intros [|j] y dl Hy; discriminate.
Qed.

(* ---------- C11: at the deadline everything held is failed with a temporary trampoline failure; before it, nothing happens ---------- *)
Lemma fire_timers_silent : forall l e t, (forall i x dl, nth_error l i = Some x -> l_pc x = PSelect dl -> t < dl) -> fire_timers l e t = (l, e, []).
Proof.
  induction l as [|z r IH]; intros e t H; unfold fire_timers; fold fire_timers; [reflexivity|].
  assert (Hr : forall i x dl, nth_error r i = Some x -> l_pc x = PSelect dl -> t < dl) by (intros i x dl Hx; exact (H (S i) x dl Hx)).
  destruct (l_pc z) eqn:Hz; try (rewrite (IH e t Hr); reflexivity).
  pose proof (H 0%nat z deadline eq_refl Hz). destruct (deadline <=? t) eqn:E; [lia|]. rewrite (IH e t Hr). reflexivity.
Qed.

Theorem tick_before_deadline c s dt :
  (forall i x dl, nth_error (lcs (pl s)) i = Some x -> l_pc x = PSelect dl -> now s + dt < dl) ->
  step c s (EvTick dt) = ({| nd := nd s; pl := pl s; calls := calls s; now := now s + dt; height := height s |}, []).
Proof.
  intros H. cbn [step]. rewrite (fire_timers_silent _ _ _ H). destruct (pl s); reflexivity.
Qed.

Lemma fire_timers_fires : forall l en t i x dl,
  nth_error l i = Some x -> l_pc x = PSelect dl -> dl <= t ->
  exists l' o', fire_timers l (Some en) t = (l', None, o') /\ resps o' = map (fun h => OResp (hid h) r_tramp_fail) (listeners en).
Proof.
  induction l as [|z r IH]; intros en t i x dl Hx Hp Hd; [destruct i; discriminate|].
  unfold fire_timers; fold fire_timers.
  assert (Fire : forall d0, l_pc z = PSelect d0 -> d0 <= t ->
            exists l' o', (let '(r', e', o') := fire_timers r None t in (set_pc z PEnd :: r', e', resolve_outs en r_tramp_fail ++ o')) = (l', None, o')
                          /\ resps o' = map (fun h => OResp (hid h) r_tramp_fail) (listeners en)).
  { intros d0 _ _. destruct (fire_timers r None t) as [[r' e1] o1] eqn:E2.
    pose proof (fire_timers_none_entry _ _ _ _ _ E2). subst e1.
    eexists _, _. split; [reflexivity|].
    destruct (fire_timers_resps _ _ _ _ _ _ E2) as [R|(? & X & _)]; [|discriminate].
    rewrite resps_app, resps_resolve_outs, R, app_nil_r. reflexivity. }
  destruct i as [|i]; cbn in Hx.
  - inversion Hx; subst z. rewrite Hp. destruct (dl <=? t) eqn:E; [|lia]. exact (Fire dl Hp Hd).
  - destruct (l_pc z) eqn:Hz;
      try (destruct (IH en t i x dl Hx Hp Hd) as (l' & o' & -> & R); eexists _, _; split; [reflexivity|exact R]).
    destruct (deadline <=? t) eqn:E.
    + apply (Fire deadline eq_refl). lia.
    + destruct (IH en t i x dl Hx Hp Hd) as (l' & o' & -> & R). eexists _, _; split; [reflexivity|exact R].
Qed.

Theorem tick_at_deadline c s dt en i x dl :
  entry_ (pl s) = Some en -> nth_error (lcs (pl s)) i = Some x -> l_pc x = PSelect dl -> dl <= now s + dt ->
  resps (snd (step c s (EvTick dt))) = map (fun h => OResp (hid h) r_tramp_fail) (listeners en) /\
  entry_ (pl (fst (step c s (EvTick dt)))) = None /\
  (forall cid q, ~ In (OCall cid q) (snd (step c s (EvTick dt)))).
Proof.
  intros He Hx Hp Hd. cbn [step]. rewrite He.
  destruct (fire_timers_fires _ en _ _ _ _ Hx Hp Hd) as (l' & o' & E & R).
  rewrite E. cbn. split; [exact R|]. split; [reflexivity|]. intros cid q. exact (fire_timers_no_calls _ _ _ _ _ _ cid q E).
Qed.

(* the select! is entered with at most one MPP timeout to go: a restart never grants more than one further timeout *)
Theorem select_deadline_bound c li base tnow p cid y d :
  lc_shape c li base tnow p cid y = Some (LSelect d) -> d <= mpp_ms c.
Proof. intros H. exact (proj1 (proj2 (lc_shape_select_attached _ _ _ _ _ _ _ _ H))). Qed.

(* ---------- doomed sets: a rejection in a still-incomplete set means no outgoing payment is started for it ---------- *)
Definition prepay (p : pc) : bool :=
  match p with
  | PFetch _ | PWait (AfterRestart _ _ _) _ | PMarkF1 _ _ _ _ | PMarkF2 _ _ _ _ | PSelect _ | PPanicked => true
  | _ => false
  end.

Definition Doomed (s : sys) : Prop :=
  exists e, entry_ (pl s) = Some e /\ doomed e /\
            forall i x, nth_error (lcs (pl s)) i = Some x -> attached (l_pc x) = true -> prepay (l_pc x) = true.

Lemma lc_shape_prepay c li base tnow p cid y p' new out cancel :
  lc_shape c li base tnow p cid y = Some (LKeep p' new out cancel) -> prepay p = true -> prepay p' = true.
Proof.
  intros H Hp. destruct p; cbn in Hp; try discriminate Hp; unfold lc_shape in H.
  - destruct (negb (Nat.eqb cid0 cid)); [discriminate|].
    destruct y as [[[[| | |] ?]|]| | | | | | | |]; inversion H; subst; reflexivity.
  - destruct k; [|discriminate Hp]. destruct (wait_deliver base w cid y) as [[w' nw|[pr| |] cn]|]; try discriminate; inversion H; subst; reflexivity.
  - destruct (negb (Nat.eqb cid0 cid)); [discriminate|]. destruct y; inversion H; subst; reflexivity.
  - destruct (negb (Nat.eqb cid0 cid)); [discriminate|]. destruct y; inversion H.
  - discriminate.
  - discriminate.
Qed.

Lemma select_poll_doomed c li base hgt tnow dl en sel na :
  rdy_q en = false ->
  let a := select_poll c li base hgt tnow dl (Some en) sel na in
  a_new a = [] /\ ((a_entry a = None) \/ (a_entry a = Some en /\ a_pc a = PSelect dl)).
Proof.
  intros Hq. unfold select_poll. rewrite Hq. destruct (fail_q en); cbn; auto.
Qed.

Lemma enter_select_doomed c li base hgt tnow d en sel na :
  rdy_q en = false ->
  let a := enter_select c li base hgt tnow d (Some en) sel na in
  a_new a = [] /\ ((a_entry a = None) \/ (a_entry a = Some en /\ exists dl, a_pc a = PSelect dl)).
Proof.
  intros Hq. unfold enter_select. destruct (d =? 0); [cbn; auto|].
  destruct (select_poll_doomed c li base hgt tnow (tnow + d) en sel na Hq) as (A & [B|(B & C)]); split; auto. right. eauto.
Qed.

Lemma gate_reject_keeps_rdy c e h : gate_rejects c e h = true -> rdy_q (e_handle c e h) = rdy_q e.
Proof.
  intros H. pose proof (e_handle_reject_sets_fail c e h H) as Hf.
  unfold e_handle, e_add in *. cbn [rdy_q is_fail] in *.
  set (e3 := if fee_sufficient (pol c) (total h) (deliver h) then _ else _) in *.
  assert (R : rdy_q e3 = rdy_q e).
  { unfold e3. repeat match goal with
    | |- context [if ?b then _ else _] => destruct b
    end; repeat match goal with |- context [e_fail ?x ?r] => destruct (e_fail_fields x r) as (_ & _ & _ & _ & _ & _ & -> & _) end; reflexivity. }
  rewrite R, Hf. cbn. rewrite andb_false_r, orb_false_r. reflexivity.
Qed.

(* the first HTLC of a payment, rejected by the expiry or the declared-total gate, is answered with the policy failure when
   the lifecycle reaches the select! (stored state Free or absent, non-zero timeout) *)
Lemma enter_select_first_fail c li base hgt tnow d en sel na r :
  d <> 0 -> rdy_q en = false -> fail_q en = Some r ->
  enter_select c li base hgt tnow d (Some en) sel na = do_resolve (Some (set_queues en false None)) r PEnd [] [] [] na.
Proof.
  intros Hd Hq Hf. unfold enter_select. destruct (d =? 0) eqn:E; [lia|]. unfold select_poll. rewrite Hq, Hf. reflexivity.
Qed.

Lemma doomed_keeps_fail_q c e h : is_fail e = true -> fail_q (e_handle c e h) = fail_q e.
Proof.
  intros Hf. unfold e_handle, e_add. cbn [fail_q].
  assert (K : forall x r, is_fail x = true -> e_fail x r = x).
  { intros x r Hx. destruct (e_fail_fields x r) as (_ & _ & _ & _ & _ & _ & _ & _ & X & _). exact (X Hx). }
  set (e1 := if bytes_eq (blob h) (e_blob e) && (deliver h =? e_deliver e) then e else e_fail e r_tramp_fail).
  assert (E1 : e1 = e) by (unfold e1; destruct (_ && _); [reflexivity|apply K; exact Hf]).
  rewrite E1.
  set (e2 := if (rel h <? Z.of_N (pol_delta (pol c)))%Z then e_fail e (r_fee_fail c) else e).
  assert (E2 : e2 = e) by (unfold e2; destruct (_ <? _)%Z; [apply K; exact Hf|reflexivity]).
  rewrite E2.
  destruct (fee_sufficient (pol c) (total h) (deliver h)); [reflexivity|rewrite K by exact Hf; reflexivity].
Qed.

Lemma Doomed_same_pl s s' : pl s' = pl s -> Doomed s -> Doomed s'.
Proof. intros H (e & A & B & C). exists e. rewrite H. auto. Qed.

Theorem doomed_step c s ev :
  InvU s -> InvE c s -> Doomed s ->
  (forall cid q, In (OCall cid q) (snd (step c s ev)) -> is_attempt_start q = false) /\
  (entry_ (pl (fst (step c s ev))) = None \/ Doomed (fst (step c s ev))).
Proof.
  intros HU HE (e & He & Hdm & Hpre).
  pose proof (ie_entry c s HE e He) as HEe.
  assert (Same : forall s', pl s' = pl s -> entry_ (pl s') = None \/ Doomed s')
    by (intros s' Hs; right; apply (Doomed_same_pl s); [exact Hs|exists e; auto]).
  destruct ev; cbn [step].
  - (* EvHtlc *)
    rewrite He. pose proof (e_handle_doomed c e h HEe Hdm) as Hd1. destruct Hd1 as (Hf1 & Hq1).
    split; [intros cid q []|]. right. exists (e_handle c e h). cbn. split; [reflexivity|]. split; [split; assumption|exact Hpre].
  - (* EvPoll *)
    destruct (find_select 0 (lcs (pl s))) as [[[i d] li]|] eqn:Hf; [|split; [intros ? ? []|apply Same; reflexivity]].
    destruct (find_select_spec _ _ _ _ _ Hf) as (x & Hx & Hp & _). rewrite Nat.sub_0_r in Hx.
    rewrite He. destruct Hdm as (Hfl & Hq).
    destruct (select_poll_doomed c li (length (calls s)) (height s) (now s) d e sel (next_att (pl s)) Hq) as (Hnew & Hent).
    destruct (apply_adv_lcs s i (select_poll c li (length (calls s)) (height s) (now s) d (Some e) sel (next_att (pl s))) x Hx) as (Hl & Hen & _).
    split.
    + intros cid q Hin. destruct (apply_adv_calls _ _ _ _ _ Hin) as [H|H]; [exfalso; exact (select_poll_out_no_call _ _ _ _ _ _ _ _ _ _ _ H)|].
      rewrite Hnew in H. destruct H.
    + destruct Hent as [Hn|(Hs & Hpc)]; [left; rewrite Hen; exact Hn|right].
      exists e. rewrite Hen. split; [exact Hs|]. split; [split; assumption|].
      intros j y Hy Ay. rewrite Hl in Hy. destruct (nth_upd_cases _ _ _ _ _ Hy) as [[-> ->]|[Hne Hy']].
      * cbn [set_pc l_pc]. rewrite Hpc. reflexivity.
      * exact (Hpre j y Hy' Ay).
  - (* EvProcess *)
    destruct (nth_error (calls s) cid) as [cl|]; [|split; [intros ? ? []|apply Same; reflexivity]].
    destruct (c_st cl); try (split; [intros ? ? []|apply Same; reflexivity]).
    destruct (node_exec (nd s) (c_rpc cl) f). split; [intros ? ? []|apply Same; reflexivity].
  - (* EvDeliver *)
    destruct (nth_error (calls s) cid) as [cl|]; [|split; [intros ? ? []|apply Same; reflexivity]].
    destruct (c_st cl); try (split; [intros ? ? []|apply Same; reflexivity]).
    destruct (find_owner c 0 (lcs (pl s)) cid y sel (entry_ (pl s)) (length (calls s)) (height s) (now s) (next_att (pl s))) as [[i a]|] eqn:Hf;
      [|split; [intros ? ? []|apply Same; reflexivity]].
    destruct (find_owner_spec _ _ _ _ _ _ _ _ _ _ _ _ _ Hf) as (x & Hx & _ & Hd). rewrite Nat.sub_0_r in Hx.
    destruct (apply_adv_lcs (with_calls s (set_status cid Delivered (calls s))) i a x Hx) as (Hl & Hen & _).
    pose proof Hd as Hd0. rewrite lc_deliver_shape in Hd.
    destruct (lc_shape c (l_info x) (length (calls s)) (now s) (l_pc x) cid y) as [sh|] eqn:Hsh; [|discriminate].
    cbn [option_map] in Hd. inversion Hd; subst a; clear Hd. rewrite He in *.
    destruct (lc_shape_news _ _ _ _ _ _ _ _ Hsh) as (Hns & _). rewrite forallb_forall in Hns.
    assert (NoStart : forall q, In q (shape_new sh) -> is_attempt_start q = false)
      by (intros q Hq; specialize (Hns q Hq); destruct (is_attempt_start q); [discriminate|reflexivity]).
    destruct (attached (l_pc x)) eqn:Ax.
    + pose proof (Hpre i x Hx Ax) as Hpx.
      destruct sh as [p' new out cancel|r p' new cancel|d]; cbn [adv_of shape_new] in *.
      * split.
        -- intros k q Hin. destruct (apply_adv_calls _ _ _ _ _ Hin) as [H|H]; [exfalso; exact (lc_shape_keep_out_nocall _ _ _ _ _ _ _ _ _ _ _ _ _ Hsh H)|exact (NoStart q H)].
        -- right. exists e. rewrite Hen. cbn [a_entry]. split; [reflexivity|]. split; [exact Hdm|].
           intros j z Hz Az. rewrite Hl in Hz. destruct (nth_upd_cases _ _ _ _ _ Hz) as [[-> ->]|[Hne Hz']].
           ++ cbn [set_pc l_pc a_pc]. exact (lc_shape_prepay _ _ _ _ _ _ _ _ _ _ _ Hsh Hpx).
           ++ exact (Hpre j z Hz' Az).
      * split.
        -- intros k q Hin. destruct (apply_adv_calls _ _ _ _ _ Hin) as [H|H]; [exfalso; exact (do_resolve_out_no_call _ _ _ _ _ _ _ _ H)|].
           apply do_resolve_new in H. exact (NoStart q H).
        -- left. rewrite Hen. reflexivity.
      * destruct Hdm as (Hfl & Hq).
        destruct (enter_select_doomed c (l_info x) (length (calls s)) (height s) (now s) d e sel (next_att (pl s)) Hq) as (Hnew & Hent).
        split.
        -- intros k q Hin. destruct (apply_adv_calls _ _ _ _ _ Hin) as [H|H]; [exfalso; exact (enter_select_out_no_call _ _ _ _ _ _ _ _ _ _ _ H)|].
           rewrite Hnew in H. destruct H.
        -- destruct Hent as [Hn|(Hs & dl & Hpc)]; [left; rewrite Hen; exact Hn|right].
           exists e. rewrite Hen. split; [exact Hs|]. split; [split; assumption|].
           intros j z Hz Az. rewrite Hl in Hz. destruct (nth_upd_cases _ _ _ _ _ Hz) as [[-> ->]|[Hne Hz']].
           ++ cbn [set_pc l_pc]. rewrite Hpc. reflexivity.
           ++ exact (Hpre j z Hz' Az).
    + (* a detached lifecycle: it keeps the entry and stays detached *)
      pose proof (lc_deliver_ok _ _ _ _ _ _ _ _ _ _ _ _ Hd0) as Hok. rewrite Ax in Hok. destruct Hok as (Hdet & Hsame).
      split.
      * intros k q Hin. destruct (apply_adv_calls _ _ _ _ _ Hin) as [H|H].
        -- exfalso. exact (proj1 (lc_deliver_calls _ _ _ _ _ _ _ _ _ _ _ _ k q Hd0) H).
        -- destruct (proj2 (lc_deliver_calls _ _ _ _ _ _ _ _ _ _ _ _ k q Hd0) H) as [(sh' & Hsh' & Hq & _)|(d & en & fq & Hsh' & _)].
           ++ rewrite Hsh in Hsh'. inversion Hsh'; subst sh'. exact (NoStart q Hq).
           ++ rewrite Hsh in Hsh'. inversion Hsh'; subst sh.
              pose proof (proj1 (lc_shape_select_attached _ _ _ _ _ _ _ _ Hsh)). congruence.
      * right. exists e. rewrite Hen, Hsame. split; [reflexivity|]. split; [exact Hdm|].
        intros j z Hz Az. rewrite Hl in Hz. destruct (nth_upd_cases _ _ _ _ _ Hz) as [[-> ->]|[Hne Hz']].
        -- cbn [set_pc l_pc] in Az. congruence.
        -- exact (Hpre j z Hz' Az).
  - destruct (nth_error (parts (nd s)) pid) as [[]|], st; (split; [intros ? ? []|apply Same; reflexivity]).
  - destruct (nth_error (calls s) cid) as [[q st]|]; [|split; [intros ? ? []|apply Same; reflexivity]].
    destruct q; try (split; [intros ? ? []|apply Same; reflexivity]). destruct st; (split; [intros ? ? []|apply Same; reflexivity]).
  - destruct (nth_error (calls s) cid) as [[q st]|]; [|split; [intros ? ? []|apply Same; reflexivity]].
    destruct q; try (split; [intros ? ? []|apply Same; reflexivity]). destruct st; (split; [intros ? ? []|apply Same; reflexivity]).
  - (* EvTick *)
    destruct (fire_timers (lcs (pl s)) (entry_ (pl s)) (now s + dt)) as [[l' e'] o'] eqn:Hf. cbn [fst snd].
    split; [intros cid q Hin; exfalso; exact (fire_timers_no_calls _ _ _ _ _ _ _ _ Hf Hin)|].
    destruct (fire_timers_entry _ _ _ _ _ _ Hf) as [->|(-> & -> & ->)]; [left; reflexivity|].
    right. exists e. cbn. auto.
  - split; [intros ? ? []|apply Same; reflexivity].
  - split; [intros ? ? []|left; reflexivity].
Qed.

(* how a set becomes doomed: an HTLC that any gate rejects, arriving while no ready signal is queued and the lifecycle has not
   started to pay *)
Theorem rejection_dooms c s h e :
  InvU s -> InvE c s -> entry_ (pl s) = Some e -> gate_rejects c e h = true -> rdy_q e = false ->
  (forall i x, nth_error (lcs (pl s)) i = Some x -> attached (l_pc x) = true -> prepay (l_pc x) = true) ->
  entry_ (pl (fst (step c s (EvHtlc h)))) = None \/ Doomed (fst (step c s (EvHtlc h))).
Proof.
  intros HU HE He Hrej Hq Hpre.
  assert (Hd1 : doomed (e_handle c e h)) by (split; [apply e_handle_reject_sets_fail; exact Hrej|rewrite gate_reject_keeps_rdy; auto]).
  destruct Hd1 as (Hf1 & Hq1).
  cbn [step]. rewrite He.
  right. exists (e_handle c e h). cbn. split; [reflexivity|]. split; [split; assumption|exact Hpre].
Qed.
