(* DriverProofs.v — C17 (one reply per id, messages never interleaved) over Model/Driver.v, for EVERY schedule. *)
From Tramp Require Import Model.Base Model.Codec Model.Driver Proofs.CodecProofs.
From Coq Require Import ZifyBool ZifyNat ZifyN Permutation.

Definition cnt (l : list N) (x : N) : nat := count_occ N.eq_dec l x.

Arguments cnt : simpl never.

Lemma In_firstn {A} n (l : list A) x : In x (firstn n l) -> In x l.
Proof.
  revert l; induction n as [|n IH]; intros l H; [destruct H|]. destruct l as [|y l]; [destruct H|].
  cbn [firstn] in H. destruct H as [->|H]; [left; reflexivity|right; apply IH, H].
Qed.

Lemma cnt_app l1 l2 x : cnt (l1 ++ l2) x = (cnt l1 x + cnt l2 x)%nat.
Proof. apply count_occ_app. Qed.
Lemma cnt_cons y l x : cnt (y :: l) x = ((if N.eq_dec y x then 1 else 0) + cnt l x)%nat.
Proof. unfold cnt. cbn [count_occ]. destruct (N.eq_dec y x); lia. Qed.
Lemma cnt_nil x : cnt [] x = 0%nat.
Proof. reflexivity. Qed.

Lemma cnt_remove1 id l x : existsb (N.eqb id) l = true ->
  cnt l x = ((if N.eq_dec id x then 1 else 0) + cnt (remove1 id l) x)%nat.
Proof.
  induction l as [|y l IH]; cbn [existsb remove1]; [discriminate|].
  intros H. destruct (N.eqb_spec y id) as [->|Hne].
  - rewrite cnt_cons. reflexivity.
  - rewrite !cnt_cons. destruct (N.eqb_spec id y) as [->|_]; [congruence|]. cbn [orb] in H. rewrite (IH H). lia.
Qed.

Lemma replies_app a b : replies (a ++ b) = replies a ++ replies b.
Proof. induction a as [|[i|k] a IH]; cbn [replies app]; [reflexivity| |exact IH]. rewrite IH. reflexivity. Qed.
Lemma logs_app a b : logs (a ++ b) = logs a ++ logs b.
Proof. induction a as [|[i|k] a IH]; cbn [logs app]; [reflexivity|exact IH|]. rewrite IH. reflexivity. Qed.

Section Body.
Variable body : msg -> list N.
Notation enc := (enc body).
Notation wire := (wire body).
Notation dstepm := (dstepm body).
Notation drun := (drun body).

Lemma wire_app a b : wire (a ++ b) = wire a ++ wire b.
Proof. unfold Driver.wire. rewrite map_app, concat_app. reflexivity. Qed.

(* ---------- the invariant ---------- *)
Record DInv (s : dst) : Prop := {
  (* conservation: every request sent is in exactly one place *)
  di_req : forall x, cnt (d_req s) x =
      (cnt (d_inq s) x + cnt (d_pending s) x + cnt (d_chan s) x + cnt (opt_list (d_hold s)) x + cnt (lock_reply s) x + cnt (replies (d_done s)) x)%nat;
  di_log : forall x, cnt (d_emit s) x =
      (cnt (d_logq s) x + cnt (opt_list (d_lhold s)) x + cnt (lock_log s) x + cnt (logs (d_done s)) x)%nat;
  (* the node has received the completed messages, whole and in order, plus a prefix of the one being written *)
  di_out : exists p, d_out s = wire (d_done s) ++ p /\
      match d_lock s with Some (_, m, x :: rest) => p ++ x :: rest = enc m | _ => p = [] end
}.

Lemma DInv_init : DInv dinit.
Proof. split; intros; try reflexivity. exists []. split; reflexivity. Qed.

Ltac proj := cbn [d_inq d_pending d_chan d_hold d_logq d_lhold d_lock d_out d_done d_req d_emit set_lock lock_reply lock_log] in *.
Ltac cnts := repeat (rewrite ?cnt_app, ?cnt_cons, ?cnt_nil, ?replies_app, ?logs_app in * ); cbn [replies logs opt_list] in *;
             repeat (rewrite ?cnt_app, ?cnt_cons, ?cnt_nil in * ).

Lemma enc_nonempty m : exists x r, enc m = x :: r.
Proof. unfold Driver.enc, encode. destruct (body m) as [|b r]; cbn; eauto. Qed.

Lemma step_DInv s ev : DInv s -> DInv (dstepm s ev).
Proof.
  intros H. pose proof H as [Hr Hl [p [Ho Hp]]].
  destruct ev as [id| |id| |k| |w|n|]; cbn [Driver.dstepm].
  - (* VReq *) split; proj; [intros x; specialize (Hr x); unfold lock_reply in *; proj; cnts; lia | exact Hl | exists p; split; assumption].
  - (* VDispatch *) destruct (d_inq s) as [|id r] eqn:Ei; [exact H|]. destruct (driver_idle s); [|exact H].
    split; proj; [intros x; specialize (Hr x); unfold lock_reply in *; proj; cnts; lia | exact Hl | exists p; split; assumption].
  - (* VComplete *) destruct (existsb (N.eqb id) (d_pending s)) eqn:Ee; [|exact H].
    split; proj; [intros x; specialize (Hr x); rewrite (cnt_remove1 id _ x Ee) in Hr; unfold lock_reply in *; proj; cnts; lia | exact Hl | exists p; split; assumption].
  - (* VRecv *) destruct (d_chan s) as [|v r] eqn:Ec; [exact H|]. destruct (driver_idle s) eqn:Ed; [|exact H].
    assert (Hh : d_hold s = None) by (unfold driver_idle in Ed; destruct (d_hold s); [discriminate|reflexivity]).
    split; proj; [intros x; specialize (Hr x); rewrite Hh in Hr; unfold lock_reply in *; proj; cnts; lia | exact Hl | exists p; split; assumption].
  - (* VLogEmit *) split; proj; [exact Hr | intros x; specialize (Hl x); unfold lock_log in *; proj; cnts; lia | exists p; split; assumption].
  - (* VLogRecv *)
    destruct (lock_owner s) as [[|]|] eqn:Eo; destruct (d_logq s) as [|k r] eqn:Eq; destruct (d_lhold s) as [k'|] eqn:Eh;
      try (exact H).
    all: split; proj; [exact Hr | intros x; specialize (Hl x); unfold lock_log in *; proj; cnts; lia | exists p; split; assumption].
  - (* VAcquire *)
    destruct w.
    + destruct (d_lock s) as [[[w m] rest]|] eqn:El; [exact H|].
      destruct (d_hold s) as [v|] eqn:Eh; [|exact H].
      destruct (enc_nonempty (MReply v)) as [x [r Er]].
      split; proj.
      * intros y; specialize (Hr y). unfold lock_reply in *. rewrite El in Hr. proj. rewrite ?Er. cnts. lia.
      * intros y; specialize (Hl y). unfold lock_log in *. rewrite El in Hl. proj. rewrite ?Er. exact Hl.
      * exists p. split; [exact Ho|]. rewrite Er. subst p. reflexivity.
    + destruct (d_lock s) as [[[w m] rest]|] eqn:El; [exact H|].
      destruct (d_lhold s) as [v|] eqn:Eh; [|exact H].
      destruct (enc_nonempty (MLog v)) as [x [r Er]].
      split; proj.
      * intros y; specialize (Hr y). unfold lock_reply in *. rewrite El in Hr. proj. rewrite ?Er. exact Hr.
      * intros y; specialize (Hl y). unfold lock_log in *. rewrite El in Hl. proj. rewrite ?Er. cnts. lia.
      * exists p. split; [exact Ho|]. rewrite Er. subst p. reflexivity.
  - (* VWrite *)
    destruct (d_lock s) as [[[w m] [|x rest]]|] eqn:El; try (exact H).
    destruct (skipn n (x :: rest)) as [|y left] eqn:Es.
    + (* the last byte: the message is complete *)
      assert (Hf : firstn n (x :: rest) = x :: rest) by (rewrite <- (firstn_skipn n (x :: rest)) at 2; rewrite Es, app_nil_r; reflexivity).
      split; proj.
      * intros z; specialize (Hr z). unfold lock_reply in *. rewrite El in Hr. proj. destruct m; cnts; lia.
      * intros z; specialize (Hl z). unfold lock_log in *. rewrite El in Hl. proj. destruct m; cnts; lia.
      * exists []. split; [|reflexivity]. rewrite Hf, Ho, wire_app, app_nil_r, <- app_assoc. f_equal.
        unfold Driver.wire. cbn. rewrite app_nil_r. exact Hp.
    + split; proj.
      * intros z; specialize (Hr z). unfold lock_reply in *. rewrite El in Hr. proj. destruct m; exact Hr.
      * intros z; specialize (Hl z). unfold lock_log in *. rewrite El in Hl. proj. destruct m; exact Hl.
      * exists (p ++ firstn n (x :: rest)). split; [rewrite Ho, app_assoc; reflexivity|].
        rewrite <- app_assoc, <- Es, firstn_skipn. exact Hp.
  - (* VRelease *)
    destruct (d_lock s) as [[[w m] [|x rest]]|] eqn:El; try (exact H).
    split; proj.
    + intros z; specialize (Hr z). unfold lock_reply in *. rewrite El in Hr. proj. destruct m; exact Hr.
    + intros z; specialize (Hl z). unfold lock_log in *. rewrite El in Hl. proj. destruct m; exact Hl.
    + exists p. split; assumption.
Qed.

Lemma drun_DInv evs : forall s, DInv s -> DInv (drun evs s).
Proof. induction evs as [|e evs IH]; intros s H; [exact H|]. apply IH, step_DInv, H. Qed.

Theorem reachable_DInv evs : DInv (drun evs dinit).
Proof. apply drun_DInv, DInv_init. Qed.

(* ---------- framing: what the node's decoder sees ---------- *)
(* a proper prefix of an encoded message contains no separator *)
Lemma split_sep_no_nl m : no_nl m -> split_sep [] m = None.
Proof.
  induction 1 as [|x m Hx Hm IH]; [reflexivity|]. cbn [split_sep]. destruct m as [|y m']; [reflexivity|].
  assert ((x =? NL) = false) as -> by (apply N.eqb_neq; exact Hx). cbn [andb]. rewrite split_sep_acc, IH. reflexivity.
Qed.
Lemma split_sep_no_nl_one m : no_nl m -> split_sep [] (m ++ [NL]) = None.
Proof.
  induction 1 as [|x m Hx Hm IH]; [reflexivity|]. cbn [app split_sep]. destruct (m ++ [NL]) as [|y t] eqn:E; [reflexivity|].
  assert ((x =? NL) = false) as -> by (apply N.eqb_neq; exact Hx). cbn [andb]. rewrite split_sep_acc, IH. reflexivity.
Qed.

Lemma proper_prefix_no_frame m p x r : no_nl m -> p ++ x :: r = encode m -> frames p = ([], p).
Proof.
  intros Hm He. rewrite frames_unfold.
  assert (split_sep [] p = None) as ->; [|reflexivity].
  unfold encode in He.
  (* p is a prefix of m, or m ++ [NL] *)
  assert (Hlen : (length p <= length m + 1)%nat) by (apply (f_equal (@length N)) in He; rewrite !app_length in He; cbn in He; lia).
  destruct (Nat.le_gt_cases (length p) (length m)) as [Hle|Hgt].
  - assert (Hp : p = firstn (length p) m).
    { apply (f_equal (firstn (length p))) in He. rewrite firstn_app, firstn_all, Nat.sub_diag in He. cbn [firstn] in He. rewrite app_nil_r in He.
      rewrite firstn_app in He. replace (length p - length m)%nat with 0%nat in He by lia. cbn [firstn] in He. rewrite app_nil_r in He. exact He. }
    rewrite Hp. apply split_sep_no_nl. unfold no_nl in *. apply Forall_forall. intros b Hb. rewrite Forall_forall in Hm. apply Hm.
    eapply In_firstn; exact Hb.
  - assert (Hp : p = m ++ [NL]).
    { assert (length p = length m + 1)%nat as Hl by lia.
      apply (f_equal (firstn (length p))) in He. rewrite firstn_app, firstn_all, Nat.sub_diag in He. cbn [firstn] in He. rewrite app_nil_r in He.
      rewrite firstn_app, Hl in He. rewrite firstn_all2 in He by lia. replace (length m + 1 - length m)%nat with 1%nat in He by lia. exact He. }
    rewrite Hp. apply split_sep_no_nl_one, Hm.
Qed.


(* C17, third clause, for every schedule: the node's decoder yields exactly the completed messages, each whole, once and in
   the order they were written; what remains undecoded is a proper prefix of the ONE message being written. *)
Theorem driver_frames evs : (forall m, no_nl (body m)) ->
  let s := drun evs dinit in
  exists p, frames (d_out s) = (map body (d_done s), p) /\
            match d_lock s with Some (_, m, x :: rest) => p ++ x :: rest = enc m | _ => p = [] end.
Proof.
  intros Hb s. destruct (reachable_DInv evs) as [_ _ [p [Ho Hp]]]. fold s in Ho, Hp. exists p. split; [|exact Hp].
  rewrite Ho, frames_app. unfold Driver.wire.
  replace (map enc (d_done s)) with (map encode (map body (d_done s))) by (rewrite map_map; reflexivity).
  rewrite (frames_of_encoded (map body (d_done s))) by (apply Forall_forall; intros m Hm; apply in_map_iff in Hm; destruct Hm as [m' [<- _]]; apply Hb).
  cbn [app].
  assert (Hf : frames p = ([], p)).
  { destruct (d_lock s) as [[[w m] [|x rest]]|]; try (subst p; reflexivity).
    exact (proper_prefix_no_frame (body m) p x rest (Hb m) Hp). }
  rewrite Hf, app_nil_r. reflexivity.
Qed.

(* the byte-level statement behind it: never interleaved *)
Theorem driver_never_interleaved evs :
  let s := drun evs dinit in
  exists p, d_out s = wire (d_done s) ++ p /\
            match d_lock s with Some (_, m, x :: rest) => p ++ x :: rest = enc m | _ => p = [] end.
Proof. intros s. destruct (reachable_DInv evs) as [_ _ H]. exact H. Qed.

(* ---------- one reply per id ---------- *)
Lemma cnt_NoDup l : NoDup l <-> forall x, (cnt l x <= 1)%nat.
Proof. apply (NoDup_count_occ N.eq_dec). Qed.

(* at most one reply per request id, and only for ids that were requested — at every moment of every schedule *)
Theorem driver_at_most_one_reply evs :
  let s := drun evs dinit in
  NoDup (d_req s) -> NoDup (replies (d_done s)) /\ incl (replies (d_done s)) (d_req s).
Proof.
  intros s Hn. destruct (reachable_DInv evs) as [Hr _ _]. fold s in Hr. split.
  - apply cnt_NoDup. intros x. apply cnt_NoDup with (x := x) in Hn. specialize (Hr x). lia.
  - intros x Hx. apply (count_occ_In N.eq_dec). apply (count_occ_In N.eq_dec) in Hx. specialize (Hr x). unfold cnt in Hr. lia.
Qed.

Lemma quiescent_fields s : quiescent s = true ->
  d_inq s = [] /\ d_pending s = [] /\ d_chan s = [] /\ d_hold s = None /\ d_logq s = [] /\ d_lhold s = None /\ d_lock s = None.
Proof.
  unfold quiescent. destruct (d_inq s), (d_pending s), (d_chan s), (d_hold s), (d_logq s), (d_lhold s), (d_lock s); try discriminate. tauto.
Qed.

(* exactly one reply per request id (and every log line exactly once) whenever nothing is in flight *)
Theorem driver_quiescent_all_answered evs :
  let s := drun evs dinit in
  quiescent s = true -> Permutation (d_req s) (replies (d_done s)) /\ Permutation (d_emit s) (logs (d_done s)).
Proof.
  intros s Hq. destruct (reachable_DInv evs) as [Hr Hl _]. fold s in Hr, Hl.
  destruct (quiescent_fields s Hq) as (E1 & E2 & E3 & E4 & E5 & E6 & E7).
  split; apply (Permutation_count_occ N.eq_dec); intros x.
  - specialize (Hr x). unfold lock_reply in Hr. rewrite E1, E2, E3, E4, E7 in Hr. cbn [opt_list] in Hr. rewrite !cnt_nil in Hr. exact Hr.
  - specialize (Hl x). unfold lock_log in Hl. rewrite E5, E6, E7 in Hl. cbn [opt_list] in Hl. rewrite !cnt_nil in Hl. exact Hl.
Qed.

(* ---------- and nothing is ever stuck: from every state the in-flight work can be finished ---------- *)
Definition mu (s : dst) : nat :=
  (6 * length (d_inq s) + 5 * length (d_pending s) + 4 * length (d_chan s) + 3 * length (opt_list (d_hold s))
   + 4 * length (d_logq s) + 3 * length (opt_list (d_lhold s))
   + match d_lock s with None => 0 | Some (_, _, []) => 1 | Some (_, _, _ :: _) => 2 end)%nat.

Lemma remove1_head id r : remove1 id (id :: r) = r.
Proof. cbn [remove1]. rewrite N.eqb_refl. reflexivity. Qed.

Lemma next_ev_progress s e : next_ev s = Some e -> (mu (dstepm s e) < mu s)%nat.
Proof.
  unfold next_ev, mu.
  destruct (d_lock s) as [[[w m] [|x rest]]|] eqn:El.
  - intros H; inversion H; subst e. cbn [Driver.dstepm]. rewrite ?El. cbn [set_lock d_inq d_pending d_chan d_hold d_logq d_lhold d_lock]. lia.
  - intros H. assert (e = VWrite (length (x :: rest))) as -> by congruence. clear H. cbn [Driver.dstepm]. rewrite ?El.
    cbv beta iota zeta. rewrite skipn_all. cbn [d_inq d_pending d_chan d_hold d_logq d_lhold d_lock]. lia.
  - destruct (d_hold s) as [v|] eqn:Eh.
    + intros H; inversion H; subst e. cbn [Driver.dstepm]. rewrite ?El, ?Eh. cbn [d_inq d_pending d_chan d_hold d_logq d_lhold d_lock opt_list length].
      destruct (enc_nonempty (MReply v)) as [x [r ->]]. lia.
    + destruct (d_lhold s) as [k|] eqn:Elh.
      * intros H; inversion H; subst e. cbn [Driver.dstepm]. rewrite ?El, ?Elh, ?Eh. cbn [d_inq d_pending d_chan d_hold d_logq d_lhold d_lock opt_list length].
        destruct (enc_nonempty (MLog k)) as [x [r ->]]. lia.
      * assert (Hidle : driver_idle s = true) by (unfold driver_idle, lock_owner; rewrite Eh, El; reflexivity).
        destruct (d_chan s) as [|v cr] eqn:Ec.
        -- destruct (d_logq s) as [|k lr] eqn:Eq.
           ++ destruct (d_pending s) as [|id pr] eqn:Ep.
              ** destruct (d_inq s) as [|id ir] eqn:Ei; [discriminate|].
                 intros H; inversion H; subst e. cbn [Driver.dstepm]. rewrite ?Ei, ?Hidle.
                 cbn [d_inq d_pending d_chan d_hold d_logq d_lhold d_lock]. rewrite ?Ep, ?Ec, ?Eh, ?Eq, ?Elh, ?El. cbn [length app opt_list]. lia.
              ** intros H; inversion H; subst e. cbn [Driver.dstepm]. rewrite ?Ep. cbn [existsb]. rewrite N.eqb_refl. cbn [orb].
                 cbn [d_inq d_pending d_chan d_hold d_logq d_lhold d_lock]. rewrite ?remove1_head, ?Ec, ?Eh, ?Eq, ?Elh, ?El. cbn [length app opt_list]. lia.
           ++ intros H; inversion H; subst e. cbn [Driver.dstepm]. unfold lock_owner. rewrite ?Eq, ?Elh, ?El.
              cbn [d_inq d_pending d_chan d_hold d_logq d_lhold d_lock]. rewrite ?Ec, ?Eh, ?El. cbn [length opt_list]. lia.
        -- intros H; inversion H; subst e. cbn [Driver.dstepm]. rewrite ?Ec, ?Hidle.
           cbn [d_inq d_pending d_chan d_hold d_logq d_lhold d_lock]. rewrite ?Elh, ?El. cbn [length opt_list]. lia.
Qed.

Lemma next_ev_none s : next_ev s = None -> quiescent s = true.
Proof.
  unfold next_ev, quiescent.
  destruct (d_lock s) as [[[w m] [|x rest]]|]; try discriminate.
  destruct (d_hold s); [discriminate|]. destruct (d_lhold s); [discriminate|].
  destruct (d_chan s); [|discriminate]. destruct (d_logq s); [|discriminate]. destruct (d_pending s); [|discriminate].
  destruct (d_inq s); [reflexivity|discriminate].
Qed.

Lemma settle_quiesces n : forall s, (mu s < n)%nat -> quiescent (drun (settle body n s) s) = true.
Proof.
  induction n as [|n IH]; intros s Hm; [lia|]. cbn [settle].
  destruct (next_ev s) as [e|] eqn:En.
  - cbn [Driver.drun fold_left]. apply IH. pose proof (next_ev_progress s e En). lia.
  - cbn. apply next_ev_none, En.
Qed.

(* the continuation adds no request and no log line of its own *)
Definition is_input (e : dev) : bool := match e with VReq _ | VLogEmit _ => true | _ => false end.
Lemma next_ev_not_input s e : next_ev s = Some e -> is_input e = false.
Proof.
  unfold next_ev. destruct (d_lock s) as [[[w m] [|x rest]]|]; try (intros H; inversion H; reflexivity).
  destruct (d_hold s); [intros H; inversion H; reflexivity|]. destruct (d_lhold s); [intros H; inversion H; reflexivity|].
  destruct (d_chan s); [|intros H; inversion H; reflexivity]. destruct (d_logq s); [|intros H; inversion H; reflexivity].
  destruct (d_pending s); [|intros H; inversion H; reflexivity]. destruct (d_inq s); [discriminate|intros H; inversion H; reflexivity].
Qed.
Lemma settle_no_input n : forall s, forallb (fun e => negb (is_input e)) (settle body n s) = true.
Proof.
  induction n as [|n IH]; intros s; [reflexivity|]. cbn [settle]. destruct (next_ev s) as [e|] eqn:En; [|reflexivity].
  cbn [forallb]. rewrite (next_ev_not_input s e En), IH. reflexivity.
Qed.

Lemma drun_app a b s : drun (a ++ b) s = drun b (drun a s).
Proof. unfold Driver.drun. apply fold_left_app. Qed.

(* every request receives its reply: after ANY schedule, the handlers finishing and the writers being scheduled (nothing new
   arriving) leads to a state where every request sent has exactly one reply on the wire and every log line is written *)
Theorem driver_can_always_finish evs :
  exists more, forallb (fun e => negb (is_input e)) more = true /\
    let s := drun (evs ++ more) dinit in
    quiescent s = true /\ Permutation (d_req s) (replies (d_done s)) /\ Permutation (d_emit s) (logs (d_done s)) /\
    d_req s = d_req (drun evs dinit).
Proof.
  remember (drun evs dinit) as s0 eqn:E0. exists (settle body (S (mu s0)) s0). split; [apply settle_no_input|].
  cbv zeta. assert (Hq : quiescent (drun (evs ++ settle body (S (mu s0)) s0) dinit) = true) by (rewrite drun_app, <- E0; apply settle_quiesces; lia).
  split; [exact Hq|]. destruct (driver_quiescent_all_answered _ Hq) as [P1 P2]. split; [exact P1|]. split; [exact P2|].
  rewrite drun_app, <- E0.
  (* non-input events do not change the ghost list of requests *)
  assert (G : forall l s, forallb (fun e => negb (is_input e)) l = true -> d_req (drun l s) = d_req s).
  { induction l as [|e l IH]; intros s Hl; [reflexivity|]. cbn [forallb] in Hl. apply andb_prop in Hl. destruct Hl as [He Hl].
    cbn [Driver.drun fold_left]. fold (drun l (dstepm s e)). rewrite (IH _ Hl).
    destruct e as [id| |id| |k| |w|n0|]; try discriminate; cbn [Driver.dstepm].
    - destruct (d_inq s); [reflexivity|]. destruct (driver_idle s); reflexivity.
    - destruct (existsb (N.eqb id) (d_pending s)); reflexivity.
    - destruct (d_chan s); [reflexivity|]. destruct (driver_idle s); reflexivity.
    - destruct (lock_owner s) as [[|]|], (d_logq s), (d_lhold s); reflexivity.
    - destruct w; destruct (d_lock s) as [[[w' m'] r']|]; try reflexivity; [destruct (d_hold s)|destruct (d_lhold s)]; reflexivity.
    - destruct (d_lock s) as [[[w' m'] [|x r']]|]; reflexivity.
    - destruct (d_lock s) as [[[w' m'] [|x r']]|]; reflexivity. }
  apply G, settle_no_input.
Qed.

End Body.

(* Why the write must sit in the branch HANDLER: if a ready dispatch_one could cancel the forwarding future while it waits
   for the lock (dstep_cancellable), a reply is lost — the request is never answered although the schedule completes. *)
Definition cancel_witness : list dev :=
  [VReq 1; VDispatch; VLogEmit 7; VLogRecv; VAcquire WLogger;      (* the logger holds the writer *)
   VComplete 1; VRecv;                                             (* the driver took reply 1 and waits for the lock *)
   VReq 2; VDispatch;                                              (* the next request is decoded: the wait is cancelled *)
   VWrite 100; VRelease; VComplete 2; VRecv; VAcquire WDriver; VWrite 100; VRelease].
Example select_cancel_loses_reply :
  let b := fun _ : msg => [65] in
  let s := fold_left (dstep_cancellable b) cancel_witness dinit in
  quiescent s = true /\ d_req s = [1; 2] /\ replies (d_done s) = [2].
Proof. vm_compute. repeat split. Qed.
Example real_loop_keeps_it :
  let b := fun _ : msg => [65] in
  let s := drun b cancel_witness dinit in
  exists more, replies (d_done (drun b more s)) = [1; 2].
Proof. exists (settle (fun _ => [65]) 40 (drun (fun _ => [65]) cancel_witness dinit)). vm_compute. reflexivity. Qed.

(* ---------- the schedule the harness forces (Check/CodecCheck.run_driver): replies come out in completion order ---------- *)
Section Forced.
Variable body : msg -> list N.

Definition dispatch_all (reqs : list N) : list dev := flat_map (fun id => [VReq id; VDispatch]) reqs.
Definition complete_one (id : N) : list dev := [VComplete id; VRecv; VAcquire WDriver; VWrite (length (enc body (MReply id))); VRelease].

Definition idle_with (pending : list N) (done : list msg) (reqs : list N) (out : list N) : dst :=
  {| d_inq := []; d_pending := pending; d_chan := []; d_hold := None; d_logq := []; d_lhold := None; d_lock := None;
     d_out := out; d_done := done; d_req := reqs; d_emit := [] |}.

Lemma dispatch_all_run reqs : forall pend done rq out,
  drun body (dispatch_all reqs) (idle_with pend done rq out) = idle_with (pend ++ reqs) done (rq ++ reqs) out.
Proof.
  induction reqs as [|id reqs IH]; intros pend done rq out; cbn [dispatch_all flat_map app].
  - rewrite !app_nil_r. reflexivity.
  - unfold Driver.drun. cbn [fold_left Driver.dstepm idle_with d_inq d_pending d_chan d_hold d_logq d_lhold d_lock d_out d_done d_req d_emit app driver_idle lock_owner].
    change (fold_left (Driver.dstepm body) (flat_map (fun id0 => [VReq id0; VDispatch]) reqs) ?s) with (Driver.drun body (dispatch_all reqs) s).
    specialize (IH (pend ++ [id]) done (rq ++ [id]) out). unfold idle_with in *. rewrite IH, <- !app_assoc. reflexivity.
Qed.

Lemma skipn_all_nil {A} (l : list A) : skipn (length l) l = [].
Proof. apply skipn_all. Qed.

Lemma complete_one_run id pend done rq out : existsb (N.eqb id) pend = true ->
  drun body (complete_one id) (idle_with pend done rq out) =
  idle_with (remove1 id pend) (done ++ [MReply id]) rq (out ++ enc body (MReply id)).
Proof.
  intros He. unfold complete_one, Driver.drun.
  destruct (enc_nonempty body (MReply id)) as [x [r Er]].
  cbn [fold_left Driver.dstepm idle_with d_inq d_pending d_chan d_hold d_logq d_lhold d_lock d_out d_done d_req d_emit app driver_idle lock_owner].
  rewrite He.
  cbn [fold_left Driver.dstepm idle_with d_inq d_pending d_chan d_hold d_logq d_lhold d_lock d_out d_done d_req d_emit app driver_idle lock_owner].
  rewrite Er.
  cbn [fold_left Driver.dstepm d_inq d_pending d_chan d_hold d_logq d_lhold d_lock d_out d_done d_req d_emit].
  rewrite firstn_all, skipn_all_nil.
  cbn [fold_left Driver.dstepm set_lock d_inq d_pending d_chan d_hold d_logq d_lhold d_lock d_out d_done d_req d_emit].
  reflexivity.
Qed.

Lemma existsb_remove1_other id x l : x <> id -> existsb (N.eqb x) (remove1 id l) = existsb (N.eqb x) l.
Proof.
  intros Hne. induction l as [|y l IH]; [reflexivity|]. cbn [remove1 existsb].
  destruct (N.eqb_spec y id) as [->|Hy].
  - destruct (N.eqb_spec x id); [congruence|reflexivity].
  - cbn [existsb]. rewrite IH. reflexivity.
Qed.

Lemma complete_all_run order : forall pend done rq out, NoDup order -> (forall id, In id order -> existsb (N.eqb id) pend = true) ->
  replies (d_done (drun body (flat_map complete_one order) (idle_with pend done rq out))) = replies done ++ order.
Proof.
  induction order as [|id order IH]; intros pend done rq out Hnd Hin; cbn [flat_map].
  - cbn. rewrite app_nil_r. reflexivity.
  - rewrite drun_app, (complete_one_run id pend done rq out (Hin id (or_introl eq_refl))).
    inversion Hnd as [|? ? Hni Hnd']; subst.
    rewrite IH; [|exact Hnd'|].
    + rewrite replies_app. cbn [replies]. rewrite <- app_assoc. reflexivity.
    + intros x Hx. rewrite existsb_remove1_other; [apply Hin; right; exact Hx|]. intros ->. exact (Hni Hx).
Qed.

(* all requests dispatched, then the handlers released one by one in [order], each reply forwarded and written before the next
   handler is released: the replies appear on the wire in exactly that order *)
Theorem forced_schedule_replies_in_completion_order reqs order :
  NoDup order -> incl order reqs ->
  replies (d_done (drun body (dispatch_all reqs ++ flat_map complete_one order) dinit)) = order.
Proof.
  intros Hnd Hincl. rewrite drun_app.
  change dinit with (idle_with [] [] [] []). rewrite dispatch_all_run. cbn [app].
  rewrite complete_all_run; [reflexivity|exact Hnd|].
  intros id Hid. apply existsb_exists. exists id. split; [apply Hincl, Hid|apply N.eqb_refl].
Qed.
End Forced.

(* ---------- all schedules: without new input the loop cannot run for ever, and it can only stop when everything is answered ---------- *)
Section Termination.
Variable body : msg -> list N.
Notation enc := (enc body).
Notation dstepm := (dstepm body).

Definition Lr (id : N) : nat := length (enc (MReply id)).
Definition Ll (k : N) : nat := length (enc (MLog k)).
Definition sumf (f : N -> nat) (w : nat) (l : list N) : nat := fold_right (fun x acc => w + f x + acc)%nat 0%nat l.

(* potential: every message still to be written weighs its stage plus the bytes it still has to put on the wire *)
Definition pot (s : dst) : nat :=
  (sumf Lr 6 (d_inq s) + sumf Lr 5 (d_pending s) + sumf Lr 4 (d_chan s) + sumf Lr 3 (opt_list (d_hold s))
   + sumf Ll 4 (d_logq s) + sumf Ll 3 (opt_list (d_lhold s))
   + match d_lock s with None => 0 | Some (_, _, rest) => 2 + length rest end)%nat.

Lemma sumf_app f w a b : sumf f w (a ++ b) = (sumf f w a + sumf f w b)%nat.
Proof. induction a as [|x a IH]; cbn [sumf fold_right app]; [reflexivity|]. fold (sumf f w (a ++ b)). fold (sumf f w a). rewrite IH. lia. Qed.

Lemma sumf_remove1 f w id l : existsb (N.eqb id) l = true -> sumf f w l = (w + f id + sumf f w (remove1 id l))%nat.
Proof.
  induction l as [|y l IH]; cbn [existsb remove1]; [discriminate|]. intros H.
  destruct (N.eqb_spec y id) as [->|Hne]; [reflexivity|].
  destruct (N.eqb_spec id y) as [->|_]; [congruence|]. cbn [orb] in H.
  cbn [sumf fold_right]. fold (sumf f w l). fold (sumf f w (remove1 id l)). rewrite (IH H). lia.
Qed.

Definition effective (s : dst) (e : dev) : Prop := dstepm s e <> s.

(* every state-changing step other than a new request or log line strictly lowers the potential *)
Lemma effective_step_decreases s e : is_input e = false -> effective s e -> (pot (dstepm s e) < pot s)%nat.
Proof.
  unfold effective. intros Hi He. destruct e as [id| |id| |k| |w|n|]; try discriminate; cbn [Driver.dstepm] in *.
  - (* VDispatch *)
    destruct (d_inq s) as [|id r] eqn:Ei; [congruence|]. destruct (driver_idle s); [|congruence].
    unfold pot. cbn [d_inq d_pending d_chan d_hold d_logq d_lhold d_lock]. rewrite Ei, sumf_app. cbn [sumf fold_right]. fold (sumf Lr 6 r). lia.
  - (* VComplete *)
    destruct (existsb (N.eqb id) (d_pending s)) eqn:Ee; [|congruence].
    unfold pot. cbn [d_inq d_pending d_chan d_hold d_logq d_lhold d_lock]. rewrite (sumf_remove1 Lr 5 id _ Ee), sumf_app. cbn [sumf fold_right]. lia.
  - (* VRecv *)
    destruct (d_chan s) as [|v r] eqn:Ec; [congruence|]. destruct (driver_idle s) eqn:Ed; [|congruence].
    assert (Hh : d_hold s = None) by (unfold driver_idle in Ed; destruct (d_hold s); [discriminate|reflexivity]).
    unfold pot. cbn [d_inq d_pending d_chan d_hold d_logq d_lhold d_lock opt_list]. rewrite Ec, Hh. cbn [sumf fold_right opt_list]. fold (sumf Lr 4 r). lia.
  - (* VLogRecv *)
    destruct (lock_owner s) as [[|]|] eqn:Eo; destruct (d_logq s) as [|k r] eqn:Eq; destruct (d_lhold s) as [k'|] eqn:Eh; try congruence.
    all: unfold pot; cbn [d_inq d_pending d_chan d_hold d_logq d_lhold d_lock opt_list]; rewrite ?Eq, ?Eh; cbn [sumf fold_right opt_list]; fold (sumf Ll 4 r); lia.
  - (* VAcquire *)
    destruct w.
    + destruct (d_lock s) as [[[w m] rest]|] eqn:El; [congruence|]. destruct (d_hold s) as [v|] eqn:Eh; [|congruence].
      unfold pot. cbn [d_inq d_pending d_chan d_hold d_logq d_lhold d_lock opt_list]. rewrite El, Eh. cbn [sumf fold_right opt_list]. unfold Lr. lia.
    + destruct (d_lock s) as [[[w m] rest]|] eqn:El; [congruence|]. destruct (d_lhold s) as [v|] eqn:Eh; [|congruence].
      unfold pot. cbn [d_inq d_pending d_chan d_hold d_logq d_lhold d_lock opt_list]. rewrite El, Eh. cbn [sumf fold_right opt_list]. unfold Ll. lia.
  - (* VWrite *)
    destruct (d_lock s) as [[[w m] [|x rest]]|] eqn:El; try congruence.
    destruct n as [|n].
    + (* nothing accepted: the state does not change *)
      exfalso. apply He. cbn [firstn skipn]. rewrite app_nil_r. destruct s; cbn in *. subst. reflexivity.
    + unfold pot. cbn [d_inq d_pending d_chan d_hold d_logq d_lhold d_lock]. rewrite El.
      pose proof (skipn_length (S n) (x :: rest)) as Hl. cbn [length] in Hl. cbn [length]. lia.
  - (* VRelease *)
    destruct (d_lock s) as [[[w m] [|x rest]]|] eqn:El; try congruence.
    unfold pot. cbn [set_lock d_inq d_pending d_chan d_hold d_logq d_lhold d_lock]. rewrite El. cbn [length]. lia.
Qed.

(* a run in which every step changes the state and nothing new arrives is at most [pot s] steps long: the loop, the handlers'
   replies and the writers cannot go on for ever *)
Theorem driver_effective_runs_are_bounded evs : forall s,
  forallb (fun e => negb (is_input e)) evs = true ->
  (forall k e, nth_error evs k = Some e -> effective (Driver.drun body (firstn k evs) s) e) ->
  (length evs <= pot s)%nat.
Proof.
  induction evs as [|e evs IH]; intros s Hni Heff; [cbn; lia|].
  cbn [forallb] in Hni. apply andb_prop in Hni as [He Hni]. apply negb_true_iff in He.
  pose proof (Heff 0%nat e eq_refl) as H0. cbn [firstn Driver.drun fold_left] in H0.
  pose proof (effective_step_decreases s e He H0) as Hd.
  assert (Hrest : (length evs <= pot (dstepm s e))%nat).
  { apply IH; [exact Hni|]. intros k e' Hk. specialize (Heff (S k) e' Hk). cbn [firstn Driver.drun fold_left] in Heff. exact Heff. }
  cbn [length]. lia.
Qed.

(* and it can stop only when everything is answered: if no step (other than new input) changes the state, nothing is in flight *)
Theorem driver_stuck_only_when_quiescent s :
  (forall e, is_input e = false -> ~ effective s e) -> quiescent s = true.
Proof.
  intros H. destruct (next_ev s) as [e|] eqn:En; [|apply next_ev_none, En].
  exfalso. apply (H e (next_ev_not_input s e En)). unfold effective. intros Heq.
  pose proof (next_ev_progress body s e En) as Hp. rewrite Heq in Hp. lia.
Qed.
End Termination.
