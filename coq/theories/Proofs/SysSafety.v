(* SysSafety.v — the safety theorems drawn from the node invariant, over every history that respects the environment
   contract (no injected error on a READ rpc; anything else goes): where pay requests come from and what holds when
   one is issued (C05, C08), when an HTLC can be failed back (C02), no lifecycle panics (C06). *)
From Tramp Require Import Model.Base Model.Fee Model.Classify Model.Node Model.Provider Model.ProviderSys Model.Sys.
From Tramp Require Import Proofs.FeeProofs Proofs.SysBasics Proofs.EntryProofs Proofs.SysEntry Proofs.SysShape Proofs.SysTheorems
  Proofs.SysTimers Proofs.SysReach Proofs.SysCalls Proofs.SysNode.
From Coq Require Import ZifyBool ZifyNat ZifyN.

(* ---------- histories that respect the contract ---------- *)
Definition node_ok (n : node) : Prop := payrun n = 0 /\ (busy n -> hot n) /\ forall g, ds n <> Some (DGarbage, g).

Section Level.
Variable lv : bool.   (* the level of the environment hypothesis: see Proofs/SysNode.v *)

Inductive wreach (c : cfg) : sys -> Prop :=
| wr_start n t0 h0 a0 : node_ok n -> wreach c (sys_start n t0 h0 a0)
| wr_step s ev : wreach c s -> ev_wf lv s ev -> wreach c (fst (step c s ev)).

Lemma NInv_start n t0 h0 a0 : node_ok n -> NInv lv (sys_start n t0 h0 a0).
Proof.
  intros (Hp & Hwa & Hng). constructor; cbn [sys_start nd pl lcs calls].
  - intros [|i] x Hx; discriminate.
  - intros H. congruence.
  - intros [|i] j x y g g0 Hx; discriminate.
  - intros [|i] j x y k a am mf md g g0 Hx; discriminate.
  - intros [H|H]; [exact (Hwa H)|congruence].
  - exact Hng.
  - intros [|k] cl y Hk; discriminate.
Qed.

Theorem wreach_inv c s : wreach c s -> reachable c s /\ InvC c s /\ InvO s /\ NInv lv s.
Proof.
  induction 1 as [n t0 h0 a0 Hn|s ev Hw (Hr & HC & HO & HN) Hwf].
  - split; [constructor|]. split; [constructor; [intros [|i] x Hx; discriminate|intros [|i] j x y k _ Hx; discriminate]|].
    split; [intros [|k] cl Hk; discriminate|apply NInv_start; exact Hn].
  - destruct (reachable_inv c s Hr) as (HU & _ & _).
    split; [constructor; exact Hr|]. split; [apply step_InvC; exact HC|]. split; [apply step_InvO; assumption|apply step_NInv; assumption].
Qed.

Lemma wreach_U c s : wreach c s -> InvU s.
Proof. intros H. destruct (wreach_inv c s H) as (Hr & _). exact (proj1 (reachable_inv c s Hr)). Qed.

(* ---------- where a pay request comes from ---------- *)
Lemma pay_call_origin c s ev cid b am mf md rt :
  In (OCall cid (QPay b am mf md rt)) (snd (step c s ev)) ->
  exists i x k a g am' mf' md', nth_error (lcs (pl s)) i = Some x /\ l_pc x = PAdd2 k a g am' mf' md'.
Proof.
  intros Hin. destruct ev; cbn [step] in *; try (destruct Hin; fail).
  - exfalso. destruct (entry_ (pl s)) as [e|] eqn:He; [destruct Hin|destruct Hin as [Hin|[]]; discriminate].
  - exfalso. destruct (find_select 0 (lcs (pl s))) as [[[i d] li]|] eqn:Hf; [|destruct Hin].
    destruct (apply_adv_calls _ _ _ _ _ Hin) as [H|H]; [exact (select_poll_out_no_call _ _ _ _ _ _ _ _ _ _ _ H)|].
    destruct (select_poll_new _ _ _ _ _ _ _ _ _ _ H) as (? & ? & _ & _ & _ & _ & X). discriminate.
  - destruct (nth_error (calls s) cid0) as [cl|]; [|destruct Hin]. destruct (c_st cl); try (destruct Hin; fail).
    destruct (node_exec (nd s) (c_rpc cl) f). destruct Hin.
  - destruct (nth_error (calls s) cid0) as [cl|]; [|destruct Hin]. destruct (c_st cl); try (destruct Hin; fail).
    destruct (find_owner c 0 (lcs (pl s)) cid0 y sel (entry_ (pl s)) (length (calls s)) (height s) (now s) (next_att (pl s))) as [[i a]|] eqn:Hf; [|destruct Hin].
    destruct (find_owner_spec _ _ _ _ _ _ _ _ _ _ _ _ _ Hf) as (x & Hx & _ & Hd). rewrite Nat.sub_0_r in Hx.
    destruct (lc_deliver_calls _ _ _ _ _ _ _ _ _ _ _ _ cid (QPay b am mf md rt) Hd) as (Hno & Hnew).
    destruct (apply_adv_calls _ _ _ _ _ Hin) as [H|H]; [contradiction|].
    destruct (Hnew H) as [(sh & Hsh & Hq & Hk)|(d & en & fq & _ & _ & _ & _ & _ & X)]; [|discriminate].
    destruct (lc_shape_news _ _ _ _ _ _ _ _ Hsh) as (_ & Hpay).
    destruct (Hpay _ Hq eq_refl) as (k & a0 & g & am' & mf' & md' & Hp & _).
    exists i, x, k, a0, g, am', mf', md'. auto.
  - destruct (nth_error (parts (nd s)) pid) as [[]|], st; destruct Hin.
  - destruct (nth_error (calls s) cid0) as [[q st]|]; [|destruct Hin]. destruct q; try (destruct Hin; fail). destruct st; destruct Hin.
  - destruct (nth_error (calls s) cid0) as [[q st]|]; [|destruct Hin]. destruct q; try (destruct Hin; fail). destruct st; destruct Hin.
  - destruct (fire_timers (lcs (pl s)) (entry_ (pl s)) (now s + dt)) as [[l' e'] o'] eqn:Hf. cbn in Hin.
    exfalso. exact (fire_timers_no_calls _ _ _ _ _ _ _ _ Hf Hin).
Qed.

(* C05 / C08: when a pay request is issued nothing of an earlier attempt is pending or complete, no pay command runs,
   and the in-flight marker is already durable *)
Theorem pay_only_when_quiet c s ev cid b am mf md rt :
  wreach c s -> In (OCall cid (QPay b am mf md rt)) (snd (step c s ev)) ->
  quiet (nd s) /\ hot (nd s).
Proof.
  intros Hw Hin. destruct (wreach_inv c s Hw) as (_ & HC & HO & HN). pose proof (wreach_U c s Hw) as HU.
  destruct (pay_call_origin c s ev cid b am mf md rt Hin) as (i & x & k & a & g & am' & mf' & md' & Hx & Hp).
  pose proof (ni_lc lv s HN i x Hx) as Hlc. rewrite Hp in Hlc. destruct Hlc as (Haf & Hh & _).
  split; [split; [exact Haf|]|exact Hh].
  exact (proj1 (not_paying lv c s i x HU HC HO HN Hx ltac:(rewrite Hp; reflexivity) ltac:(rewrite Hp; intros; discriminate))).
Qed.

(* C08: write-ahead, in every reachable state *)
Theorem write_ahead c s : wreach c s -> busy (nd s) \/ payrun (nd s) <> 0 -> hot (nd s).
Proof. intros Hw. destruct (wreach_inv c s Hw) as (_ & _ & _ & HN). exact (ni_wa lv s HN). Qed.

(* ---------- C02: when a lifecycle resolves with a failure ---------- *)
Lemma shape_fail_quiet c s i x cid cl y m p' new cn :
  lv = true -> InvU s -> InvC c s -> InvO s -> NInv lv s ->
  nth_error (lcs (pl s)) i = Some x -> nth_error (calls s) cid = Some cl -> c_st cl = Replied y ->
  lc_shape c (l_info x) (length (calls s)) (now s) (l_pc x) cid y = Some (LResolve (Fail m) p' new cn) ->
  quiet (nd s).
Proof.
  intros Hlv HU HC HO HN Hx Hcl Hrep Hsh.
  assert (Hst : st_of (calls s) cid = Some (Replied y)) by (rewrite (st_of_nth _ _ _ Hcl), Hrep; reflexivity).
  pose proof (ni_lc lv s HN i x Hx) as Hlc. pose proof (ic_typed c s HC i x Hx) as Hty. pose proof (ni_r lv s HN cid cl y Hcl Hrep) as Hry.
  unfold typed_reply in Hry. rewrite Hlv in Hry.
  assert (NP : attached (l_pc x) = true -> (forall k a g, l_pc x <> PPay k a g) -> payrun (nd s) = 0)
    by (intros Ax Hnp; exact (proj1 (not_paying lv c s i x HU HC HO HN Hx Ax Hnp))).
  assert (NN : forall w, attached (l_pc x) = true -> (forall k a g, l_pc x <> PPay k a g) -> no_new (wproj (nd s) (calls s) w))
    by (intros w Ax Hnp; exact (no_new_of lv c s i x w HU HC HO HN Hx Ax Hnp)).
  destruct (l_pc x) as [k1|kk w|k1 a g t|k1 a g t|d|k1 a am mf md|k1 a g am mf md|k1 a g|k1 a pr|k1 a|k1 a g|k1 a g| |] eqn:Hp;
    unfold lc_shape in Hsh; try discriminate;
    try (destruct (Nat.eqb k1 cid) eqn:E; cbn [negb] in Hsh; [apply Nat.eqb_eq in E; subst k1|discriminate]);
    cbn [lc_ok pc_calls_ok] in Hlc, Hty.
  - (* PFetch: a typed reply never yields a failure *)
    exfalso. rewrite (has_call_rpc _ _ _ _ Hty Hcl) in Hry. destruct Hry as (v & -> & Hng).
    destruct v as [[[|a t|pr|] g]|]; inversion Hsh. exact (Hng g eq_refl).
  - (* PWait *)
    destruct Hlc as (Hw & Htok).
    assert (Hnn : no_new (wproj (nd s) (calls s) w)) by (apply NN; [reflexivity|intros; discriminate]).
    assert (Hcl' : nth_error (ps_calls (wproj (nd s) (calls s) w)) cid = Some {| c_rpc := c_rpc cl; c_st := Replied y |})
      by (cbn [wproj ps_calls]; rewrite Hcl; destruct cl; cbn in *; subst; reflexivity).
    pose proof (deliver_go (wproj (nd s) (calls s) w) w cid y (c_rpc cl) SWait (or_introl eq_refl) eq_refl Hnn Hw Hcl') as HP.
    unfold go_result in HP. cbn [wproj ps_calls ps_nd] in HP.
    destruct (wait_deliver (length (calls s)) w cid y) as [[w' nw|r cn0]|] eqn:Ew; [discriminate| |discriminate].
    destruct r as [pr| |].
    + inversion Hsh.
    + unfold PInv in HP. cbn [ps_st res_of_wait] in HP. destruct HP as (_ & Haf). cbn [ps_nd] in Haf. split; [exact Haf|exact (proj1 Hnn)].
    + exfalso. exact (wait_no_err c (l_info x) (calls s) kk _ w cid y cl cn0 Hty Hcl Hry Ew).
  - split; [exact Hlc|apply NP; [reflexivity|intros; discriminate]].
  - split; [exact Hlc|apply NP; [reflexivity|intros; discriminate]].
  - split; [exact (proj1 Hlc)|apply NP; [reflexivity|intros; discriminate]].
  - split; [exact (proj1 Hlc)|apply NP; [reflexivity|intros; discriminate]].
  - (* PPay *)
    destruct Hlc as (Ht & Hm). rewrite Hst in Hm. destruct Hm as (Hp0 & Hy).
    destruct (pay_reply y) as [pr| |] eqn:Epr; inversion Hsh.
    assert (y = YPay PayFailed) by (destruct y as [| | | | | | |[]|]; try discriminate; reflexivity). subst y. split; assumption.
  - destruct y; discriminate.
  - discriminate.
  - destruct y; discriminate.
  - discriminate.
Qed.

Lemma fire_timers_resp_select : forall l e t l' e' o' h r,
  fire_timers l e t = (l', e', o') -> In (OResp h r) o' -> exists i x d, nth_error l i = Some x /\ l_pc x = PSelect d.
Proof.
  induction l as [|z rr IH]; intros e t l' e' o' h r H Hin; unfold fire_timers in H; fold fire_timers in H; [inversion H; subst; destruct Hin|].
  destruct (l_pc z) eqn:Hz;
    try (destruct (fire_timers rr e t) as [[r' e1] o1] eqn:E2; inversion H; subst;
         destruct (IH _ _ _ _ _ _ _ E2 Hin) as (i & x & d & Hx & Hp); exists (S i), x, d; auto).
  exists 0%nat, z, deadline. auto.
Qed.

Lemma select_quiet c s i x d :
  InvU s -> InvC c s -> InvO s -> NInv lv s -> nth_error (lcs (pl s)) i = Some x -> l_pc x = PSelect d -> quiet (nd s).
Proof.
  intros HU HC HO HN Hx Hp. pose proof (ni_lc lv s HN i x Hx) as Hlc. rewrite Hp in Hlc. split; [exact Hlc|].
  exact (proj1 (not_paying lv c s i x HU HC HO HN Hx ltac:(rewrite Hp; reflexivity) ltac:(rewrite Hp; intros; discriminate))).
Qed.

Theorem fail_only_when_quiet c s ev h m :
  lv = true -> wreach c s -> In (OResp h (Fail m)) (snd (step c s ev)) -> quiet (nd s).
Proof.
  intros Hlv Hw Hin. destruct (wreach_inv c s Hw) as (_ & HC & HO & HN). pose proof (wreach_U c s Hw) as HU.
  destruct ev; cbn [step] in *; try (destruct Hin; fail).
  - (* EvHtlc: answers nobody *)
    exfalso. destruct (entry_ (pl s)) as [e|] eqn:He; [destruct Hin|destruct Hin as [Hin|[]]; discriminate].
  - (* EvPoll: a response needs a lifecycle in the select! *)
    destruct (find_select 0 (lcs (pl s))) as [[[i d] li]|] eqn:Hf; [|destruct Hin].
    destruct (find_select_spec _ _ _ _ _ Hf) as (x & Hx & Hp & _). rewrite Nat.sub_0_r in Hx.
    exact (select_quiet c s i x d HU HC HO HN Hx Hp).
  - destruct (nth_error (calls s) cid) as [cl|]; [|destruct Hin]. destruct (c_st cl); try (destruct Hin; fail).
    destruct (node_exec (nd s) (c_rpc cl) f). destruct Hin.
  - (* EvDeliver *)
    destruct (nth_error (calls s) cid) as [cl|] eqn:Hcl; [|destruct Hin]. destruct (c_st cl) eqn:Hst; try (destruct Hin; fail).
    destruct (find_owner c 0 (lcs (pl s)) cid y sel (entry_ (pl s)) (length (calls s)) (height s) (now s) (next_att (pl s))) as [[i a]|] eqn:Hf; [|destruct Hin].
    destruct (find_owner_spec _ _ _ _ _ _ _ _ _ _ _ _ _ Hf) as (x & Hx & _ & Hdl). rewrite Nat.sub_0_r in Hx.
    assert (Hin' : In (OResp h (Fail m)) (a_out a)).
    { rewrite apply_adv_outs in Hin. apply in_app_or in Hin as [H|H]; [exact H|]. exfalso.
      apply in_app_or in H as [H|H].
      - clear -H. revert H. generalize (length (calls (with_calls s (set_status cid Delivered (calls s))))). induction (a_new a) as [|q r IH]; intros b H; [destruct H|].
        cbn in H. destruct H as [H|H]; [discriminate|exact (IH _ H)].
      - apply in_map_iff in H as (? & H & _). discriminate. }
    rewrite lc_deliver_shape in Hdl. destruct (lc_shape c (l_info x) (length (calls s)) (now s) (l_pc x) cid y) as [sh|] eqn:Hsh; [|discriminate].
    cbn [option_map] in Hdl. inversion Hdl; subst a; clear Hdl.
    destruct sh as [p' new out cancel|r p' new cancel|d]; cbn [adv_of] in Hin'.
    + exfalso. cbn [a_out] in Hin'. pose proof (lc_shape_keep_out _ _ _ _ _ _ _ _ _ _ _ Hsh) as Hno.
      assert (In (OResp h (Fail m)) (resps out)) by (apply filter_In; split; [exact Hin'|reflexivity]). rewrite Hno in H. destruct H.
    + unfold do_resolve in Hin'. destruct (entry_ (pl s)) as [en|]; cbn [a_out] in Hin'; [|destruct Hin' as [H|[]]; discriminate].
      rewrite app_nil_r in Hin'. unfold resolve_outs in Hin'. apply in_map_iff in Hin' as (h0 & Hh0 & _). inversion Hh0; subst r.
      exact (shape_fail_quiet c s i x cid cl y m p' new cancel Hlv HU HC HO HN Hx Hcl Hst Hsh).
    + pose proof (shape_node_ok lv c s i x cid cl y (LSelect d) HU HC HO HN Hx Hcl Hst Hsh) as Haf. cbn [shape_goal] in Haf.
      split; [exact Haf|].
      destruct (lc_shape_select_attached _ _ _ _ _ _ _ _ Hsh) as (Ax & _ & Hwhich).
      apply (not_paying lv c s i x HU HC HO HN Hx Ax).
      intros k a g Hp. destruct Hwhich as [(k0 & E)|(k0 & a0 & g0 & t0 & E)]; congruence.
  - destruct (nth_error (parts (nd s)) pid) as [[]|], st; destruct Hin.
  - destruct (nth_error (calls s) cid) as [[q st]|]; [|destruct Hin]. destruct q; try (destruct Hin; fail). destruct st; destruct Hin.
  - destruct (nth_error (calls s) cid) as [[q st]|]; [|destruct Hin]. destruct q; try (destruct Hin; fail). destruct st; destruct Hin.
  - (* EvTick *)
    destruct (fire_timers (lcs (pl s)) (entry_ (pl s)) (now s + dt)) as [[l' e'] o'] eqn:Hf. cbn [snd] in Hin.
    destruct (fire_timers_resp_select _ _ _ _ _ _ _ _ Hf Hin) as (i & x & d & Hx & Hp).
    exact (select_quiet c s i x d HU HC HO HN Hx Hp).
Qed.

(* ---------- C06: no lifecycle panics ---------- *)
Definition NoPan (s : sys) : Prop := forall i x, nth_error (lcs (pl s)) i = Some x -> l_pc x <> PPanicked.

Lemma select_poll_clean c li base hgt tnow d en sel na :
  let a := select_poll c li base hgt tnow d (Some en) sel na in a_pc a <> PPanicked /\ ~ In OPanic (a_out a).
Proof.
  unfold select_poll, go_pay, do_resolve, stay.
  assert (R : forall e0 r, ~ In OPanic (resolve_outs e0 r ++ [])).
  { intros e0 r H. rewrite app_nil_r in H. unfold resolve_outs in H. apply in_map_iff in H as (? & H & _). discriminate. }
  destruct (rdy_q en); destruct (fail_q en) as [r|]; try destruct sel; cbn [a_pc a_out]; (split; [discriminate|]); try (intros []); apply R.
Qed.

Lemma enter_select_clean c li base hgt tnow d en sel na :
  let a := enter_select c li base hgt tnow d (Some en) sel na in a_pc a <> PPanicked /\ ~ In OPanic (a_out a).
Proof.
  unfold enter_select. destruct (d =? 0); [|apply select_poll_clean].
  unfold do_resolve. cbn [a_pc a_out]. split; [discriminate|]. rewrite app_nil_r. unfold resolve_outs. intros H. apply in_map_iff in H as (? & H & _). discriminate.
Qed.

Ltac fin_clean := cbn; repeat split; try discriminate; try reflexivity; try (intros [HH|[]]; discriminate HH); try (intros []).

Lemma shape_clean c li cs base tnow p cid y cl sh :
  pc_calls_ok c li cs p -> nth_error cs cid = Some cl -> reply_ok (c_rpc cl) y ->
  lc_shape c li base tnow p cid y = Some sh ->
  match sh with
  | LKeep p' _ out _ => p' <> PPanicked /\ ~ In OPanic out
  | LResolve _ p' _ _ => p' <> PPanicked /\ attached p = true
  | LSelect _ => attached p = true
  end.
Proof.
  intros Hty Hcl Hry Hsh.
  destruct p as [k1|kk w|k1 a g t|k1 a g t|d|k1 a am mf md|k1 a g am mf md|k1 a g|k1 a pr|k1 a|k1 a g|k1 a g| |];
    unfold lc_shape in Hsh; try discriminate;
    try (destruct (negb (Nat.eqb k1 cid)); [discriminate|]).
  - destruct y as [[[[| | |] ?]|]| | | | | | | |]; inversion Hsh; subst; fin_clean.
  - destruct (wait_deliver base w cid y) as [[w' nw|[pr| |] cn0]|] eqn:Ew; try discriminate.
    + inversion Hsh; subst. fin_clean.
    + inversion Hsh; subst. unfold shape_succeed. fin_clean.
    + destruct kk; inversion Hsh; subst; unfold shape_pay_failed; fin_clean.
    + exfalso. exact (wait_no_err c li cs kk base w cid y cl cn0 Hty Hcl Hry Ew).
  - destruct y; inversion Hsh; subst; fin_clean.
  - destruct y; inversion Hsh; subst; fin_clean.
  - destruct y; inversion Hsh; subst; fin_clean.
  - destruct y; inversion Hsh; subst; fin_clean.
  - destruct (pay_reply y); inversion Hsh; subst; unfold shape_succeed, shape_pay_failed; fin_clean.
  - destruct y; inversion Hsh; subst; fin_clean.
  - inversion Hsh; subst; fin_clean.
  - destruct y; inversion Hsh; subst; fin_clean.
  - inversion Hsh; subst; fin_clean.
Qed.

Lemma fire_timers_clean : forall l e t l' e' o',
  fire_timers l e t = (l', e', o') ->
  (forall i x, nth_error l i = Some x -> l_pc x <> PPanicked) ->
  (* at most one lifecycle sleeps in the select!, and only while the entry exists *)
  (forall i j x y d1 d2, nth_error l i = Some x -> nth_error l j = Some y -> l_pc x = PSelect d1 -> l_pc y = PSelect d2 -> i = j) ->
  (e = None -> forall i x d, nth_error l i = Some x -> l_pc x <> PSelect d) ->
  ~ In OPanic o' /\ forall i x, nth_error l' i = Some x -> l_pc x <> PPanicked.
Proof.
  (* once the entry is gone and no lifecycle is in the select!, nothing happens *)
  assert (Quiet : forall l t, (forall i x d, nth_error l i = Some x -> l_pc x <> PSelect d) -> forall e, fire_timers l e t = (l, e, [])).
  { induction l as [|z r IH]; intros t Hno e; [reflexivity|]. unfold fire_timers; fold fire_timers.
    assert (Hr : forall i x d, nth_error r i = Some x -> l_pc x <> PSelect d) by (intros i x d Hx; exact (Hno (S i) x d Hx)).
    destruct (l_pc z) eqn:Hz; try (rewrite (IH t Hr e); reflexivity). exfalso. exact (Hno 0%nat z deadline eq_refl Hz). }
  induction l as [|z r IH]; intros e t l' e' o' H Hnp Huniq Hnone; unfold fire_timers in H; fold fire_timers in H.
  - inversion H; subst. split; [intros []|intros [|i] x Hx; discriminate].
  - assert (Hnp' : forall i x, nth_error r i = Some x -> l_pc x <> PPanicked) by (intros i x Hx; exact (Hnp (S i) x Hx)).
    assert (Huniq' : forall i j x y d1 d2, nth_error r i = Some x -> nth_error r j = Some y -> l_pc x = PSelect d1 -> l_pc y = PSelect d2 -> i = j).
    { intros i j x y d1 d2 Hx Hy H1 H2. pose proof (Huniq (S i) (S j) x y d1 d2 Hx Hy H1 H2). lia. }
    assert (Hnone' : e = None -> forall i x d, nth_error r i = Some x -> l_pc x <> PSelect d) by (intros E i x d Hx; exact (Hnone E (S i) x d Hx)).
    assert (Keep : forall r' e1 o1, fire_timers r e t = (r', e1, o1) -> l' = z :: r' -> o' = o1 ->
              ~ In OPanic o' /\ forall i x, nth_error l' i = Some x -> l_pc x <> PPanicked).
    { intros r' e1 o1 E2 -> ->. destruct (IH _ _ _ _ _ E2 Hnp' Huniq' Hnone') as (A & B). split; [exact A|].
      intros [|i] x Hx; cbn in Hx; [inversion Hx; subst; exact (Hnp 0%nat x eq_refl)|exact (B i x Hx)]. }
    destruct (l_pc z) eqn:Hz;
      try (destruct (fire_timers r e t) as [[r' e1] o1] eqn:E2; inversion H; subst; eapply Keep; eauto; fail).
    destruct (deadline <=? t).
    + (* this one fires: it is the only one in the select!, so the rest is silent *)
      assert (Hno : forall i x d, nth_error r i = Some x -> l_pc x <> PSelect d).
      { intros i x d Hx Hp. pose proof (Huniq 0%nat (S i) z x deadline d eq_refl Hx Hz Hp). discriminate. }
      destruct e as [en|]; [|exfalso; exact (Hnone eq_refl 0%nat z deadline eq_refl Hz)].
      rewrite (Quiet r t Hno None) in H. inversion H; subst. split.
      * rewrite app_nil_r. unfold resolve_outs. intros Hin. apply in_map_iff in Hin as (? & Hin & _). discriminate.
      * intros [|i] x Hx; cbn in Hx; [inversion Hx; subst; discriminate|exact (Hnp' i x Hx)].
    + destruct (fire_timers r e t) as [[r' e1] o1] eqn:E2; inversion H; subst; eapply Keep; eauto.
Qed.

Lemma select_unique s i j x y d1 d2 :
  InvU s -> nth_error (lcs (pl s)) i = Some x -> nth_error (lcs (pl s)) j = Some y -> l_pc x = PSelect d1 -> l_pc y = PSelect d2 -> i = j.
Proof. intros HU Hx Hy H1 H2. exact (proj1 (att_unique s i j x y HU Hx Hy ltac:(rewrite H1; reflexivity) ltac:(rewrite H2; reflexivity))). Qed.

Lemma apply_adv_clean s i a x :
  nth_error (lcs (pl s)) i = Some x -> NoPan s -> a_pc a <> PPanicked -> ~ In OPanic (a_out a) ->
  ~ In OPanic (snd (apply_adv s i a)) /\ NoPan (fst (apply_adv s i a)).
Proof.
  intros Hx Hnp Hpc Hout. split.
  - rewrite apply_adv_outs. intros H. apply in_app_or in H as [H|H]; [exact (Hout H)|]. apply in_app_or in H as [H|H].
    + revert H. generalize (length (calls s)). induction (a_new a) as [|q r IH]; intros b H; [destruct H|]. cbn in H. destruct H as [H|H]; [discriminate|exact (IH _ H)].
    + apply in_map_iff in H as (? & H & _). discriminate.
  - destruct (apply_adv_lcs s i a x Hx) as (Hl & _). intros j y Hy. rewrite Hl in Hy.
    destruct (nth_upd_cases _ _ _ _ _ Hy) as [[_ ->]|[_ Hy']]; [exact Hpc|exact (Hnp j y Hy')].
Qed.

Lemma step_clean c s ev :
  lv = true -> InvU s -> InvC c s -> NInv lv s -> NoPan s -> ~ In OPanic (snd (step c s ev)) /\ NoPan (fst (step c s ev)).
Proof.
  intros Hlv HU HC HN Hnp. destruct ev; cbn [step]; try (split; [intros []|exact Hnp]).
  - (* EvHtlc *)
    destruct (entry_ (pl s)) as [e|] eqn:He; [split; [intros []|exact Hnp]|].
    split; [intros [H|[]]; discriminate|].
    intros j y Hy. cbn [fst pl lcs] in Hy. destruct (Nat.lt_ge_cases j (length (lcs (pl s)))) as [Hlt|Hge].
    + rewrite nth_error_app1 in Hy by exact Hlt. exact (Hnp j y Hy).
    + rewrite nth_error_app2 in Hy by exact Hge. destruct (j - length (lcs (pl s)))%nat as [|k0]; cbn in Hy; [|destruct k0; discriminate]. inversion Hy; subst. discriminate.
  - (* EvPoll *)
    destruct (find_select 0 (lcs (pl s))) as [[[i d] li]|] eqn:Hf; [|split; [intros []|exact Hnp]].
    destruct (find_select_spec _ _ _ _ _ Hf) as (x & Hx & Hp & _). rewrite Nat.sub_0_r in Hx.
    destruct (entry_ (pl s)) as [en|] eqn:Ee; [|exfalso; exact (InvU_attached_entry s i x HU Hx ltac:(rewrite Hp; reflexivity) Ee)].
    destruct (select_poll_clean c li (length (calls s)) (height s) (now s) d en sel (next_att (pl s))) as (C1 & C2).
    exact (apply_adv_clean s i _ x Hx Hnp C1 C2).
  - destruct (nth_error (calls s) cid) as [cl|]; [|split; [intros []|exact Hnp]]. destruct (c_st cl); try (split; [intros []|exact Hnp]).
    destruct (node_exec (nd s) (c_rpc cl) f). split; [intros []|exact Hnp].
  - (* EvDeliver *)
    destruct (nth_error (calls s) cid) as [cl|] eqn:Hcl; [|split; [intros []|exact Hnp]]. destruct (c_st cl) eqn:Hst; try (split; [intros []|exact Hnp]).
    destruct (find_owner c 0 (lcs (pl s)) cid y sel (entry_ (pl s)) (length (calls s)) (height s) (now s) (next_att (pl s))) as [[i a]|] eqn:Hf; [|split; [intros []|exact Hnp]].
    destruct (find_owner_spec _ _ _ _ _ _ _ _ _ _ _ _ _ Hf) as (x & Hx & _ & Hdl). rewrite Nat.sub_0_r in Hx.
    rewrite lc_deliver_shape in Hdl. destruct (lc_shape c (l_info x) (length (calls s)) (now s) (l_pc x) cid y) as [sh|] eqn:Hsh; [|discriminate].
    cbn [option_map] in Hdl. inversion Hdl; subst a; clear Hdl.
    pose proof (ni_r lv s HN cid cl y Hcl Hst) as Hry. unfold typed_reply in Hry. rewrite Hlv in Hry.
    pose proof (shape_clean c (l_info x) (calls s) _ _ _ cid y cl sh (ic_typed c s HC i x Hx) Hcl Hry Hsh) as Hc.
    apply (apply_adv_clean (with_calls s (set_status cid Delivered (calls s))) i _ x Hx Hnp).
    + destruct sh as [p' new out cancel|r p' new cancel|d]; cbn [adv_of a_pc].
      * exact (proj1 Hc).
      * destruct Hc as (Hc & Ax). destruct (entry_ (pl s)) as [en|] eqn:Ee; [exact Hc|exfalso; exact (InvU_attached_entry s i x HU Hx Ax Ee)].
      * destruct (entry_ (pl s)) as [en|] eqn:Ee; [exact (proj1 (enter_select_clean _ _ _ _ _ _ _ _ _))|exfalso; exact (InvU_attached_entry s i x HU Hx Hc Ee)].
    + destruct sh as [p' new out cancel|r p' new cancel|d]; cbn [adv_of a_out].
      * exact (proj2 Hc).
      * destruct Hc as (Hc & Ax). destruct (entry_ (pl s)) as [en|] eqn:Ee; [|exfalso; exact (InvU_attached_entry s i x HU Hx Ax Ee)].
        unfold do_resolve. cbn [a_out]. rewrite app_nil_r. unfold resolve_outs. intros H. apply in_map_iff in H as (? & H & _). discriminate.
      * destruct (entry_ (pl s)) as [en|] eqn:Ee; [exact (proj2 (enter_select_clean _ _ _ _ _ _ _ _ _))|exfalso; exact (InvU_attached_entry s i x HU Hx Hc Ee)].
  - destruct (nth_error (parts (nd s)) pid) as [[]|], st; (split; [intros []|exact Hnp]).
  - destruct (nth_error (calls s) cid) as [[q st]|]; [|split; [intros []|exact Hnp]]. destruct q; try (split; [intros []|exact Hnp]). destruct st; (split; [intros []|exact Hnp]).
  - destruct (nth_error (calls s) cid) as [[q st]|]; [|split; [intros []|exact Hnp]]. destruct q; try (split; [intros []|exact Hnp]). destruct st; (split; [intros []|exact Hnp]).
  - (* EvTick *)
    destruct (fire_timers (lcs (pl s)) (entry_ (pl s)) (now s + dt)) as [[l' e'] o'] eqn:Hf. cbn [fst snd pl lcs].
    apply (fire_timers_clean _ _ _ _ _ _ Hf Hnp).
    + intros i j x y d1 d2. exact (select_unique s i j x y d1 d2 HU).
    + intros E i x d Hx Hp. exact (InvU_attached_entry s i x HU Hx ltac:(rewrite Hp; reflexivity) E).
  - split; [intros []|intros [|i] x Hx; discriminate].
Qed.

Theorem wreach_no_panic c s : lv = true -> wreach c s -> NoPan s /\ forall ev, ~ In OPanic (snd (step c s ev)).
Proof.
  intros Hlv Hw.
  assert (Hnp : NoPan s).
  { induction Hw as [n t0 h0 a0 Hn|s ev Hw IH Hwf]; [intros [|i] x Hx; discriminate|].
    destruct (wreach_inv c s Hw) as (_ & HC & _ & HN). exact (proj2 (step_clean c s ev Hlv (wreach_U c s Hw) HC HN IH)). }
  split; [exact Hnp|]. intros ev. destruct (wreach_inv c s Hw) as (_ & HC & _ & HN). exact (proj1 (step_clean c s ev Hlv (wreach_U c s Hw) HC HN Hnp)).
Qed.

(* ---------- C06: no deadlock — while HTLCs are held, their lifecycle is waiting for something that will come ---------- *)
Definition InvW (s : sys) : Prop := forall i x kk, nth_error (lcs (pl s)) i = Some x -> l_pc x <> PWait kk (WParts []).

Lemma lc_shape_parts_nonempty c li base tnow p cid y sh p' cn kk :
  lc_shape c li base tnow p cid y = Some sh -> shape_pc sh = Some (p', cn) -> p <> PWait kk (WParts []) -> p' <> PWait kk (WParts []).
Proof.
  intros Hsh Hpc Hold.
  destruct p as [k1|kk0 w|k1 a g t|k1 a g t|d|k1 a am mf md|k1 a g am mf md|k1 a g|k1 a pr|k1 a|k1 a g|k1 a g| |];
    unfold lc_shape in Hsh; try discriminate;
    try (destruct (negb (Nat.eqb k1 cid)); [discriminate|]).
  - destruct y as [[[[| | |] ?]|]| | | | | | | |]; inversion Hsh; subst; cbn in Hpc; inversion Hpc; subst; discriminate.
  - destruct (wait_deliver base w cid y) as [[w' nw|[pr| |] cn0]|] eqn:Ew; try discriminate.
    + inversion Hsh; subst. cbn in Hpc. inversion Hpc; subst. intros E. inversion E; subst.
      destruct w as [k1|k1 l|aw]; cbn in Ew.
      * destruct (negb _); [discriminate|]. destruct y; discriminate.
      * destruct (negb _); [discriminate|]. destruct y as [| | | |[|? ?]| | | |]; try discriminate. destruct l; discriminate.
      * destruct (negb _); [discriminate|]. destruct y; try discriminate. destruct (filter _ aw) eqn:Ef; [discriminate|]. inversion Ew.
    + inversion Hsh; subst. cbn in Hpc. inversion Hpc; subst. discriminate.
    + destruct kk0; inversion Hsh; subst; cbn in Hpc; inversion Hpc; subst; discriminate.
    + destruct kk0; inversion Hsh; subst; cbn in Hpc; inversion Hpc; subst; discriminate.
  - destruct y; inversion Hsh; subst; cbn in Hpc; inversion Hpc; subst; discriminate.
  - destruct y; inversion Hsh; subst; cbn in Hpc; inversion Hpc; subst; discriminate.
  - destruct y; inversion Hsh; subst; cbn in Hpc; inversion Hpc; subst; discriminate.
  - destruct y; inversion Hsh; subst; cbn in Hpc; inversion Hpc; subst; discriminate.
  - destruct (pay_reply y); inversion Hsh; subst; cbn in Hpc; inversion Hpc; subst; discriminate.
  - destruct y; inversion Hsh; subst; cbn in Hpc; inversion Hpc; subst; discriminate.
  - inversion Hsh; subst; cbn in Hpc; inversion Hpc; subst; discriminate.
  - destruct y; inversion Hsh; subst; cbn in Hpc; inversion Hpc; subst; discriminate.
  - inversion Hsh; subst; cbn in Hpc; inversion Hpc; subst; discriminate.
Qed.

Lemma apply_adv_InvW s i a x : nth_error (lcs (pl s)) i = Some x -> InvW s -> (forall kk, a_pc a <> PWait kk (WParts [])) -> InvW (fst (apply_adv s i a)).
Proof.
  intros Hx HW Hpc. destruct (apply_adv_lcs s i a x Hx) as (Hl & _). intros j y kk Hy. rewrite Hl in Hy.
  destruct (nth_upd_cases _ _ _ _ _ Hy) as [[_ ->]|[_ Hy']]; [exact (Hpc kk)|exact (HW j y kk Hy')].
Qed.

Theorem step_InvW c s ev : InvW s -> InvW (fst (step c s ev)).
Proof.
  intros HW. destruct ev; cbn [step]; try exact HW.
  - destruct (entry_ (pl s)) as [e|] eqn:He; [exact HW|].
    intros j y kk Hy. cbn [fst pl lcs] in Hy. destruct (Nat.lt_ge_cases j (length (lcs (pl s)))) as [Hlt|Hge].
    + rewrite nth_error_app1 in Hy by exact Hlt. exact (HW j y kk Hy).
    + rewrite nth_error_app2 in Hy by exact Hge. destruct (j - length (lcs (pl s)))%nat as [|k0]; cbn in Hy; [|destruct k0; discriminate]. inversion Hy; subst. discriminate.
  - destruct (find_select 0 (lcs (pl s))) as [[[i d] li]|] eqn:Hf; [|exact HW].
    destruct (find_select_spec _ _ _ _ _ Hf) as (x & Hx & _). rewrite Nat.sub_0_r in Hx.
    exact (apply_adv_InvW s i _ x Hx HW (fun kk => select_poll_not_wait _ _ _ _ _ _ _ _ _ kk _)).
  - destruct (nth_error (calls s) cid) as [cl|]; [|exact HW]. destruct (c_st cl); try exact HW. destruct (node_exec (nd s) (c_rpc cl) f). exact HW.
  - destruct (nth_error (calls s) cid) as [cl|] eqn:Hcl; [|exact HW]. destruct (c_st cl) eqn:Hst; try exact HW.
    destruct (find_owner c 0 (lcs (pl s)) cid y sel (entry_ (pl s)) (length (calls s)) (height s) (now s) (next_att (pl s))) as [[i a]|] eqn:Hf; [|exact HW].
    destruct (find_owner_spec _ _ _ _ _ _ _ _ _ _ _ _ _ Hf) as (x & Hx & _ & Hdl). rewrite Nat.sub_0_r in Hx.
    rewrite lc_deliver_shape in Hdl. destruct (lc_shape c (l_info x) (length (calls s)) (now s) (l_pc x) cid y) as [sh|] eqn:Hsh; [|discriminate].
    cbn [option_map] in Hdl. inversion Hdl; subst a; clear Hdl.
    apply (apply_adv_InvW (with_calls s (set_status cid Delivered (calls s))) i _ x Hx HW). intros kk.
    destruct sh as [p' new out cancel|r p' new cancel|d]; cbn [adv_of a_pc].
    + exact (lc_shape_parts_nonempty _ _ _ _ _ _ _ _ _ _ kk Hsh eq_refl (HW i x kk Hx)).
    + unfold do_resolve. destruct (entry_ (pl s)); cbn [a_pc]; [exact (lc_shape_parts_nonempty _ _ _ _ _ _ _ _ _ _ kk Hsh eq_refl (HW i x kk Hx))|discriminate].
    + apply enter_select_not_wait.
  - destruct (nth_error (parts (nd s)) pid) as [[]|], st; exact HW.
  - destruct (nth_error (calls s) cid) as [[q st]|]; [|exact HW]. destruct q; try exact HW. destruct st; exact HW.
  - destruct (nth_error (calls s) cid) as [[q st]|]; [|exact HW]. destruct q; try exact HW. destruct st; exact HW.
  - destruct (fire_timers (lcs (pl s)) (entry_ (pl s)) (now s + dt)) as [[l' e'] o'] eqn:Hf. cbn [fst].
    intros i y kk Hy. cbn [pl lcs] in Hy. destruct (fire_timers_pcs _ _ _ _ _ _ _ _ Hf Hy) as (x & Hx & _ & [H|(_ & [H|H])]); rewrite H; try discriminate. exact (HW i x kk Hx).
  - intros [|i] x kk Hx; discriminate.
Qed.

Lemma wreach_W c s : wreach c s -> InvW s.
Proof. induction 1 as [n t0 h0 a0 _|s ev _ IH _]; [intros [|i] x kk Hx; discriminate|apply step_InvW; exact IH]. Qed.

Lemma n_att_exists : forall l, (1 <= n_att l)%nat -> exists i x, nth_error l i = Some x /\ attached (l_pc x) = true.
Proof.
  induction l as [|z r IH]; cbn; intros H; [lia|]. destruct (attached (l_pc z)) eqn:Az.
  - exists 0%nat, z. auto.
  - destruct (IH ltac:(cbn in H; lia)) as (i & x & Hx & Ax). exists (S i), x. auto.
Qed.

(* while the entry (the held HTLCs) exists, exactly one lifecycle is attached to it; it has not panicked and it is
   either sleeping in the select! with a deadline at most one MPP timeout ahead, or waiting for at least one RPC that
   is still live (unprocessed, running, or answered and not yet delivered) — so the environment can always move it *)
Theorem never_stuck c s e :
  lv = true -> wreach c s -> entry_ (pl s) = Some e ->
  exists i x, nth_error (lcs (pl s)) i = Some x /\ attached (l_pc x) = true /\
    ((exists d, l_pc x = PSelect d /\ now s < d /\ d <= now s + mpp_ms c) \/
     (awaits (l_pc x) <> [] /\ forall k, In k (awaits (l_pc x)) -> exists cl, nth_error (calls s) k = Some cl /\ live (c_st cl))).
Proof.
  intros Hlv Hw He. destruct (wreach_inv c s Hw) as (Hr & HC & _ & _). destruct (reachable_inv c s Hr) as (HU & _ & HT).
  destruct (wreach_no_panic c s Hlv Hw) as (Hnp & _). pose proof (wreach_W c s Hw) as HW.
  unfold InvU in HU. rewrite He in HU. destruct (n_att_exists (lcs (pl s)) ltac:(lia)) as (i & x & Hx & Ax).
  exists i, x. split; [exact Hx|]. split; [exact Ax|].
  pose proof (ic_typed c s HC i x Hx) as Hty.
  assert (Live : forall k q, has_call (calls s) k q -> exists cl, nth_error (calls s) k = Some cl /\ live (c_st cl)).
  { intros k q (st & Hk & Hl). eexists. split; [exact Hk|exact Hl]. }
  destruct (l_pc x) as [k1|kk w|k1 a g t|k1 a g t|d|k1 a am mf md|k1 a g am mf md|k1 a g|k1 a pr|k1 a|k1 a g|k1 a g| |] eqn:Hp; try discriminate;
    cbn [pc_calls_ok awaits] in *.
  - right. split; [discriminate|]. intros k [<-|[]]. eapply Live; exact Hty.
  - right. destruct w as [k1|k1 l|aw]; cbn [awaits].
    + split; [discriminate|]. intros k [<-|[]]. eapply Live; exact Hty.
    + split; [discriminate|]. intros k [<-|[]]. eapply Live; exact Hty.
    + split; [destruct aw; [exfalso; exact (HW i x kk Hx Hp)|discriminate]|].
      intros k Hk. apply in_map_iff in Hk as ((pid & c0) & <- & Hin). eapply Live. exact (Hty pid c0 Hin).
  - right. split; [discriminate|]. intros k [<-|[]]. eapply Live; exact Hty.
  - right. split; [discriminate|]. intros k [<-|[]]. eapply Live; exact Hty.
  - left. exists d. split; [reflexivity|]. exact (HT i x d Hx Hp).
  - right. split; [discriminate|]. intros k [<-|[]]. destruct Hty as (t & Hty). eapply Live; exact Hty.
  - right. split; [discriminate|]. intros k [<-|[]]. eapply Live; exact Hty.
  - right. split; [discriminate|]. intros k [<-|[]]. destruct Hty as (am & mf & md & Hty). eapply Live; exact Hty.
  - exfalso. exact (Hnp i x Hx Hp).
Qed.

(* ---------- histories ---------- *)
Fixpoint hist_wf (c : cfg) (s : sys) (evs : list event) : Prop :=
  match evs with [] => True | ev :: r => ev_wf lv s ev /\ hist_wf c (fst (step c s ev)) r end.

Lemma wreach_run c : forall evs s, wreach c s -> hist_wf c s evs -> wreach c (fst (run c s evs)).
Proof.
  induction evs as [|ev r IH]; intros s Hs Hwf; cbn [run]; [exact Hs|]. destruct Hwf as (H1 & H2).
  pose proof (wr_step c s ev Hs H1) as Hs1. destruct (step c s ev) as [s1 o]. cbn [fst] in *.
  specialize (IH s1 Hs1 H2). destruct (run c s1 r) as [s2 os]. exact IH.
Qed.

(* the state after a history from a start state *)
Definition after (c : cfg) (n : node) (t0 h0 a0 : N) (evs : list event) : sys := fst (run c (sys_start n t0 h0 a0) evs).

Lemma after_wreach c n t0 h0 a0 evs : node_ok n -> hist_wf c (sys_start n t0 h0 a0) evs -> wreach c (after c n t0 h0 a0 evs).
Proof. intros Hn Hwf. apply wreach_run; [constructor; exact Hn|exact Hwf]. Qed.

(* ---------- the record is free or absent only when nothing is pending or complete and no pay command runs ---------- *)
Theorem free_means_quiet c s : wreach c s -> free_view (ds (nd s)) -> quiet (nd s).
Proof.
  intros Hw Hf. destruct (wreach_inv c s Hw) as (_ & _ & _ & HN). split; [exact (free_all_failed lv s HN Hf)|].
  destruct (N.eq_dec (payrun (nd s)) 0) as [E|E]; [exact E|]. exfalso.
  pose proof (ni_wa lv s HN (or_intror E)) as Hh. unfold hot in Hh. unfold free_view in Hf. destruct (ds (nd s)) as [[[] ?]|]; cbn in *; tauto.
Qed.

(* ---------- a completed part stays completed ---------- *)
Lemma has_done_step c s ev p : has_done p (parts (nd s)) -> has_done p (parts (nd (fst (step c s ev)))).
Proof.
  intros H. destruct ev; cbn [step].
  - destruct (entry_ (pl s)); exact H.
  - destruct (find_select 0 (lcs (pl s))) as [[[i d] li]|]; [|exact H]. unfold apply_adv. cbn. exact H.
  - destruct (nth_error (calls s) cid) as [cl|]; [|exact H]. destruct (c_st cl); try exact H.
    pose proof (node_exec_parts (nd s) (c_rpc cl) f) as Hp. destruct (node_exec (nd s) (c_rpc cl) f) as [n' y]. cbn in *. rewrite Hp. exact H.
  - destruct (nth_error (calls s) cid) as [cl|]; [|exact H]. destruct (c_st cl); try exact H.
    destruct (find_owner c 0 (lcs (pl s)) cid y sel (entry_ (pl s)) (length (calls s)) (height s) (now s) (next_att (pl s))) as [[i a]|]; [|exact H].
    unfold apply_adv. cbn. exact H.
  - destruct (nth_error (parts (nd s)) pid) as [[]|] eqn:Hp, st; try exact H; cbn; apply has_done_upd; assumption.
  - destruct (nth_error (calls s) cid) as [[q st]|]; [|exact H]. destruct q; try exact H. destruct st; try exact H. cbn. apply has_done_app. exact H.
  - destruct (nth_error (calls s) cid) as [[q st]|]; [|exact H]. destruct q; try exact H. destruct st; exact H.
  - destruct (fire_timers (lcs (pl s)) (entry_ (pl s)) (now s + dt)) as [[l' e'] o']. exact H.
  - exact H.
  - exact H.
Qed.

Lemma has_done_run c p : forall evs s, has_done p (parts (nd s)) -> has_done p (parts (nd (fst (run c s evs)))).
Proof.
  induction evs as [|ev r IH]; intros s H; cbn [run]; [exact H|].
  pose proof (has_done_step c s ev p H) as H1. destruct (step c s ev) as [s1 o]. specialize (IH s1 H1). destruct (run c s1 r) as [s2 os]. exact IH.
Qed.

Lemma has_done_not_all_failed p ps : has_done p ps -> all_failed ps -> False.
Proof. intros Hd Ha. apply In_nth_error in Hd as (i & Hi). specialize (Ha i _ Hi). discriminate. Qed.

(* ---------- at most one pay command is outstanding ---------- *)
Theorem one_pay_at_a_time c s k1 k2 cl1 cl2 :
  wreach c s -> nth_error (calls s) k1 = Some cl1 -> nth_error (calls s) k2 = Some cl2 ->
  is_pay (c_rpc cl1) = true -> is_pay (c_rpc cl2) = true -> live (c_st cl1) -> live (c_st cl2) -> k1 = k2.
Proof.
  intros Hw H1 H2 P1 P2 L1 L2. destruct (wreach_inv c s Hw) as (_ & HC & HO & _). pose proof (wreach_U c s Hw) as HU.
  destruct (c_rpc cl1) eqn:E1; try discriminate. destruct (c_rpc cl2) eqn:E2; try discriminate.
  destruct (live_pay_owner c s k1 cl1 _ _ _ _ _ HC HO H1 E1 L1) as (i & x & a & g & Hx & Hp).
  destruct (live_pay_owner c s k2 cl2 _ _ _ _ _ HC HO H2 E2 L2) as (j & y & a' & g' & Hy & Hp').
  destruct (att_unique s i j x y HU Hx Hy ltac:(rewrite Hp; reflexivity) ltac:(rewrite Hp'; reflexivity)) as (_ & ->). congruence.
Qed.

(* ---------- an accepted HTLC is held or answered ---------- *)
Lemma select_poll_held_or_answered c li base hgt tnow d en sel na :
  let a := select_poll c li base hgt tnow d (Some en) sel na in
  (exists en', a_entry a = Some en' /\ listeners en' = listeners en) \/
  (exists r, forall h, In h (listeners en) -> In (OResp (hid h) r) (a_out a)).
Proof.
  unfold select_poll, go_pay, do_resolve, stay.
  assert (R : forall rq fq r h, In h (listeners en) -> In (OResp (hid h) r) (resolve_outs (set_queues en rq fq) r ++ [])).
  { intros rq fq r h Hh. rewrite app_nil_r. unfold resolve_outs. cbn [set_queues listeners]. apply in_map_iff. exists h. auto. }
  destruct (rdy_q en); destruct (fail_q en) as [r|]; try destruct sel; cbn [a_out a_entry];
    try (left; eexists; split; [reflexivity|reflexivity]); right; exists r; intros h Hh; apply R; exact Hh.
Qed.

Lemma e_handle_listeners c e h : listeners (e_handle c e h) = h :: listeners e.
Proof.
  unfold e_handle, e_add. cbn [listeners].
  assert (F : forall x r, listeners (e_fail x r) = listeners x) by (intros x r; unfold e_fail; destruct (is_fail x); reflexivity).
  repeat match goal with |- context [if ?b then _ else _] => destruct b end; rewrite ?F; reflexivity.
Qed.

Theorem htlc_held_or_answered c s h :
  (exists en, entry_ (pl (fst (step c s (EvHtlc h)))) = Some en /\ In h (listeners en)) \/
  (exists r, In (OResp (hid h) r) (snd (step c s (EvHtlc h)))).
Proof.
  left. cbn [step]. destruct (entry_ (pl s)) as [e|]; eexists; (split; [reflexivity|]); rewrite e_handle_listeners; left; reflexivity.
Qed.

(* ... and when the lifecycle then looks at its queues, the set either stays held or every held HTLC is answered *)
Theorem poll_held_or_answered c s sel en :
  entry_ (pl s) = Some en ->
  (exists en', entry_ (pl (fst (step c s (EvPoll sel)))) = Some en' /\ listeners en' = listeners en) \/
  (exists r, forall h, In h (listeners en) -> In (OResp (hid h) r) (snd (step c s (EvPoll sel)))).
Proof.
  intros He. cbn [step]. destruct (find_select 0 (lcs (pl s))) as [[[i d] li]|]; [|left; exists en; auto].
  rewrite He.
  destruct (select_poll_held_or_answered c li (length (calls s)) (height s) (now s) d en sel (next_att (pl s))) as [(en' & He' & Hl)|(r & Hr)].
  - left. exists en'. unfold apply_adv. cbn [fst pl entry_]. auto.
  - right. exists r. intros h Hh. unfold apply_adv. cbn [snd]. apply in_or_app. left. exact (Hr h Hh).
Qed.

End Level.

Lemma ev_wf_strict s cid f :
  ev_wf true s (EvProcess cid f) <-> (f = NoFault \/ forall cl, nth_error (calls s) cid = Some cl -> is_read (c_rpc cl) = false).
Proof.
  cbn. split.
  - intros [H|H]; [left; exact H|right]. intros cl Hcl. destruct (H cl Hcl) as [E|(E & _)]; [exact E|discriminate].
  - intros [H|H]; [left; exact H|right]. intros cl Hcl. left. exact (H cl Hcl).
Qed.

(* the strict level implies the other one *)
Lemma ev_wf_weaken s ev : ev_wf true s ev -> ev_wf false s ev.
Proof.
  destruct ev; cbn; auto. intros [H|H]; [left; exact H|right]. intros cl Hcl. destruct (H cl Hcl) as [E|(E & _)]; [left; exact E|discriminate].
Qed.
Lemma wreach_weaken c s : wreach true c s -> wreach false c s.
Proof. induction 1 as [n t0 h0 a0 Hn|s ev _ IH Hwf]; [constructor; exact Hn|constructor; [exact IH|apply ev_wf_weaken; exact Hwf]]. Qed.
Lemma hist_wf_weaken c : forall evs s, hist_wf true c s evs -> hist_wf false c s evs.
Proof. induction evs as [|ev r IH]; intros s H; [exact I|]. destruct H as (H1 & H2). split; [apply ev_wf_weaken; exact H1|apply IH; exact H2]. Qed.
