(* ClassifyProofs.v — C10 and the stateless half of C13, over Model/Classify.v. *)
From Tramp Require Import Model.Base Model.Tlv Model.Fee Model.Classify Proofs.TlvProofs.

Lemma bytes_eq_eq a b : bytes_eq a b = true -> a = b.
Proof.
  revert b; induction a as [|x a IH]; intros [|y b]; cbn; try discriminate; [reflexivity|].
  intros H. apply andb_prop in H as [H1 H2]. apply N.eqb_eq in H1. f_equal; auto.
Qed.
Lemma bytes_eq_refl a : bytes_eq a a = true.
Proof. induction a as [|x a IH]; cbn; [reflexivity|]. rewrite N.eqb_refl. exact IH. Qed.

(* the amount field as the property reads it: absent, well-formed (0..8 bytes: its big-endian value), or malformed *)
Definition amount_field (mes : list tlv_entry) : option (option N) :=
  match tlv_get TLV_TRAMPOLINE_AMOUNT mes with
  | None => None
  | Some ab => Some (if len (value ab) <=? 8 then Some (be_val (value ab)) else None)
  end.

Definition amount_rule (iv : invoice_view) (mes : list tlv_entry) (amount : N) : Prop :=
  match iv_amount iv, amount_field mes with
  | Some a, Some (Some b) => a = b /\ amount = a     (* invoice amount; a well-formed field must agree *)
  | Some a, _ => amount = a                          (* invoice amount *)
  | None, Some (Some b) => amount = b                (* exactly the sender-declared amount *)
  | None, _ => False                                 (* no amount anywhere: not trampoline *)
  end.

Section C10.
  Variable parse : list N -> option invoice_view.

  Lemma extract_info rq es t :
    extract parse true rq es = XInfo t ->
    exists md mes ib iv,
      tlv_get TLV_PAYMENT_METADATA es = Some md /\ from_bytes true (value md) = Ok mes /\
      tlv_get TLV_TRAMPOLINE_INVOICE mes = Some ib /\ ti_blob t = value ib /\ parse (value ib) = Some iv /\
      iv_sig_ok iv = true /\ iv_hash iv = r_hash rq /\ ti_hash t = iv_hash iv /\ ti_payee t = iv_payee iv /\
      ti_inv_amount t = iv_amount iv /\ amount_rule iv mes (ti_amount t).
  Proof.
    unfold extract. intros H.
    destruct (tlv_get TLV_PAYMENT_METADATA es) as [md|] eqn:Emd; [|discriminate].
    destruct (from_bytes true (value md)) as [mes| |] eqn:Emes; try discriminate.
    destruct (tlv_get TLV_TRAMPOLINE_INVOICE mes) as [ib|] eqn:Eib; [|discriminate].
    destruct (parse (value ib)) as [iv|] eqn:Eiv; [|discriminate].
    cbn [andb] in H.
    destruct (bytes_eq (iv_hash iv) (r_hash rq)) eqn:Eh; cbn [negb] in H; [|discriminate].
    destruct (iv_sig_ok iv) eqn:Es; cbn [negb] in H; [|discriminate].
    exists md, mes, ib, iv.
    assert (Hfield : match tlv_get TLV_TRAMPOLINE_AMOUNT mes with
                     | Some ab => match get_tu64 (value ab) with Ok a => Some a | _ => None end
                     | None => None end
                     = match amount_field mes with Some (Some b) => Some b | _ => None end).
    { unfold amount_field, get_tu64. destruct (tlv_get TLV_TRAMPOLINE_AMOUNT mes) as [ab|]; [|reflexivity].
      destruct (8 <? len (value ab)) eqn:E1; destruct (len (value ab) <=? 8) eqn:E2; try reflexivity; lia. }
    rewrite Hfield in H. unfold amount_rule.
    apply bytes_eq_eq in Eh.
    destruct (iv_amount iv) as [ia|] eqn:Eia; destruct (amount_field mes) as [[b|]|] eqn:Eaf.
    - destruct (ia =? b) eqn:E; [|discriminate]. apply N.eqb_eq in E. inversion H; subst; cbn. repeat split; auto.
    - inversion H; subst; cbn. repeat split; auto.
    - inversion H; subst; cbn. repeat split; auto.
    - inversion H; subst; cbn. repeat split; auto.
    - discriminate.
    - discriminate.
  Qed.

  Theorem classify_tramp_sound c rq t :
    classify parse true c rq = CTramp t ->
    exists es md mes ib iv,
      try_from true (r_payload rq) = Ok es /\
      tlv_get TLV_PAYMENT_METADATA es = Some md /\ from_bytes true (value md) = Ok mes /\
      tlv_get TLV_TRAMPOLINE_INVOICE mes = Some ib /\ ti_blob t = value ib /\ parse (value ib) = Some iv /\
      iv_sig_ok iv = true /\ iv_hash iv = r_hash rq /\ ti_hash t = iv_hash iv /\ ti_payee t = iv_payee iv /\
      ti_inv_amount t = iv_amount iv /\ amount_rule iv mes (ti_amount t) /\
      (self_is_last_hop c iv = true -> c_allow_self c = true) /\
      r_scid rq = false /\ r_forward rq <> None.
  Proof.
    unfold classify. destruct (try_from true (r_payload rq)) as [es| |] eqn:Ees; try discriminate.
    unfold classify_entries. destruct (r_scid rq) eqn:Escid; [discriminate|].
    destruct (extract parse true rq es) as [| |t'] eqn:Ex; try discriminate.
    destruct (extract_info rq es t' Ex) as (md & mes & ib & iv & H1 & H2 & H3 & H4 & H5 & H6 & H7 & H8 & H9 & H10 & H11).
    rewrite H4, H5.
    destruct (self_is_last_hop c iv && negb (c_allow_self c)) eqn:Eself; [discriminate|].
    destruct (r_forward rq) as [f|] eqn:Ef; [|discriminate].
    intros H; inversion H; subst t'.
    exists es, md, mes, ib, iv. repeat split; auto; try discriminate.
    intros Hs. rewrite Hs in Eself. cbn in Eself. destruct (c_allow_self c); [reflexivity|discriminate].
  Qed.

  Theorem classify_self_hint c rq es t iv :
    try_from true (r_payload rq) = Ok es -> r_scid rq = false ->
    extract parse true rq es = XInfo t -> parse (ti_blob t) = Some iv ->
    self_is_last_hop c iv = true -> c_allow_self c = false ->
    classify parse true c rq = CResp (Fail (encode_failure TemporaryNodeFailure)).
  Proof.
    intros Ees Escid Ex Eiv Hs Ha. unfold classify. rewrite Ees. unfold classify_entries.
    rewrite Escid, Ex, Eiv, Hs, Ha. reflexivity.
  Qed.

  (* a request with a short_channel_id (plain forward), or without forward_msat, is never trampoline *)
  Theorem classify_forward_never_tramp c rq t :
    classify parse true c rq = CTramp t -> r_scid rq = false /\ r_forward rq <> None.
  Proof.
    intros H. destruct (classify_tramp_sound c rq t H) as (? & ? & ? & ? & ? & H'). tauto.
  Qed.

  (* no input makes the classification panic (after the D2 repair) *)
  Theorem classify_no_panic c rq : classify parse true c rq <> CPanic.
  Proof.
    unfold classify. destruct (try_from true (r_payload rq)) as [es| |] eqn:E; try discriminate.
    - unfold classify_entries. destruct (r_scid rq); [discriminate|].
      destruct (extract parse true rq es); try discriminate.
      destruct (match parse (ti_blob t) with Some iv => self_is_last_hop c iv | None => false end && negb (c_allow_self c)); [discriminate|].
      destruct (r_forward rq); discriminate.
    - exfalso. exact (try_from_no_panic _ E).
  Qed.

  (* C13: whatever is answered without being trampoline is `continue` or the self-hint failure, and a rewritten
     payload is the decoded stream with the FIRST payment-metadata record removed, everything else re-encoded in order *)
  Lemma default_response_shape es :
    default_response es = Continue None \/
    default_response es = Continue (Some (to_bytes (tlv_remove TLV_PAYMENT_METADATA es))).
  Proof.
    unfold default_response. destruct (tlv_get TLV_PAYMENT_METADATA es) as [md|]; [|auto].
    destruct (try_from true (value md)) as [mes| |]; auto.
    destruct (tlv_get TLV_TRAMPOLINE_INVOICE mes), (tlv_get TLV_TRAMPOLINE_AMOUNT mes); auto.
  Qed.

  Theorem classify_resp_shape c rq r :
    classify parse true c rq = CResp r ->
    r = Continue None \/ r = Fail (encode_failure TemporaryNodeFailure) \/
    exists es, try_from true (r_payload rq) = Ok es /\ r = Continue (Some (to_bytes (tlv_remove TLV_PAYMENT_METADATA es))).
  Proof.
    unfold classify. destruct (try_from true (r_payload rq)) as [es| |] eqn:E; try discriminate.
    - unfold classify_entries.
      assert (D : forall r', CResp (default_response es) = CResp r' ->
                  r' = Continue None \/ r' = Fail (encode_failure TemporaryNodeFailure) \/
                  exists es0, Ok es = Ok es0 /\ r' = Continue (Some (to_bytes (tlv_remove TLV_PAYMENT_METADATA es0)))).
      { intros r' H; inversion H. destruct (default_response_shape es) as [->| ->]; [auto|]. right; right. exists es. auto. }
      destruct (r_scid rq); [apply D|].
      destruct (extract parse true rq es); try apply D.
      destruct (match parse (ti_blob t) with Some iv => self_is_last_hop c iv | None => false end && negb (c_allow_self c)).
      + intros H; inversion H; auto.
      + destruct (r_forward rq); [discriminate|apply D].
    - intros H; inversion H; auto.
  Qed.
End C10.

(* the rewrite preserves every other record byte-for-byte and in order (with TlvProofs.tlv_remove_spec
   and decode_encode: for a valid stream, [to_bytes es] IS the original byte string) *)
Theorem rewrite_only_strips es :
  to_bytes (tlv_remove TLV_PAYMENT_METADATA es) = to_bytes es /\ (forall e, In e es -> typ e <> TLV_PAYMENT_METADATA)
  \/ exists es1 e es2, es = es1 ++ e :: es2 /\ typ e = TLV_PAYMENT_METADATA /\
       (forall x, In x es1 -> typ x <> TLV_PAYMENT_METADATA) /\
       to_bytes es = to_bytes es1 ++ entry_bytes e ++ to_bytes es2 /\
       to_bytes (tlv_remove TLV_PAYMENT_METADATA es) = to_bytes es1 ++ to_bytes es2.
Proof.
  destruct (tlv_remove_spec TLV_PAYMENT_METADATA es) as [[Hn Hr]|(es1 & e & es2 & -> & Ht & Hn & Hr)].
  - left. rewrite Hr. auto.
  - right. exists es1, e, es2. repeat split; auto.
    + rewrite to_bytes_app. unfold to_bytes at 2. cbn [flat_map]. reflexivity.
    + rewrite Hr. apply to_bytes_app.
Qed.
