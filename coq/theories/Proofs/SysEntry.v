(* SysEntry.v — what every reachable state says about the table entry and the lifecycle attached to it
   (invariant InvE), and the step-level facts C03 / C04 / C07 / C11 / C12 need. *)
From Tramp Require Import Model.Base Model.Fee Model.Classify Model.Node Model.Provider Model.Sys.
From Tramp Require Import Proofs.FeeProofs Proofs.SysBasics Proofs.EntryProofs.
From Coq Require Import ZifyBool ZifyNat ZifyN.

Definition info_of (e : entry) : linfo := {| li_blob := e_blob e; li_deliver := e_deliver e; li_inv_amount := e_inv_amount e |}.

(* the pay parameters a lifecycle carries were computed from the entry and still fit it *)
Definition pay_vals_ok (c : cfg) (e : entry) (p : pc) : Prop :=
  match p with
  | PAdd1 _ _ am mf md | PAdd2 _ _ _ am mf md =>
      fee_sufficient (pol c) (recv e) (e_deliver e) = true /\ mf <= recv e - e_deliver e /\ md <= pol_delta (pol c) /\
      am = match e_inv_amount e with Some _ => None | None => Some (e_deliver e) end
  | PPay _ _ _ => fee_sufficient (pol c) (recv e) (e_deliver e) = true
  | PSelect _ => True
  | _ => True
  end.

Record InvE (c : cfg) (s : sys) : Prop := {
  ie_entry : forall e, entry_ (pl s) = Some e -> EInv c e;
  ie_lc : forall e i x, entry_ (pl s) = Some e -> nth_error (lcs (pl s)) i = Some x -> attached (l_pc x) = true ->
          l_info x = info_of e /\ pay_vals_ok c e (l_pc x)
}.

Lemma InvE_init c : InvE c sys0.
Proof. constructor; cbn; intros; try discriminate. Qed.

(* ----- what a lifecycle step does to the entry and which parameters it installs ----- *)
Definition entry_rel (e e' : option entry) : Prop :=
  e' = None \/ e' = e \/ exists en rq fq, e = Some en /\ e' = Some (set_queues en rq fq) /\ (rq = true -> rdy_q en = true) /\ (forall r, fq = Some r -> is_fail en = true) /\ (fq = None \/ fq = fail_q en).

Lemma set_queues_pay_facts c en rq fq :
  fee_sufficient (pol c) (recv (set_queues en rq fq)) (e_deliver (set_queues en rq fq)) = fee_sufficient (pol c) (recv en) (e_deliver en) /\
  info_of (set_queues en rq fq) = info_of en.
Proof. unfold set_queues, info_of; cbn. auto. Qed.

Lemma go_pay_spec c li base hgt tnow en na :
  EInv c en -> rdy_q en = true -> li = info_of en ->
  forall fq, (forall r, fq = Some r -> is_fail en = true) ->
  let a := go_pay c li base hgt tnow (Some (set_queues en false fq)) na in
  a_entry a = Some (set_queues en false fq) /\
  a_pc a = PAdd1 base na (match e_inv_amount en with Some _ => None | None => Some (e_deliver en) end)
                 (recv en - e_deliver en)
                 (N.min (clamp16 ((minexp en - hgt) - cltv_delta c)) (pol_delta (pol c))) /\
  a_new a = [QWriteState CreateOrReplace None (DPending na tnow)] /\ a_out a = [] /\
  pay_vals_ok c (set_queues en false fq) (a_pc a).
Proof.
  intros HE Hq -> fq Hfq. unfold go_pay, info_of, set_queues; cbn.
  repeat split; auto. - apply (ei_ready_funded c en HE Hq). - lia. - lia.
Qed.

(* the generic shape: the new entry is related to the old one, and if the new pc is attached it is consistent with the new entry *)
Definition adv_entry_ok (c : cfg) (li : linfo) (e : option entry) (a : adv) : Prop :=
  entry_rel e (a_entry a) /\
  forall e', a_entry a = Some e' -> attached (a_pc a) = true -> pay_vals_ok c e' (a_pc a).

Lemma do_resolve_entry_ok c li e e0 r p qs ex cn na : adv_entry_ok c li e (do_resolve e0 r p qs ex cn na).
Proof. unfold adv_entry_ok, do_resolve, entry_rel. destruct e0; cbn; split; auto; intros; discriminate. Qed.

Lemma select_poll_entry_ok c li base hgt tnow d e sel na :
  (forall en, e = Some en -> EInv c en /\ li = info_of en) ->
  adv_entry_ok c li e (select_poll c li base hgt tnow d e sel na).
Proof.
  intros He. unfold select_poll. destruct e as [en|]; [|unfold adv_entry_ok, stay, entry_rel; cbn; split; auto; intros; discriminate].
  destruct (He en eq_refl) as (HE & Hli).
  assert (R : forall fq, (forall r, fq = Some r -> is_fail en = true) -> (fq = None \/ fq = fail_q en) -> entry_rel (Some en) (Some (set_queues en false fq))).
  { intros fq Hfq Hor. right; right. exists en, false, fq. split; [reflexivity|]. split; [reflexivity|]. split; [discriminate|]. split; [exact Hfq|exact Hor]. }
  destruct (rdy_q en) eqn:Eq, (fail_q en) as [r|] eqn:Ef.
  - destruct sel.
    + assert (Hfq : forall r0, Some r = Some r0 -> is_fail en = true) by (intros ? _; exact (ei_failq c en HE r Ef)).
      destruct (go_pay_spec c li base hgt tnow en na HE Eq Hli (Some r) Hfq) as (A1 & A2 & A3 & A4 & A5).
      split; [rewrite A1; apply R; [exact Hfq|right; reflexivity]|].
      intros e' He' _. rewrite A1 in He'. inversion He'; subst. exact A5.
    + apply do_resolve_entry_ok.
  - assert (Hfq : forall r0, @None response = Some r0 -> is_fail en = true) by (intros; discriminate).
    destruct (go_pay_spec c li base hgt tnow en na HE Eq Hli None Hfq) as (A1 & A2 & A3 & A4 & A5).
    split; [rewrite A1; apply R; [exact Hfq|left; reflexivity]|].
    intros e' He' _. rewrite A1 in He'. inversion He'; subst. exact A5.
  - apply do_resolve_entry_ok.
  - unfold adv_entry_ok, stay, entry_rel; cbn. split; [auto|]. intros e' He' _. inversion He'; subst. auto.
Qed.

Lemma enter_select_entry_ok c li base hgt tnow d e sel na :
  (forall en, e = Some en -> EInv c en /\ li = info_of en) ->
  adv_entry_ok c li e (enter_select c li base hgt tnow d e sel na).
Proof. intros He. unfold enter_select. destruct (d =? 0); [apply do_resolve_entry_ok|apply select_poll_entry_ok; exact He]. Qed.

Lemma keep_entry_ok c li e p qs out cn na :
  (forall e', e = Some e' -> attached p = true -> pay_vals_ok c e' p) ->
  adv_entry_ok c li e {| a_pc := p; a_entry := e; a_new := qs; a_out := out; a_cancel := cn; a_att := na |}.
Proof. intros H. unfold adv_entry_ok, entry_rel; cbn. split; auto. Qed.

Lemma lc_deliver_entry_ok c li base hgt tnow p cid y sel e na a :
  (attached p = true -> forall en, e = Some en -> EInv c en /\ li = info_of en /\ pay_vals_ok c en p) ->
  lc_deliver c li base hgt tnow p cid y sel e na = Some a -> adv_entry_ok c li e a.
Proof.
  intros He0.
  destruct (attached p) eqn:Ap.
  2:{ destruct p; cbn in Ap; try discriminate; unfold lc_deliver;
      (destruct (negb _); [discriminate|]); intros H; inversion H; subst; clear H;
      try destruct y; apply keep_entry_ok; cbn; discriminate. }
  specialize (He0 eq_refl). rename He0 into He.
  assert (He2 : forall en, e = Some en -> EInv c en /\ li = info_of en) by (intros en H; destruct (He en H) as (A & B & _); auto).
  destruct p; cbn in Ap; try discriminate Ap; unfold lc_deliver; try discriminate.
  - destruct (negb _); [discriminate|]. intros H; inversion H; subst; clear H.
    destruct y as [[[[| | |] ?]|]| | | | | | | |]; try (apply enter_select_entry_ok; exact He2); try (apply do_resolve_entry_ok).
    unfold start_wait. apply keep_entry_ok. cbn. auto.
  - destruct (wait_deliver base w cid y) as [[w' new|[p| |] cancel]|]; try discriminate; intros H; inversion H; subst; clear H.
    + apply keep_entry_ok. cbn. auto.
    + destruct k; apply do_resolve_entry_ok.
    + destruct k; [apply keep_entry_ok; cbn; auto|apply do_resolve_entry_ok].
    + destruct k; [apply keep_entry_ok; cbn; auto|apply do_resolve_entry_ok].
  - destruct (negb _); [discriminate|]. intros H; inversion H; subst; clear H.
    destruct y; try apply do_resolve_entry_ok. apply keep_entry_ok. cbn. auto.
  - destruct (negb _); [discriminate|]. intros H; inversion H; subst; clear H.
    destruct y; try apply do_resolve_entry_ok. apply enter_select_entry_ok; exact He2.
  - destruct (negb _); [discriminate|]. intros H; inversion H; subst; clear H.
    destruct y; try apply do_resolve_entry_ok. apply keep_entry_ok. intros e' -> _. destruct (He e' eq_refl) as (_ & _ & V). exact V.
  - destruct (negb _); [discriminate|]. intros H; inversion H; subst; clear H.
    destruct y; try apply do_resolve_entry_ok. apply keep_entry_ok. intros e' -> _. destruct (He e' eq_refl) as (_ & _ & V). cbn in *. tauto.
  - destruct (negb _); [discriminate|]. intros H; inversion H; subst; clear H.
    destruct (pay_reply y); try apply do_resolve_entry_ok. unfold start_wait. apply keep_entry_ok. cbn. auto.
Qed.

Lemma EInv_entry_rel c e e' : entry_rel (Some e) (Some e') -> EInv c e -> EInv c e' /\ info_of e' = info_of e /\ recv e' = recv e /\ e_deliver e' = e_deliver e /\ e_inv_amount e' = e_inv_amount e.
Proof.
  intros [H|[H|(en & rq & fq & H1 & H2 & H3 & H4 & _)]] HE; [discriminate|inversion H; subst; auto 10|].
  inversion H1; inversion H2; subst. split; [apply EInv_set_queues; auto|]. unfold set_queues, info_of; cbn. auto.
Qed.

Lemma pay_vals_ok_rel c e e' p : entry_rel (Some e) (Some e') -> pay_vals_ok c e p -> pay_vals_ok c e' p.
Proof.
  intros [H|[H|(en & rq & fq & H1 & H2 & _)]] V; [discriminate|inversion H; subst; exact V|].
  inversion H1; inversion H2; subst. destruct p; cbn in *; auto.
Qed.

(* installing a lifecycle step preserves InvE *)
Lemma apply_adv_InvE c s i a x :
  InvU s -> InvE c s -> nth_error (lcs (pl s)) i = Some x ->
  adv_ok (attached (l_pc x)) (entry_ (pl s)) a -> adv_entry_ok c (l_info x) (entry_ (pl s)) a ->
  InvE c (fst (apply_adv s i a)).
Proof.
  intros HU HE Hx Hok (Hrel & Hvals).
  destruct (apply_adv_lcs s i a x Hx) as (Hl & Hen & _).
  constructor.
  - intros e' He'. rewrite Hen in He'. rewrite He' in Hrel.
    destruct (entry_ (pl s)) as [e|] eqn:Ee.
    + apply (EInv_entry_rel c e e' Hrel). exact (ie_entry c s HE e Ee).
    + destruct Hrel as [H|[H|(en & ? & ? & H & _)]]; discriminate.
  - intros e' j y He' Hy Ay. rewrite Hen in He'. rewrite Hl in Hy. rewrite He' in Hrel.
    destruct (entry_ (pl s)) as [e|] eqn:Ee; [|destruct Hrel as [H|[H|(en & ? & ? & H & _)]]; discriminate].
    destruct (EInv_entry_rel c e e' Hrel (ie_entry c s HE e Ee)) as (_ & Hinfo & _).
    destruct (nth_upd_cases _ _ _ _ _ Hy) as [[-> ->]|[Hne Hy']].
    + cbn [set_pc l_pc l_info] in *. split; [|apply Hvals; auto].
      (* the advanced lifecycle was attached (a detached one cannot become attached) *)
      unfold adv_ok in Hok. destruct (attached (l_pc x)) eqn:Ax; [|destruct Hok as [Hf _]; congruence].
      rewrite Hinfo. exact (proj1 (ie_lc c s HE e j x Ee Hx Ax)).
    + (* another attached lifecycle: impossible, the advanced one is the attached one or the entry would be unchanged *)
      assert (Ax : attached (l_pc x) = true \/ attached (l_pc x) = false) by (destruct (attached (l_pc x)); auto).
      destruct Ax as [Ax|Ax].
      * exfalso. unfold InvU in HU. rewrite Ee in HU. apply Hne. exact (n_att_one_unique _ HU i j x y Hx Hy' Ax Ay).
      * unfold adv_ok in Hok. rewrite Ax in Hok. destruct Hok as [_ Hsame]. rewrite Hsame in He'. inversion He'; subst e'.
        exact (ie_lc c s HE e j y Ee Hy' Ay).
Qed.

(* ----- preservation of InvE by every event ----- *)
Lemma fire_timers_none_entry : forall l t l' e' o', fire_timers l None t = (l', e', o') -> e' = None.
Proof.
  induction l as [|x r IH]; intros t l' e' o' H; unfold fire_timers in H; fold fire_timers in H; [inversion H; auto|].
  destruct (l_pc x);
    try (destruct (fire_timers r None t) as [[r' e1] o1] eqn:E; inversion H; subst; eapply IH; eauto; fail).
  destruct (deadline <=? t); destruct (fire_timers r None t) as [[r' e1] o1] eqn:E2; inversion H; subst; eapply IH; eauto.
Qed.

Lemma fire_timers_entry : forall l e t l' e' o', fire_timers l e t = (l', e', o') -> e' = None \/ (e' = e /\ l' = l /\ o' = []).
Proof.
  induction l as [|x r IH]; intros e t l' e' o' H; unfold fire_timers in H; fold fire_timers in H; [inversion H; auto|].
  destruct (l_pc x) eqn:Hpc;
    try (destruct (fire_timers r e t) as [[r' e1] o1] eqn:E; inversion H; subst;
         destruct (IH _ _ _ _ _ E) as [A|(A & B & C)]; [left; exact A|right; subst; auto]; fail).
  destruct (deadline <=? t).
  - destruct e as [en|].
    + destruct (fire_timers r None t) as [[r' e1] o1] eqn:E2. inversion H; subst. left. eapply fire_timers_none_entry; eauto.
    + destruct (fire_timers r None t) as [[r' e1] o1] eqn:E2. inversion H; subst. left. eapply fire_timers_none_entry; eauto.
  - destruct (fire_timers r e t) as [[r' e1] o1] eqn:E2; inversion H; subst.
    destruct (IH _ _ _ _ _ E2) as [A|(A & B & C)]; [left; exact A|right; subst; auto].
Qed.

Lemma InvE_none c s : entry_ (pl s) = None -> InvE c s.
Proof. intros H. constructor; intros; congruence. Qed.

Lemma InvE_same_pl c s s' : pl s' = pl s -> InvE c s -> InvE c s'.
Proof. intros H [A B]. constructor; rewrite H; auto. Qed.

Lemma pay_vals_ok_handle c e h p :
  EInv c e -> pay_vals_ok c e p -> pay_vals_ok c (e_handle c e h) p.
Proof.
  intros HE V. destruct (e_handle_ident c e h) as (_ & Hd & Hi & _). destruct (e_handle_mono c e h HE) as (Hr & _).
  destruct p; cbn in *; auto; rewrite ?Hd, ?Hi.
  - destruct V as (V1 & V2 & V3 & V4). repeat split; auto; [exact (fee_sufficient_mono _ _ _ _ Hr V1)|lia].
  - destruct V as (V1 & V2 & V3 & V4). repeat split; auto; [exact (fee_sufficient_mono _ _ _ _ Hr V1)|lia].
  - exact (fee_sufficient_mono _ _ _ _ Hr V).
Qed.

Lemma find_select_none_no_select : forall l i, find_select i l = None -> forall j x, nth_error l j = Some x -> match l_pc x with PSelect _ => False | _ => True end.
Proof.
  induction l as [|z r IH]; intros i H j x Hx; [destruct j; discriminate|].
  cbn [find_select] in H. destruct j as [|j]; cbn in Hx.
  - inversion Hx; subst. destruct (l_pc x); auto. discriminate.
  - destruct (l_pc z); try (exact (IH _ H j x Hx)). discriminate.
Qed.

Theorem step_InvE c s ev : InvU s -> InvE c s -> InvE c (fst (step c s ev)).
Proof.
  intros HU HE. destruct ev; cbn [step]; try (apply (InvE_same_pl c s); [reflexivity|exact HE]).
  - (* EvHtlc *)
    destruct (entry_ (pl s)) as [e|] eqn:He.
    + pose proof (ie_entry c s HE e He) as HEe.
      destruct (e_handle_ident c e h) as (Hb & Hd & Hi & _).
      assert (Hinfo : info_of (e_handle c e h) = info_of e) by (unfold info_of; rewrite Hb, Hd, Hi; reflexivity).
      constructor; cbn.
      * intros e' He'. inversion He'; subst. apply EInv_handle; exact HEe.
      * intros e' j y He' Hy Ay. inversion He'; subst. destruct (ie_lc c s HE e j y He Hy Ay) as (I1 & I2).
        split; [rewrite Hinfo; exact I1|]. apply pay_vals_ok_handle; auto.
    + unfold InvU in HU. rewrite He in HU.
      constructor; cbn.
      * intros e' He'. inversion He'; subst. apply EInv_handle, EInv_new.
      * intros e' j y He' Hy Ay. inversion He'; subst.
        destruct (Nat.lt_ge_cases j (length (lcs (pl s)))) as [Hlt|Hge].
        -- rewrite nth_error_app1 in Hy by exact Hlt. pose proof (n_att_zero_none _ HU j y Hy). congruence.
        -- rewrite nth_error_app2 in Hy by exact Hge. destruct (j - length (lcs (pl s)))%nat as [|k]; cbn in Hy; [|destruct k; discriminate].
           inversion Hy; subst. cbn. split; [|exact I].
           destruct (e_handle_ident c (new_entry h) h) as (Hb & Hd & Hi & _). unfold info_of. rewrite Hb, Hd, Hi. reflexivity.
  - (* EvPoll *)
    destruct (find_select 0 (lcs (pl s))) as [[[i d] li]|] eqn:Hf; [|exact HE].
    destruct (find_select_spec _ _ _ _ _ Hf) as (x & Hx & Hp & Hli & _). rewrite Nat.sub_0_r in Hx. subst li.
    assert (Ax : attached (l_pc x) = true) by (rewrite Hp; reflexivity).
    apply (apply_adv_InvE c s i _ x HU HE Hx).
    + rewrite Ax. apply select_poll_ok.
    + apply select_poll_entry_ok. intros en Hen. split; [exact (ie_entry c s HE en Hen)|exact (proj1 (ie_lc c s HE en i x Hen Hx Ax))].
  - (* EvProcess *)
    destruct (nth_error (calls s) cid) as [cl|]; [|exact HE]. destruct (c_st cl); try exact HE.
    destruct (node_exec (nd s) (c_rpc cl) f) as [n' y]. apply (InvE_same_pl c s); [reflexivity|exact HE].
  - (* EvDeliver *)
    destruct (nth_error (calls s) cid) as [cl|]; [|exact HE]. destruct (c_st cl); try exact HE.
    destruct (find_owner c 0 (lcs (pl s)) cid y sel (entry_ (pl s)) (length (calls s)) (height s) (now s) (next_att (pl s))) as [[i a]|] eqn:Hf;
      [|apply (InvE_same_pl c s); [reflexivity|exact HE]].
    destruct (find_owner_spec _ _ _ _ _ _ _ _ _ _ _ _ _ Hf) as (x & Hx & _ & Hd). rewrite Nat.sub_0_r in Hx.
    apply (apply_adv_InvE c (with_calls s (set_status cid Delivered (calls s))) i a x); auto.
    + apply (InvE_same_pl c s); [reflexivity|exact HE].
    + cbn. eapply lc_deliver_ok; eauto.
    + cbn. eapply lc_deliver_entry_ok; [|exact Hd].
      intros Ax en Hen. destruct (ie_lc c s HE en i x Hen Hx Ax) as (I1 & I2). split; [exact (ie_entry c s HE en Hen)|auto].
  - (* EvPart *) destruct (nth_error (parts (nd s)) pid) as [[]|], st; try exact HE; apply (InvE_same_pl c s); auto.
  - (* EvPayNewPart *)
    destruct (nth_error (calls s) cid) as [[q st]|]; [|exact HE]. destruct q; try exact HE. destruct st; try exact HE. apply (InvE_same_pl c s); auto.
  - (* EvPayFinish *)
    destruct (nth_error (calls s) cid) as [[q st]|]; [|exact HE]. destruct q; try exact HE. destruct st; try exact HE. apply (InvE_same_pl c s); auto.
  - (* EvTick *)
    destruct (fire_timers (lcs (pl s)) (entry_ (pl s)) (now s + dt)) as [[l' e'] o'] eqn:Hf.
    destruct (fire_timers_entry _ _ _ _ _ _ Hf) as [->|(-> & -> & ->)].
    + apply InvE_none. reflexivity.
    + destruct HE as [A B]. constructor; cbn; auto.
  - (* EvCrash *) apply InvE_none. reflexivity.
Qed.
