(* ProviderProofs.v — C15 / C16: an inductive invariant of Model/ProviderSys.v. *)
From Tramp Require Import Model.Base Model.Node Model.Provider Model.ProviderSys.
From Coq Require Import ZifyBool ZifyNat ZifyN.

(* ---------- list plumbing ---------- *)
Lemma upd_length {A} n (x : A) l : length (upd n x l) = length l.
Proof. revert n; induction l as [|y l IH]; intros [|n]; cbn; auto. Qed.

Lemma nth_error_upd_same {A} n (x : A) l : (n < length l)%nat -> nth_error (upd n x l) n = Some x.
Proof. revert n; induction l as [|y l IH]; intros [|n]; cbn; intros H; try lia; auto. apply IH; lia. Qed.

Lemma nth_error_upd_other {A} n m (x : A) l : n <> m -> nth_error (upd n x l) m = nth_error l m.
Proof. revert n m; induction l as [|y l IH]; intros [|n] [|m]; cbn; intros H; try congruence; auto. Qed.

Lemma nth_set_status_same cid st cs cl :
  nth_error cs cid = Some cl -> nth_error (set_status cid st cs) cid = Some {| c_rpc := c_rpc cl; c_st := st |}.
Proof. intros H. unfold set_status. rewrite H. apply nth_error_upd_same. apply nth_error_Some. congruence. Qed.

Lemma nth_set_status_other cid k st cs : cid <> k -> nth_error (set_status cid st cs) k = nth_error cs k.
Proof. intros H. unfold set_status. destruct (nth_error cs cid); [apply nth_error_upd_other; exact H|reflexivity]. Qed.

Lemma set_status_length cid st cs : length (set_status cid st cs) = length cs.
Proof. unfold set_status. destruct (nth_error cs cid); [apply upd_length|reflexivity]. Qed.

Lemma nth_set_status cid k st cs cl :
  nth_error (set_status cid st cs) k = Some cl ->
  exists cl0, nth_error cs k = Some cl0 /\ c_rpc cl = c_rpc cl0 /\ (k <> cid -> cl = cl0) /\ (k = cid -> c_st cl = st).
Proof.
  destruct (Nat.eq_dec cid k) as [->|Hne].
  - destruct (nth_error cs k) as [cl0|] eqn:E.
    + rewrite (nth_set_status_same _ _ _ _ E). intros H; inversion H; subst. exists cl0. cbn. intuition congruence.
    + unfold set_status. rewrite E, E. discriminate.
  - rewrite nth_set_status_other by exact Hne. intros H. exists cl. intuition congruence.
Qed.

(* cancelling only changes statuses *)
Lemma cancel_calls_spec ids cs k cl :
  nth_error (cancel_calls ids cs) k = Some cl ->
  exists cl0, nth_error cs k = Some cl0 /\ c_rpc cl = c_rpc cl0 /\ (~ In k ids -> cl = cl0) /\ (c_st cl = c_st cl0 \/ c_st cl = Cancelled).
Proof.
  unfold cancel_calls. revert cs. induction ids as [|i ids IH]; intros cs; cbn [fold_left].
  - intros H. exists cl. auto.
  - intros H. destruct (IH _ H) as (cl1 & H1 & Hr & Hsame & Hst).
    destruct (nth_set_status _ _ _ _ _ H1) as (cl0 & H0 & Hr0 & Hne & Heq).
    exists cl0. split; [exact H0|]. split; [congruence|]. split.
    + intros Hnin. rewrite Hsame by (intros Hn; apply Hnin; right; exact Hn). apply Hne. intros ->. apply Hnin. left; reflexivity.
    + destruct (Nat.eq_dec k i) as [->|Hki].
      * right. destruct Hst as [Hst|Hst]; [rewrite Hst; auto|exact Hst].
      * rewrite <- (Hne Hki). exact Hst.
Qed.

Lemma cancel_calls_length ids cs : length (cancel_calls ids cs) = length cs.
Proof. unfold cancel_calls. revert cs; induction ids as [|i ids IH]; intros cs; cbn; [reflexivity|]. rewrite IH. apply set_status_length. Qed.

Lemma nth_mk_calls qs k cl : nth_error (mk_calls qs) k = Some cl -> exists q, nth_error qs k = Some q /\ cl = {| c_rpc := q; c_st := Unprocessed |}.
Proof. unfold mk_calls. rewrite nth_error_map. destruct (nth_error qs k); cbn; intros H; inversion H; eauto. Qed.

(* ---------- the node's read RPCs ---------- *)
Lemma node_exec_parts n q f : parts (fst (node_exec n q f)) = parts n.
Proof.
  unfold node_exec. destruct f; cbn; auto;
  destruct q; cbn; auto;
  repeat match goal with |- context [match ?x with _ => _ end] => destruct x; cbn; auto end.
Qed.

Lemma pend_ids_spec ps : forall b i, In i (pend_ids b ps) <-> exists j, i = (b + j)%nat /\ nth_error ps j = Some PPend.
Proof.
  induction ps as [|p ps IH]; intros b i; cbn [pend_ids].
  - split; [intros []|intros (j & _ & H); destruct j; discriminate].
  - assert (R : In i (pend_ids (S b) ps) <-> exists j, i = (b + S j)%nat /\ nth_error ps j = Some PPend).
    { rewrite IH. split; intros (j & H1 & H2); exists j; split; auto; lia. }
    destruct p; cbn [In]; rewrite ?R; split.
    + intros [<-|(j & H1 & H2)]; [exists 0%nat; split; [lia|reflexivity]|exists (S j); auto].
    + intros ([|j] & H1 & H2); [left; lia|right; exists j; auto].
    + intros (j & H1 & H2); exists (S j); auto.
    + intros ([|j] & H1 & H2); [discriminate|exists j; auto].
    + intros (j & H1 & H2); exists (S j); auto.
    + intros ([|j] & H1 & H2); [discriminate|exists j; auto].
Qed.

Lemma done_pres_spec ps p : In p (done_pres ps) <-> In (PDone p) ps.
Proof.
  induction ps as [|x ps IH]; cbn [done_pres]; [tauto|].
  destruct x; cbn [In]; rewrite ?IH; split; intros H; try tauto.
  - destruct H as [H|H]; [discriminate|tauto].
  - destruct H as [<-|H]; auto.
  - destruct H as [H|H]; [inversion H; auto|auto].
  - destruct H as [H|H]; [discriminate|tauto].
Qed.

Lemma number_from_spec l : forall b pid cid, In (pid, cid) (number_from b l) -> exists j, nth_error l j = Some pid /\ cid = (b + j)%nat.
Proof.
  induction l as [|x l IH]; intros b pid cid; cbn; [intros []|].
  intros [H|H]; [inversion H; subst; exists 0%nat; split; [reflexivity|lia]|].
  destruct (IH _ _ _ H) as (j & H1 & H2). exists (S j). split; [exact H1|lia].
Qed.
Lemma number_from_fst l b : map fst (number_from b l) = l.
Proof. revert b; induction l as [|x l IH]; intros b; cbn; [reflexivity|]. f_equal. apply IH. Qed.

(* ---------- the invariant ---------- *)
Definition all_failed (ps : list pstat) : Prop := forall i st, nth_error ps i = Some st -> st = PFailed.
Definition has_done (p : list N) (ps : list pstat) : Prop := In (PDone p) ps.
Definition pend_in (ps : list pstat) (l : list nat) : Prop := forall i, nth_error ps i = Some PPend -> In i l.
Definition failed_outside (ps : list pstat) (l : list nat) : Prop := forall i st, nth_error ps i = Some st -> ~ In i l -> st = PFailed.

(* no pay command can create parts any more *)
Definition no_new (s : psys) : Prop :=
  payrun (ps_nd s) = 0 /\
  forall cid cl, nth_error (ps_calls s) cid = Some cl ->
    match c_rpc cl with QPay _ _ _ _ _ => c_st cl <> Unprocessed /\ c_st cl <> Running /\ (forall y, c_st cl <> Replied y) | _ => True end.

Definition wait_inv (s : psys) (w : waitst) : Prop :=
  let ps := parts (ps_nd s) in
  match w with
  | WListP cid =>
      exists st, nth_error (ps_calls s) cid = Some {| c_rpc := QListPend; c_st := st |} /\
        match st with
        | Unprocessed => True
        | Replied (YPids l) => pend_in ps l
        | Replied _ => True
        | _ => False
        end
  | WListD cid l =>
      pend_in ps l /\
      exists st, nth_error (ps_calls s) cid = Some {| c_rpc := QListDone; c_st := st |} /\
        match st with
        | Unprocessed => True
        | Replied (YPres []) => failed_outside ps l
        | Replied (YPres (p :: _)) => has_done p ps
        | Replied _ => True
        | _ => False
        end
  | WParts aw =>
      failed_outside ps (map fst aw) /\
      forall pid cid, In (pid, cid) aw ->
        exists st, nth_error (ps_calls s) cid = Some {| c_rpc := QWaitPart pid; c_st := st |} /\
          match st with
          | Unprocessed => True
          | Replied (YPre p) => nth_error ps pid = Some (PDone p)
          | Replied YPartFailed => forall x, nth_error ps pid = Some x -> x = PFailed
          | Replied _ => True
          | _ => False
          end
  end.

Definition PInv (s : psys) : Prop :=
  match ps_st s with
  | SWait w | SPayWait w => no_new s /\ wait_inv s w
  | SPay cid =>
      cid = 0%nat /\ exists q st, ps_calls s = [{| c_rpc := q; c_st := st |}] /\
        (exists b a f d r, q = QPay b a f d r) /\
        match st with
        | Unprocessed => payrun (ps_nd s) = 0
        | Running => payrun (ps_nd s) = 1
        | Replied (YPay (PayComplete p)) => payrun (ps_nd s) = 0 /\ has_done p (parts (ps_nd s))
        | Replied (YPay PayFailed) => payrun (ps_nd s) = 0 /\ all_failed (parts (ps_nd s))
        | Replied _ => payrun (ps_nd s) = 0
        | _ => False
        end
  | SFin (POk p) => has_done p (parts (ps_nd s))
  | SFin PNone => no_new s /\ all_failed (parts (ps_nd s))
  | SFin PErr => True
  end.

(* ---------- initial states ---------- *)
Lemma PInv_wait_init parts0 : PInv (wait_init parts0).
Proof.
  unfold PInv, wait_init, wait_start; cbn. split.
  - split; [reflexivity|]. intros [|[|cid]] cl H; cbn in H; inversion H; subst; cbn; exact I.
  - exists Unprocessed. split; [reflexivity|exact I].
Qed.

Lemma PInv_pay_init parts0 b a f d r : PInv (pay_init parts0 (QPay b a f d r)).
Proof.
  unfold PInv, pay_init; cbn. split; [reflexivity|]. exists (QPay b a f d r), Unprocessed.
  split; [reflexivity|]. split; [eauto 10|reflexivity].
Qed.

(* ---------- stability of the part predicates ---------- *)
Lemma has_done_upd p ps pid st : nth_error ps pid = Some PPend -> has_done p ps -> has_done p (upd pid st ps).
Proof.
  unfold has_done. intros Hp Hd. apply In_nth_error in Hd as (k & Hk).
  destruct (Nat.eq_dec pid k) as [->|Hne]; [congruence|].
  apply nth_error_In with (n := k). rewrite nth_error_upd_other by exact Hne. exact Hk.
Qed.
Lemma has_done_app p ps x : has_done p ps -> has_done p (ps ++ x).
Proof. unfold has_done. intros H. apply in_or_app. auto. Qed.

Lemma all_failed_no_pend ps pid : all_failed ps -> nth_error ps pid <> Some PPend.
Proof. intros H E. specialize (H _ _ E). discriminate. Qed.

Lemma nth_upd_cases {A} n m (x : A) l y : nth_error (upd n x l) m = Some y -> (n = m /\ y = x) \/ (n <> m /\ nth_error l m = Some y).
Proof.
  destruct (Nat.eq_dec n m) as [->|Hne].
  - intros H. left. split; [reflexivity|].
    assert (m < length l)%nat by (rewrite <- (upd_length m x l); apply nth_error_Some; congruence).
    rewrite nth_error_upd_same in H by assumption. congruence.
  - rewrite nth_error_upd_other by exact Hne. auto.
Qed.

Lemma pend_in_upd ps l pid st : st <> PPend -> pend_in ps l -> pend_in (upd pid st ps) l.
Proof.
  intros Hst H i Hi. destruct (nth_upd_cases _ _ _ _ _ Hi) as [[-> E]|[Hne E]]; [congruence|auto].
Qed.
Lemma failed_outside_upd ps l pid st : nth_error ps pid = Some PPend -> failed_outside ps l -> failed_outside (upd pid st ps) l.
Proof.
  intros Hp H i x Hi Hnin. destruct (nth_upd_cases _ _ _ _ _ Hi) as [[-> E]|[Hne E]]; [|eauto].
  specialize (H _ _ Hp Hnin). discriminate.
Qed.

(* ---------- helper facts ---------- *)
Lemma list_eq_N_eq a b : list_eq_N a b = true -> a = b.
Proof.
  revert b; induction a as [|x a IH]; intros [|y b]; cbn; try discriminate; [reflexivity|].
  intros H. apply andb_prop in H as [H1 H2]. apply N.eqb_eq in H1. f_equal; auto.
Qed.

Lemma node_exec_payrun n q f :
  match q with QPay _ _ _ _ _ => True | _ => payrun (fst (node_exec n q f)) = payrun n end.
Proof.
  unfold node_exec. destruct q; destruct f; cbn; auto;
  repeat match goal with |- context [match ?x with _ => _ end] => destruct x; cbn; auto end.
Qed.

Lemma node_exec_read_nofault n q : is_read q = true ->
  node_exec n q NoFault =
  (n, match q with
      | QListState => Some (YState (ds n))
      | QListPend => Some (YPids (pend_ids 0 (parts n)))
      | QListDone => Some (YPres (done_pres (parts n)))
      | QWaitPart pid => match nth_error (parts n) pid with
                         | Some (PDone p) => Some (YPre p)
                         | Some PFailed | None => Some YPartFailed
                         | Some PPend => None end
      | _ => None end).
Proof.
  destruct q; cbn; try discriminate; intros _; try reflexivity.
  destruct (nth_error (parts n) pid) as [[| |]|]; reflexivity.
Qed.

Lemma node_exec_read_fault n q f : is_read q = true -> f <> NoFault -> node_exec n q f = (n, Some YErr).
Proof.
  destruct q; cbn; try discriminate; intros _ Hf; destruct f; try congruence; cbn; try reflexivity.
  destruct (nth_error (parts n) pid) as [[| |]|]; reflexivity.
Qed.

Lemma busyb_false_all_failed ps : busyb ps = false -> all_failed ps.
Proof.
  unfold busyb, all_failed. intros H i st Hi.
  destruct st; try reflexivity; exfalso;
  (assert (E : existsb (fun p => match p with PFailed => false | _ => true end) ps = true);
   [apply existsb_exists; eexists; split; [eapply nth_error_In; exact Hi|reflexivity]|congruence]).
Qed.

Lemma no_new_calls_ext (s s' : psys) :
  payrun (ps_nd s') = payrun (ps_nd s) ->
  (forall cid cl', nth_error (ps_calls s') cid = Some cl' ->
     match c_rpc cl' with QPay _ _ _ _ _ =>
       exists cl, nth_error (ps_calls s) cid = Some cl /\ c_rpc cl = c_rpc cl' /\ (c_st cl' = c_st cl \/ c_st cl' = Cancelled \/ c_st cl' = Delivered)
     | _ => True end) ->
  no_new s -> no_new s'.
Proof.
  intros Hp Hc (H0 & Hq). split; [congruence|].
  intros cid cl' Hn. specialize (Hc cid cl' Hn).
  destruct (c_rpc cl') eqn:Er; try exact I.
  destruct Hc as (cl & Hcl & Hr & Hst). specialize (Hq cid cl Hcl). rewrite Hr in Hq.
  destruct Hq as (Q1 & Q2 & Q3).
  destruct Hst as [E|[E|E]]; rewrite E; repeat split; try congruence; try discriminate.
Qed.

(* ---------- preservation: a part resolves ---------- *)
Lemma wait_inv_part s w pid st :
  nth_error (parts (ps_nd s)) pid = Some PPend -> st <> PPend ->
  wait_inv s w ->
  wait_inv {| ps_nd := set_parts (ps_nd s) (upd pid st (parts (ps_nd s))); ps_calls := ps_calls s; ps_st := ps_st s |} w.
Proof.
  intros Hp Hst. destruct w as [cid|cid l|aw]; cbn [wait_inv ps_nd ps_calls set_parts parts].
  - intros (c & Hc & Hm). exists c. split; [exact Hc|].
    destruct c as [| |y| | |]; auto. destruct y; auto. apply pend_in_upd; assumption.
  - intros (Hpi & c & Hc & Hm). split; [apply pend_in_upd; assumption|]. exists c. split; [exact Hc|].
    destruct c as [| |y| | |]; auto. destruct y as [| | | |[|p l']| | | |]; auto.
    + apply failed_outside_upd; assumption.
    + apply has_done_upd; assumption.
  - intros (Hfo & He). split; [apply failed_outside_upd; assumption|].
    intros pid' cid' Hin. destruct (He pid' cid' Hin) as (c & Hc & Hm). exists c. split; [exact Hc|].
    destruct c as [| |y| | |]; auto. destruct y; auto.
    + destruct (Nat.eq_dec pid pid') as [->|Hne]; [congruence|]. rewrite nth_error_upd_other by exact Hne. exact Hm.
    + intros x Hx. destruct (nth_upd_cases _ _ _ _ _ Hx) as [[-> E]|[Hne E]]; [|eauto].
      specialize (Hm _ Hp). discriminate.
Qed.

Lemma PInv_part s pid st : PInv s -> PInv (pstep s (PvPart pid st)).
Proof.
  intros H. cbn [pstep].
  destruct (nth_error (parts (ps_nd s)) pid) as [[| |]|] eqn:Hp; try exact H.
  assert (G : st <> PPend ->
    PInv {| ps_nd := set_parts (ps_nd s) (upd pid st (parts (ps_nd s))); ps_calls := ps_calls s; ps_st := ps_st s |}).
  { intros Hst. unfold PInv in *. cbn [ps_st ps_nd ps_calls set_parts parts payrun].
    destruct (ps_st s) as [w|cid|w|[p| |]].
    - destruct H as (Hn & Hw). split; [exact Hn|]. apply wait_inv_part; assumption.
    - destruct H as (Hc & q & c & Hcs & Hq & Hm). split; [exact Hc|]. exists q, c. split; [exact Hcs|]. split; [exact Hq|].
      destruct c as [| |y| | |]; auto. destruct y; auto. destruct o; auto.
      + destruct Hm as (Hm1 & Hm2). split; [exact Hm1|]. apply has_done_upd; assumption.
      + destruct Hm as (Hm1 & Hm2). exfalso. exact (all_failed_no_pend _ _ Hm2 Hp).
    - destruct H as (Hn & Hw). split; [exact Hn|]. apply wait_inv_part; assumption.
    - apply has_done_upd; assumption.
    - destruct H as (_ & Haf). exfalso. exact (all_failed_no_pend _ _ Haf Hp).
    - exact I. }
  destruct st; [exact H|apply G; discriminate|apply G; discriminate].
Qed.

(* ---------- preservation: the pay command creates a part / finishes ---------- *)
Lemma no_new_not_running s cid cl :
  no_new s -> nth_error (ps_calls s) cid = Some cl ->
  match c_rpc cl with QPay _ _ _ _ _ => c_st cl <> Running /\ c_st cl <> Unprocessed /\ (forall y, c_st cl <> Replied y) | _ => True end.
Proof. intros (_ & H) Hc. specialize (H _ _ Hc). destruct (c_rpc cl); tauto. Qed.

Lemma PInv_newpart s cid : PInv s -> PInv (pstep s (PvNewPart cid)).
Proof.
  intros H. cbn [pstep].
  destruct (nth_error (ps_calls s) cid) as [[q st]|] eqn:Hc; [|exact H].
  destruct q; try exact H. destruct st; try exact H.
  unfold PInv in *. cbn [ps_st ps_nd ps_calls set_parts parts payrun].
  destruct (ps_st s) as [w|k|w|[p| |]].
  - destruct H as (Hn & _). pose proof (no_new_not_running _ _ _ Hn Hc) as X. cbn in X. tauto.
  - destruct H as (Hk & q & c & Hcs & Hq & Hm). split; [exact Hk|]. exists q, c. split; [exact Hcs|]. split; [exact Hq|].
    rewrite Hcs in Hc. destruct cid as [|[|cid]]; cbn in Hc; inversion Hc; subst. exact Hm.
  - destruct H as (Hn & _). pose proof (no_new_not_running _ _ _ Hn Hc) as X. cbn in X. tauto.
  - apply has_done_app; exact H.
  - destruct H as (Hn & _). pose proof (no_new_not_running _ _ _ Hn Hc) as X. cbn in X. tauto.
  - exact I.
Qed.

Lemma PInv_payfinish s cid o : PInv s -> pwf s (PvPayFinish cid o) = true -> PInv (pstep s (PvPayFinish cid o)).
Proof.
  intros H Hwf. cbn [pstep].
  destruct (nth_error (ps_calls s) cid) as [[q st]|] eqn:Hc; [|exact H].
  destruct q; try exact H. destruct st; try exact H.
  unfold PInv in *. cbn [ps_st ps_nd ps_calls set_payrun parts payrun].
  destruct (ps_st s) as [w|k|w|[p| |]].
  - destruct H as (Hn & _). pose proof (no_new_not_running _ _ _ Hn Hc) as X. cbn in X. tauto.
  - destruct H as (Hk & q & c & Hcs & Hq & Hm). split; [exact Hk|].
    rewrite Hcs in Hc. destruct cid as [|[|cid]]; cbn in Hc; inversion Hc; subst.
    exists (QPay bolt11 amount maxfee maxdelay retry), (Replied (YPay o)). split.
    + rewrite Hcs. reflexivity.
    + split; [exact Hq|]. cbn in Hm. rewrite Hm.
      destruct o as [p| | | |]; cbn; try reflexivity.
      * split; [reflexivity|]. cbn in Hwf. apply existsb_exists in Hwf as (x & Hx1 & Hx2).
        destruct x; try discriminate. apply list_eq_N_eq in Hx2. subst. exact Hx1.
      * split; [reflexivity|]. cbn in Hwf. apply busyb_false_all_failed. destruct (busyb _); [discriminate|reflexivity].
  - destruct H as (Hn & _). pose proof (no_new_not_running _ _ _ Hn Hc) as X. cbn in X. tauto.
  - exact H.
  - destruct H as (Hn & _). pose proof (no_new_not_running _ _ _ Hn Hc) as X. cbn in X. tauto.
  - exact I.
Qed.

(* ---------- preservation: the node processes an RPC ---------- *)
Lemma wait_inv_process_nofault s w cid q n' y st' :
  nth_error (ps_calls s) cid = Some {| c_rpc := q; c_st := Unprocessed |} ->
  node_exec (ps_nd s) q NoFault = (n', y) ->
  st' = match y with Some r => Replied r | None => match q with QPay _ _ _ _ _ => Running | _ => Unprocessed end end ->
  wait_inv s w ->
  wait_inv {| ps_nd := n'; ps_calls := set_status cid st' (ps_calls s); ps_st := ps_st s |} w.
Proof.
  intros Hc Hex Hst' Hw. subst st'.
  assert (Hparts : parts n' = parts (ps_nd s)) by (pose proof (node_exec_parts (ps_nd s) q NoFault) as X; rewrite Hex in X; exact X).
  destruct w as [k|k l|aw]; cbn [wait_inv ps_nd ps_calls] in *; rewrite Hparts.
  - destruct Hw as (c & Hk & Hm).
    destruct (Nat.eq_dec cid k) as [->|Hne].
    + rewrite Hk in Hc. inversion Hc; subst q c. cbn in Hex. inversion Hex; subst n' y.
      eexists. split; [apply (nth_set_status_same _ _ _ _ Hk)|]. cbn.
      intros i Hi. apply pend_ids_spec. exists i. auto.
    + exists c. split; [rewrite nth_set_status_other by exact Hne; exact Hk|exact Hm].
  - destruct Hw as (Hpi & c & Hk & Hm). split; [exact Hpi|].
    destruct (Nat.eq_dec cid k) as [->|Hne].
    + rewrite Hk in Hc. inversion Hc; subst q c. cbn in Hex. inversion Hex; subst n' y.
      eexists. split; [apply (nth_set_status_same _ _ _ _ Hk)|]. cbn.
      destruct (done_pres (parts (ps_nd s))) as [|p dl] eqn:Ed.
      * intros i x Hi Hnin. destruct x; [exfalso; apply Hnin; apply Hpi; exact Hi| |reflexivity].
        exfalso. assert (In p (done_pres (parts (ps_nd s)))) by (apply done_pres_spec; eapply nth_error_In; exact Hi).
        rewrite Ed in H. exact H.
      * apply done_pres_spec. rewrite Ed. left; reflexivity.
    + exists c. split; [rewrite nth_set_status_other by exact Hne; exact Hk|exact Hm].
  - destruct Hw as (Hfo & He). split; [exact Hfo|].
    intros pid cid' Hin. destruct (He pid cid' Hin) as (c & Hk & Hm).
    destruct (Nat.eq_dec cid cid') as [->|Hne].
    + rewrite Hk in Hc. inversion Hc; subst q c.
      rewrite node_exec_read_nofault in Hex by reflexivity. inversion Hex; subst n' y.
      eexists. split; [apply (nth_set_status_same _ _ _ _ Hk)|]. cbn.
      destruct (nth_error (parts (ps_nd s)) pid) as [[|p|]|] eqn:Ep; cbn; auto.
      * intros x Hx. congruence.
      * intros x Hx. discriminate.
    + exists c. split; [rewrite nth_set_status_other by exact Hne; exact Hk|exact Hm].
Qed.

(* an injected error on any call: the awaited call (if it is the one) now holds YErr, which claims nothing *)
Lemma wait_inv_process_err s w cid q n' :
  nth_error (ps_calls s) cid = Some {| c_rpc := q; c_st := Unprocessed |} ->
  parts n' = parts (ps_nd s) ->
  wait_inv s w ->
  wait_inv {| ps_nd := n'; ps_calls := set_status cid (Replied YErr) (ps_calls s); ps_st := ps_st s |} w.
Proof.
  intros Hc Hparts Hw.
  destruct w as [k|k l|aw]; cbn [wait_inv ps_nd ps_calls] in *; rewrite Hparts.
  - destruct Hw as (c & Hk & Hm). destruct (Nat.eq_dec cid k) as [->|Hne].
    + eexists. split; [apply (nth_set_status_same _ _ _ _ Hk)|exact I].
    + exists c. split; [rewrite nth_set_status_other by exact Hne; exact Hk|exact Hm].
  - destruct Hw as (Hpi & c & Hk & Hm). split; [exact Hpi|]. destruct (Nat.eq_dec cid k) as [->|Hne].
    + eexists. split; [apply (nth_set_status_same _ _ _ _ Hk)|exact I].
    + exists c. split; [rewrite nth_set_status_other by exact Hne; exact Hk|exact Hm].
  - destruct Hw as (Hfo & He). split; [exact Hfo|].
    intros pid cid' Hin. destruct (He pid cid' Hin) as (c & Hk & Hm). destruct (Nat.eq_dec cid cid') as [->|Hne].
    + eexists. split; [apply (nth_set_status_same _ _ _ _ Hk)|exact I].
    + exists c. split; [rewrite nth_set_status_other by exact Hne; exact Hk|exact Hm].
Qed.

Lemma wait_inv_process s w cid q f n' y st' :
  nth_error (ps_calls s) cid = Some {| c_rpc := q; c_st := Unprocessed |} ->
  node_exec (ps_nd s) q f = (n', y) ->
  match q with QPay _ _ _ _ _ => False | _ => True end ->
  st' = match y with Some r => Replied r | None => match q with QPay _ _ _ _ _ => Running | _ => Unprocessed end end ->
  wait_inv s w ->
  wait_inv {| ps_nd := n'; ps_calls := set_status cid st' (ps_calls s); ps_st := ps_st s |} w.
Proof.
  intros Hc Hex Hq Hst' Hw.
  destruct f.
  - eapply wait_inv_process_nofault; eauto.
  - cbn in Hex. inversion Hex; subst n' y. subst st'. apply wait_inv_process_err with (q := q); auto.
  - assert (Hparts : parts n' = parts (ps_nd s)) by (pose proof (node_exec_parts (ps_nd s) q AppliedButError) as X; rewrite Hex in X; exact X).
    assert (Hy : y = Some YErr).
    { unfold node_exec in Hex. destruct q; cbn in Hex; try contradiction;
      repeat match type of Hex with context [match ?x with _ => _ end] => destruct x; cbn in Hex end; inversion Hex; reflexivity. }
    subst y st'. apply wait_inv_process_err with (q := q); auto.
Qed.

Lemma PInv_process s cid f :
  PInv s -> pwf s (PvProcess cid f) = true -> PInv (pstep s (PvProcess cid f)).
Proof.
  intros H Hwf. cbn [pstep].
  destruct (nth_error (ps_calls s) cid) as [[q st]|] eqn:Hc; [|exact H].
  destruct st; try exact H.
  destruct (node_exec (ps_nd s) q f) as [n' y] eqn:Hex.
  assert (Hparts : parts n' = parts (ps_nd s)) by (pose proof (node_exec_parts (ps_nd s) q f) as X; rewrite Hex in X; exact X).
  set (st' := match y with Some r => Replied r | None => match q with QPay _ _ _ _ _ => Running | _ => Unprocessed end end).
  assert (Hnn : no_new s -> no_new {| ps_nd := n'; ps_calls := set_status cid st' (ps_calls s); ps_st := ps_st s |}).
  { intros Hn. pose proof (no_new_not_running _ _ _ Hn Hc) as X. cbn [c_rpc c_st] in X.
    assert (Hq : match q with QPay _ _ _ _ _ => False | _ => True end) by (destruct q; tauto).
    destruct Hn as (Hp & Hcalls). split.
    - cbn [ps_nd]. pose proof (node_exec_payrun (ps_nd s) q f) as Y. rewrite Hex in Y. destruct q; cbn in Y; try congruence; contradiction.
    - cbn [ps_calls]. intros k cl Hk. destruct (nth_set_status _ _ _ _ _ Hk) as (cl0 & H0 & Hr & Hne & Heq).
      destruct (Nat.eq_dec k cid) as [->|Hkc].
      + rewrite Hc in H0. inversion H0; subst cl0. cbn in Hr. rewrite Hr. destruct q; tauto.
      + rewrite (Hne Hkc). apply (Hcalls k). exact H0. }
  unfold PInv in *. cbn [ps_st ps_nd ps_calls].
  destruct (ps_st s) as [w|k|w|[p| |]].
  - destruct H as (Hn & Hw). split; [apply Hnn; exact Hn|].
    pose proof (no_new_not_running _ _ _ Hn Hc) as X. cbn [c_rpc c_st] in X.
    eapply wait_inv_process; eauto. destruct q; tauto.
  - destruct H as (Hk & q0 & c & Hcs & (b & a & ff & d & r & Hq) & Hm). split; [exact Hk|].
    rewrite Hcs in Hc. destruct cid as [|[|cid]]; cbn in Hc; inversion Hc; subst q0 c. subst q.
    exists (QPay b a ff d r), st'. split; [rewrite Hcs; reflexivity|]. split; [eauto 10|].
    destruct f; cbn in Hex; inversion Hex; subst n' y; subst st'; cbn.
    + cbn in Hm. rewrite Hm. reflexivity.
    + exact Hm.
    + cbn in Hwf. rewrite Hcs in Hwf. cbn in Hwf. discriminate.
  - destruct H as (Hn & Hw). split; [apply Hnn; exact Hn|].
    pose proof (no_new_not_running _ _ _ Hn Hc) as X. cbn [c_rpc c_st] in X.
    eapply wait_inv_process; eauto. destruct q; tauto.
  - unfold has_done. rewrite Hparts. exact H.
  - destruct H as (Hn & Haf). split; [apply Hnn; exact Hn|]. rewrite Hparts. exact Haf.
  - exact I.
Qed.

(* ---------- preservation: a reply reaches the provider ---------- *)
Lemma nth_app_l {A} (l l' : list A) k x : nth_error l k = Some x -> nth_error (l ++ l') k = Some x.
Proof. intros H. rewrite nth_error_app1; [exact H|]. apply nth_error_Some. congruence. Qed.

Lemma no_new_deliver s cid extra :
  no_new s -> (forall q, In q extra -> match q with QPay _ _ _ _ _ => False | _ => True end) ->
  forall n st, no_new {| ps_nd := n; ps_calls := set_status cid Delivered (ps_calls s) ++ mk_calls extra; ps_st := st |} \/ payrun n <> payrun (ps_nd s).
Proof.
  intros (Hp & Hc) Hex n st. destruct (N.eq_dec (payrun n) (payrun (ps_nd s))) as [E|E]; [left|right; exact E].
  split; [cbn; congruence|]. cbn [ps_calls]. intros k cl Hk.
  destruct (nth_error (set_status cid Delivered (ps_calls s)) k) as [cl1|] eqn:E1.
  - rewrite (nth_app_l _ _ _ _ E1) in Hk. inversion Hk; subst cl1.
    destruct (nth_set_status _ _ _ _ _ E1) as (cl0 & H0 & Hr & Hne & Heq). specialize (Hc _ _ H0). rewrite Hr.
    destruct (c_rpc cl0); auto. destruct (Nat.eq_dec k cid) as [->|Hkc].
    + rewrite (Heq eq_refl). repeat split; discriminate.
    + rewrite (Hne Hkc). exact Hc.
  - rewrite nth_error_app2 in Hk by (apply nth_error_None; exact E1).
    destruct (nth_mk_calls _ _ _ Hk) as (q & Hq & ->). cbn. specialize (Hex q (nth_error_In _ _ Hq)). destruct q; tauto.
Qed.

Lemma no_new_cancel s cid ids st :
  no_new s -> no_new {| ps_nd := ps_nd s; ps_calls := cancel_calls ids (set_status cid Delivered (ps_calls s)); ps_st := st |}.
Proof.
  intros Hn. eapply no_new_calls_ext; [| |exact Hn]; [reflexivity|].
  cbn [ps_calls]. intros k cl' Hk.
  destruct (cancel_calls_spec _ _ _ _ Hk) as (cl1 & H1 & Hr1 & _ & Hst1).
  destruct (nth_set_status _ _ _ _ _ H1) as (cl0 & H0 & Hr0 & Hne & Heq).
  destruct (c_rpc cl') eqn:E; try exact I.
  exists cl0. split; [exact H0|]. split; [congruence|].
  destruct Hst1 as [Hs|Hs]; [|auto].
  destruct (Nat.eq_dec k cid) as [->|Hkc]; [right; right; rewrite Hs; apply Heq; reflexivity|].
  left. rewrite Hs. rewrite (Hne Hkc). reflexivity.
Qed.

Definition go_result (s : psys) (w : waitst) (cid : nat) (y : reply) (wrap : waitst -> pst) : psys :=
  let cs := set_status cid Delivered (ps_calls s) in
  match wait_deliver (length (ps_calls s)) w cid y with
  | None => {| ps_nd := ps_nd s; ps_calls := cs; ps_st := ps_st s |}
  | Some (WGo w' new) => {| ps_nd := ps_nd s; ps_calls := cs ++ mk_calls new; ps_st := wrap w' |}
  | Some (WFin r cancel) => {| ps_nd := ps_nd s; ps_calls := cancel_calls cancel cs; ps_st := SFin (res_of_wait r) |}
  end.

Lemma no_new_plain s cid st : no_new s -> no_new {| ps_nd := ps_nd s; ps_calls := set_status cid Delivered (ps_calls s); ps_st := st |}.
Proof. intros Hn. exact (no_new_cancel s cid [] st Hn). Qed.

Lemma no_new_ext s cid st extra :
  no_new s -> (forall q, In q extra -> match q with QPay _ _ _ _ _ => False | _ => True end) ->
  no_new {| ps_nd := ps_nd s; ps_calls := set_status cid Delivered (ps_calls s) ++ mk_calls extra; ps_st := st |}.
Proof. intros Hn He. destruct (no_new_deliver s cid extra Hn He (ps_nd s) st) as [H|H]; [exact H|congruence]. Qed.

Lemma deliver_go s w cid y q (wrap : waitst -> pst) :
  (wrap = SWait \/ wrap = SPayWait) -> ps_st s = wrap w ->
  no_new s -> wait_inv s w ->
  nth_error (ps_calls s) cid = Some {| c_rpc := q; c_st := Replied y |} ->
  PInv (go_result s w cid y wrap).
Proof.
  intros Hwrap Hst Hn Hw Hc.
  assert (Hlen : length (set_status cid Delivered (ps_calls s)) = length (ps_calls s)) by apply set_status_length.
  assert (Wrap : forall s' w', ps_st s' = wrap w' -> no_new s' -> wait_inv s' w' -> PInv s').
  { intros s' w' E1 E2 E3. unfold PInv. rewrite E1. destruct Hwrap as [-> | ->]; auto. }
  unfold go_result.
  destruct w as [k|k l|aw]; cbn [wait_deliver].
  - (* WListP *)
    destruct Hw as (c & Hk & Hm).
    destruct (Nat.eqb k cid) eqn:Ek; cbn [negb].
    + apply Nat.eqb_eq in Ek. subst k. rewrite Hk in Hc. inversion Hc; subst q c.
      destruct y; try exact I.
      apply Wrap with (w' := WListD (length (ps_calls s)) l).
      * reflexivity.
      * apply no_new_ext; [exact Hn|]. intros q [<-|[]]. exact I.
      * cbn [wait_inv ps_nd ps_calls]. split; [exact Hm|]. exists Unprocessed. split; [|exact I].
        rewrite nth_error_app2 by lia. rewrite Hlen, Nat.sub_diag. reflexivity.
    + apply Nat.eqb_neq in Ek. apply Wrap with (w' := WListP k); [exact Hst|apply no_new_plain; exact Hn|].
      cbn [wait_inv ps_nd ps_calls]. exists c. split; [|exact Hm]. rewrite nth_set_status_other by congruence. exact Hk.
  - (* WListD *)
    destruct Hw as (Hpi & c & Hk & Hm).
    destruct (Nat.eqb k cid) eqn:Ek; cbn [negb].
    + apply Nat.eqb_eq in Ek. subst k. rewrite Hk in Hc. inversion Hc; subst q c.
      destruct y as [| | | |[|p dl]| | | |]; try exact I.
      * destruct l as [|p0 l0].
        -- (* nothing pending, nothing complete: Ok(None) *)
           unfold PInv. cbn [ps_st res_of_wait]. split; [apply no_new_cancel; exact Hn|].
           cbn [ps_nd]. intros i st Hi. exact (Hm i st Hi (fun x => x)).
        -- apply Wrap with (w' := WParts (number_from (length (ps_calls s)) (p0 :: l0))).
           ++ reflexivity.
           ++ apply no_new_ext; [exact Hn|]. intros q Hq. apply in_map_iff in Hq as (x & <- & _). exact I.
           ++ cbn [wait_inv ps_nd ps_calls]. rewrite number_from_fst. split; [exact Hm|].
              intros pid c Hin. destruct (number_from_spec _ _ _ _ Hin) as (j & Hj & ->).
              exists Unprocessed. split; [|exact I].
              rewrite nth_error_app2 by lia. rewrite Hlen.
              replace (length (ps_calls s) + j - length (ps_calls s))%nat with j by lia.
              unfold mk_calls. rewrite !nth_error_map, Hj. reflexivity.
      * unfold PInv. cbn [ps_st res_of_wait ps_nd]. exact Hm.
    + apply Nat.eqb_neq in Ek. apply Wrap with (w' := WListD k l); [exact Hst|apply no_new_plain; exact Hn|].
      cbn [wait_inv ps_nd ps_calls]. split; [exact Hpi|]. exists c. split; [|exact Hm]. rewrite nth_set_status_other by congruence. exact Hk.
  - (* WParts *)
    destruct Hw as (Hfo & He).
    destruct (existsb (fun x => Nat.eqb (snd x) cid) aw) eqn:Eaw; cbn [negb].
    + apply existsb_exists in Eaw as ((pid0 & c0) & Hin0 & Hc0). cbn in Hc0. apply Nat.eqb_eq in Hc0. subst c0.
      destruct (He _ _ Hin0) as (c & Hk & Hm). rewrite Hk in Hc. inversion Hc; subst q c.
      set (rest := filter (fun x => negb (Nat.eqb (snd x) cid)) aw).
      assert (Hrest : forall pid c, In (pid, c) rest <-> In (pid, c) aw /\ c <> cid).
      { intros pid c. unfold rest. rewrite filter_In. cbn. rewrite negb_true_iff, Nat.eqb_neq. tauto. }
      assert (Hgone : forall i, In i (map fst aw) -> ~ In i (map fst rest) -> y = YPartFailed -> forall x, nth_error (parts (ps_nd s)) i = Some x -> x = PFailed).
      { intros i Hi Hni Hy x Hx. apply in_map_iff in Hi as ((pid & c) & Hf & Hin). cbn in Hf. subst pid.
        destruct (Nat.eq_dec c cid) as [->|Hcc].
        - destruct (He _ _ Hin) as (c' & Hk' & Hm'). rewrite Hk in Hk'. inversion Hk'; subst c'. subst y. exact (Hm' x Hx).
        - exfalso. apply Hni. apply in_map_iff. exists (i, c). split; [reflexivity|]. apply Hrest. tauto. }
      destruct y; try exact I.
      * (* a part completed *)
        unfold PInv. cbn [ps_st res_of_wait ps_nd]. eapply nth_error_In. exact Hm.
      * (* this part failed *)
        destruct rest as [|r0 rest0] eqn:Er.
        -- unfold PInv. cbn [ps_st res_of_wait]. split; [apply no_new_cancel; exact Hn|].
           cbn [ps_nd]. intros i st Hi.
           destruct (in_dec Nat.eq_dec i (map fst aw)) as [Hin|Hnin]; [|exact (Hfo i st Hi Hnin)].
           exact (Hgone i Hin (fun x => x) eq_refl st Hi).
        -- apply Wrap with (w' := WParts (r0 :: rest0)).
           ++ reflexivity.
           ++ apply no_new_ext; [exact Hn|]. intros q [].
           ++ cbn [wait_inv ps_nd ps_calls]. split.
              ** intros i st Hi Hni.
                 destruct (in_dec Nat.eq_dec i (map fst aw)) as [Hin|Hnin]; [|exact (Hfo i st Hi Hnin)].
                 exact (Hgone i Hin Hni eq_refl st Hi).
              ** intros pid c Hin. apply Hrest in Hin as (Hin & Hcc).
                 destruct (He _ _ Hin) as (c' & Hk' & Hm'). exists c'. split; [|exact Hm'].
                 cbn [mk_calls map]. rewrite app_nil_r. rewrite nth_set_status_other by congruence. exact Hk'.
    + apply Wrap with (w' := WParts aw); [exact Hst|apply no_new_plain; exact Hn|].
      cbn [wait_inv ps_nd ps_calls]. split; [exact Hfo|].
      intros pid c Hin. destruct (He _ _ Hin) as (c' & Hk' & Hm'). exists c'. split; [|exact Hm'].
      assert (c <> cid).
      { intros ->. assert (X : existsb (fun x => Nat.eqb (snd x) cid) aw = true) by (apply existsb_exists; exists (pid, cid); split; [exact Hin|apply Nat.eqb_refl]). congruence. }
      rewrite nth_set_status_other by congruence. exact Hk'.
Qed.

Lemma p_deliver_wait s w cid y :
  ps_st s = SWait w -> p_deliver s cid y = go_result s w cid y SWait.
Proof. intros H. unfold p_deliver, go_result. rewrite H. reflexivity. Qed.
Lemma p_deliver_paywait s w cid y :
  ps_st s = SPayWait w -> p_deliver s cid y = go_result s w cid y SPayWait.
Proof. intros H. unfold p_deliver, go_result. rewrite H. reflexivity. Qed.

Lemma PInv_deliver s cid : PInv s -> PInv (pstep s (PvDeliver cid)).
Proof.
  intros H. cbn [pstep].
  destruct (nth_error (ps_calls s) cid) as [[q st]|] eqn:Hc; [|exact H].
  destruct st as [| |y| | |]; try exact H.
  destruct (ps_st s) as [w|k|w|r] eqn:Est.
  - rewrite (p_deliver_wait _ _ _ _ Est). unfold PInv in H. rewrite Est in H. destruct H as (Hn & Hw).
    eapply deliver_go; eauto.
  - unfold PInv in H. rewrite Est in H. destruct H as (Hk & q0 & c & Hcs & (b & a & ff & d & rr & Hq) & Hm). subst k.
    rewrite Hcs in Hc. destruct cid as [|[|cid]]; cbn in Hc; inversion Hc; subst q0 c.
    unfold p_deliver. rewrite Est. cbn [Nat.eqb negb].
    unfold PInv.
    destruct (pay_reply y) eqn:Ep; cbn [ps_st ps_nd ps_calls].
    + destruct y; try discriminate. destruct o; try discriminate. inversion Ep; subst. exact (proj2 Hm).
    + destruct y; try discriminate. destruct o; try discriminate. destruct Hm as (Hp & Haf). split; [|exact Haf].
      split; [exact Hp|]. cbn [ps_calls]. rewrite Hcs. intros k cl Hk.
      destruct k as [|[|k]]; cbn in Hk; inversion Hk; subst. cbn. repeat split; discriminate.
    + assert (Hp : payrun (ps_nd s) = 0).
      { destruct y; try exact Hm. destruct o; try exact Hm; [exact (proj1 Hm)|exact (proj1 Hm)]. }
      split.
      * split; [exact Hp|]. rewrite Hcs. cbn. intros k cl Hk.
        destruct k as [|[|[|k]]]; cbn in Hk; inversion Hk; subst; cbn; [repeat split; discriminate|exact I].
      * cbn [wait_inv wait_start fst snd ps_calls ps_nd]. rewrite Hcs. cbn. exists Unprocessed. split; [reflexivity|exact I].
  - rewrite (p_deliver_paywait _ _ _ _ Est). unfold PInv in H. rewrite Est in H. destruct H as (Hn & Hw).
    eapply deliver_go; eauto.
  - unfold p_deliver. rewrite Est. unfold PInv in *. rewrite Est in H. cbn [ps_st ps_nd].
    destruct r as [p| |]; [exact H| |exact I].
    destruct H as (Hn & Haf). split; [|exact Haf]. apply no_new_plain. exact Hn.
Qed.

(* ---------- the invariant holds in every reachable state ---------- *)
Theorem PInv_step s ev :
  PInv s -> pwf s ev = true -> PInv (pstep s ev).
Proof.
  intros H Hwf. destruct ev.
  - apply PInv_process; assumption.
  - apply PInv_deliver; assumption.
  - apply PInv_part; assumption.
  - apply PInv_newpart; assumption.
  - apply PInv_payfinish; assumption.
Qed.

(* a history respects the contract if every event does in the state it is applied to *)
Fixpoint hist_ok (s : psys) (evs : list pevent) : bool :=
  match evs with
  | [] => true
  | ev :: r => pwf s ev && hist_ok (pstep s ev) r
  end.

Theorem PInv_run evs : forall s, PInv s -> hist_ok s evs = true -> PInv (prun s evs).
Proof.
  induction evs as [|ev r IH]; intros s H Hok; [exact H|].
  cbn [hist_ok] in Hok. apply andb_prop in Hok as [H1 Hr].
  cbn [prun fold_left]. apply IH; [apply PInv_step; assumption|exact Hr].
Qed.

(* what the invariant says about a finished provider call *)
Lemma PInv_fin s r : PInv s -> ps_st s = SFin r ->
  match r with
  | POk p => has_done p (parts (ps_nd s))
  | PNone => all_failed (parts (ps_nd s)) /\ payrun (ps_nd s) = 0
  | PErr => True
  end.
Proof.
  intros H E. unfold PInv in H. rewrite E in H. destruct r; auto. destruct H as ((Hp & _) & Haf). auto.
Qed.

(* part-level failure codes do not end the wait while another awaited part is still pending *)
Lemma wait_continues_on_part_failure base aw cid :
  (exists pid' cid', In (pid', cid') aw /\ cid' <> cid) ->
  existsb (fun x => Nat.eqb (snd x) cid) aw = true ->
  exists rest, wait_deliver base (WParts aw) cid YPartFailed = Some (WGo (WParts rest) []) /\ rest <> []
               /\ forall pid' cid', In (pid', cid') rest <-> In (pid', cid') aw /\ cid' <> cid.
Proof.
  intros (pid' & cid' & Hin & Hne) Hex. cbn [wait_deliver]. rewrite Hex. cbn [negb].
  set (rest := filter (fun x => negb (Nat.eqb (snd x) cid)) aw).
  assert (Hrest : forall p c, In (p, c) rest <-> In (p, c) aw /\ c <> cid).
  { intros p c. unfold rest. rewrite filter_In. cbn. rewrite negb_true_iff, Nat.eqb_neq. tauto. }
  assert (In (pid', cid') rest) by (apply Hrest; auto).
  destruct rest as [|r0 rest0] eqn:Er; [contradiction|].
  eexists. split; [reflexivity|]. split; [discriminate|exact Hrest].
Qed.
