(* SysAccount.v — no HTLC is silently dropped: along EVERY history (no hypothesis on the environment at all), an HTLC that
   has reached the plugin is still held, or a response carrying its id has been written, or the node crashed after it
   arrived (the node then replays it: a new arrival). With SysTerm (a run that has nothing left to do holds nothing) and
   SysCoop (cooperative runs answer only with a settle) this closes "every HTLC of a cooperative run is settled". *)
From Tramp Require Import Model.Base Model.Fee Model.Classify Model.Node Model.Provider Model.Sys.
From Tramp Require Import Proofs.ProviderProofs Proofs.SysBasics Proofs.SysShape Proofs.SysTheorems.

Definition lis (e : option entry) : list htlc := match e with Some en => listeners en | None => [] end.

(* one lifecycle step: the set of held HTLCs is unchanged, or every one of them is answered with the same response *)
Definition kept_or_answered (e e' : option entry) (out : list output) : Prop :=
  (lis e' = lis e /\ resps out = []) \/ exists en r, e = Some en /\ e' = None /\ resps out = map (fun h => OResp (hid h) r) (listeners en).

Lemma do_resolve_koa e r p qs cn na :
  kept_or_answered e (a_entry (do_resolve e r p qs [] cn na)) (a_out (do_resolve e r p qs [] cn na)).
Proof.
  unfold do_resolve. destruct e as [en|]; cbn [a_entry a_out].
  - right. exists en, r. rewrite app_nil_r, resps_resolve_outs. auto.
  - left. split; reflexivity.
Qed.

Lemma select_poll_koa c li base hgt tnow d e sel na :
  let a := select_poll c li base hgt tnow d e sel na in kept_or_answered e (a_entry a) (a_out a).
Proof.
  cbv zeta. unfold select_poll. destruct e as [en|]; [|left; split; reflexivity].
  assert (R : forall rq fq r p, kept_or_answered (Some en) (a_entry (do_resolve (Some (set_queues en rq fq)) r p [] [] [] na))
                                 (a_out (do_resolve (Some (set_queues en rq fq)) r p [] [] [] na))).
  { intros rq fq r p. right. exists en, r. unfold do_resolve. cbn [a_entry a_out]. rewrite app_nil_r, resps_resolve_outs. auto. }
  destruct (rdy_q en), (fail_q en) as [r|]; try destruct sel; try apply R; left; unfold go_pay, stay; cbn; split; reflexivity.
Qed.

Lemma enter_select_koa c li base hgt tnow d e sel na :
  let a := enter_select c li base hgt tnow d e sel na in kept_or_answered e (a_entry a) (a_out a).
Proof. cbv zeta. unfold enter_select. destruct (d =? 0); [apply do_resolve_koa|apply select_poll_koa]. Qed.

Lemma lc_deliver_koa c li base hgt tnow p cid y sel e na a :
  lc_deliver c li base hgt tnow p cid y sel e na = Some a -> kept_or_answered e (a_entry a) (a_out a).
Proof.
  rewrite lc_deliver_shape. destruct (lc_shape c li base tnow p cid y) as [[p' new out cancel|r p' new cancel|d]|] eqn:E; cbn [option_map adv_of]; try discriminate;
    intros H; inversion H; subst; clear H.
  - left. split; [reflexivity|]. cbn [a_out]. eapply lc_shape_keep_out; eauto.
  - apply do_resolve_koa.
  - apply enter_select_koa.
Qed.

Lemma fire_timers_none : forall l t l' e' o', fire_timers l None t = (l', e', o') -> e' = None /\ resps o' = [].
Proof.
  induction l as [|x r IH]; intros t l' e' o' H; unfold fire_timers in H; fold fire_timers in H; [inversion H; auto|].
  destruct (l_pc x); try (destruct (fire_timers r None t) as [[r' e1] o1] eqn:E2; inversion H; subst; exact (IH _ _ _ _ E2)).
  destruct (deadline <=? t); destruct (fire_timers r None t) as [[r' e1] o1] eqn:E2; inversion H; subst; cbn; exact (IH _ _ _ _ E2).
Qed.

Lemma fire_timers_koa : forall l e t l' e' o', fire_timers l e t = (l', e', o') -> kept_or_answered e e' o'.
Proof.
  induction l as [|x r IH]; intros e t l' e' o' H; unfold fire_timers in H; fold fire_timers in H; [inversion H; left; split; reflexivity|].
  destruct (l_pc x);
    try (destruct (fire_timers r e t) as [[r' e1] o1] eqn:E2; inversion H; subst; exact (IH _ _ _ _ _ E2)).
  destruct (deadline <=? t).
  - destruct e as [en|]; destruct (fire_timers r None t) as [[r' e1] o1] eqn:E2; inversion H; subst; destruct (fire_timers_none _ _ _ _ _ E2) as (-> & Hr).
    + right. exists en, r_tramp_fail. split; [reflexivity|]. split; [reflexivity|]. rewrite resps_app, resps_resolve_outs, Hr, app_nil_r. reflexivity.
    + left. split; [reflexivity|]. cbn. exact Hr.
  - destruct (fire_timers r e t) as [[r' e1] o1] eqn:E2; inversion H; subst; exact (IH _ _ _ _ _ E2).
Qed.

Lemma apply_adv_entry s i a : entry_ (pl (fst (apply_adv s i a))) = a_entry a.
Proof. reflexivity. Qed.

Lemma koa_resps e e' o o' : resps o' = resps o -> kept_or_answered e e' o -> kept_or_answered e e' o'.
Proof. intros H [(K & K2)|(en & r & A & B0 & C0)]; [left; split; [exact K|rewrite H; exact K2]|right; exists en, r; rewrite H; auto]. Qed.

(* one step of the system *)
Lemma step_koa c s ev :
  match ev with
  | EvHtlc h => lis (entry_ (pl (fst (step c s ev)))) = h :: lis (entry_ (pl s))
  | EvCrash => True
  | _ => kept_or_answered (entry_ (pl s)) (entry_ (pl (fst (step c s ev)))) (snd (step c s ev))
  end.
Proof.
  destruct ev as [h|sel|cid f|cid sel|pid st|cid|cid o|dt|h|]; cbn [step]; try exact I.
  - destruct (entry_ (pl s)) as [e|]; cbn [fst pl entry_ lis]; rewrite e_handle_listeners'; reflexivity.
  - destruct (find_select 0 (lcs (pl s))) as [[[i d] li]|]; [|left; split; reflexivity].
    rewrite apply_adv_entry. eapply koa_resps; [apply apply_adv_resps|]. apply select_poll_koa.
  - destruct (nth_error (calls s) cid) as [cl|]; [|left; split; reflexivity]. destruct (c_st cl); try (left; split; reflexivity).
    destruct (node_exec (nd s) (c_rpc cl) f). left. split; reflexivity.
  - destruct (nth_error (calls s) cid) as [cl|]; [|left; split; reflexivity]. destruct (c_st cl); try (left; split; reflexivity).
    destruct (find_owner c 0 (lcs (pl s)) cid y sel (entry_ (pl s)) (length (calls s)) (height s) (now s) (next_att (pl s))) as [[i a]|] eqn:Hf; [|left; split; reflexivity].
    destruct (find_owner_spec _ _ _ _ _ _ _ _ _ _ _ _ _ Hf) as (x & _ & _ & Hdl).
    rewrite apply_adv_entry. eapply koa_resps; [apply apply_adv_resps|]. exact (lc_deliver_koa _ _ _ _ _ _ _ _ _ _ _ _ Hdl).
  - destruct (nth_error (parts (nd s)) pid) as [[]|], st; left; split; reflexivity.
  - destruct (nth_error (calls s) cid) as [[q st]|]; [|left; split; reflexivity]. destruct q; try (left; split; reflexivity). destruct st; left; split; reflexivity.
  - destruct (nth_error (calls s) cid) as [[q st]|]; [|left; split; reflexivity]. destruct q; try (left; split; reflexivity). destruct st; left; split; reflexivity.
  - destruct (fire_timers (lcs (pl s)) (entry_ (pl s)) (now s + dt)) as [[l' e'] o'] eqn:Hf. cbn [fst snd pl entry_].
    exact (fire_timers_koa _ _ _ _ _ _ Hf).
  - left. split; reflexivity.
Qed.

Definition answered_in (x : N) (os : list (list output)) : Prop := exists o r, In o os /\ In (OResp x r) o.

Lemma step_account c s ev h :
  In h (lis (entry_ (pl s))) \/ ev = EvHtlc h ->
  In h (lis (entry_ (pl (fst (step c s ev))))) \/ (exists r, In (OResp (hid h) r) (snd (step c s ev))) \/ ev = EvCrash.
Proof.
  intros Hh. pose proof (step_koa c s ev) as Hk.
  destruct ev as [h1|sel|cid f|cid sel|pid st|cid|cid o|dt|h1|];
    try (right; right; reflexivity);
    try (destruct Hh as [Hh|Hh]; [|discriminate];
         destruct Hk as [(Hk & _)|(en & r & He & _ & Hr)];
         [left; rewrite Hk; exact Hh|
          right; left; exists r; rewrite He in Hh; cbn [lis] in Hh;
          assert (Hin : In (OResp (hid h) r) (resps (snd (step c s _)))) by (rewrite Hr; apply in_map_iff; exists h; auto);
          apply filter_In in Hin; exact (proj1 Hin)]).
  left. rewrite Hk. destruct Hh as [Hh|Hh]; [right; exact Hh|left; inversion Hh; reflexivity].
Qed.

Theorem run_account c : forall evs s h,
  In h (lis (entry_ (pl s))) \/ In (EvHtlc h) evs ->
  In h (lis (entry_ (pl (fst (run c s evs))))) \/ answered_in (hid h) (snd (run c s evs)) \/ In EvCrash evs.
Proof.
  induction evs as [|ev r IH]; intros s h Hh; cbn [run].
  - destruct Hh as [Hh|[]]. left. exact Hh.
  - assert (Hcase : (In h (lis (entry_ (pl s))) \/ ev = EvHtlc h) \/ In (EvHtlc h) r).
    { destruct Hh as [Hh|[Hh|Hh]]; [left; left; exact Hh|left; right; exact Hh|right; exact Hh]. }
    pose proof (step_account c s ev h) as SA.
    destruct (step c s ev) as [s1 o1] eqn:Est. cbn [fst snd] in SA.
    assert (Go : In h (lis (entry_ (pl s1))) \/ In (EvHtlc h) r ->
                 In h (lis (entry_ (pl (fst (let '(s2, os) := run c s1 r in (s2, o1 :: os)))))) \/
                 answered_in (hid h) (snd (let '(s2, os) := run c s1 r in (s2, o1 :: os))) \/ In EvCrash (ev :: r)).
    { intros H1. specialize (IH s1 h H1). destruct (run c s1 r) as [s2 os]. cbn [fst snd] in *.
      destruct IH as [A|[(o & r0 & Ho & Hr)|Cr]]; [left; exact A|right; left; exists o, r0; split; [right; exact Ho|exact Hr]|right; right; right; exact Cr]. }
    destruct Hcase as [Hc|Hc]; [|apply Go; right; exact Hc].
    destruct (SA Hc) as [A|[(r0 & Hr)|Cr]].
    + apply Go. left. exact A.
    + destruct (run c s1 r) as [s2 os]. cbn [fst snd]. right. left. exists o1, r0. split; [left; reflexivity|exact Hr].
    + right. right. left. exact Cr.
Qed.

(* ---------- exactly once ---------- *)
From Coq Require Import Permutation.

Definition resp_ids (o : list output) : list N := flat_map (fun x => match x with OResp u _ => [u] | _ => [] end) o.
Definition run_resp_ids (os : list (list output)) : list N := flat_map resp_ids os.
Fixpoint arrivals (evs : list event) : list N :=
  match evs with [] => [] | EvHtlc h :: r => hid h :: arrivals r | _ :: r => arrivals r end.
Definition held_ids (s : sys) : list N := map hid (lis (entry_ (pl s))).

Lemma resp_ids_resps o : resp_ids (resps o) = resp_ids o.
Proof.
  unfold resp_ids, resps. induction o as [|x o IH]; cbn [filter flat_map]; [reflexivity|].
  destruct x; cbn [is_resp flat_map app]; rewrite ?IH; reflexivity.
Qed.

Lemma resp_ids_answers l r : resp_ids (map (fun h => OResp (hid h) r) l) = map hid l.
Proof. unfold resp_ids. induction l as [|h l IH]; cbn; [reflexivity|]. rewrite IH. reflexivity. Qed.

(* one step without a crash: the ids answered in it, followed by the ids held after it, are the id that arrived in it followed
   by the ids held before it *)
Lemma step_ids c s ev : ev <> EvCrash ->
  resp_ids (snd (step c s ev)) ++ held_ids (fst (step c s ev)) = arrivals [ev] ++ held_ids s.
Proof.
  intros Hnc. pose proof (step_koa c s ev) as Hk. unfold held_ids.
  destruct ev as [h|sel|cid f|cid sel|pid st|cid|cid o|dt|h|]; try congruence; cbn [arrivals app];
    try (destruct Hk as [(Hl & Hr)|(en & r & He & He' & Hr)];
         [rewrite Hl, <- resp_ids_resps, Hr; reflexivity
         |rewrite He', He, <- resp_ids_resps, Hr, resp_ids_answers; cbn [lis map]; rewrite app_nil_r; reflexivity]).
  (* EvHtlc *)
  rewrite Hk. cbn [map]. cbn [step]. destruct (entry_ (pl s)); reflexivity.
Qed.

Theorem run_ids c : forall evs s, ~ In EvCrash evs ->
  Permutation (run_resp_ids (snd (run c s evs)) ++ held_ids (fst (run c s evs))) (arrivals evs ++ held_ids s).
Proof.
  induction evs as [|ev r IH]; intros s Hnc; cbn [run].
  - cbn. apply Permutation_refl.
  - assert (Hne : ev <> EvCrash) by (intros ->; apply Hnc; left; reflexivity).
    assert (Hnr : ~ In EvCrash r) by (intros H; apply Hnc; right; exact H).
    pose proof (step_ids c s ev Hne) as Hs. specialize (IH (fst (step c s ev)) Hnr).
    destruct (step c s ev) as [s1 o1]. cbn [fst snd] in *. destruct (run c s1 r) as [s2 os]. cbn [fst snd] in *.
    unfold run_resp_ids in *. cbn [flat_map]. rewrite <- app_assoc.
    eapply Permutation_trans; [apply Permutation_app_head; exact IH|].
    (* resp_ids o1 ++ arrivals r ++ held s1  ~  arrivals (ev :: r) ++ held s *)
    eapply Permutation_trans; [apply Permutation_app_swap_app|].
    rewrite Hs.
    assert (E : arrivals (ev :: r) = arrivals [ev] ++ arrivals r) by (destruct ev; reflexivity).
    rewrite E, <- app_assoc. apply Permutation_app_swap_app.
Qed.

Lemma NoDup_app_l {A} (l l' : list A) : NoDup (l ++ l') -> NoDup l.
Proof.
  induction l as [|x l IH]; cbn; intros H; [constructor|]. inversion H as [|? ? Hx Hr]; subst.
  constructor; [intros Hin; apply Hx; apply in_or_app; left; exact Hin|exact (IH Hr)].
Qed.

(* nobody is answered twice: with distinct ids, in a history without a crash *)
Theorem nobody_answered_twice c evs s :
  ~ In EvCrash evs -> NoDup (arrivals evs ++ held_ids s) -> NoDup (run_resp_ids (snd (run c s evs))).
Proof.
  intros Hnc Hnd. pose proof (run_ids c evs s Hnc) as Hp.
  apply Permutation_sym in Hp. pose proof (Permutation_NoDup Hp Hnd) as H.
  exact (NoDup_app_l _ _ H).
Qed.
