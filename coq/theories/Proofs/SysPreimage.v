(* SysPreimage.v — C01: every key the plugin settles with was handed to it by the node as the preimage of a
   completed part (or as the durable Succeeded record, which itself only ever holds such a key).
   Generic in a predicate [good] on keys that the ENVIRONMENT guarantees for completed parts (contract N1:
   a part of hash H completes only with a preimage of H) and for the record found at start. *)
From Tramp Require Import Model.Base Model.Fee Model.Classify Model.Node Model.Provider Model.Sys.
From Tramp Require Import Proofs.FeeProofs Proofs.SysBasics Proofs.EntryProofs Proofs.SysEntry Proofs.SysShape Proofs.SysTheorems.
From Coq Require Import ZifyBool ZifyNat ZifyN.

Section Good.
  Variable good : list N -> Prop.

  Definition reply_good (y : reply) : Prop :=
    match y with
    | YState (Some (DSucc p, _)) => good p
    | YPres l => Forall good l
    | YPre p => good p
    | YPay (PayComplete p) => good p
    | _ => True
    end.
  Definition rpc_good (q : rpc) : Prop := match q with QWriteState _ _ (DSucc p) => good p | _ => True end.
  Definition call_good (cl : call) : Prop := rpc_good (c_rpc cl) /\ match c_st cl with Replied y => reply_good y | _ => True end.
  Definition node_good (n : node) : Prop :=
    (forall p g, ds n = Some (DSucc p, g) -> good p) /\ (forall p, In (PDone p) (parts n) -> good p).
  Definition pc_good (p : pc) : Prop := match p with PMS1 _ _ pr => good pr | _ => True end.

  Record InvS (s : sys) : Prop := {
    is_node : node_good (nd s);
    is_calls : forall k cl, nth_error (calls s) k = Some cl -> call_good cl
  }.

  (* the events the environment may produce: completed parts and 'complete' pay answers carry good keys (N1) *)
  Definition ev_good (ev : event) : Prop :=
    match ev with
    | EvPart _ (PDone p) => good p
    | EvPayFinish _ (PayComplete p) => good p
    | _ => True
    end.

  Lemma done_pres_good ps : (forall p, In (PDone p) ps -> good p) -> Forall good (done_pres ps).
  Proof. intros H. apply Forall_forall. intros p Hp. apply H. apply done_pres_spec. exact Hp. Qed.

  Lemma node_exec_node_cases n q f :
    fst (node_exec n q f) = n \/
    (exists m g v g', q = QWriteState m g v /\ fst (node_exec n q f) = set_ds n (Some (v, g'))) \/
    (exists l, fst (node_exec n q f) = set_atts n l) \/ (exists k, fst (node_exec n q f) = set_payrun n k).
  Proof.
    unfold node_exec. destruct f; destruct q; cbn [fst];
    repeat (match goal with |- context [match ?x with _ => _ end] => destruct x eqn:? end; cbn [fst]); eauto 12.
  Qed.

  Lemma node_exec_reply_cases n q f y :
    snd (node_exec n q f) = Some y ->
    y = YErr \/ y = YState (ds n) \/ (exists g, y = YGen g) \/ y = YUnit \/ (exists l, y = YPids l) \/ y = YPres (done_pres (parts n)) \/
    (exists pid p, y = YPre p /\ nth_error (parts n) pid = Some (PDone p)) \/ y = YPartFailed.
  Proof.
    unfold node_exec. destruct f; destruct q; cbn [snd];
    repeat (match goal with |- context [match ?x with _ => _ end] => destruct x eqn:? end; cbn [snd]);
    intros H; inversion H; subst; eauto 14.
  Qed.

  Lemma node_exec_good n q f : node_good n -> rpc_good q ->
    node_good (fst (node_exec n q f)) /\ match snd (node_exec n q f) with Some y => reply_good y | None => True end.
  Proof.
    intros (Hd & Hp) Hq. split.
    - destruct (node_exec_node_cases n q f) as [->|[(m & g & v & g' & -> & ->)|[(l & ->)|(k & ->)]]]; try (split; assumption).
      split; [|exact Hp]. intros p g0 H. cbn in H. inversion H; subst. exact Hq.
    - destruct (snd (node_exec n q f)) as [y|] eqn:E; [|exact I].
      destruct (node_exec_reply_cases n q f y E) as [->|[->|[(g & ->)|[->|[(l & ->)|[->|[(pid & p & -> & Hn)| ->]]]]]]]; cbn; auto.
      + destruct (ds n) as [[[| | |] ?]|] eqn:Ed; auto. eapply Hd; eauto.
      + apply done_pres_good; exact Hp.
      + apply Hp. eapply nth_error_In; eauto.
  Qed.

  (* what a delivered reply can make a lifecycle write or answer: only keys the reply carried *)
  Lemma wait_deliver_good base w cid y pr cancel : reply_good y -> wait_deliver base w cid y = Some (WFin (WSome pr) cancel) -> good pr.
  Proof.
    intros Hy. destruct w as [k|k l|aw]; cbn.
    - destruct (negb _); [discriminate|]. destruct y; discriminate.
    - destruct (negb _); [discriminate|]. destruct y as [| | | |[|p l']| | | |]; try discriminate.
      + destruct l; discriminate.
      + intros H; inversion H; subst. cbn in Hy. inversion Hy; auto.
    - destruct (negb _); [discriminate|]. destruct y; try discriminate.
      + intros H; inversion H; subst. exact Hy.
      + destruct (filter _ aw); discriminate.
  Qed.

  Lemma lc_shape_good c li base tnow p cid y sh :
    reply_good y -> lc_shape c li base tnow p cid y = Some sh ->
    Forall rpc_good (shape_new sh) /\ match sh with LResolve (Resolve pr) _ _ _ => good pr | _ => True end.
  Proof.
    intros Hy.
    assert (T : forall l : list rpc, forallb (fun q => match q with QWriteState _ _ (DSucc _) => false | _ => true end) l = true -> Forall rpc_good l).
    { intros l Hl. apply Forall_forall. intros q Hq. rewrite forallb_forall in Hl. specialize (Hl q Hq). destruct q; cbn; auto. destruct v; auto. discriminate. }
    destruct p; unfold lc_shape; try discriminate;
      try (destruct (negb (Nat.eqb cid0 cid)); [discriminate|]).
    - destruct y as [[[[| |pr|] ?]|]| | | | | | | |]; intros H; inversion H; subst; (split; [apply T; reflexivity|cbn in *; auto]).
    - destruct (wait_deliver base w cid y) as [[w' nw|[pr| |] cn]|] eqn:Ew; try discriminate.
      + intros H; inversion H; subst. split; [|exact I]. cbn [shape_new]. apply T.
        destruct w as [k0|k0 l|aw]; cbn in Ew.
        * destruct (negb _); [discriminate|]. destruct y; inversion Ew; reflexivity.
        * destruct (negb _); [discriminate|]. destruct y as [| | | |[|? ?]| | | |]; try (inversion Ew; fail).
          destruct l as [|l0 l]; inversion Ew; subst. apply forallb_forall. intros q Hq. change (QWaitPart l0 :: map QWaitPart l) with (map QWaitPart (l0 :: l)) in Hq. apply in_map_iff in Hq as (? & <- & _). reflexivity.
        * destruct (negb _); [discriminate|]. destruct y; try (inversion Ew; fail). destruct (filter _ aw); inversion Ew; reflexivity.
      + pose proof (wait_deliver_good _ _ _ _ _ _ Hy Ew) as Hg.
        intros H; inversion H; subst. cbn. split; [constructor; [exact Hg|constructor]|exact Hg].
      + destruct k; intros H; inversion H; subst; (split; [apply T; reflexivity|cbn in *; auto]).
      + destruct k; intros H; inversion H; subst; (split; [apply T; reflexivity|cbn in *; auto]).
    - destruct y; intros H; inversion H; subst; (split; [apply T; reflexivity|cbn in *; auto]).
    - destruct y; intros H; inversion H; subst; (split; [apply T; reflexivity|cbn in *; auto]).
    - destruct y; intros H; inversion H; subst; (split; [apply T; reflexivity|cbn in *; auto]).
    - destruct y; intros H; inversion H; subst; (split; [apply T; reflexivity|cbn in *; auto]).
    - destruct (pay_reply y) as [pr| |] eqn:Ep; intros H; inversion H; subst; try (split; [apply T; reflexivity|cbn in *; auto]).
      assert (good pr) by (destruct y; try discriminate; destruct o; try discriminate; inversion Ep; subst; exact Hy).
      cbn. split; [constructor; [assumption|constructor]|assumption].
    - destruct y; intros H; inversion H; subst; (split; [apply T; reflexivity|cbn in *; auto]).
    - intros H; inversion H; subst; (split; [apply T; reflexivity|cbn in *; auto]).
    - destruct y; intros H; inversion H; subst; (split; [apply T; reflexivity|cbn in *; auto]).
    - intros H; inversion H; subst; (split; [apply T; reflexivity|cbn in *; auto]).
  Qed.
End Good.

Section GoodStep.
  Variable good : list N -> Prop.

  Lemma call_good_status cl st : call_good good cl -> match st with Replied y => reply_good good y | _ => True end ->
    call_good good {| c_rpc := c_rpc cl; c_st := st |}.
  Proof. intros (A & _) H. split; [exact A|exact H]. Qed.

  Lemma calls_good_set_status cs cid st :
    (forall k cl, nth_error cs k = Some cl -> call_good good cl) ->
    match st with Replied y => reply_good good y | _ => True end ->
    forall k cl, nth_error (set_status cid st cs) k = Some cl -> call_good good cl.
  Proof.
    intros H Hst k cl Hk. destruct (nth_set_status _ _ _ _ _ Hk) as (cl0 & H0 & Hr & Hne & Heq).
    destruct (Nat.eq_dec k cid) as [->|Hkc].
    - specialize (H _ _ H0). destruct H as (A & _). split; [rewrite Hr; exact A|rewrite (Heq eq_refl); exact Hst].
    - rewrite (Hne Hkc). exact (H _ _ H0).
  Qed.

  Lemma calls_good_cancel cs ids :
    (forall k cl, nth_error cs k = Some cl -> call_good good cl) ->
    forall k cl, nth_error (cancel_calls ids cs) k = Some cl -> call_good good cl.
  Proof.
    intros H k cl Hk. destruct (cancel_calls_spec _ _ _ _ Hk) as (cl0 & H0 & Hr & _ & Hst).
    destruct (H _ _ H0) as (A & B). split; [rewrite Hr; exact A|].
    destruct Hst as [-> | ->]; [exact B|exact I].
  Qed.

  Lemma calls_good_app cs new :
    (forall k cl, nth_error cs k = Some cl -> call_good good cl) -> Forall (rpc_good good) new ->
    forall k cl, nth_error (cs ++ mk_calls new) k = Some cl -> call_good good cl.
  Proof.
    intros H Hn k cl Hk. destruct (nth_error cs k) as [cl1|] eqn:E.
    - rewrite (nth_app_l _ _ _ _ E) in Hk. inversion Hk; subst. exact (H _ _ E).
    - rewrite nth_error_app2 in Hk by (apply nth_error_None; exact E).
      destruct (nth_mk_calls _ _ _ Hk) as (q & Hq & ->). split; [|exact I]. cbn. rewrite Forall_forall in Hn. apply Hn. eapply nth_error_In; eauto.
  Qed.

  Lemma InvS_apply_adv s i a x :
    InvS good s -> nth_error (lcs (pl s)) i = Some x -> Forall (rpc_good good) (a_new a) -> InvS good (fst (apply_adv s i a)).
  Proof.
    intros [Hn Hc] Hx Hnew. destruct (apply_adv_lcs s i a x Hx) as (_ & _ & Hnd & _ & _ & Hcalls & _).
    constructor; [rewrite Hnd; exact Hn|]. rewrite Hcalls. apply calls_good_app; [apply calls_good_cancel; exact Hc|exact Hnew].
  Qed.

  Lemma select_poll_news_good c li base hgt tnow d e sel na : Forall (rpc_good good) (a_new (select_poll c li base hgt tnow d e sel na)).
  Proof.
    apply Forall_forall. intros q Hq. destruct (select_poll_new _ _ _ _ _ _ _ _ _ _ Hq) as (_ & _ & _ & _ & _ & _ & ->). exact I.
  Qed.

  Theorem step_InvS c s ev : InvS good s -> ev_good good ev -> InvS good (fst (step c s ev)).
  Proof.
    intros HS Hev. pose proof HS as [Hn Hc]. destruct ev; cbn [step].
    - (* EvHtlc *)
      destruct (entry_ (pl s)) as [e|] eqn:He; [constructor; assumption|].
      assert (HS1 : forall k cl, nth_error (calls s ++ mk_calls [QListState]) k = Some cl -> call_good good cl)
        by (apply calls_good_app; [exact Hc|constructor; [exact I|constructor]]).
      constructor; assumption.
    - (* EvPoll *)
      destruct (find_select 0 (lcs (pl s))) as [[[i d] li]|] eqn:Hf; [|exact HS].
      destruct (find_select_spec _ _ _ _ _ Hf) as (x & Hx & _). rewrite Nat.sub_0_r in Hx.
      apply (InvS_apply_adv _ i _ x); [exact HS|exact Hx|apply select_poll_news_good].
    - (* EvProcess *)
      destruct (nth_error (calls s) cid) as [cl|] eqn:Hcl; [|exact HS]. destruct (c_st cl) eqn:Hst; try exact HS.
      pose proof (node_exec_good good (nd s) (c_rpc cl) f Hn (proj1 (Hc _ _ Hcl))) as (G1 & G2).
      destruct (node_exec (nd s) (c_rpc cl) f) as [n' y]. cbn [fst snd] in *.
      constructor; cbn; [exact G1|]. apply calls_good_set_status; [exact Hc|]. destruct y; [exact G2|destruct (c_rpc cl); exact I].
    - (* EvDeliver *)
      destruct (nth_error (calls s) cid) as [cl|] eqn:Hcl; [|exact HS]. destruct (c_st cl) eqn:Hst; try exact HS.
      assert (Hy : reply_good good y) by (pose proof (proj2 (Hc _ _ Hcl)) as X; rewrite Hst in X; exact X).
      assert (HS1 : InvS good (with_calls s (set_status cid Delivered (calls s)))) by (constructor; cbn; [exact Hn|apply calls_good_set_status; [exact Hc|exact I]]).
      destruct (find_owner c 0 (lcs (pl s)) cid y sel (entry_ (pl s)) (length (calls s)) (height s) (now s) (next_att (pl s))) as [[i a]|] eqn:Hf; [|exact HS1].
      destruct (find_owner_spec _ _ _ _ _ _ _ _ _ _ _ _ _ Hf) as (x & Hx & _ & Hd). rewrite Nat.sub_0_r in Hx.
      apply (InvS_apply_adv _ i a x HS1 Hx).
      apply Forall_forall. intros q Hq.
      destruct (proj2 (lc_deliver_calls _ _ _ _ _ _ _ _ _ _ _ _ 0%nat q Hd) Hq) as [(sh & Hsh & Hin & _)|(_ & _ & _ & _ & _ & _ & _ & _ & ->)]; [|exact I].
      destruct (lc_shape_good good _ _ _ _ _ _ _ _ Hy Hsh) as (G & _). rewrite Forall_forall in G. exact (G q Hin).
    - (* EvPart *)
      destruct (nth_error (parts (nd s)) pid) as [[| |]|] eqn:Hp; try exact HS; destruct st; try exact HS.
      + constructor; cbn; [|exact Hc]. destruct Hn as (Hd & Hpp). split; [exact Hd|].
        intros p0 Hin. apply In_nth_error in Hin as (k & Hk). destruct (nth_upd_cases _ _ _ _ _ Hk) as [[_ E]|[_ E]]; [inversion E; subst; exact Hev|apply Hpp; eapply nth_error_In; eauto].
      + constructor; cbn; [|exact Hc]. destruct Hn as (Hd & Hpp). split; [exact Hd|].
        intros p0 Hin. apply In_nth_error in Hin as (k & Hk). destruct (nth_upd_cases _ _ _ _ _ Hk) as [[_ E]|[_ E]]; [discriminate|apply Hpp; eapply nth_error_In; eauto].
    - (* EvPayNewPart *)
      destruct (nth_error (calls s) cid) as [[q st]|]; [|exact HS]. destruct q; try exact HS. destruct st; try exact HS.
      constructor; cbn; [|exact Hc]. destruct Hn as (Hd & Hpp). split; [exact Hd|]. intros p0 Hin. apply in_app_or in Hin as [Hin|[Hin|[]]]; [auto|discriminate].
    - (* EvPayFinish *)
      destruct (nth_error (calls s) cid) as [[q st]|] eqn:Hcl; [|exact HS]. destruct q; try exact HS. destruct st; try exact HS.
      constructor; cbn; [exact Hn|]. apply calls_good_set_status; [exact Hc|]. destruct o; cbn; auto.
    - (* EvTick *)
      destruct (fire_timers (lcs (pl s)) (entry_ (pl s)) (now s + dt)) as [[l' e'] o']. constructor; cbn; assumption.
    - constructor; cbn; assumption.
    - (* EvCrash *)
      constructor; cbn; [exact Hn|]. intros k cl Hk. unfold kill_calls in Hk. rewrite nth_error_map in Hk.
      destruct (nth_error (calls s) k) as [cl0|] eqn:E; [|discriminate]. cbn in Hk. inversion Hk; subst.
      destruct (Hc _ _ E) as (A & B). split; [exact A|]. cbn. destruct (c_st cl0); auto.
  Qed.
End GoodStep.

(* ---------- a queued failure is a failure: the fail queue never holds a settle ---------- *)
Definition FailQ (e : entry) : Prop := forall r, fail_q e = Some r -> exists m, r = Fail m.
Definition InvF (s : sys) : Prop := forall e, entry_ (pl s) = Some e -> FailQ e.

Lemma FailQ_fail e r : FailQ e -> (exists m, r = Fail m) -> FailQ (e_fail e r).
Proof.
  intros H Hr. unfold e_fail. destruct (is_fail e); [exact H|]. intros r0 H0. cbn in H0. inversion H0; subst. exact Hr.
Qed.

Lemma FailQ_handle c e h : FailQ e -> FailQ (e_handle c e h).
Proof.
  intros H. unfold e_handle.
  assert (A : forall x, FailQ x -> FailQ (e_add c x h)) by (intros x Hx r Hr; unfold e_add in Hr; cbn in Hr; exact (Hx r Hr)).
  apply A.
  destruct (fee_sufficient (pol c) (total h) (deliver h)); [|apply FailQ_fail; [|unfold r_fee_fail; eauto]];
  (destruct (rel h <? Z.of_N (pol_delta (pol c)))%Z; [apply FailQ_fail; [|unfold r_fee_fail; eauto]|]);
  (destruct (bytes_eq (blob h) (e_blob e) && (deliver h =? e_deliver e)); [exact H|apply FailQ_fail; [exact H|unfold r_tramp_fail; eauto]]).
Qed.

Lemma FailQ_new h : FailQ (new_entry h).
Proof. intros r H. discriminate. Qed.

Lemma FailQ_rel e e' : entry_rel (Some e) (Some e') -> FailQ e -> FailQ e'.
Proof.
  intros [H|[H|(en & rq & fq & H1 & H2 & _ & _ & Hor)]] HF; [discriminate|inversion H; subst; exact HF|].
  inversion H1; inversion H2; subst. intros r Hr. unfold set_queues in Hr. cbn in Hr.
  destruct Hor as [-> | ->]; [discriminate|exact (HF r Hr)].
Qed.

Theorem step_InvF c s ev : InvU s -> InvE c s -> InvF s -> InvF (fst (step c s ev)).
Proof.
  intros HU HE HF. destruct ev; cbn [step]; try exact HF.
  - (* EvHtlc *)
    destruct (entry_ (pl s)) as [e|] eqn:He.
    + pose proof (FailQ_handle c e h (HF e He)) as HF1. intros e' He'; cbn in He'; inversion He'; subst; exact HF1.
    + pose proof (FailQ_handle c (new_entry h) h (FailQ_new h)) as HF1. intros e' He'. cbn in He'. inversion He'; subst. exact HF1.
  - (* EvPoll *)
    destruct (find_select 0 (lcs (pl s))) as [[[i d] li]|] eqn:Hf; [|exact HF].
    destruct (find_select_spec _ _ _ _ _ Hf) as (x & Hx & Hp & Hli & _). rewrite Nat.sub_0_r in Hx. subst li.
    assert (Ax : attached (l_pc x) = true) by (rewrite Hp; reflexivity).
    assert (Hae : adv_entry_ok c (l_info x) (entry_ (pl s)) (select_poll c (l_info x) (length (calls s)) (height s) (now s) d (entry_ (pl s)) sel (next_att (pl s)))).
    { apply select_poll_entry_ok. intros en Hen. split; [exact (ie_entry c s HE en Hen)|exact (proj1 (ie_lc c s HE en i x Hen Hx Ax))]. }
    intros e' He'. destruct (apply_adv_lcs s i (select_poll c (l_info x) (length (calls s)) (height s) (now s) d (entry_ (pl s)) sel (next_att (pl s))) x Hx) as (_ & Hen & _).
    rewrite Hen in He'. destruct Hae as (Hrel & _). rewrite He' in Hrel.
    destruct (entry_ (pl s)) as [e|] eqn:Ee.
    + exact (FailQ_rel _ _ Hrel (HF e Ee)).
    + destruct Hrel as [H|[H|(en & ? & ? & H & _)]]; discriminate.
  - destruct (nth_error (calls s) cid) as [cl|]; [|exact HF]. destruct (c_st cl); try exact HF.
    destruct (node_exec (nd s) (c_rpc cl) f). exact HF.
  - (* EvDeliver *)
    destruct (nth_error (calls s) cid) as [cl|]; [|exact HF]. destruct (c_st cl); try exact HF.
    destruct (find_owner c 0 (lcs (pl s)) cid y sel (entry_ (pl s)) (length (calls s)) (height s) (now s) (next_att (pl s))) as [[i a]|] eqn:Hf; [|exact HF].
    destruct (find_owner_spec _ _ _ _ _ _ _ _ _ _ _ _ _ Hf) as (x & Hx & _ & Hd). rewrite Nat.sub_0_r in Hx.
    assert (Hae : adv_entry_ok c (l_info x) (entry_ (pl s)) a).
    { eapply lc_deliver_entry_ok; [|exact Hd]. intros Ax en Hen. destruct (ie_lc c s HE en i x Hen Hx Ax) as (I1 & I2). split; [exact (ie_entry c s HE en Hen)|auto]. }
    intros e' He'. destruct (apply_adv_lcs (with_calls s (set_status cid Delivered (calls s))) i a x Hx) as (_ & Hen & _).
    rewrite Hen in He'. destruct Hae as (Hrel & _). rewrite He' in Hrel.
    destruct (entry_ (pl s)) as [e|] eqn:Ee.
    + exact (FailQ_rel _ _ Hrel (HF e Ee)).
    + destruct Hrel as [H|[H|(en & ? & ? & H & _)]]; discriminate.
  - destruct (nth_error (parts (nd s)) pid) as [[]|], st; exact HF.
  - destruct (nth_error (calls s) cid) as [[q st]|]; [|exact HF]. destruct q; try exact HF. destruct st; exact HF.
  - destruct (nth_error (calls s) cid) as [[q st]|]; [|exact HF]. destruct q; try exact HF. destruct st; exact HF.
  - destruct (fire_timers (lcs (pl s)) (entry_ (pl s)) (now s + dt)) as [[l' e'] o'] eqn:Hf.
    destruct (fire_timers_entry _ _ _ _ _ _ Hf) as [->|(-> & -> & ->)]; [intros e0 H0; discriminate|exact HF].
  - intros e0 H0; discriminate.
Qed.

(* ---------- C01: a settle carries a good key ---------- *)
Section C01.
  Variable good : list N -> Prop.

  Lemma resolve_outs_in en r h r' : In (OResp h r') (resolve_outs en r) -> r' = r.
  Proof. unfold resolve_outs. intros H. apply in_map_iff in H as (x & Hx & _). inversion Hx. reflexivity. Qed.

  Lemma do_resolve_resp e r p qs cn na h r' : In (OResp h r') (a_out (do_resolve e r p qs [] cn na)) -> r' = r.
  Proof.
    unfold do_resolve. destruct e as [en|]; cbn [a_out]; intros H.
    - rewrite app_nil_r in H. eapply resolve_outs_in; eauto.
    - destruct H as [H|[]]. discriminate.
  Qed.

  Lemma select_poll_resp c li base hgt tnow d e sel na h r' :
    (forall en, e = Some en -> FailQ en) -> In (OResp h r') (a_out (select_poll c li base hgt tnow d e sel na)) -> exists m, r' = Fail m.
  Proof.
    intros HF. unfold select_poll. destruct e as [en|]; [|intros []].
    specialize (HF en eq_refl). unfold FailQ in HF.
    destruct (rdy_q en); destruct (fail_q en) as [r|].
    - destruct sel; intros H.
      + unfold go_pay in H. cbn in H. destruct H.
      + apply do_resolve_resp in H. subst r'. exact (HF r eq_refl).
    - intros H. unfold go_pay in H. cbn in H. destruct H.
    - intros H. apply do_resolve_resp in H. subst r'. exact (HF r eq_refl).
    - intros H. unfold stay in H. cbn in H. destruct H.
  Qed.

  Lemma enter_select_resp c li base hgt tnow d e sel na h r' :
    (forall en, e = Some en -> FailQ en) -> In (OResp h r') (a_out (enter_select c li base hgt tnow d e sel na)) -> exists m, r' = Fail m.
  Proof.
    intros HF. unfold enter_select. destruct (d =? 0).
    - intros H. apply do_resolve_resp in H. subst. unfold r_tramp_fail. eauto.
    - apply select_poll_resp. exact HF.
  Qed.

  Lemma fire_timers_resp : forall l e t l' e' o' h r', fire_timers l e t = (l', e', o') -> In (OResp h r') o' -> r' = r_tramp_fail.
  Proof.
    induction l as [|x r IH]; intros e t l' e' o' h r' H Hin; unfold fire_timers in H; fold fire_timers in H; [inversion H; subst; destruct Hin|].
    destruct (l_pc x);
      try (destruct (fire_timers r e t) as [[r0 e1] o1] eqn:E2; inversion H; subst; exact (IH _ _ _ _ _ _ _ E2 Hin)).
    destruct (deadline <=? t).
    - destruct e as [en|]; destruct (fire_timers r None t) as [[r0 e1] o1] eqn:E2; inversion H; subst.
      + apply in_app_or in Hin as [Hin|Hin]; [eapply resolve_outs_in; eauto|exact (IH _ _ _ _ _ _ _ E2 Hin)].
      + destruct Hin as [Hin|Hin]; [discriminate|exact (IH _ _ _ _ _ _ _ E2 Hin)].
    - destruct (fire_timers r e t) as [[r0 e1] o1] eqn:E2; inversion H; subst; exact (IH _ _ _ _ _ _ _ E2 Hin).
  Qed.

  Lemma apply_adv_resp_in s i a h r : In (OResp h r) (snd (apply_adv s i a)) -> In (OResp h r) (a_out a).
  Proof.
    rewrite apply_adv_outs. intros H. apply in_app_or in H as [H|H]; [exact H|].
    apply in_app_or in H as [H|H].
    - exfalso. revert H. generalize (length (calls s)). induction (a_new a) as [|q l IH]; intros b H; cbn in H; [exact H|]. destruct H as [H|H]; [discriminate|eauto].
    - apply in_map_iff in H as (? & H & _). discriminate.
  Qed.

  Theorem settle_key_good c s ev h p :
    InvS good s -> InvF s -> ev_good good ev -> In (OResp h (Resolve p)) (snd (step c s ev)) -> good p.
  Proof.
    intros HS HF Hev Hin. destruct ev; cbn [step] in Hin; try (destruct Hin; fail).
    - (* EvHtlc: answers nobody *)
      exfalso. destruct (entry_ (pl s)) as [e|] eqn:He; [destruct Hin|destruct Hin as [Hin|[]]; discriminate].
    - (* EvPoll: only failures can come out of the select! *)
      exfalso. destruct (find_select 0 (lcs (pl s))) as [[[i d] li]|] eqn:Hf; [|destruct Hin].
      apply apply_adv_resp_in in Hin.
      destruct (select_poll_resp _ _ _ _ _ _ _ _ _ _ _ HF Hin) as (m & Hm). discriminate.
    - destruct (nth_error (calls s) cid) as [cl|]; [|destruct Hin]. destruct (c_st cl); try (destruct Hin; fail).
      destruct (node_exec (nd s) (c_rpc cl) f). destruct Hin.
    - (* EvDeliver *)
      destruct (nth_error (calls s) cid) as [cl|] eqn:Hcl; [|destruct Hin]. destruct (c_st cl) eqn:Hst; try (destruct Hin; fail).
      assert (Hy : reply_good good y) by (pose proof (proj2 (is_calls good s HS _ _ Hcl)) as X; rewrite Hst in X; exact X).
      destruct (find_owner c 0 (lcs (pl s)) cid y sel (entry_ (pl s)) (length (calls s)) (height s) (now s) (next_att (pl s))) as [[i a]|] eqn:Hf; [|destruct Hin].
      destruct (find_owner_spec _ _ _ _ _ _ _ _ _ _ _ _ _ Hf) as (x & Hx & _ & Hd). rewrite Nat.sub_0_r in Hx.
      apply apply_adv_resp_in in Hin. rewrite lc_deliver_shape in Hd.
      destruct (lc_shape c (l_info x) (length (calls s)) (now s) (l_pc x) cid y) as [sh|] eqn:Hsh; [|discriminate].
      cbn [option_map] in Hd. inversion Hd; subst a; clear Hd.
      destruct (lc_shape_good good _ _ _ _ _ _ _ _ Hy Hsh) as (_ & G).
      destruct sh as [p' new out cancel|r p' new cancel|d]; cbn [adv_of] in Hin.
      + exfalso. cbn in Hin. pose proof (lc_shape_keep_out _ _ _ _ _ _ _ _ _ _ _ Hsh) as Hk.
        assert (In (OResp h (Resolve p)) (resps out)) by (unfold resps; apply filter_In; split; [exact Hin|reflexivity]). rewrite Hk in H. destruct H.
      + apply do_resolve_resp in Hin. subst r. exact G.
      + destruct (enter_select_resp _ _ _ _ _ _ _ _ _ _ _ HF Hin) as (m & Hm). discriminate.
    - destruct (nth_error (parts (nd s)) pid) as [[]|], st; destruct Hin.
    - destruct (nth_error (calls s) cid) as [[q st]|]; [|destruct Hin]. destruct q; try (destruct Hin; fail). destruct st; destruct Hin.
    - destruct (nth_error (calls s) cid) as [[q st]|]; [|destruct Hin]. destruct q; try (destruct Hin; fail). destruct st; destruct Hin.
    - destruct (fire_timers (lcs (pl s)) (entry_ (pl s)) (now s + dt)) as [[l' e'] o'] eqn:Hf. cbn in Hin.
      pose proof (fire_timers_resp _ _ _ _ _ _ _ _ Hf Hin). discriminate.
  Qed.
End C01.
