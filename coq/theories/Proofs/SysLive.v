(* SysLive.v — C06, the "eventually" half: from EVERY reachable state in which HTLCs are held there is a finite
   continuation by contract-respecting events (the node answers the outstanding RPCs, pending parts resolve, the pay
   command ends, time passes) after which the entry is gone, i.e. every held HTLC has been answered. No reachable state
   is a trap: under an environment that "keeps answering" the handler cannot hang. *)
From Tramp Require Import Model.Base Model.Fee Model.Classify Model.Node Model.Provider Model.ProviderSys Model.Sys.
From Tramp Require Import Proofs.FeeProofs Proofs.SysBasics Proofs.EntryProofs Proofs.SysEntry Proofs.SysShape Proofs.SysTheorems
  Proofs.SysTimers Proofs.SysReach Proofs.SysPreimage Proofs.SysCalls Proofs.SysNode Proofs.SysSafety.
From Coq Require Import ZifyBool ZifyNat ZifyN.

Inductive CanResolve (c : cfg) : sys -> Prop :=
| cr_done s : entry_ (pl s) = None -> CanResolve c s
| cr_step s ev : ev_wf true s ev -> ev <> EvCrash -> CanResolve c (fst (step c s ev)) -> CanResolve c s.

(* ---------- the two basic moves ---------- *)
(* the node processes a call: only that call's status (and the node) change *)
Lemma process_effect c s k cl :
  nth_error (calls s) k = Some cl -> c_st cl = Unprocessed ->
  let s' := fst (step c s (EvProcess k NoFault)) in
  pl s' = pl s /\ now s' = now s /\
  exists st', calls s' = set_status k st' (calls s) /\
    st' = match snd (node_exec (nd s) (c_rpc cl) NoFault) with
          | Some r => Replied r
          | None => match c_rpc cl with QPay _ _ _ _ _ => Running | _ => Unprocessed end
          end /\ nd s' = fst (node_exec (nd s) (c_rpc cl) NoFault).
Proof.
  intros Hk Hst. cbn [step]. rewrite Hk, Hst. destruct (node_exec (nd s) (c_rpc cl) NoFault) as [n' y]. cbn. eauto 10.
Qed.

(* the reply of an awaited call is delivered to the lifecycle that awaits it *)
Lemma deliver_effect c s i x k cl y sel :
  InvC c s -> nth_error (lcs (pl s)) i = Some x -> In k (awaits (l_pc x)) ->
  nth_error (calls s) k = Some cl -> c_st cl = Replied y ->
  exists sh, lc_shape c (l_info x) (length (calls s)) (now s) (l_pc x) k y = Some sh /\
    step c s (EvDeliver k sel) =
      apply_adv (with_calls s (set_status k Delivered (calls s))) i
                (adv_of c (l_info x) (length (calls s)) (height s) (now s) (entry_ (pl s)) sel (next_att (pl s)) sh).
Proof.
  intros HC Hx Hin Hk Hst. cbn [step]. rewrite Hk, Hst.
  destruct (find_owner c 0 (lcs (pl s)) k y sel (entry_ (pl s)) (length (calls s)) (height s) (now s) (next_att (pl s))) as [[j a]|] eqn:Hf.
  2:{ exfalso. exact (find_owner_awaited c k y sel _ _ _ _ _ _ 0%nat i x Hx Hin Hf). }
  destruct (find_owner_spec _ _ _ _ _ _ _ _ _ _ _ _ _ Hf) as (x' & Hx' & _ & Hd). rewrite Nat.sub_0_r in Hx'.
  pose proof (lc_deliver_awaits _ _ _ _ _ _ _ _ _ _ _ _ Hd) as Hin'.
  assert (j = i).
  { destruct (Nat.eq_dec j i) as [E|E]; [exact E|]. exfalso. exact (ic_disjoint c s HC j i x' x k E Hx' Hx Hin' Hin). }
  subst j. rewrite Hx in Hx'. inversion Hx'; subst x'.
  rewrite lc_deliver_shape in Hd. destruct (lc_shape c (l_info x) (length (calls s)) (now s) (l_pc x) k y) as [sh|] eqn:Hsh; [|discriminate].
  cbn [option_map] in Hd. inversion Hd; subst a. exists sh. split; reflexivity.
Qed.

Lemma node_exec_replies n q :
  match q with QWaitPart _ | QPay _ _ _ _ _ => True | _ => exists r, snd (node_exec n q NoFault) = Some r end.
Proof.
  unfold node_exec. destruct q; cbn; eauto.
  - destruct (ds n) as [[v0 cur]|]; destruct m; cbn; eauto; destruct gen as [g|]; cbn; eauto; destruct (g =? cur); cbn; eauto.
  - destruct (mem_att a (atts n)); destruct m; cbn; eauto.
Qed.

(* one processing step turns an unprocessed call (other than waitsendpay / pay) into an answered one *)
Lemma cr_process_then c s k cl :
  wreach true c s -> nth_error (calls s) k = Some cl -> c_st cl = Unprocessed ->
  match c_rpc cl with QWaitPart _ | QPay _ _ _ _ _ => False | _ => True end ->
  (forall s1 r, wreach true c s1 -> pl s1 = pl s -> now s1 = now s -> nth_error (calls s1) k = Some {| c_rpc := c_rpc cl; c_st := Replied r |} -> CanResolve c s1) ->
  CanResolve c s.
Proof.
  intros Hw Hk Hst Hq Hnext.
  assert (Hwf : ev_wf true s (EvProcess k NoFault)) by (left; reflexivity).
  apply (cr_step c s (EvProcess k NoFault) Hwf ltac:(discriminate)).
  destruct (process_effect c s k cl Hk Hst) as (Hpl & Hnow & st' & Hcalls & Hst' & _).
  pose proof (node_exec_replies (nd s) (c_rpc cl)) as Hr.
  destruct (c_rpc cl) eqn:Eq; try contradiction; destruct Hr as (r & Hr); rewrite Hr in Hst'; subst st';
    (apply (Hnext _ r (wr_step true c s _ Hw Hwf) Hpl Hnow); rewrite Hcalls, (nth_set_status_same _ _ _ _ Hk), Eq; reflexivity).
Qed.

(* delivering the reply of an awaited call moves the awaiting lifecycle by its shape *)
Lemma cr_deliver_then c s i x k cl y :
  wreach true c s -> nth_error (lcs (pl s)) i = Some x -> In k (awaits (l_pc x)) ->
  nth_error (calls s) k = Some cl -> c_st cl = Replied y ->
  (forall sh s1, lc_shape c (l_info x) (length (calls s)) (now s) (l_pc x) k y = Some sh ->
     s1 = fst (apply_adv (with_calls s (set_status k Delivered (calls s))) i
                 (adv_of c (l_info x) (length (calls s)) (height s) (now s) (entry_ (pl s)) true (next_att (pl s)) sh)) ->
     wreach true c s1 -> CanResolve c s1) ->
  CanResolve c s.
Proof.
  intros Hw Hx Hin Hk Hst Hnext. destruct (wreach_inv true c s Hw) as (_ & HC & _ & _).
  destruct (deliver_effect c s i x k cl y true HC Hx Hin Hk Hst) as (sh & Hsh & Hstep).
  apply (cr_step c s (EvDeliver k true) I ltac:(discriminate)).
  apply (Hnext sh _ Hsh); [rewrite Hstep; reflexivity|]. exact (wr_step true c s (EvDeliver k true) Hw I).
Qed.

(* the state after installing a lifecycle step *)
Lemma after_adv s i a x :
  nth_error (lcs (pl s)) i = Some x ->
  let s1 := fst (apply_adv s i a) in
  nth_error (lcs (pl s1)) i = Some (set_pc x (a_pc a)) /\ entry_ (pl s1) = a_entry a /\ now s1 = now s.
Proof.
  intros Hx. destruct (apply_adv_lcs s i a x Hx) as (Hl & He & _ & Hn & _). cbn zeta. rewrite Hl, He, Hn.
  split; [apply nth_error_upd_same; apply nth_error_Some; congruence|auto].
Qed.

(* ---------- sleeping in the select!: time passes, the deadline fires ---------- *)
Lemma cr_select c s i x d :
  wreach true c s -> nth_error (lcs (pl s)) i = Some x -> l_pc x = PSelect d -> CanResolve c s.
Proof.
  intros Hw Hx Hp. destruct (entry_ (pl s)) as [en|] eqn:He; [|apply cr_done; exact He].
  apply (cr_step c s (EvTick (d - now s)) I ltac:(discriminate)). apply cr_done.
  destruct (wreach_inv true c s Hw) as (Hr & _). destruct (reachable_inv c s Hr) as (_ & _ & HT).
  destruct (HT i x d Hx Hp) as (Hlt & _).
  exact (proj1 (proj2 (tick_at_deadline c s (d - now s) en i x d He Hx Hp ltac:(lia)))).
Qed.

(* ---------- only a pay command is ever "running" ---------- *)
Definition InvRun (s : sys) : Prop := forall k cl, nth_error (calls s) k = Some cl -> c_st cl = Running -> is_pay (c_rpc cl) = true.

Lemma InvRun_table cs k cn new :
  (forall j cl, nth_error cs j = Some cl -> c_st cl = Running -> is_pay (c_rpc cl) = true) ->
  forall j cl, nth_error (cancel_calls cn (set_status k Delivered cs) ++ mk_calls new) j = Some cl -> c_st cl = Running -> is_pay (c_rpc cl) = true.
Proof.
  intros H j cl Hj Hr. destruct (Nat.lt_ge_cases j (length cs)) as [Hlt|Hge].
  - rewrite nth_error_app1 in Hj by (rewrite table_length; exact Hlt).
    destruct (cancel_calls_spec _ _ _ _ Hj) as (cl1 & H1 & Hr1 & _ & Hst1).
    destruct (nth_set_status _ _ _ _ _ H1) as (cl0 & H0 & Hr0 & Hne & Heq).
    destruct Hst1 as [E|E]; [|congruence].
    destruct (Nat.eq_dec j k) as [->|Hjk]; [rewrite (Heq eq_refl) in E; congruence|].
    rewrite (Hne Hjk) in *. rewrite Hr1. apply (H j cl0 H0). congruence.
  - rewrite nth_error_app2 in Hj by (rewrite table_length; exact Hge). destruct (nth_mk_calls _ _ _ Hj) as (q & _ & ->). discriminate.
Qed.

Theorem step_InvRun c s ev : InvRun s -> InvRun (fst (step c s ev)).
Proof.
  intros HR. destruct ev; cbn [step]; try exact HR.
  - destruct (entry_ (pl s)); [exact HR|]. intros k cl Hk Hr. cbn [fst calls] in Hk.
    destruct (Nat.lt_ge_cases k (length (calls s))) as [Hlt|Hge].
    + rewrite nth_error_app1 in Hk by exact Hlt. exact (HR k cl Hk Hr).
    + rewrite nth_error_app2 in Hk by exact Hge. destruct (nth_mk_calls _ _ _ Hk) as (q & _ & ->). discriminate.
  - destruct (find_select 0 (lcs (pl s))) as [[[i d] li]|]; [|exact HR].
    unfold apply_adv. cbn [fst calls]. intros k cl Hk Hr.
    pose proof (InvRun_table (calls s) (length (calls s))
                  (a_cancel (select_poll c li (length (calls s)) (height s) (now s) d (entry_ (pl s)) sel (next_att (pl s))))
                  (a_new (select_poll c li (length (calls s)) (height s) (now s) d (entry_ (pl s)) sel (next_att (pl s)))) HR k cl) as G.
    rewrite set_status_oob in G by lia. exact (G Hk Hr).
  - destruct (nth_error (calls s) cid) as [cl|] eqn:Hcl; [|exact HR]. destruct (c_st cl) eqn:Hst; try exact HR.
    destruct (node_exec (nd s) (c_rpc cl) f) as [n' y]. cbn [fst]. intros k cl' Hk Hr. cbn [calls] in Hk.
    destruct (nth_set_status _ _ _ _ _ Hk) as (cl0 & H0 & Hr0 & Hne & Heq).
    destruct (Nat.eq_dec k cid) as [->|Hkc].
    + rewrite Hcl in H0. inversion H0; subst cl0. rewrite Hr0. rewrite (Heq eq_refl) in Hr.
      destruct y; [discriminate|]. destruct (c_rpc cl); try discriminate. reflexivity.
    + rewrite (Hne Hkc) in *. exact (HR k cl0 H0 Hr).
  - destruct (nth_error (calls s) cid) as [cl|] eqn:Hcl; [|exact HR]. destruct (c_st cl) eqn:Hst; try exact HR.
    destruct (find_owner c 0 (lcs (pl s)) cid y sel (entry_ (pl s)) (length (calls s)) (height s) (now s) (next_att (pl s))) as [[i a]|].
    + unfold apply_adv. cbn [fst calls with_calls]. exact (InvRun_table (calls s) cid _ _ HR).
    + cbn [fst with_calls calls]. intros k cl' Hk Hr.
      pose proof (InvRun_table (calls s) cid [] [] HR k cl') as G. cbn [cancel_calls fold_left mk_calls map] in G. rewrite app_nil_r in G. exact (G Hk Hr).
  - destruct (nth_error (parts (nd s)) pid) as [[]|], st; exact HR.
  - destruct (nth_error (calls s) cid) as [[q st]|]; [|exact HR]. destruct q; try exact HR. destruct st; exact HR.
  - destruct (nth_error (calls s) cid) as [[q st]|] eqn:Hcl; [|exact HR]. destruct q; try exact HR. destruct st; try exact HR.
    cbn [fst]. intros k cl' Hk Hr. cbn [calls] in Hk. destruct (nth_set_status _ _ _ _ _ Hk) as (cl0 & H0 & Hr0 & Hne & Heq).
    destruct (Nat.eq_dec k cid) as [->|Hkc]; [rewrite (Heq eq_refl) in Hr; discriminate|]. rewrite (Hne Hkc) in *. exact (HR k cl0 H0 Hr).
  - destruct (fire_timers (lcs (pl s)) (entry_ (pl s)) (now s + dt)) as [[l' e'] o']. exact HR.
  - cbn [fst]. intros k cl Hk Hr. cbn [calls] in Hk. unfold kill_calls in Hk. rewrite nth_error_map in Hk.
    destruct (nth_error (calls s) k) as [cl0|]; [|discriminate]. inversion Hk; subst cl. cbn in Hr. destruct (c_st cl0); discriminate.
Qed.

Lemma wreach_Run c s : wreach true c s -> InvRun s.
Proof. induction 1 as [n t0 h0 a0 _|s ev _ IH _]; [intros [|k] cl Hk; discriminate|apply step_InvRun; exact IH]. Qed.

Lemma resolve_entry_none e r p qs cn na : a_entry (do_resolve e r p qs [] cn na) = None.
Proof. unfold do_resolve. destruct e; reflexivity. Qed.

Lemma filter_length_le {A} (f : A -> bool) l : (length (filter f l) <= length l)%nat.
Proof. induction l as [|a r IH]; cbn; [lia|]. destruct (f a); cbn; lia. Qed.

(* ---------- wait_payment: every awaited part is driven to its fate ---------- *)
(* [Hmark]: what follows the RESTART path's wait when everything has failed (the pay path needs no successor) *)
  Lemma cr_wparts c kk : (forall a g t, kk = AfterRestart a g t -> forall s i x k, wreach true c s -> nth_error (lcs (pl s)) i = Some x -> l_pc x = PMarkF1 k a g t -> CanResolve c s) ->
    forall n s i x aw,
    length aw = n -> wreach true c s -> nth_error (lcs (pl s)) i = Some x -> l_pc x = PWait kk (WParts aw) -> CanResolve c s.
  Proof.
    intros Hmark. induction n as [n IH] using lt_wf_ind. intros s i x aw Hlen Hw Hx Hp.
    destruct (entry_ (pl s)) as [en|] eqn:He; [|apply cr_done; exact He].
    destruct aw as [|[pid0 cid0] aw']; [exfalso; exact (wreach_W true c s Hw i x kk Hx Hp)|].
    destruct (wreach_inv true c s Hw) as (_ & HC & _ & HN).
    pose proof (ic_typed c s HC i x Hx) as Hty. rewrite Hp in Hty. cbn [pc_calls_ok] in Hty.
    destruct (Hty pid0 cid0 (or_introl eq_refl)) as (st & Hk & Hlive).
    (* the reply has arrived: deliver it *)
    assert (Repl : forall s2 y, wreach true c s2 -> pl s2 = pl s -> nth_error (calls s2) cid0 = Some {| c_rpc := QWaitPart pid0; c_st := Replied y |} -> CanResolve c s2).
    { intros s2 y Hw2 Hpl Hk2.
      assert (Hx2 : nth_error (lcs (pl s2)) i = Some x) by (rewrite Hpl; exact Hx).
      destruct (wreach_inv true c s2 Hw2) as (_ & _ & _ & HN2).
      pose proof (ni_r true s2 HN2 cid0 _ y Hk2 eq_refl) as Hry. cbn in Hry.
      apply (cr_deliver_then c s2 i x cid0 _ y Hw2 Hx2 ltac:(rewrite Hp; left; reflexivity) Hk2 eq_refl).
      intros sh s3 Hsh Hs3 Hw3. rewrite Hp in Hsh. unfold lc_shape in Hsh. cbn [wait_deliver existsb snd] in Hsh. rewrite Nat.eqb_refl in Hsh. cbn [orb negb] in Hsh.
      destruct (after_adv (with_calls s2 (set_status cid0 Delivered (calls s2))) i
                  (adv_of c (l_info x) (length (calls s2)) (height s2) (now s2) (entry_ (pl s2)) true (next_att (pl s2)) sh) x Hx2) as (Hl3 & He3 & _).
      rewrite <- Hs3 in Hl3, He3.
      destruct Hry as [(p & ->)| ->].
      - inversion Hsh; subst sh. apply cr_done. rewrite He3. unfold shape_succeed, adv_of. apply resolve_entry_none.
      - destruct (filter (fun z => negb (Nat.eqb (snd z) cid0)) ((pid0, cid0) :: aw')) as [|r0 rest] eqn:Ef.
        + destruct kk as [a g t|a g]; inversion Hsh; subst sh.
          * eapply (Hmark a g t eq_refl); [exact Hw3|exact Hl3|reflexivity].
          * apply cr_done. rewrite He3. unfold shape_pay_failed, adv_of. apply resolve_entry_none.
        + inversion Hsh; subst sh. cbn [adv_of a_pc] in Hl3.
          apply (IH (length (r0 :: rest)) ltac:(rewrite <- Ef, <- Hlen; cbn [filter snd]; rewrite Nat.eqb_refl; cbn [negb length]; pose proof (filter_length_le (fun z => negb (Nat.eqb (snd z) cid0)) aw'); lia)
                    s3 i _ (r0 :: rest) eq_refl Hw3 Hl3). reflexivity. }
    (* the call is unprocessed and the part has resolved: the node answers *)
    assert (Proc : forall s1, wreach true c s1 -> pl s1 = pl s -> nth_error (calls s1) cid0 = Some {| c_rpc := QWaitPart pid0; c_st := Unprocessed |} ->
                   nth_error (parts (nd s1)) pid0 <> Some PPend -> CanResolve c s1).
    { intros s1 Hw1 Hpl Hk1 Hnp.
      assert (Hwf : ev_wf true s1 (EvProcess cid0 NoFault)) by (left; reflexivity).
      apply (cr_step c s1 (EvProcess cid0 NoFault) Hwf ltac:(discriminate)).
      destruct (process_effect c s1 cid0 _ Hk1 eq_refl) as (Hpl1 & _ & st' & Hcalls & Hst' & _). cbn [c_rpc] in Hst'.
      rewrite node_exec_read_nofault in Hst' by reflexivity. cbn [snd] in Hst'.
      assert (exists r, st' = Replied r) by (destruct (nth_error (parts (nd s1)) pid0) as [[| |]|]; [congruence|eauto|eauto|eauto]).
      destruct H as (r & ->).
      apply (Repl _ r (wr_step true c s1 _ Hw1 Hwf)); [congruence|]. rewrite Hcalls. exact (nth_set_status_same _ _ _ _ Hk1). }
    destruct st as [| |y| | |].
    - (* unprocessed *)
      destruct (nth_error (parts (nd s)) pid0) as [[| |]|] eqn:Ep; try (apply (Proc s Hw eq_refl Hk); congruence).
      (* the part is still pending: it resolves (here: fails) *)
      apply (cr_step c s (EvPart pid0 PFailed) I ltac:(discriminate)).
      apply (Proc _ (wr_step true c s (EvPart pid0 PFailed) Hw I)); cbn [step]; rewrite Ep; cbn [fst with_nd pl calls nd set_parts parts]; auto.
      rewrite nth_error_upd_same by (apply nth_error_Some; congruence). discriminate.
    - exfalso. pose proof (wreach_Run c s Hw cid0 _ Hk eq_refl) as X. discriminate.
    - exact (Repl s y Hw eq_refl Hk).
    - exfalso. destruct Hlive as [L|[L|(? & L)]]; discriminate.
    - exfalso. destruct Hlive as [L|[L|(? & L)]]; discriminate.
    - exfalso. destruct Hlive as [L|[L|(? & L)]]; discriminate.
  Qed.

(* a lifecycle awaiting one call (not waitsendpay, not pay): the node answers, then the reply is there *)
Lemma cr_single c s k q :
  wreach true c s -> has_call (calls s) k q ->
  match q with QWaitPart _ | QPay _ _ _ _ _ => False | _ => True end ->
  (forall s2 y, wreach true c s2 -> pl s2 = pl s -> now s2 = now s -> nth_error (calls s2) k = Some {| c_rpc := q; c_st := Replied y |} -> CanResolve c s2) ->
  CanResolve c s.
Proof.
  intros Hw (st & Hk & Hlive) Hq Hnext. destruct st as [| |y| | |].
  - apply (cr_process_then c s k _ Hw Hk eq_refl Hq). exact Hnext.
  - exfalso. pose proof (wreach_Run c s Hw k _ Hk eq_refl) as X. destruct q; try discriminate; contradiction.
  - exact (Hnext s y Hw eq_refl eq_refl Hk).
  - exfalso. destruct Hlive as [L|[L|(? & L)]]; discriminate.
  - exfalso. destruct Hlive as [L|[L|(? & L)]]; discriminate.
  - exfalso. destruct Hlive as [L|[L|(? & L)]]; discriminate.
Qed.

  Lemma cr_wlistd c kk : (forall a g t, kk = AfterRestart a g t -> forall s i x k, wreach true c s -> nth_error (lcs (pl s)) i = Some x -> l_pc x = PMarkF1 k a g t -> CanResolve c s) -> forall s i x k ps,
    wreach true c s -> nth_error (lcs (pl s)) i = Some x -> l_pc x = PWait kk (WListD k ps) -> CanResolve c s.
  Proof.
    intros Hmark s i x k ps Hw Hx Hp. destruct (wreach_inv true c s Hw) as (_ & HC & _ & _).
    pose proof (ic_typed c s HC i x Hx) as Hty. rewrite Hp in Hty. cbn [pc_calls_ok] in Hty.
    apply (cr_single c s k QListDone Hw Hty I). intros s2 y Hw2 Hpl _ Hk2.
    assert (Hx2 : nth_error (lcs (pl s2)) i = Some x) by (rewrite Hpl; exact Hx).
    destruct (wreach_inv true c s2 Hw2) as (_ & _ & _ & HN2).
    pose proof (ni_r true s2 HN2 k _ y Hk2 eq_refl) as Hry. cbn in Hry. destruct Hry as (l & ->).
    apply (cr_deliver_then c s2 i x k _ _ Hw2 Hx2 ltac:(rewrite Hp; left; reflexivity) Hk2 eq_refl).
    intros sh s3 Hsh Hs3 Hw3. rewrite Hp in Hsh. unfold lc_shape in Hsh. cbn [wait_deliver] in Hsh. rewrite Nat.eqb_refl in Hsh. cbn [negb] in Hsh.
    destruct (after_adv (with_calls s2 (set_status k Delivered (calls s2))) i
                (adv_of c (l_info x) (length (calls s2)) (height s2) (now s2) (entry_ (pl s2)) true (next_att (pl s2)) sh) x Hx2) as (Hl3 & He3 & _).
    rewrite <- Hs3 in Hl3, He3.
    destruct l as [|pr l'].
    - destruct ps as [|p0 ps'].
      + destruct kk as [a g t|a g]; inversion Hsh; subst sh.
        * eapply (Hmark a g t eq_refl); [exact Hw3|exact Hl3|reflexivity].
        * apply cr_done. rewrite He3. unfold shape_pay_failed, adv_of. apply resolve_entry_none.
      + inversion Hsh; subst sh. cbn [adv_of a_pc] in Hl3.
        eapply (cr_wparts c kk Hmark); [reflexivity|exact Hw3|exact Hl3|reflexivity].
    - inversion Hsh; subst sh. apply cr_done. rewrite He3. unfold shape_succeed, adv_of. apply resolve_entry_none.
  Qed.

  Lemma cr_wlistp c kk : (forall a g t, kk = AfterRestart a g t -> forall s i x k, wreach true c s -> nth_error (lcs (pl s)) i = Some x -> l_pc x = PMarkF1 k a g t -> CanResolve c s) -> forall s i x k,
    wreach true c s -> nth_error (lcs (pl s)) i = Some x -> l_pc x = PWait kk (WListP k) -> CanResolve c s.
  Proof.
    intros Hmark s i x k Hw Hx Hp. destruct (wreach_inv true c s Hw) as (_ & HC & _ & _).
    pose proof (ic_typed c s HC i x Hx) as Hty. rewrite Hp in Hty. cbn [pc_calls_ok] in Hty.
    apply (cr_single c s k QListPend Hw Hty I). intros s2 y Hw2 Hpl _ Hk2.
    assert (Hx2 : nth_error (lcs (pl s2)) i = Some x) by (rewrite Hpl; exact Hx).
    destruct (wreach_inv true c s2 Hw2) as (_ & _ & _ & HN2).
    pose proof (ni_r true s2 HN2 k _ y Hk2 eq_refl) as Hry. cbn in Hry. destruct Hry as (l & ->).
    apply (cr_deliver_then c s2 i x k _ _ Hw2 Hx2 ltac:(rewrite Hp; left; reflexivity) Hk2 eq_refl).
    intros sh s3 Hsh Hs3 Hw3. rewrite Hp in Hsh. unfold lc_shape in Hsh. cbn [wait_deliver] in Hsh. rewrite Nat.eqb_refl in Hsh. cbn [negb] in Hsh.
    destruct (after_adv (with_calls s2 (set_status k Delivered (calls s2))) i
                (adv_of c (l_info x) (length (calls s2)) (height s2) (now s2) (entry_ (pl s2)) true (next_att (pl s2)) sh) x Hx2) as (Hl3 & He3 & _).
    rewrite <- Hs3 in Hl3, He3.
    inversion Hsh; subst sh. cbn [adv_of a_pc] in Hl3.
    eapply (cr_wlistd c kk Hmark); [exact Hw3|exact Hl3|reflexivity].
  Qed.

  Lemma cr_wait c kk : (forall a g t, kk = AfterRestart a g t -> forall s i x k, wreach true c s -> nth_error (lcs (pl s)) i = Some x -> l_pc x = PMarkF1 k a g t -> CanResolve c s) -> forall s i x w,
    wreach true c s -> nth_error (lcs (pl s)) i = Some x -> l_pc x = PWait kk w -> CanResolve c s.
  Proof.
    intros Hmark s i x w Hw Hx Hp. destruct w as [k|k ps|aw].
    - eapply (cr_wlistp c kk Hmark); eauto.
    - eapply (cr_wlistd c kk Hmark); eauto.
    - eapply (cr_wparts c kk Hmark); eauto.
  Qed.

(* ---------- the pay command is driven to its end ---------- *)
Lemma no_pend_no_done_all_failed ps : forall b, pend_ids b ps = [] -> done_pres ps = [] -> all_failed ps.
Proof.
  induction ps as [|x r IH]; intros b Hp Hd i st Hi; [destruct i; discriminate|].
  destruct x; cbn in Hp, Hd; try discriminate.
  destruct i as [|i]; cbn in Hi; [inversion Hi; reflexivity|exact (IH (S b) Hp Hd i st Hi)].
Qed.

Lemma npend_upd ps : forall b pid, nth_error ps pid = Some PPend ->
  (length (pend_ids b (upd pid PFailed ps)) < length (pend_ids b ps))%nat.
Proof.
  induction ps as [|x r IH]; intros b pid H; [destruct pid; discriminate|].
  destruct pid as [|pid]; cbn in H.
  - inversion H; subst. cbn. lia.
  - specialize (IH (S b) pid H). destruct x; cbn; lia.
Qed.

Lemma pend_ids_hd ps b pid rest : pend_ids b ps = pid :: rest -> exists j, pid = (b + j)%nat /\ nth_error ps j = Some PPend.
Proof. intros H. apply (pend_ids_spec ps b pid). rewrite H. left; reflexivity. Qed.

Lemma cr_pay c s i x k a g :
  wreach true c s -> nth_error (lcs (pl s)) i = Some x -> l_pc x = PPay k a g -> CanResolve c s.
Proof.
  intros Hw Hx Hp. destruct (wreach_inv true c s Hw) as (_ & HC & _ & _).
  pose proof (ic_typed c s HC i x Hx) as Hty. rewrite Hp in Hty. cbn [pc_calls_ok] in Hty. destruct Hty as (am & mf & md & (st & Hk & Hlive)).
  set (q := QPay (li_blob (l_info x)) am mf md (retry_for c)) in *.
  (* the answer to the pay request is there: deliver it *)
  assert (Repl : forall s2 y, wreach true c s2 -> pl s2 = pl s -> nth_error (calls s2) k = Some {| c_rpc := q; c_st := Replied y |} -> CanResolve c s2).
  { intros s2 y Hw2 Hpl Hk2.
    assert (Hx2 : nth_error (lcs (pl s2)) i = Some x) by (rewrite Hpl; exact Hx).
    apply (cr_deliver_then c s2 i x k _ _ Hw2 Hx2 ltac:(rewrite Hp; left; reflexivity) Hk2 eq_refl).
    intros sh s3 Hsh Hs3 Hw3. rewrite Hp in Hsh. unfold lc_shape in Hsh. rewrite Nat.eqb_refl in Hsh. cbn [negb] in Hsh.
    destruct (after_adv (with_calls s2 (set_status k Delivered (calls s2))) i
                (adv_of c (l_info x) (length (calls s2)) (height s2) (now s2) (entry_ (pl s2)) true (next_att (pl s2)) sh) x Hx2) as (Hl3 & He3 & _).
    rewrite <- Hs3 in Hl3, He3.
    destruct (pay_reply y); inversion Hsh; subst sh.
    - apply cr_done. rewrite He3. unfold shape_succeed, adv_of. apply resolve_entry_none.
    - apply cr_done. rewrite He3. unfold shape_pay_failed, adv_of. apply resolve_entry_none.
    - cbn [adv_of a_pc] in Hl3. eapply (cr_wait c (AfterPay a g)); [intros ? ? ? E; discriminate E|exact Hw3|exact Hl3|reflexivity]. }
  (* the pay command runs: its pending parts resolve, then it ends *)
  assert (Run : forall n s1, length (pend_ids 0 (parts (nd s1))) = n -> wreach true c s1 -> pl s1 = pl s ->
                  nth_error (calls s1) k = Some {| c_rpc := q; c_st := Running |} -> CanResolve c s1).
  { induction n as [n IH] using lt_wf_ind. intros s1 Hn Hw1 Hpl Hk1.
    assert (Fin : forall o, ev_wf true s1 (EvPayFinish k o) -> CanResolve c s1).
    { intros o Hwf. apply (cr_step c s1 (EvPayFinish k o) Hwf ltac:(discriminate)).
      apply (Repl _ (YPay o) (wr_step true c s1 _ Hw1 Hwf)); cbn [step]; rewrite Hk1; unfold q; cbn [fst pl calls]; [exact Hpl|].
      exact (nth_set_status_same _ _ _ _ Hk1). }
    destruct (done_pres (parts (nd s1))) as [|p dl] eqn:Ed.
    - destruct (pend_ids 0 (parts (nd s1))) as [|pid rest] eqn:Ep.
      + apply (Fin PayFailed). cbn. exact (no_pend_no_done_all_failed _ 0%nat Ep Ed).
      + destruct (pend_ids_hd _ _ _ _ Ep) as (j & -> & Hj). cbn in Hj.
        apply (cr_step c s1 (EvPart j PFailed) I ltac:(discriminate)).
        assert (Es : fst (step c s1 (EvPart j PFailed)) = with_nd s1 (set_parts (nd s1) (upd j PFailed (parts (nd s1))))) by (cbn [step]; rewrite Hj; reflexivity).
        apply (IH (length (pend_ids 0 (parts (nd (fst (step c s1 (EvPart j PFailed)))))))).
        * rewrite Es. cbn [with_nd nd set_parts parts]. rewrite <- Hn, <- Ep. apply npend_upd. exact Hj.
        * reflexivity.
        * exact (wr_step true c s1 (EvPart j PFailed) Hw1 I).
        * rewrite Es. exact Hpl.
        * rewrite Es. exact Hk1.
    - apply (Fin (PayComplete p)). cbn. apply done_pres_spec. rewrite Ed. left; reflexivity. }
  destruct st as [| |y| | |].
  - (* unprocessed: the node starts the pay command *)
    assert (Hwf : ev_wf true s (EvProcess k NoFault)) by (left; reflexivity).
    apply (cr_step c s (EvProcess k NoFault) Hwf ltac:(discriminate)).
    destruct (process_effect c s k _ Hk eq_refl) as (Hpl & _ & st' & Hcalls & Hst' & _). cbn [c_rpc] in Hst'. unfold q in Hst'. cbn in Hst'. subst st'.
    apply (Run _ _ eq_refl (wr_step true c s _ Hw Hwf) Hpl). rewrite Hcalls. exact (nth_set_status_same _ _ _ _ Hk).
  - exact (Run _ s eq_refl Hw eq_refl Hk).
  - exact (Repl s y Hw eq_refl Hk).
  - exfalso. destruct Hlive as [L|[L|(? & L)]]; discriminate.
  - exfalso. destruct Hlive as [L|[L|(? & L)]]; discriminate.
  - exfalso. destruct Hlive as [L|[L|(? & L)]]; discriminate.
Qed.

(* ---------- the write-ahead steps before the pay request ---------- *)
Lemma cr_add2 c s i x k a g am mf md :
  wreach true c s -> nth_error (lcs (pl s)) i = Some x -> l_pc x = PAdd2 k a g am mf md -> CanResolve c s.
Proof.
  intros Hw Hx Hp. destruct (wreach_inv true c s Hw) as (_ & HC & _ & _).
  pose proof (ic_typed c s HC i x Hx) as Hty. rewrite Hp in Hty. cbn [pc_calls_ok] in Hty.
  apply (cr_single c s k _ Hw Hty I). intros s2 y Hw2 Hpl _ Hk2.
  assert (Hx2 : nth_error (lcs (pl s2)) i = Some x) by (rewrite Hpl; exact Hx).
  apply (cr_deliver_then c s2 i x k _ _ Hw2 Hx2 ltac:(rewrite Hp; left; reflexivity) Hk2 eq_refl).
  intros sh s3 Hsh Hs3 Hw3. rewrite Hp in Hsh. unfold lc_shape in Hsh. rewrite Nat.eqb_refl in Hsh. cbn [negb] in Hsh.
  destruct (after_adv (with_calls s2 (set_status k Delivered (calls s2))) i
              (adv_of c (l_info x) (length (calls s2)) (height s2) (now s2) (entry_ (pl s2)) true (next_att (pl s2)) sh) x Hx2) as (Hl3 & He3 & _).
  rewrite <- Hs3 in Hl3, He3.
  destruct y; inversion Hsh; subst sh; try (apply cr_done; rewrite He3; unfold adv_of; apply resolve_entry_none).
  cbn [adv_of a_pc] in Hl3. eapply cr_pay; [exact Hw3|exact Hl3|reflexivity].
Qed.

Lemma cr_add1 c s i x k a am mf md :
  wreach true c s -> nth_error (lcs (pl s)) i = Some x -> l_pc x = PAdd1 k a am mf md -> CanResolve c s.
Proof.
  intros Hw Hx Hp. destruct (wreach_inv true c s Hw) as (_ & HC & _ & _).
  pose proof (ic_typed c s HC i x Hx) as Hty. rewrite Hp in Hty. cbn [pc_calls_ok] in Hty. destruct Hty as (t & Hty).
  apply (cr_single c s k _ Hw Hty I). intros s2 y Hw2 Hpl _ Hk2.
  assert (Hx2 : nth_error (lcs (pl s2)) i = Some x) by (rewrite Hpl; exact Hx).
  apply (cr_deliver_then c s2 i x k _ _ Hw2 Hx2 ltac:(rewrite Hp; left; reflexivity) Hk2 eq_refl).
  intros sh s3 Hsh Hs3 Hw3. rewrite Hp in Hsh. unfold lc_shape in Hsh. rewrite Nat.eqb_refl in Hsh. cbn [negb] in Hsh.
  destruct (after_adv (with_calls s2 (set_status k Delivered (calls s2))) i
              (adv_of c (l_info x) (length (calls s2)) (height s2) (now s2) (entry_ (pl s2)) true (next_att (pl s2)) sh) x Hx2) as (Hl3 & He3 & _).
  rewrite <- Hs3 in Hl3, He3.
  destruct y; inversion Hsh; subst sh; try (apply cr_done; rewrite He3; unfold adv_of; apply resolve_entry_none).
  cbn [adv_of a_pc] in Hl3. eapply cr_add2; [exact Hw3|exact Hl3|reflexivity].
Qed.

(* ---------- going to the select! ---------- *)
Lemma enter_select_cases c li base hgt tnow d e sel na :
  let a := enter_select c li base hgt tnow d e sel na in
  a_entry a = None \/ (exists d', a_pc a = PSelect d') \/ (exists k a0 am mf md, a_pc a = PAdd1 k a0 am mf md).
Proof.
  unfold enter_select. destruct (d =? 0); [left; apply resolve_entry_none|].
  unfold select_poll, go_pay, stay. destruct e as [en|]; [|left; reflexivity].
  destruct (rdy_q en); destruct (fail_q en); try destruct sel; cbn [a_entry a_pc]; eauto 10; left; apply resolve_entry_none.
Qed.

Lemma cr_after_select c s3 i y e3 a :
  wreach true c s3 -> nth_error (lcs (pl s3)) i = Some (set_pc y (a_pc a)) -> entry_ (pl s3) = a_entry a ->
  (a_entry a = None \/ (exists d', a_pc a = PSelect d') \/ (exists k a0 am mf md, a_pc a = PAdd1 k a0 am mf md)) ->
  e3 = a_entry a -> CanResolve c s3.
Proof.
  intros Hw Hl He [Hn|[(d' & Hd)|(k & a0 & am & mf & md & Ha)]] _.
  - apply cr_done. rewrite He. exact Hn.
  - eapply cr_select; [exact Hw|exact Hl|exact Hd].
  - eapply cr_add1; [exact Hw|exact Hl|exact Ha].
Qed.

(* ---------- the restart path: mark_failed ---------- *)
Lemma cr_markf2 c s i x k a g t :
  wreach true c s -> nth_error (lcs (pl s)) i = Some x -> l_pc x = PMarkF2 k a g t -> CanResolve c s.
Proof.
  intros Hw Hx Hp. destruct (wreach_inv true c s Hw) as (_ & HC & _ & _).
  pose proof (ic_typed c s HC i x Hx) as Hty. rewrite Hp in Hty. cbn [pc_calls_ok] in Hty.
  apply (cr_single c s k _ Hw Hty I). intros s2 y Hw2 Hpl _ Hk2.
  assert (Hx2 : nth_error (lcs (pl s2)) i = Some x) by (rewrite Hpl; exact Hx).
  apply (cr_deliver_then c s2 i x k _ _ Hw2 Hx2 ltac:(rewrite Hp; left; reflexivity) Hk2 eq_refl).
  intros sh s3 Hsh Hs3 Hw3. rewrite Hp in Hsh. unfold lc_shape in Hsh. rewrite Nat.eqb_refl in Hsh. cbn [negb] in Hsh.
  destruct (after_adv (with_calls s2 (set_status k Delivered (calls s2))) i
              (adv_of c (l_info x) (length (calls s2)) (height s2) (now s2) (entry_ (pl s2)) true (next_att (pl s2)) sh) x Hx2) as (Hl3 & He3 & _).
  rewrite <- Hs3 in Hl3, He3.
  destruct y; inversion Hsh; subst sh; try (apply cr_done; rewrite He3; unfold adv_of; apply resolve_entry_none).
  cbn [adv_of] in Hl3, He3. eapply cr_after_select; [exact Hw3|exact Hl3|exact He3|apply enter_select_cases|reflexivity].
Qed.

Lemma cr_markf1 c s i x k a g t :
  wreach true c s -> nth_error (lcs (pl s)) i = Some x -> l_pc x = PMarkF1 k a g t -> CanResolve c s.
Proof.
  intros Hw Hx Hp. destruct (wreach_inv true c s Hw) as (_ & HC & _ & _).
  pose proof (ic_typed c s HC i x Hx) as Hty. rewrite Hp in Hty. cbn [pc_calls_ok] in Hty.
  apply (cr_single c s k _ Hw Hty I). intros s2 y Hw2 Hpl _ Hk2.
  assert (Hx2 : nth_error (lcs (pl s2)) i = Some x) by (rewrite Hpl; exact Hx).
  apply (cr_deliver_then c s2 i x k _ _ Hw2 Hx2 ltac:(rewrite Hp; left; reflexivity) Hk2 eq_refl).
  intros sh s3 Hsh Hs3 Hw3. rewrite Hp in Hsh. unfold lc_shape in Hsh. rewrite Nat.eqb_refl in Hsh. cbn [negb] in Hsh.
  destruct (after_adv (with_calls s2 (set_status k Delivered (calls s2))) i
              (adv_of c (l_info x) (length (calls s2)) (height s2) (now s2) (entry_ (pl s2)) true (next_att (pl s2)) sh) x Hx2) as (Hl3 & He3 & _).
  rewrite <- Hs3 in Hl3, He3.
  destruct y; inversion Hsh; subst sh; try (apply cr_done; rewrite He3; unfold adv_of; apply resolve_entry_none).
  cbn [adv_of a_pc] in Hl3. eapply cr_markf2; [exact Hw3|exact Hl3|reflexivity].
Qed.

(* ---------- the start of a lifecycle ---------- *)
Lemma cr_fetch c s i x k :
  wreach true c s -> nth_error (lcs (pl s)) i = Some x -> l_pc x = PFetch k -> CanResolve c s.
Proof.
  intros Hw Hx Hp. destruct (wreach_inv true c s Hw) as (_ & HC & _ & _).
  pose proof (ic_typed c s HC i x Hx) as Hty. rewrite Hp in Hty. cbn [pc_calls_ok] in Hty.
  apply (cr_single c s k _ Hw Hty I). intros s2 y Hw2 Hpl _ Hk2.
  assert (Hx2 : nth_error (lcs (pl s2)) i = Some x) by (rewrite Hpl; exact Hx).
  apply (cr_deliver_then c s2 i x k _ _ Hw2 Hx2 ltac:(rewrite Hp; left; reflexivity) Hk2 eq_refl).
  intros sh s3 Hsh Hs3 Hw3. rewrite Hp in Hsh. unfold lc_shape in Hsh. rewrite Nat.eqb_refl in Hsh. cbn [negb] in Hsh.
  destruct (after_adv (with_calls s2 (set_status k Delivered (calls s2))) i
              (adv_of c (l_info x) (length (calls s2)) (height s2) (now s2) (entry_ (pl s2)) true (next_att (pl s2)) sh) x Hx2) as (Hl3 & He3 & _).
  rewrite <- Hs3 in Hl3, He3.
  assert (Sel : forall d, sh = LSelect d -> CanResolve c s3).
  { intros d ->. cbn [adv_of] in Hl3, He3. eapply cr_after_select; [exact Hw3|exact Hl3|exact He3|apply enter_select_cases|reflexivity]. }
  destruct y as [[[[|a t|pr|] g]|]| | | | | | | |]; inversion Hsh; subst sh;
    try (eapply Sel; reflexivity); try (apply cr_done; rewrite He3; unfold adv_of; apply resolve_entry_none).
  cbn [adv_of a_pc wait_start fst] in Hl3.
  eapply (cr_wait c (AfterRestart a g t)); [|exact Hw3|exact Hl3|reflexivity].
  intros a' g' t' E s' i' x' k' Hw' Hx' Hp'. eapply cr_markf1; eauto.
Qed.

(* ---------- no reachable state is a trap ---------- *)
Theorem can_always_resolve c s : wreach true c s -> CanResolve c s.
Proof.
  intros Hw. destruct (entry_ (pl s)) as [e|] eqn:He; [|apply cr_done; exact He].
  pose proof (wreach_U true c s Hw) as HU. unfold InvU in HU. rewrite He in HU.
  destruct (n_att_exists (lcs (pl s)) ltac:(lia)) as (i & x & Hx & Ax).
  destruct (wreach_no_panic true c s eq_refl Hw) as (Hnp & _).
  destruct (l_pc x) as [k1|kk w|k1 a g t|k1 a g t|d|k1 a am mf md|k1 a g am mf md|k1 a g|k1 a pr|k1 a|k1 a g|k1 a g| |] eqn:Hp; try discriminate.
  - eapply cr_fetch; eauto.
  - destruct kk as [a g t|a g].
    + eapply (cr_wait c (AfterRestart a g t)); [|exact Hw|exact Hx|exact Hp]. intros a' g' t' E s' i' x' k' Hw' Hx' Hp'. eapply cr_markf1; eauto.
    + eapply (cr_wait c (AfterPay a g)); [intros ? ? ? E; discriminate E|exact Hw|exact Hx|exact Hp].
  - eapply cr_markf1; eauto.
  - eapply cr_markf2; eauto.
  - eapply cr_select; eauto.
  - eapply cr_add1; eauto.
  - eapply cr_add2; eauto.
  - eapply cr_pay; eauto.
  - exfalso. exact (Hnp i x Hx Hp).
Qed.

(* ---------- ... and along that continuation every HTLC that was held IS answered ---------- *)
Inductive Answered (c : cfg) (u : N) : sys -> Prop :=
| an_now s ev r : ev_wf true s ev -> ev <> EvCrash -> In (OResp u r) (snd (step c s ev)) -> Answered c u s
| an_later s ev : ev_wf true s ev -> ev <> EvCrash -> Answered c u (fst (step c s ev)) -> Answered c u s.

Lemma fire_timers_keeps_or_answers : forall l e t l' e' o' en h,
  fire_timers l e t = (l', e', o') -> e = Some en -> In h (listeners en) ->
  e' = Some en \/ In (OResp (hid h) r_tramp_fail) o'.
Proof.
  induction l as [|z r IH]; intros e t l' e' o' en h H He Hh; unfold fire_timers in H; fold fire_timers in H.
  - inversion H; subst. left; reflexivity.
  - destruct (l_pc z);
      try (destruct (fire_timers r e t) as [[r' e1] o1] eqn:E2; inversion H; subst; exact (IH _ _ _ _ _ _ _ E2 eq_refl Hh)).
    destruct (deadline <=? t).
    + subst e. destruct (fire_timers r None t) as [[r' e1] o1]; inversion H; subst. right.
      apply in_or_app. left. unfold resolve_outs. apply in_map_iff. exists h. auto.
    + destruct (fire_timers r e t) as [[r' e1] o1] eqn:E2; inversion H; subst; exact (IH _ _ _ _ _ _ _ E2 eq_refl Hh).
Qed.

Lemma adv_keeps_or_answers c li base hgt tnow en sel na sh h :
  In h (listeners en) ->
  let a := adv_of c li base hgt tnow (Some en) sel na sh in
  (exists en', a_entry a = Some en' /\ In h (listeners en')) \/ (exists r, In (OResp (hid h) r) (a_out a)).
Proof.
  intros Hh. destruct sh as [p' new out cancel|r p' new cancel|d]; cbn [adv_of].
  - left. exists en. auto.
  - right. exists r. unfold do_resolve. cbn [a_out]. apply in_or_app. left. unfold resolve_outs. apply in_map_iff. exists h. auto.
  - unfold enter_select. destruct (d =? 0).
    + right. exists r_tramp_fail. unfold do_resolve. cbn [a_out]. apply in_or_app. left. unfold resolve_outs. apply in_map_iff. exists h. auto.
    + destruct (select_poll_held_or_answered c li base hgt tnow (tnow + d) en sel na) as [(en' & He' & Hl)|(r & Hr)].
      * left. exists en'. rewrite Hl. auto.
      * right. exists r. exact (Hr h Hh).
Qed.

Lemma step_keeps_or_answers c s ev en h :
  ev <> EvCrash -> entry_ (pl s) = Some en -> In h (listeners en) ->
  (exists en', entry_ (pl (fst (step c s ev))) = Some en' /\ In h (listeners en')) \/
  (exists r, In (OResp (hid h) r) (snd (step c s ev))).
Proof.
  intros Hnc He Hh.
  assert (Same : forall s', entry_ (pl s') = entry_ (pl s) -> exists en', entry_ (pl s') = Some en' /\ In h (listeners en')) by (intros s' E; exists en; rewrite E; auto).
  destruct ev; cbn [step]; try (left; apply Same; reflexivity); try congruence.
  - rewrite He. left. eexists. split; [reflexivity|]. rewrite e_handle_listeners. right. exact Hh.
  - destruct (find_select 0 (lcs (pl s))) as [[[i d] li]|]; [|left; apply Same; reflexivity].
    rewrite He. destruct (select_poll_held_or_answered c li (length (calls s)) (height s) (now s) d en sel (next_att (pl s))) as [(en' & He' & Hl)|(r & Hr)].
    + left. exists en'. unfold apply_adv. cbn [fst pl entry_]. rewrite Hl. auto.
    + right. exists r. unfold apply_adv. cbn [snd]. apply in_or_app. left. exact (Hr h Hh).
  - destruct (nth_error (calls s) cid) as [cl|]; [|left; apply Same; reflexivity]. destruct (c_st cl); try (left; apply Same; reflexivity).
    destruct (node_exec (nd s) (c_rpc cl) f). left; apply Same; reflexivity.
  - destruct (nth_error (calls s) cid) as [cl|]; [|left; apply Same; reflexivity]. destruct (c_st cl); try (left; apply Same; reflexivity).
    destruct (find_owner c 0 (lcs (pl s)) cid y sel (entry_ (pl s)) (length (calls s)) (height s) (now s) (next_att (pl s))) as [[i a]|] eqn:Hf; [|left; apply Same; reflexivity].
    destruct (find_owner_spec _ _ _ _ _ _ _ _ _ _ _ _ _ Hf) as (x & Hx & _ & Hd).
    rewrite lc_deliver_shape in Hd. destruct (lc_shape c (l_info x) (length (calls s)) (now s) (l_pc x) cid y) as [sh|]; [|discriminate].
    cbn [option_map] in Hd. inversion Hd; subst a. rewrite He.
    destruct (adv_keeps_or_answers c (l_info x) (length (calls s)) (height s) (now s) en sel (next_att (pl s)) sh h Hh) as [(en' & He' & Hl)|(r & Hr)].
    + left. exists en'. unfold apply_adv. cbn [fst pl entry_]. auto.
    + right. exists r. unfold apply_adv. cbn [snd]. apply in_or_app. left. exact Hr.
  - destruct (nth_error (parts (nd s)) pid) as [[]|], st; left; apply Same; reflexivity.
  - destruct (nth_error (calls s) cid) as [[q st]|]; [|left; apply Same; reflexivity]. destruct q; try (left; apply Same; reflexivity). destruct st; left; apply Same; reflexivity.
  - destruct (nth_error (calls s) cid) as [[q st]|]; [|left; apply Same; reflexivity]. destruct q; try (left; apply Same; reflexivity). destruct st; left; apply Same; reflexivity.
  - destruct (fire_timers (lcs (pl s)) (entry_ (pl s)) (now s + dt)) as [[l' e'] o'] eqn:Hf. cbn [fst snd pl entry_].
    destruct (fire_timers_keeps_or_answers _ _ _ _ _ _ en h Hf He Hh) as [->|H]; [left; eauto|right; eauto].
Qed.

Theorem held_htlc_is_answered c s en h :
  wreach true c s -> entry_ (pl s) = Some en -> In h (listeners en) -> Answered c (hid h) s.
Proof.
  intros Hw. pose proof (can_always_resolve c s Hw) as Hcr. clear Hw. revert en.
  induction Hcr as [s Hn|s ev Hwf Hnc _ IH]; intros en He Hh; [congruence|].
  destruct (step_keeps_or_answers c s ev en h Hnc He Hh) as [(en' & He' & Hh')|(r & Hr)].
  - apply (an_later c (hid h) s ev Hwf Hnc). exact (IH en' He' Hh').
  - exact (an_now c (hid h) s ev r Hwf Hnc Hr).
Qed.

(* ---------- C02, last clause: once the outgoing payment has completed, the held HTLCs are SETTLED ---------- *)
Lemma wreach_F c s : wreach true c s -> InvF s.
Proof.
  induction 1 as [n t0 h0 a0 _|s ev Hw IH _]; [intros e He; discriminate|].
  destruct (wreach_inv true c s Hw) as (Hr & _). destruct (reachable_inv c s Hr) as (HU & HE & _). apply step_InvF; assumption.
Qed.

Lemma lc_shape_resolve_kind c li base tnow p cid y r p' new cn :
  lc_shape c li base tnow p cid y = Some (LResolve r p' new cn) -> (exists m, r = Fail m) \/ (exists pr, r = Resolve pr).
Proof.
  destruct p as [k1|kk w|k1 a g t|k1 a g t|d|k1 a am mf md|k1 a g am mf md|k1 a g|k1 a pr|k1 a|k1 a g|k1 a g| |];
    unfold lc_shape; try discriminate; try (destruct (negb (Nat.eqb k1 cid)); [discriminate|]).
  - destruct y as [[[[| | |] ?]|]| | | | | | | |]; intros H; inversion H; subst; unfold r_node_fail; eauto.
  - destruct (wait_deliver base w cid y) as [[w' nw|[pr| |] cn0]|]; try discriminate.
    + intros H; inversion H; subst. eauto.
    + destruct kk; intros H; inversion H; subst. unfold r_tramp_fail. eauto.
    + destruct kk; intros H; inversion H; subst. unfold r_tramp_fail. eauto.
  - destruct y; intros H; inversion H; subst; unfold r_node_fail; eauto.
  - destruct y; intros H; inversion H; subst; unfold r_node_fail; eauto.
  - destruct y; intros H; inversion H; subst; unfold r_node_fail; eauto.
  - destruct y; intros H; inversion H; subst; unfold r_node_fail; eauto.
  - destruct (pay_reply y); intros H; inversion H; subst; unfold r_tramp_fail; eauto.
  - destruct y; discriminate.
  - discriminate.
  - destruct y; discriminate.
  - discriminate.
Qed.

(* the plugin answers a held trampoline HTLC with a failure or a settle, never with "continue" *)
Lemma resp_kind c s ev u r :
  InvF s -> In (OResp u r) (snd (step c s ev)) -> (exists m, r = Fail m) \/ (exists p, r = Resolve p).
Proof.
  intros HF Hin. destruct ev; cbn [step] in Hin; try (destruct Hin; fail).
  - destruct (entry_ (pl s)); [destruct Hin|destruct Hin as [Hin|[]]; discriminate].
  - destruct (find_select 0 (lcs (pl s))) as [[[i d] li]|]; [|destruct Hin].
    apply apply_adv_resp_in in Hin. left. exact (select_poll_resp _ _ _ _ _ _ _ _ _ _ _ HF Hin).
  - destruct (nth_error (calls s) cid) as [cl|]; [|destruct Hin]. destruct (c_st cl); try (destruct Hin; fail).
    destruct (node_exec (nd s) (c_rpc cl) f). destruct Hin.
  - destruct (nth_error (calls s) cid) as [cl|]; [|destruct Hin]. destruct (c_st cl); try (destruct Hin; fail).
    destruct (find_owner c 0 (lcs (pl s)) cid y sel (entry_ (pl s)) (length (calls s)) (height s) (now s) (next_att (pl s))) as [[i a]|] eqn:Hf; [|destruct Hin].
    destruct (find_owner_spec _ _ _ _ _ _ _ _ _ _ _ _ _ Hf) as (x & Hx & _ & Hd).
    apply apply_adv_resp_in in Hin. rewrite lc_deliver_shape in Hd.
    destruct (lc_shape c (l_info x) (length (calls s)) (now s) (l_pc x) cid y) as [sh|] eqn:Hsh; [|discriminate].
    cbn [option_map] in Hd. inversion Hd; subst a; clear Hd.
    destruct sh as [p' new out cancel|r0 p' new cancel|d]; cbn [adv_of] in Hin.
    + exfalso. cbn in Hin. pose proof (lc_shape_keep_out _ _ _ _ _ _ _ _ _ _ _ Hsh) as Hk.
      assert (In (OResp u r) (resps out)) by (unfold resps; apply filter_In; split; [exact Hin|reflexivity]). rewrite Hk in H. destruct H.
    + apply do_resolve_resp in Hin. subst r0. exact (lc_shape_resolve_kind _ _ _ _ _ _ _ _ _ _ _ Hsh).
    + left. exact (enter_select_resp _ _ _ _ _ _ _ _ _ _ _ HF Hin).
  - destruct (nth_error (parts (nd s)) pid) as [[]|], st; destruct Hin.
  - destruct (nth_error (calls s) cid) as [[q st]|]; [|destruct Hin]. destruct q; try (destruct Hin; fail). destruct st; destruct Hin.
  - destruct (nth_error (calls s) cid) as [[q st]|]; [|destruct Hin]. destruct q; try (destruct Hin; fail). destruct st; destruct Hin.
  - destruct (fire_timers (lcs (pl s)) (entry_ (pl s)) (now s + dt)) as [[l' e'] o'] eqn:Hf. cbn in Hin.
    left. rewrite (fire_timers_resp _ _ _ _ _ _ _ _ Hf Hin). unfold r_tramp_fail. eauto.
Qed.

Inductive Settled (c : cfg) (u : N) : sys -> Prop :=
| se_now s ev p : ev_wf true s ev -> ev <> EvCrash -> In (OResp u (Resolve p)) (snd (step c s ev)) -> Settled c u s
| se_later s ev : ev_wf true s ev -> ev <> EvCrash -> Settled c u (fst (step c s ev)) -> Settled c u s.

Theorem completed_is_settled c s en h p0 :
  wreach true c s -> has_done p0 (parts (nd s)) -> entry_ (pl s) = Some en -> In h (listeners en) -> Settled c (hid h) s.
Proof.
  intros Hw. pose proof (can_always_resolve c s Hw) as Hcr. revert Hw en.
  induction Hcr as [s Hn|s ev Hwf Hnc _ IH]; intros Hw en Hd He Hh; [congruence|].
  destruct (step_keeps_or_answers c s ev en h Hnc He Hh) as [(en' & He' & Hh')|(r & Hr)].
  - apply (se_later c (hid h) s ev Hwf Hnc). exact (IH (wr_step true c s ev Hw Hwf) en' (has_done_step c s ev p0 Hd) He' Hh').
  - destruct (resp_kind c s ev (hid h) r (wreach_F c s Hw) Hr) as [(m & ->)|(p & ->)].
    + exfalso. destruct (fail_only_when_quiet true c s ev (hid h) m eq_refl Hw Hr) as (Haf & _). exact (has_done_not_all_failed p0 _ Hd Haf).
    + exact (se_now c (hid h) s ev p Hwf Hnc Hr).
Qed.
