(* SysTerm.v — no internal divergence in Model/Sys.v. Between two events of the environment (an HTLC arriving, time passing, the
   pay command or a part making progress, a new block, a crash) the plugin and the node can only take a bounded number of
   state-changing steps (the node answering an RPC, a reply reaching its lifecycle, a lifecycle polling its queues): a potential
   — stage weight of every lifecycle plus the weight of every outstanding call — strictly decreases at each of them.
   Together with C06_never_stuck (a held set always has a lifecycle waiting for its timer or for live calls) and the liveness
   theorems of SysLive.v this excludes the remaining way of never answering: chattering for ever. *)
From Tramp Require Import Model.Base Model.Fee Model.Classify Model.Node Model.Provider Model.Sys.
From Tramp Require Import Proofs.SysBasics Proofs.EntryProofs Proofs.SysEntry Proofs.SysShape Proofs.SysTheorems Proofs.SysReach Proofs.SysCalls Proofs.ProviderProofs.
From Tramp Require Import Proofs.SysNode Proofs.SysSafety Proofs.SysLive.
From Coq Require Import ZifyBool ZifyNat ZifyN.

Definition callw3 (cl : call) : nat := match c_st cl with Unprocessed => 3 | Running => 2 | Replied _ => 1 | _ => 0 end.
Definition W3 (cs : list call) : nat := fold_right (fun c acc => callw3 c + acc)%nat 0%nat cs.
Definition npend (ps : list pstat) : nat := length (filter (fun p => match p with PPend => true | _ => false end) ps).

Definition wstage (cs : list call) (P : nat) (ws : waitst) : nat :=
  match ws with
  | WListP k => 3 + 3 * match nth_error cs k with
                        | Some {| c_rpc := _; c_st := Replied (YPids l) |} => length l
                        | _ => P
                        end
  | WListD _ l => 3 * length l
  | WParts _ => 0
  end.

Definition rank (cs : list call) (P : nat) (p : pc) : nat :=
  match p with
  | PEnd | PPanicked | PMS2 _ _ | PMFp2 _ _ _ => 0
  | PMS1 _ _ _ | PMFp1 _ _ _ => 3
  | PWait (AfterPay _ _) ws => 6 + wstage cs P ws
  | PPay _ _ _ => 12 + 3 * P
  | PAdd2 _ _ _ _ _ _ => 15 + 3 * P
  | PAdd1 _ _ _ _ _ => 18 + 3 * P
  | PSelect _ => 22 + 3 * P
  | PMarkF2 _ _ _ _ => 22 + 3 * P
  | PMarkF1 _ _ _ _ => 25 + 3 * P
  | PWait (AfterRestart _ _ _) ws => 28 + 3 * P + wstage cs P ws
  | PFetch _ => 34 + 6 * P
  end.

Definition ranks (cs : list call) (P : nat) (l : list lc) : nat := fold_right (fun x acc => rank cs P (l_pc x) + acc)%nat 0%nat l.
Definition phi (s : sys) : nat := (ranks (calls s) (npend (parts (nd s))) (lcs (pl s)) + W3 (calls s))%nat.

Definition internal (ev : event) : bool :=
  match ev with EvProcess _ _ | EvDeliver _ _ | EvPoll _ => true | _ => false end.
Definition seffective (c : cfg) (s : sys) (ev : event) : Prop := fst (step c s ev) <> s.

(* ---------- the lifecycle machine alone: what a delivery costs ---------- *)
(* the calls after the delivery: cid delivered, the awaited calls that are given up cancelled, the new ones appended *)
Definition cs_after (cs : list call) (cid : nat) (a : adv) : list call :=
  cancel_calls (a_cancel a) (set_status cid Delivered cs) ++ mk_calls (a_new a).

Lemma rank_fresh_waitP (cs cs' : list call) P kk : nth_error cs' (length cs) = Some {| c_rpc := QListPend; c_st := Unprocessed |} ->
  rank cs' P (PWait kk (WListP (length cs))) = match kk with AfterPay _ _ => 9 + 3 * P | AfterRestart _ _ _ => 31 + 6 * P end%nat.
Proof. intros H. destruct kk; cbn [rank wstage]; rewrite H; lia. Qed.

Lemma do_resolve_rank cs' P e r p qs extra cancel na :
  (rank cs' P (a_pc (do_resolve e r p qs extra cancel na)) + 3 * length (a_new (do_resolve e r p qs extra cancel na)) <= rank cs' P p + 3 * length qs)%nat.
Proof. unfold do_resolve. destruct e; cbn [a_pc a_new rank length]; lia. Qed.

Section Costs.
Variable c : cfg.
Variable li : linfo.
Variable base : nat.
Variable hgt tnow : N.
Variable cs' : list call.
Variable P : nat.
Notation cost a := (rank cs' P (a_pc a) + 3 * length (a_new a))%nat.

Lemma go_pay_cost e na : (cost (go_pay c li base hgt tnow e na) <= 21 + 3 * P)%nat.
Proof. unfold go_pay. destruct e; cbn [panicked a_pc a_new rank length]; lia. Qed.

Lemma do_resolve_cost e r p qs extra cancel na : (cost (do_resolve e r p qs extra cancel na) <= rank cs' P p + 3 * length qs)%nat.
Proof. unfold do_resolve. destruct e; cbn [a_pc a_new rank length]; lia. Qed.

Lemma select_poll_cost d e sel na : (cost (select_poll c li base hgt tnow d e sel na) <= 22 + 3 * P)%nat.
Proof.
  unfold select_poll. destruct e as [en|]; [|cbn [stay a_pc a_new rank length]; lia].
  destruct (rdy_q en), (fail_q en) as [r|].
  - destruct sel; [etransitivity; [apply go_pay_cost|lia]|etransitivity; [apply do_resolve_cost|cbn [rank length]; lia]].
  - etransitivity; [apply go_pay_cost|lia].
  - etransitivity; [apply do_resolve_cost|cbn [rank length]; lia].
  - cbn [stay a_pc a_new rank length]; lia.
Qed.

Lemma enter_select_cost d e sel na : (cost (enter_select c li base hgt tnow d e sel na) <= 22 + 3 * P)%nat.
Proof.
  unfold enter_select. destruct (d =? 0).
  - etransitivity; [apply do_resolve_cost|cbn [rank length]; lia].
  - apply select_poll_cost.
Qed.

Lemma succeed_cost e a p cancel na : (cost (succeed base e a p cancel na) <= 6)%nat.
Proof. unfold succeed. etransitivity; [apply do_resolve_cost|cbn [rank length]; lia]. Qed.
Lemma pay_failed_cost e a g cancel na : (cost (pay_failed li base e a g cancel na) <= 6)%nat.
Proof. unfold pay_failed. etransitivity; [apply do_resolve_cost|cbn [rank length]; lia]. Qed.

Lemma wait_some_cost k e p cancel na : (cost (wait_some base k e p cancel na) <= 6)%nat.
Proof. unfold wait_some. destruct k; apply succeed_cost. Qed.
Lemma wait_none_cost k e na : (cost (wait_none li base k e na) <= match k with AfterRestart _ _ _ => 28 + 3 * P | AfterPay _ _ => 6 end)%nat.
Proof. unfold wait_none. destruct k; [cbn [a_pc a_new rank length]; lia|apply pay_failed_cost]. Qed.
Lemma wait_err_cost k e cancel na : (cost (wait_err li base k e cancel na) <= 6)%nat.
Proof. unfold wait_err. destruct k; [cbn [a_pc a_new rank length]; lia|apply pay_failed_cost]. Qed.
End Costs.

Lemma set_status_len cid st cs : length (set_status cid st cs) = length cs.
Proof. apply set_status_length. Qed.

Lemma cs_after_fresh cs cid a q : a_cancel a = [] -> a_new a = [q] ->
  nth_error (cs_after cs cid a) (length cs) = Some {| c_rpc := q; c_st := Unprocessed |}.
Proof.
  intros Hc Hn. unfold cs_after. rewrite Hc, Hn. cbn [cancel_calls fold_left mk_calls map].
  rewrite nth_error_app2 by (rewrite set_status_len; lia). rewrite set_status_len, Nat.sub_diag. reflexivity.
Qed.

(* delivering the reply of call cid to the lifecycle at [p]: the new stage plus the weight of the calls it issues fits in the old stage *)
Lemma lc_deliver_rank c li cs hgt tnow p cid y sel e na a q P :
  nth_error cs cid = Some {| c_rpc := q; c_st := Replied y |} ->
  lc_deliver c li (length cs) hgt tnow p cid y sel e na = Some a ->
  (rank (cs_after cs cid a) P (a_pc a) + 3 * length (a_new a) <= rank cs P p)%nat.
Proof.
  intros Hc Hd.
  destruct p as [k|kk ws|k a0 g t|k a0 g t|d|k a0 am mf md|k a0 g am mf md|k a0 g|k a0 pr|k a0|k a0 g|k a0 g| |]; unfold lc_deliver in Hd; try discriminate.
  - (* PFetch *)
    destruct (negb (Nat.eqb k cid)); [discriminate|]. inversion Hd as [Ha]; clear Hd; try subst a. cbn [rank].
    destruct y as [[[[|a1 t1|pr1|] g1]|]| | | | | | | |];
      try (etransitivity; [apply enter_select_cost|lia]);
      try (etransitivity; [apply do_resolve_cost|cbn [rank length]; lia]).
    (* Pending: start_wait *)
    unfold start_wait. cbn [a_pc a_new wait_start fst snd length].
    rewrite (rank_fresh_waitP cs); [lia|]. apply cs_after_fresh; reflexivity.
  - (* PWait *)
    destruct (wait_deliver (length cs) ws cid y) as [[ws' new|[pr| |] cancel]|] eqn:Ed; try discriminate; inversion Hd as [Ha]; clear Hd; try subst a.
    + (* WGo *)
      cbn [a_pc a_new].
      match goal with |- context [rank ?X P _] => assert (Hw : (wstage X P ws' + 3 * length new <= wstage cs P ws)%nat) end.
      { destruct ws as [k0|k0 l|aw]; cbn [wait_deliver] in Ed.
        - destruct (Nat.eqb_spec k0 cid) as [->|]; cbn [negb] in Ed; [|discriminate].
          destruct y; inversion Ed; subst. cbn [wstage length]. rewrite Hc. lia.
        - destruct (Nat.eqb_spec k0 cid) as [->|]; cbn [negb] in Ed; [|discriminate].
          destruct y as [| | | |[|p0 ps0]| | | |]; try (inversion Ed; fail). destruct l as [|x l']; inversion Ed; subst.
          cbn [wstage length]. rewrite map_length. lia.
        - destruct (negb (existsb (fun x => Nat.eqb (snd x) cid) aw)); [discriminate|].
          destruct y; try (inversion Ed; fail). destruct (filter _ aw) as [|x r]; inversion Ed; subst. cbn [wstage length]. lia. }
      cbn [a_pc a_new] in *. destruct kk; cbn [rank]; lia.
    + match goal with |- context [rank ?X P _] => pose proof (wait_some_cost (length cs) X P kk e pr cancel na) as X0 end. destruct kk; cbn [rank]; lia.
    + match goal with |- context [rank ?X P _] => pose proof (wait_none_cost li (length cs) X P kk e na) as X0 end. destruct kk; cbn [rank]; lia.
    + match goal with |- context [rank ?X P _] => pose proof (wait_err_cost li (length cs) X P kk e cancel na) as X0 end. destruct kk; cbn [rank]; lia.
  - (* PMarkF1 *)
    destruct (negb (Nat.eqb k cid)); [discriminate|]. inversion Hd as [Ha]; clear Hd; try subst a. cbn [rank].
    destruct y; try (etransitivity; [apply do_resolve_cost|cbn [rank length]; lia]). cbn [a_pc a_new rank length]. lia.
  - (* PMarkF2 *)
    destruct (negb (Nat.eqb k cid)); [discriminate|]. inversion Hd as [Ha]; clear Hd; try subst a. cbn [rank].
    destruct y; try (etransitivity; [apply do_resolve_cost|cbn [rank length]; lia]). etransitivity; [apply enter_select_cost|lia].
  - (* PAdd1 *)
    destruct (negb (Nat.eqb k cid)); [discriminate|]. inversion Hd as [Ha]; clear Hd; try subst a. cbn [rank].
    destruct y; try (etransitivity; [apply do_resolve_cost|cbn [rank length]; lia]). cbn [a_pc a_new rank length]. lia.
  - (* PAdd2 *)
    destruct (negb (Nat.eqb k cid)); [discriminate|]. inversion Hd as [Ha]; clear Hd; try subst a. cbn [rank].
    destruct y; try (etransitivity; [apply do_resolve_cost|cbn [rank length]; lia]). cbn [a_pc a_new rank length]. lia.
  - (* PPay *)
    destruct (negb (Nat.eqb k cid)); [discriminate|]. inversion Hd as [Ha]; clear Hd; try subst a. cbn [rank].
    destruct (pay_reply y).
    + etransitivity; [apply succeed_cost|lia].
    + etransitivity; [apply pay_failed_cost|lia].
    + unfold start_wait. cbn [a_pc a_new wait_start fst snd length].
      rewrite (rank_fresh_waitP cs); [lia|]. apply cs_after_fresh; reflexivity.
  - (* PMS1 *)
    destruct (negb (Nat.eqb k cid)); [discriminate|]. inversion Hd as [Ha]; clear Hd; try subst a. cbn [rank].
    destruct y; cbn [stay a_pc a_new rank length]; lia.
  - destruct (negb (Nat.eqb k cid)); [discriminate|]. inversion Hd as [Ha]; clear Hd; try subst a. cbn [stay a_pc a_new rank length]. lia.
  - destruct (negb (Nat.eqb k cid)); [discriminate|]. inversion Hd as [Ha]; clear Hd; try subst a. cbn [rank].
    destruct y; cbn [a_pc a_new rank length]; lia.
  - destruct (negb (Nat.eqb k cid)); [discriminate|]. inversion Hd as [Ha]; clear Hd; try subst a. cbn [a_pc a_new rank length]. lia.
Qed.

(* ---------- calls given up at a delivery are calls the lifecycle was awaiting ---------- *)
Lemma do_resolve_cancel e r p qs extra cancel na : a_cancel (do_resolve e r p qs extra cancel na) = cancel.
Proof. unfold do_resolve. destruct e; reflexivity. Qed.
Lemma go_pay_cancel c li base hgt tnow e na : a_cancel (go_pay c li base hgt tnow e na) = [].
Proof. unfold go_pay. destruct e; reflexivity. Qed.
Lemma select_poll_cancel c li base hgt tnow d e sel na : a_cancel (select_poll c li base hgt tnow d e sel na) = [].
Proof.
  unfold select_poll. destruct e as [en|]; [|reflexivity]. destruct (rdy_q en), (fail_q en); try destruct sel;
    rewrite ?go_pay_cancel, ?do_resolve_cancel; reflexivity.
Qed.
Lemma enter_select_cancel c li base hgt tnow d e sel na : a_cancel (enter_select c li base hgt tnow d e sel na) = [].
Proof. unfold enter_select. destruct (d =? 0); [apply do_resolve_cancel|apply select_poll_cancel]. Qed.

Lemma lc_deliver_cancel c li base hgt tnow p cid y sel e na a :
  lc_deliver c li base hgt tnow p cid y sel e na = Some a -> forall k, In k (a_cancel a) -> In k (awaits p) /\ k <> cid.
Proof.
  intros Hd k Hk.
  destruct p as [k0|kk ws|k0 a0 g t|k0 a0 g t|d|k0 a0 am mf md|k0 a0 g am mf md|k0 a0 g|k0 a0 pr|k0 a0|k0 a0 g|k0 a0 g| |]; unfold lc_deliver in Hd; try discriminate.
  - destruct (negb (Nat.eqb k0 cid)); [discriminate|]. inversion Hd; subst a. exfalso.
    destruct y as [[[[|a1 t1|pr1|] g1]|]| | | | | | | |]; rewrite ?enter_select_cancel, ?do_resolve_cancel in Hk; exact Hk.
  - destruct (wait_deliver base ws cid y) as [[ws' new|[pr| |] cancel]|] eqn:Ed; try discriminate; inversion Hd; subst a.
    + cbn in Hk. destruct Hk.
    + assert (a_cancel (wait_some base kk e pr cancel na) = cancel) as E by (unfold wait_some, succeed; destruct kk; apply do_resolve_cancel).
      rewrite E in Hk. exact (wait_deliver_cancel _ _ _ _ _ _ Ed kk k Hk).
    + assert (a_cancel (wait_none li base kk e na) = []) as E by (unfold wait_none, pay_failed; destruct kk; [reflexivity|apply do_resolve_cancel]).
      rewrite E in Hk. destruct Hk.
    + assert (In k cancel) as Hk'.
      { unfold wait_err, pay_failed in Hk. destruct kk; [exact Hk|rewrite do_resolve_cancel in Hk; exact Hk]. }
      exact (wait_deliver_cancel _ _ _ _ _ _ Ed kk k Hk').
  - destruct (negb (Nat.eqb k0 cid)); [discriminate|]. inversion Hd; subst a. exfalso. destruct y; rewrite ?do_resolve_cancel in Hk; exact Hk.
  - destruct (negb (Nat.eqb k0 cid)); [discriminate|]. inversion Hd; subst a. exfalso. destruct y; rewrite ?enter_select_cancel, ?do_resolve_cancel in Hk; exact Hk.
  - destruct (negb (Nat.eqb k0 cid)); [discriminate|]. inversion Hd; subst a. exfalso. destruct y; rewrite ?do_resolve_cancel in Hk; exact Hk.
  - destruct (negb (Nat.eqb k0 cid)); [discriminate|]. inversion Hd; subst a. exfalso. destruct y; rewrite ?do_resolve_cancel in Hk; exact Hk.
  - destruct (negb (Nat.eqb k0 cid)); [discriminate|]. inversion Hd; subst a. exfalso.
    destruct (pay_reply y); unfold succeed, pay_failed, start_wait in Hk; rewrite ?do_resolve_cancel in Hk; exact Hk.
  - destruct (negb (Nat.eqb k0 cid)); [discriminate|]. inversion Hd; subst a. exfalso. destruct y; exact Hk.
  - destruct (negb (Nat.eqb k0 cid)); [discriminate|]. inversion Hd; subst a. exfalso. exact Hk.
  - destruct (negb (Nat.eqb k0 cid)); [discriminate|]. inversion Hd; subst a. exfalso. destruct y; exact Hk.
  - destruct (negb (Nat.eqb k0 cid)); [discriminate|]. inversion Hd; subst a. exfalso. exact Hk.
Qed.

(* ---------- arithmetic of the call weights ---------- *)
Lemma W3_app a b : W3 (a ++ b) = (W3 a + W3 b)%nat.
Proof. induction a as [|x a IH]; [reflexivity|]. cbn [app]. unfold W3 in *. cbn [fold_right]. rewrite IH. lia. Qed.
Lemma W3_mk_calls qs : W3 (mk_calls qs) = (3 * length qs)%nat.
Proof. induction qs as [|q qs IH]; [reflexivity|]. unfold W3, mk_calls in *. cbn [map fold_right length]. rewrite IH. cbn. lia. Qed.
Lemma W3_upd cid cl cl' cs : nth_error cs cid = Some cl -> (W3 (upd cid cl' cs) + callw3 cl = W3 cs + callw3 cl')%nat.
Proof.
  revert cid; induction cs as [|x cs IH]; intros cid H; [destruct cid; discriminate|].
  destruct cid as [|cid]; cbn [nth_error] in H.
  - inversion H; subst. cbn [upd]. unfold W3. cbn [fold_right]. lia.
  - cbn [upd]. unfold W3 in *. cbn [fold_right]. specialize (IH cid H). lia.
Qed.
Lemma W3_set_status cid st cs cl : nth_error cs cid = Some cl ->
  (W3 (set_status cid st cs) + callw3 cl = W3 cs + callw3 {| c_rpc := c_rpc cl; c_st := st |})%nat.
Proof. intros H. unfold set_status. rewrite H. apply W3_upd. exact H. Qed.
Lemma W3_cancel ids : forall cs, (W3 (cancel_calls ids cs) <= W3 cs)%nat.
Proof.
  unfold cancel_calls. induction ids as [|i ids IH]; intros cs; cbn [fold_left]; [lia|].
  etransitivity; [apply IH|]. destruct (nth_error cs i) as [cl|] eqn:E.
  - pose proof (W3_set_status i Cancelled cs cl E) as H. unfold callw3 in H at 2. cbn [c_st] in H. lia.
  - unfold set_status. rewrite E. lia.
Qed.

(* ---------- ranks of the lifecycles that are not touched ---------- *)
(* the stage of a lifecycle reads the call list only at the pending-parts query it awaits *)
Lemma rank_same cs cs' P p : (forall k, In k (awaits p) -> nth_error cs' k = nth_error cs k) -> rank cs' P p = rank cs P p.
Proof.
  intros H. destruct p as [k|kk ws| | | | | | | | | | | |]; try reflexivity.
  destruct ws as [k|k l|aw]; destruct kk; cbn [rank wstage]; try reflexivity; rewrite (H k (or_introl eq_refl)); reflexivity.
Qed.

Lemma ranks_upd cs P l i x p : nth_error l i = Some x ->
  (ranks cs P (upd i (set_pc x p) l) + rank cs P (l_pc x) = ranks cs P l + rank cs P p)%nat.
Proof.
  revert i; induction l as [|z l IH]; intros i H; [destruct i; discriminate|].
  destruct i as [|i]; cbn [nth_error] in H.
  - inversion H; subst. cbn [upd]. unfold ranks. cbn [fold_right set_pc l_pc]. lia.
  - cbn [upd]. unfold ranks in *. cbn [fold_right]. specialize (IH i H). lia.
Qed.

Lemma ranks_ext cs cs' P l : (forall j y, nth_error l j = Some y -> rank cs' P (l_pc y) = rank cs P (l_pc y)) -> ranks cs' P l = ranks cs P l.
Proof.
  induction l as [|z l IH]; intros H; [reflexivity|]. unfold ranks in *. cbn [fold_right].
  rewrite (H 0%nat z eq_refl), IH; [reflexivity|]. intros j y Hy. exact (H (S j) y Hy).
Qed.

(* ... except at index i *)
Lemma ranks_ext_except cs cs' P l i x : nth_error l i = Some x ->
  (forall j y, j <> i -> nth_error l j = Some y -> rank cs' P (l_pc y) = rank cs P (l_pc y)) ->
  (ranks cs' P l + rank cs P (l_pc x) = ranks cs P l + rank cs' P (l_pc x))%nat.
Proof.
  revert i; induction l as [|z l IH]; intros i Hx H; [destruct i; discriminate|].
  destruct i as [|i]; cbn [nth_error] in Hx.
  - inversion Hx; subst. unfold ranks. cbn [fold_right]. fold (ranks cs' P l). fold (ranks cs P l).
    rewrite (ranks_ext cs cs' P l); [lia|]. intros j y Hy. exact (H (S j) y ltac:(lia) Hy).
  - unfold ranks in *. cbn [fold_right]. rewrite (H 0%nat z ltac:(lia) eq_refl).
    specialize (IH i Hx (fun j y Hj Hy => H (S j) y ltac:(lia) Hy)). lia.
Qed.

(* ---------- the three internal events ---------- *)
Lemma nth_cs_after cs cid a k : (k < length cs)%nat -> k <> cid -> ~ In k (a_cancel a) -> nth_error (cs_after cs cid a) k = nth_error cs k.
Proof.
  intros Hlt Hne Hnc. unfold cs_after.
  rewrite nth_error_app1 by (rewrite cancel_calls_length, set_status_length; exact Hlt).
  destruct (nth_error (cancel_calls (a_cancel a) (set_status cid Delivered cs)) k) as [cl|] eqn:E.
  - destruct (cancel_calls_spec _ _ _ _ E) as (cl0 & H0 & _ & Hsame & _). rewrite (Hsame Hnc).
    rewrite nth_set_status_other in H0 by congruence. congruence.
  - exfalso. apply nth_error_None in E. rewrite cancel_calls_length, set_status_length in E. lia.
Qed.

Lemma find_owner_cons c i z l cid y sel e base hgt tnow na :
  find_owner c i (z :: l) cid y sel e base hgt tnow na =
  match lc_deliver c (l_info z) base hgt tnow (l_pc z) cid y sel e na with Some a => Some (i, a) | None => find_owner c (S i) l cid y sel e base hgt tnow na end.
Proof. reflexivity. Qed.

Lemma find_owner_none c cid y sel e base hgt tnow na : forall l i,
  find_owner c i l cid y sel e base hgt tnow na = None ->
  forall j x, nth_error l j = Some x -> lc_deliver c (l_info x) base hgt tnow (l_pc x) cid y sel e na = None.
Proof.
  induction l as [|z l IH]; intros i H j x Hx; [destruct j; discriminate|].
  rewrite find_owner_cons in H. destruct (lc_deliver c (l_info z) base hgt tnow (l_pc z) cid y sel e na) eqn:Ez; [discriminate|].
  destruct j as [|j]; cbn [nth_error] in Hx; [inversion Hx; subst; exact Ez|exact (IH (S i) H j x Hx)].
Qed.

Lemma deliver_decreases c s cid sel : InvC c s -> seffective c s (EvDeliver cid sel) -> (phi (fst (step c s (EvDeliver cid sel))) < phi s)%nat.
Proof.
  intros [Ht Hdj] He. unfold seffective in He. cbn [step] in *.
  destruct (nth_error (calls s) cid) as [cl|] eqn:Ec; [|exfalso; apply He; reflexivity].
  destruct cl as [q st]. cbn [c_st] in *. destruct st as [| |y| | |]; try (exfalso; apply He; reflexivity).
  set (P := npend (parts (nd s))).
  pose proof (W3_set_status cid Delivered (calls s) _ Ec) as HW. unfold callw3 in HW. cbn [c_st c_rpc] in HW.
  destruct (find_owner c 0 (lcs (pl s)) cid y sel (entry_ (pl s)) (length (calls s)) (height s) (now s) (next_att (pl s))) as [[i a]|] eqn:Ef.
  - (* the lifecycle that awaits the call advances *)
    destruct (find_owner_spec _ _ _ _ _ _ _ _ _ _ _ _ _ Ef) as (x & Hx & _ & Hd). rewrite Nat.sub_0_r in Hx.
    pose proof (apply_adv_lcs (with_calls s (set_status cid Delivered (calls s))) i a x Hx) as (Hl & _ & Hnd & _ & _ & Hcs & _).
    cbn [with_calls calls pl lcs nd] in Hl, Hnd, Hcs.
    unfold phi. rewrite Hl, Hnd, Hcs. fold (cs_after (calls s) cid a). fold P.
    pose proof (lc_deliver_rank c (l_info x) (calls s) (height s) (now s) (l_pc x) cid y sel (entry_ (pl s)) (next_att (pl s)) a q P Ec Hd) as Hr.
    pose proof (lc_deliver_awaits _ _ _ _ _ _ _ _ _ _ _ _ Hd) as Hcid.
    pose proof (lc_deliver_cancel _ _ _ _ _ _ _ _ _ _ _ _ Hd) as Hcan.
    (* the other lifecycles read the call list where nothing changed *)
    assert (Hoth : forall j z, j <> i -> nth_error (lcs (pl s)) j = Some z ->
              rank (cs_after (calls s) cid a) P (l_pc z) = rank (calls s) P (l_pc z)).
    { intros j z Hj Hz. apply rank_same. intros k Hk. apply nth_cs_after.
      - exact (pc_calls_ok_awaits_lt c _ _ _ (Ht j z Hz) k Hk).
      - intros ->. exact (Hdj i j x z cid (not_eq_sym Hj) Hx Hz Hcid Hk).
      - intros Hin. destruct (Hcan k Hin) as (Hkx & _). exact (Hdj i j x z k (not_eq_sym Hj) Hx Hz Hkx Hk). }
    pose proof (ranks_upd (cs_after (calls s) cid a) P (lcs (pl s)) i x (a_pc a) Hx) as H1.
    pose proof (ranks_ext_except (calls s) (cs_after (calls s) cid a) P (lcs (pl s)) i x Hx Hoth) as H2.
    assert (HW2 : (W3 (cs_after (calls s) cid a) <= W3 (set_status cid Delivered (calls s)) + 3 * length (a_new a))%nat).
    { unfold cs_after. rewrite W3_app, W3_mk_calls. pose proof (W3_cancel (a_cancel a) (set_status cid Delivered (calls s))). lia. }
    lia.
  - (* nobody awaits it any more: it is just consumed *)
    unfold phi. cbn [with_calls calls pl lcs nd fst]. fold P.
    rewrite (ranks_ext (calls s) (set_status cid Delivered (calls s)) P (lcs (pl s))); [lia|].
    intros j z Hz. apply rank_same. intros k Hk. rewrite nth_set_status_other; [reflexivity|].
    intros E; subst k. pose proof (find_owner_none _ _ _ _ _ _ _ _ _ _ _ Ef j z Hz) as Hn.
    (* an awaited call always has an owner *)
    destruct (l_pc z) as [k0|kk ws|k0 a0 g t|k0 a0 g t|d|k0 a0 am mf md|k0 a0 g am mf md|k0 a0 g|k0 a0 pr|k0 a0|k0 a0 g|k0 a0 g| |];
      unfold lc_deliver in Hn; cbn [awaits] in Hk;
      try (destruct Hk as [->|[]]; rewrite Nat.eqb_refl in Hn; discriminate); try (destruct Hk; fail).
    destruct ws as [k0|k0 l|aw]; cbn [awaits wait_deliver] in Hk, Hn.
    + destruct Hk as [->|[]]. rewrite Nat.eqb_refl in Hn. cbn [negb] in Hn. destruct y; destruct kk; discriminate.
    + destruct Hk as [->|[]]. rewrite Nat.eqb_refl in Hn. cbn [negb] in Hn.
      destruct y as [| | | |[|p0 ps0]| | | |]; try (destruct kk; discriminate). destruct l; destruct kk; discriminate.
    + assert (existsb (fun x => Nat.eqb (snd x) cid) aw = true) as Ex.
      { apply in_map_iff in Hk. destruct Hk as ([pid c0] & Hc0 & Hin). cbn in Hc0. subst c0. apply existsb_exists. exists (pid, cid). split; [exact Hin|apply Nat.eqb_refl]. }
      rewrite Ex in Hn. cbn [negb] in Hn.
      destruct y; try (destruct kk; discriminate); destruct (filter _ aw); destruct kk; discriminate.
Qed.

Lemma npend_pend_ids ps : forall i, length (pend_ids i ps) = npend ps.
Proof. induction ps as [|[| |] ps IH]; intros i; cbn [pend_ids npend filter length]; try apply IH; [reflexivity|]. fold (npend ps). rewrite IH. reflexivity. Qed.

Lemma node_exec_keeps_parts n q f : parts (fst (node_exec n q f)) = parts n.
Proof.
  unfold node_exec. destruct f; try reflexivity.
  - destruct q as [|m g v|m a cm su am bl| | |pid|b a f' d r]; cbn [fst]; try reflexivity.
    + destruct (ds n) as [[v0 cur]|]; destruct m; try reflexivity; destruct g as [g'|]; try reflexivity; destruct (g' =? cur); reflexivity.
    + destruct (mem_att a (atts n)); destruct m; reflexivity.
    + destruct (nth_error (parts n) pid) as [[| |]|]; reflexivity.
  - destruct q as [|m g v|m a cm su am bl| | |pid|b a f' d r]; cbn [fst]; try reflexivity.
    + destruct (ds n) as [[v0 cur]|]; destruct m; try reflexivity; destruct g as [g'|]; try reflexivity; destruct (g' =? cur); reflexivity.
    + destruct (mem_att a (atts n)); destruct m; reflexivity.
    + destruct (nth_error (parts n) pid) as [[| |]|]; reflexivity.
Qed.

Lemma node_exec_no_answer n q f n' : node_exec n q f = (n', None) ->
  (n' = n /\ exists pid, q = QWaitPart pid) \/ (exists b a f0 d r, q = QPay b a f0 d r).
Proof.
  unfold node_exec. destruct f; try discriminate.
  - destruct q as [|m g v|m a cm su am bl| | |pid|b a f' d r]; cbn; try discriminate.
    + destruct (ds n) as [[v0 cur]|]; destruct m; try discriminate; destruct g as [g'|]; try discriminate; destruct (g' =? cur); discriminate.
    + destruct (mem_att a (atts n)); destruct m; discriminate.
    + destruct (nth_error (parts n) pid) as [[| |]|]; try discriminate. intros H; inversion H. left. eauto.
    + intros _. right. eauto 10.
  - destruct q as [|m g v|m a cm su am bl| | |pid|b a f' d r]; cbn; try discriminate.
    + destruct (ds n) as [[v0 cur]|]; destruct m; try discriminate; destruct g as [g'|]; try discriminate; destruct (g' =? cur); discriminate.
    + destruct (mem_att a (atts n)); destruct m; discriminate.
    + destruct (nth_error (parts n) pid) as [[| |]|]; discriminate.
    + intros _. right. eauto 10.
Qed.

Lemma set_status_id cid cs cl : nth_error cs cid = Some cl -> set_status cid (c_st cl) cs = cs.
Proof.
  intros H. unfold set_status. rewrite H. destruct cl as [q st]. cbn [c_rpc c_st].
  revert cid H; induction cs as [|x cs IH]; intros cid H; [destruct cid; discriminate|].
  destruct cid as [|cid]; cbn [nth_error] in H.
  - inversion H; subst. reflexivity.
  - cbn [upd]. rewrite (IH cid H). reflexivity.
Qed.

Lemma process_decreases c s cid f : InvC c s -> seffective c s (EvProcess cid f) -> (phi (fst (step c s (EvProcess cid f))) < phi s)%nat.
Proof.
  intros [Ht _] He. unfold seffective in He. cbn [step] in *.
  destruct (nth_error (calls s) cid) as [cl|] eqn:Ec; [|exfalso; apply He; reflexivity].
  destruct cl as [q st]. cbn [c_st c_rpc] in *. destruct st as [| |y0| | |]; try (exfalso; apply He; reflexivity).
  destruct (node_exec (nd s) q f) as [n' y] eqn:En.
  assert (Hparts : parts n' = parts (nd s)) by (pose proof (node_exec_keeps_parts (nd s) q f) as X; rewrite En in X; exact X).
  cbn [fst] in *. unfold phi. cbn [nd pl lcs calls]. rewrite Hparts. set (P := npend (parts (nd s))).
  destruct y as [r|].
  - (* answered *)
    pose proof (W3_set_status cid (Replied r) (calls s) _ Ec) as HW. unfold callw3 in HW. cbn [c_st c_rpc] in HW.
    rewrite (ranks_ext (calls s) (set_status cid (Replied r) (calls s)) P (lcs (pl s))); [lia|].
    intros j z Hz. specialize (Ht j z Hz).
    destruct (l_pc z) as [k|kk ws| | | | | | | | | | | |]; try reflexivity.
    destruct ws as [k|k l|aw]; destruct kk; cbn [rank wstage]; try reflexivity.
    all: destruct (Nat.eq_dec k cid) as [->|Hne]; [|rewrite nth_set_status_other by congruence; reflexivity].
    all: rewrite (nth_set_status_same cid (Replied r) _ _ Ec), Ec; cbn [c_rpc c_st].
    all: cbn [pc_calls_ok] in Ht; destruct Ht as (st0 & Hk & _); rewrite Ec in Hk; inversion Hk; subst q.
    all: unfold node_exec in En; destruct f; cbn in En; inversion En; subst; try reflexivity.
    all: rewrite npend_pend_ids; reflexivity.
  - (* no answer yet *)
    destruct (node_exec_no_answer _ _ _ _ En) as [[-> [pid ->]]|(b & a & f0 & d & r & ->)].
    + exfalso. apply He. pose proof (set_status_id cid _ _ Ec) as X. cbn [c_st] in X. rewrite X. destruct s; reflexivity.
    + pose proof (W3_set_status cid Running (calls s) _ Ec) as HW. unfold callw3 in HW. cbn [c_st c_rpc] in HW.
      rewrite (ranks_ext (calls s) (set_status cid Running (calls s)) P (lcs (pl s))); [lia|].
      intros j z Hz.
      destruct (l_pc z) as [k|kk ws| | | | | | | | | | | |]; try reflexivity.
      destruct ws as [k|k l|aw]; destruct kk; cbn [rank wstage]; try reflexivity.
      all: destruct (Nat.eq_dec k cid) as [->|Hne]; [|rewrite nth_set_status_other by congruence; reflexivity].
      all: rewrite (nth_set_status_same cid Running _ _ Ec), Ec; reflexivity.
Qed.

Lemma upd_same_nth {A} (l : list A) i x : nth_error l i = Some x -> upd i x l = l.
Proof.
  revert i; induction l as [|z l IH]; intros i H; [destruct i; discriminate|].
  destruct i as [|i]; cbn [nth_error] in H; [inversion H; reflexivity|]. cbn [upd]. rewrite (IH i H). reflexivity.
Qed.

(* the select! either finds nothing in its queues (and nothing changes) or moves on to a cheaper stage *)
Lemma select_poll_cases c li base hgt tnow d e sel na cs' P :
  select_poll c li base hgt tnow d e sel na = stay (PSelect d) e na \/
  (rank cs' P (a_pc (select_poll c li base hgt tnow d e sel na)) + 3 * length (a_new (select_poll c li base hgt tnow d e sel na)) <= 21 + 3 * P)%nat.
Proof.
  unfold select_poll. destruct e as [en|]; [|left; reflexivity].
  destruct (rdy_q en), (fail_q en) as [r|].
  - right. destruct sel; [apply go_pay_cost|etransitivity; [apply do_resolve_cost|cbn [rank length]; lia]].
  - right. apply go_pay_cost.
  - right. etransitivity; [apply do_resolve_cost|cbn [rank length]; lia].
  - left. reflexivity.
Qed.

Lemma poll_decreases c s sel : InvC c s -> seffective c s (EvPoll sel) -> (phi (fst (step c s (EvPoll sel))) < phi s)%nat.
Proof.
  intros [Ht _] He. unfold seffective in He. cbn [step] in *.
  destruct (find_select 0 (lcs (pl s))) as [[[i d] li]|] eqn:Ef; [|exfalso; apply He; reflexivity].
  destruct (find_select_spec _ _ _ _ _ Ef) as (x & Hx & Hpc & Hli & _). rewrite Nat.sub_0_r in Hx.
  set (a := select_poll c li (length (calls s)) (height s) (now s) d (entry_ (pl s)) sel (next_att (pl s))) in *.
  set (P := npend (parts (nd s))).
  pose proof (apply_adv_lcs s i a x Hx) as (Hl & _ & Hnd & _ & _ & Hcs & _).
  assert (Hcan : a_cancel a = []) by apply select_poll_cancel.
  rewrite Hcan in Hcs. cbn [cancel_calls fold_left] in Hcs.
  destruct (select_poll_cases c li (length (calls s)) (height s) (now s) d (entry_ (pl s)) sel (next_att (pl s)) (calls s ++ mk_calls (a_new a)) P) as [Hstay|Hcost].
  - (* nothing in the queues: the state does not change *)
    exfalso. apply He. unfold a. rewrite Hstay. unfold apply_adv, stay. cbn [a_entry a_pc a_att a_cancel a_new cancel_calls fold_left mk_calls map fst].
    rewrite Hx. rewrite app_nil_r.
    assert (set_pc x (PSelect d) = x) as -> by (destruct x as [p0 li0]; cbn in Hpc; subst p0; reflexivity).
    rewrite (upd_same_nth _ _ _ Hx). destruct s as [n0 [e0 l0 na0] cs0 t0 h0]; reflexivity.
  - fold a in Hcost.
    unfold phi. rewrite Hl, Hnd, Hcs. fold P.
    assert (Hoth : forall j z, nth_error (lcs (pl s)) j = Some z -> rank (calls s ++ mk_calls (a_new a)) P (l_pc z) = rank (calls s) P (l_pc z)).
    { intros j z Hz. apply rank_same. intros k Hk. apply nth_error_app1. exact (pc_calls_ok_awaits_lt c _ _ _ (Ht j z Hz) k Hk). }
    pose proof (ranks_upd (calls s ++ mk_calls (a_new a)) P (lcs (pl s)) i x (a_pc a) Hx) as H1.
    rewrite (ranks_ext (calls s) (calls s ++ mk_calls (a_new a)) P (lcs (pl s)) Hoth) in H1.
    rewrite (Hoth i x Hx), Hpc in H1. cbn [rank] in H1.
    rewrite W3_app, W3_mk_calls. lia.
Qed.

(* ---------- the theorem ---------- *)
Lemma internal_effective_decreases c s ev : InvC c s -> internal ev = true -> seffective c s ev -> (phi (fst (step c s ev)) < phi s)%nat.
Proof.
  intros HC Hi He. destruct ev; try discriminate.
  - apply poll_decreases; assumption.
  - apply process_decreases; assumption.
  - apply deliver_decreases; assumption.
Qed.

Fixpoint srun (c : cfg) (s : sys) (evs : list event) : sys := match evs with [] => s | e :: r => srun c (fst (step c s e)) r end.

(* between two events of the environment the plugin and the node take at most [phi s] state-changing steps *)
Theorem internal_runs_are_bounded c evs : forall s, InvC c s ->
  forallb internal evs = true ->
  (forall k e, nth_error evs k = Some e -> seffective c (srun c s (firstn k evs)) e) ->
  (length evs <= phi s)%nat.
Proof.
  induction evs as [|e evs IH]; intros s HC Hi Heff; [cbn; lia|].
  cbn [forallb] in Hi. apply andb_prop in Hi as [He Hi].
  pose proof (Heff 0%nat e eq_refl) as H0. cbn [firstn srun] in H0.
  pose proof (internal_effective_decreases c s e HC He H0) as Hd.
  assert (Hrest : (length evs <= phi (fst (step c s e)))%nat).
  { apply IH; [apply step_InvC; exact HC|exact Hi|]. intros k e' Hk. specialize (Heff (S k) e' Hk). cbn [firstn srun] in Heff. exact Heff. }
  cbn [length]. lia.
Qed.

Lemma reachable_InvC c s : reachable c s -> InvC c s.
Proof.
  induction 1 as [n t0 h0 a0|s ev Hr IH].
  - constructor; cbn [sys_start pl lcs]; [intros [|i] x H; discriminate|intros [|i] j x y k _ H; discriminate].
  - apply step_InvC, IH.
Qed.

(* for every state a history can reach: no internal divergence *)
Theorem reachable_internal_runs_are_bounded c s evs : reachable c s ->
  forallb internal evs = true ->
  (forall k e, nth_error evs k = Some e -> seffective c (srun c s (firstn k evs)) e) ->
  (length evs <= phi s)%nat.
Proof. intros Hr. apply internal_runs_are_bounded, reachable_InvC, Hr. Qed.

(* ================= the environment's progress events ================= *)
(* time budget: a lifecycle sitting on its timer still has (deadline - now) ms to wait; one that may still reach the select!
   (fresh start, or the restart path before mark_failed is done) at most one MPP timeout *)
Definition tb (c : cfg) (tnow : N) (p : pc) : nat :=
  match p with
  | PSelect d => N.to_nat (d - tnow)
  | PFetch _ | PMarkF1 _ _ _ _ | PMarkF2 _ _ _ _ | PWait (AfterRestart _ _ _) _ => N.to_nat (mpp_ms c)
  | _ => 0
  end.
Definition tpot (c : cfg) (tnow : N) (l : list lc) : nat := fold_right (fun x acc => tb c tnow (l_pc x) + acc)%nat 0%nat l.
Definition Phi (c : cfg) (s : sys) : nat := (phi s + npend (parts (nd s)) + tpot c (now s) (lcs (pl s)))%nat.

Definition timer_armed (s : sys) : bool := existsb (fun x => match l_pc x with PSelect _ => true | _ => false end) (lcs (pl s)).
(* everything but new work (an HTLC arriving, the pay command creating a part), a new block and a crash; time counts only
   while some lifecycle sits on its timer *)
Definition progress_ev (s : sys) (ev : event) : bool :=
  match ev with
  | EvProcess _ _ | EvDeliver _ _ | EvPoll _ | EvPart _ _ | EvPayFinish _ _ => true
  | EvTick _ => timer_armed s
  | _ => false
  end.

Lemma tpot_upd c tnow l i x p : nth_error l i = Some x ->
  (tpot c tnow (upd i (set_pc x p) l) + tb c tnow (l_pc x) = tpot c tnow l + tb c tnow p)%nat.
Proof.
  revert i; induction l as [|z l IH]; intros i H; [destruct i; discriminate|].
  destruct i as [|i]; cbn [nth_error] in H.
  - inversion H; subst. cbn [upd]. unfold tpot. cbn [fold_right set_pc l_pc]. lia.
  - cbn [upd]. unfold tpot in *. cbn [fold_right]. specialize (IH i H). lia.
Qed.

Section TB.
Variable c : cfg.
Variable li : linfo.
Variable base : nat.
Variable hgt tnow : N.
Notation tbo a := (tb c tnow (a_pc a)).

Lemma do_resolve_tb e r p qs extra cancel na : (tbo (do_resolve e r p qs extra cancel na) <= tb c tnow p)%nat.
Proof. unfold do_resolve. destruct e; cbn [a_pc tb]; lia. Qed.
Lemma go_pay_tb e na : tbo (go_pay c li base hgt tnow e na) = 0%nat.
Proof. unfold go_pay. destruct e; reflexivity. Qed.
Lemma select_poll_tb d e sel na : (tbo (select_poll c li base hgt tnow d e sel na) <= N.to_nat (d - tnow))%nat.
Proof.
  unfold select_poll. destruct e as [en|]; [|cbn [stay a_pc tb]; lia].
  destruct (rdy_q en), (fail_q en) as [r|].
  - destruct sel; [rewrite go_pay_tb; lia|etransitivity; [apply do_resolve_tb|cbn [tb]; lia]].
  - rewrite go_pay_tb. lia.
  - etransitivity; [apply do_resolve_tb|cbn [tb]; lia].
  - cbn [stay a_pc tb]. lia.
Qed.
Lemma enter_select_tb d e sel na : (tbo (enter_select c li base hgt tnow d e sel na) <= N.to_nat d)%nat.
Proof.
  unfold enter_select. destruct (d =? 0).
  - etransitivity; [apply do_resolve_tb|cbn [tb]; lia].
  - etransitivity; [apply select_poll_tb|lia].
Qed.
End TB.

Lemma lc_deliver_tb c li base hgt tnow p cid y sel e na a :
  lc_deliver c li base hgt tnow p cid y sel e na = Some a -> (tb c tnow (a_pc a) <= tb c tnow p)%nat.
Proof.
  intros Hd.
  destruct p as [k|kk ws|k a0 g t|k a0 g t|d|k a0 am mf md|k a0 g am mf md|k a0 g|k a0 pr|k a0|k a0 g|k a0 g| |]; unfold lc_deliver in Hd; try discriminate.
  - destruct (negb (Nat.eqb k cid)); [discriminate|]. inversion Hd; subst a. cbn [tb].
    destruct y as [[[[|a1 t1|pr1|] g1]|]| | | | | | | |];
      try (etransitivity; [apply enter_select_tb|lia]); try (etransitivity; [apply do_resolve_tb|cbn [tb]; lia]).
    unfold start_wait. cbn [a_pc tb]. lia.
  - destruct (wait_deliver base ws cid y) as [[ws' new|[pr| |] cancel]|] eqn:Ed; try discriminate; inversion Hd; subst a.
    + destruct kk; cbn [a_pc tb]; lia.
    + unfold wait_some, succeed. destruct kk; (etransitivity; [apply do_resolve_tb|cbn [tb]; lia]).
    + unfold wait_none, pay_failed. destruct kk; [cbn [a_pc tb]; lia|etransitivity; [apply do_resolve_tb|cbn [tb]; lia]].
    + unfold wait_err, pay_failed. destruct kk; [cbn [a_pc tb]; lia|etransitivity; [apply do_resolve_tb|cbn [tb]; lia]].
  - destruct (negb (Nat.eqb k cid)); [discriminate|]. inversion Hd; subst a. cbn [tb].
    destruct y; try (etransitivity; [apply do_resolve_tb|cbn [tb]; lia]). cbn [a_pc tb]. lia.
  - destruct (negb (Nat.eqb k cid)); [discriminate|]. inversion Hd; subst a. cbn [tb].
    destruct y; try (etransitivity; [apply do_resolve_tb|cbn [tb]; lia]). etransitivity; [apply enter_select_tb|lia].
  - destruct (negb (Nat.eqb k cid)); [discriminate|]. inversion Hd; subst a.
    destruct y; try (etransitivity; [apply do_resolve_tb|cbn [tb]; lia]). cbn [a_pc tb]. lia.
  - destruct (negb (Nat.eqb k cid)); [discriminate|]. inversion Hd; subst a.
    destruct y; try (etransitivity; [apply do_resolve_tb|cbn [tb]; lia]). cbn [a_pc tb]. lia.
  - destruct (negb (Nat.eqb k cid)); [discriminate|]. inversion Hd; subst a.
    destruct (pay_reply y); unfold succeed, pay_failed, start_wait; try (etransitivity; [apply do_resolve_tb|cbn [tb]; lia]). cbn [a_pc tb]. lia.
  - destruct (negb (Nat.eqb k cid)); [discriminate|]. inversion Hd; subst a. destruct y; cbn [stay a_pc tb]; lia.
  - destruct (negb (Nat.eqb k cid)); [discriminate|]. inversion Hd; subst a. cbn [stay a_pc tb]; lia.
  - destruct (negb (Nat.eqb k cid)); [discriminate|]. inversion Hd; subst a. destruct y; cbn [a_pc tb]; lia.
  - destruct (negb (Nat.eqb k cid)); [discriminate|]. inversion Hd; subst a. cbn [a_pc tb]; lia.
Qed.

(* internal events never add time budget *)
Lemma internal_tpot c s ev : internal ev = true ->
  (tpot c (now (fst (step c s ev))) (lcs (pl (fst (step c s ev)))) <= tpot c (now s) (lcs (pl s)))%nat /\
  npend (parts (nd (fst (step c s ev)))) = npend (parts (nd s)).
Proof.
  intros Hi. destruct ev as [h|sel|cid f|cid sel| | | | | |]; try discriminate; cbn [step].
  - (* poll *)
    destruct (find_select 0 (lcs (pl s))) as [[[i d] li]|] eqn:Ef; [|cbn [fst]; split; [lia|reflexivity]].
    destruct (find_select_spec _ _ _ _ _ Ef) as (x & Hx & Hpc & Hli & _). rewrite Nat.sub_0_r in Hx.
    destruct (apply_adv_lcs s i (select_poll c li (length (calls s)) (height s) (now s) d (entry_ (pl s)) sel (next_att (pl s))) x Hx) as (Hl & _ & Hnd & Hnow & _).
    rewrite Hl, Hnd, Hnow. split; [|reflexivity].
    pose proof (tpot_upd c (now s) (lcs (pl s)) i x (a_pc (select_poll c li (length (calls s)) (height s) (now s) d (entry_ (pl s)) sel (next_att (pl s)))) Hx) as H1.
    pose proof (select_poll_tb c li (length (calls s)) (height s) (now s) d (entry_ (pl s)) sel (next_att (pl s))) as H2.
    rewrite Hpc in H1. cbn [tb] in H1. lia.
  - (* process *)
    destruct (nth_error (calls s) cid) as [cl|]; [|cbn [fst]; split; [lia|reflexivity]].
    destruct (c_st cl); try (cbn [fst]; split; [lia|reflexivity]).
    destruct (node_exec (nd s) (c_rpc cl) f) as [n' y] eqn:En. cbn [fst pl lcs now nd]. split; [lia|].
    pose proof (node_exec_keeps_parts (nd s) (c_rpc cl) f) as X. rewrite En in X. cbn [fst] in X. rewrite X. reflexivity.
  - (* deliver *)
    destruct (nth_error (calls s) cid) as [cl|]; [|cbn [fst]; split; [lia|reflexivity]].
    destruct (c_st cl) as [| |y| | |]; try (cbn [fst]; split; [lia|reflexivity]).
    destruct (find_owner c 0 (lcs (pl s)) cid y sel (entry_ (pl s)) (length (calls s)) (height s) (now s) (next_att (pl s))) as [[i a]|] eqn:Ef;
      [|cbn [fst with_calls pl lcs now nd]; split; [lia|reflexivity]].
    destruct (find_owner_spec _ _ _ _ _ _ _ _ _ _ _ _ _ Ef) as (x & Hx & _ & Hd). rewrite Nat.sub_0_r in Hx.
    destruct (apply_adv_lcs (with_calls s (set_status cid Delivered (calls s))) i a x Hx) as (Hl & _ & Hnd & Hnow & _).
    cbn [with_calls pl lcs now nd] in *. rewrite Hl, Hnd, Hnow. split; [|reflexivity].
    pose proof (tpot_upd c (now s) (lcs (pl s)) i x (a_pc a) Hx) as H1.
    pose proof (lc_deliver_tb _ _ _ _ _ _ _ _ _ _ _ _ Hd) as H2. lia.
Qed.

Lemma rank_mono_P cs P P' p : (P' <= P)%nat -> (rank cs P' p <= rank cs P p)%nat.
Proof.
  intros H. destruct p as [k|kk ws| | | | | | | | | | | |]; cbn [rank]; try lia.
  destruct ws as [k|k l|aw]; destruct kk; cbn [wstage]; try lia;
    destruct (nth_error cs k) as [[q [| |[]| | |]]|]; lia.
Qed.
Lemma ranks_mono_P cs P P' l : (P' <= P)%nat -> (ranks cs P' l <= ranks cs P l)%nat.
Proof. intros H. induction l as [|x l IH]; [cbn; lia|]. unfold ranks in *. cbn [fold_right]. pose proof (rank_mono_P cs P P' (l_pc x) H). lia. Qed.

Lemma npend_upd ps pid st : nth_error ps pid = Some PPend -> st <> PPend -> (npend (upd pid st ps) + 1 = npend ps)%nat.
Proof.
  revert pid; induction ps as [|p ps IH]; intros pid H Hs; [destruct pid; discriminate|].
  destruct pid as [|pid]; cbn [nth_error] in H.
  - inversion H; subst. cbn [upd]. unfold npend. cbn [filter]. destruct st; try congruence; cbn [length]; lia.
  - cbn [upd]. unfold npend in *. cbn [filter]. specialize (IH pid H Hs). destruct p; cbn [length]; lia.
Qed.

Lemma part_decreases c s pid st : seffective c s (EvPart pid st) -> (Phi c (fst (step c s (EvPart pid st))) < Phi c s)%nat.
Proof.
  intros He. unfold seffective in He. cbn [step] in *.
  destruct (nth_error (parts (nd s)) pid) as [[| |]|] eqn:Ep; try (exfalso; apply He; destruct st; reflexivity).
  destruct st as [|p|]; try (exfalso; apply He; reflexivity); cbn [fst] in *.
  - pose proof (npend_upd _ pid (PDone p) Ep ltac:(discriminate)) as Hn.
    unfold Phi, phi. cbn [with_nd nd pl lcs calls now set_parts parts].
    pose proof (ranks_mono_P (calls s) (npend (parts (nd s))) (npend (upd pid (PDone p) (parts (nd s)))) (lcs (pl s)) ltac:(lia)). lia.
  - pose proof (npend_upd _ pid PFailed Ep ltac:(discriminate)) as Hn.
    unfold Phi, phi. cbn [with_nd nd pl lcs calls now set_parts parts].
    pose proof (ranks_mono_P (calls s) (npend (parts (nd s))) (npend (upd pid PFailed (parts (nd s)))) (lcs (pl s)) ltac:(lia)). lia.
Qed.

Lemma payfinish_decreases c s cid o : seffective c s (EvPayFinish cid o) -> (Phi c (fst (step c s (EvPayFinish cid o))) < Phi c s)%nat.
Proof.
  intros He. unfold seffective in He. cbn [step] in *.
  destruct (nth_error (calls s) cid) as [[q st]|] eqn:Ec; [|exfalso; apply He; reflexivity].
  destruct q; try (exfalso; apply He; reflexivity). destruct st; try (exfalso; apply He; reflexivity). cbn [fst] in *.
  pose proof (W3_set_status cid (Replied (YPay o)) (calls s) _ Ec) as HW. unfold callw3 in HW. cbn [c_st c_rpc] in HW.
  unfold Phi, phi. cbn [nd pl lcs calls now set_payrun parts].
  rewrite (ranks_ext (calls s) (set_status cid (Replied (YPay o)) (calls s)) (npend (parts (nd s))) (lcs (pl s))); [lia|].
  intros j z Hz.
  destruct (l_pc z) as [k|kk ws| | | | | | | | | | | |]; try reflexivity.
  destruct ws as [k|k l|aw]; destruct kk; cbn [rank wstage]; try reflexivity.
  all: destruct (Nat.eq_dec k cid) as [->|Hne]; [|rewrite nth_set_status_other by congruence; reflexivity].
  all: rewrite (nth_set_status_same cid (Replied (YPay o)) _ _ Ec), Ec; reflexivity.
Qed.

(* ---------- time ---------- *)
Definition msum (c : cfg) (cs : list call) (P : nat) (t : N) (l : list lc) : nat := (ranks cs P l + tpot c t l)%nat.
Definition has_select (l : list lc) : bool := existsb (fun x => match l_pc x with PSelect _ => true | _ => false end) l.

Lemma fire_timers_cons x r e t :
  fire_timers (x :: r) e t =
  match l_pc x with
  | PSelect d =>
      if d <=? t
      then match e with
           | Some en => let '(r', e', o') := fire_timers r None t in (set_pc x PEnd :: r', e', resolve_outs en r_tramp_fail ++ o')
           | None => let '(r', e', o') := fire_timers r None t in (set_pc x PPanicked :: r', e', OPanic :: o')
           end
      else let '(r', e', o') := fire_timers r e t in (x :: r', e', o')
  | _ => let '(r', e', o') := fire_timers r e t in (x :: r', e', o')
  end.
Proof. reflexivity. Qed.

Lemma fire_timers_measure c cs P tnow dt : forall l e,
  let l' := fst (fst (fire_timers l e (tnow + dt))) in
  (msum c cs P (tnow + dt) l' <= msum c cs P tnow l)%nat /\
  (has_select l = true -> 0 < dt -> (msum c cs P (tnow + dt) l' < msum c cs P tnow l)%nat) /\
  (dt = 0 -> l' = l /\ snd (fst (fire_timers l e (tnow + dt))) = e \/ (msum c cs P (tnow + dt) l' < msum c cs P tnow l)%nat).
Proof.
  induction l as [|x r IH]; intros e.
  { change (fire_timers [] e (tnow + dt)) with (@nil lc, e, @nil output). cbn [fst snd has_select existsb]. unfold msum, ranks, tpot. cbn [fold_right].
    split; [lia|]. split; [intros H; discriminate H|]. intros _. left. split; reflexivity. }
  rewrite fire_timers_cons. unfold msum, ranks, tpot in *. cbn [has_select existsb].
  destruct (l_pc x) as [k|kk ws|k a0 g t|k a0 g t|d|k a0 am mf md|k a0 g am mf md|k a0 g|k a0 pr|k a0|k a0 g|k a0 g| |] eqn:Hpc.
  5: {
    destruct (d <=? tnow + dt) eqn:Ed.
    - (* fires *)
      destruct e as [en|]; specialize (IH None); destruct (fire_timers r None (tnow + dt)) as [[r' e'] o']; cbn [fst snd] in *;
        destruct IH as (I1 & _ & _); cbn [fold_right set_pc l_pc rank tb]; rewrite Hpc; cbn [rank tb];
        (split; [lia|split; [intros; lia|intros; right; lia]]).
    - specialize (IH e). destruct (fire_timers r e (tnow + dt)) as [[r' e'] o']. cbn [fst snd] in *.
      destruct IH as (I1 & I2 & I3). cbn [fold_right]. rewrite Hpc. cbn [rank tb].
      split; [lia|]. split; [intros _ Hdt; lia|].
      intros ->. destruct (I3 eq_refl) as [[-> ->]|Hlt]; [left; split; reflexivity|right].
      rewrite N.add_0_r in *. lia. }
  all: specialize (IH e); destruct (fire_timers r e (tnow + dt)) as [[r' e'] o']; cbn [fst snd] in *;
       destruct IH as (I1 & I2 & I3); cbn [fold_right orb]; rewrite Hpc; cbn [rank tb];
       (split; [lia|split; [intros Hs Hdt; specialize (I2 Hs Hdt); lia|
         intros ->; destruct (I3 eq_refl) as [[-> ->]|Hlt]; [left; split; reflexivity|right; rewrite ?N.add_0_r in *; lia]]]).
Qed.

Lemma tick_decreases c s dt : timer_armed s = true -> seffective c s (EvTick dt) -> (Phi c (fst (step c s (EvTick dt))) < Phi c s)%nat.
Proof.
  intros Ha He. unfold seffective in He. cbn [step] in *.
  pose proof (fire_timers_measure c (calls s) (npend (parts (nd s))) (now s) dt (lcs (pl s)) (entry_ (pl s))) as (M1 & M2 & M3).
  destruct (fire_timers (lcs (pl s)) (entry_ (pl s)) (now s + dt)) as [[l' e'] o'] eqn:Ef. cbn [fst snd] in *.
  unfold Phi, phi. cbn [nd pl lcs calls now]. unfold msum in *.
  destruct (N.eq_dec dt 0) as [->|Hdt].
  - destruct (M3 eq_refl) as [[-> ->]|Hlt]; [|lia].
    exfalso. apply He. rewrite N.add_0_r. destruct s as [n0 [e0 l0 na0] cs0 t0 h0]; reflexivity.
  - assert (0 < dt) by lia. specialize (M2 Ha H). lia.
Qed.

(* every event of a run that brings no new work lowers the potential *)
Lemma progress_effective_decreases c s ev : InvC c s -> progress_ev s ev = true -> seffective c s ev -> (Phi c (fst (step c s ev)) < Phi c s)%nat.
Proof.
  intros HC Hp He. destruct ev as [h|sel|cid f|cid sel|pid st|cid|cid o|dt|v|]; try discriminate.
  - pose proof (poll_decreases c s sel HC He). destruct (internal_tpot c s (EvPoll sel) eq_refl) as [T1 T2]. unfold Phi. lia.
  - pose proof (process_decreases c s cid f HC He). destruct (internal_tpot c s (EvProcess cid f) eq_refl) as [T1 T2]. unfold Phi. lia.
  - pose proof (deliver_decreases c s cid sel HC He). destruct (internal_tpot c s (EvDeliver cid sel) eq_refl) as [T1 T2]. unfold Phi. lia.
  - apply part_decreases, He.
  - apply payfinish_decreases, He.
  - apply tick_decreases; [exact Hp|exact He].
Qed.

(* on every schedule: a run without new work (no HTLC arriving, no new part, no new block, no crash) in which every event does
   something — time passing only while some lifecycle sits on its timer — has at most [Phi c s] events *)
Theorem progress_runs_are_bounded c evs : forall s, InvC c s ->
  (forall k e, nth_error evs k = Some e -> progress_ev (srun c s (firstn k evs)) e = true /\ seffective c (srun c s (firstn k evs)) e) ->
  (length evs <= Phi c s)%nat.
Proof.
  induction evs as [|e evs IH]; intros s HC Heff; [cbn; lia|].
  destruct (Heff 0%nat e eq_refl) as [Hp0 He0]. cbn [firstn srun] in Hp0, He0.
  pose proof (progress_effective_decreases c s e HC Hp0 He0) as Hd.
  assert (Hrest : (length evs <= Phi c (fst (step c s e)))%nat).
  { apply IH; [apply step_InvC; exact HC|]. intros k e' Hk. specialize (Heff (S k) e' Hk). cbn [firstn srun] in Heff. exact Heff. }
  cbn [length]. lia.
Qed.

(* ---------- and it can be at rest only when every held HTLC has been answered ---------- *)
Lemma process_is_effective c s k q r n' : nth_error (calls s) k = Some {| c_rpc := q; c_st := Unprocessed |} ->
  node_exec (nd s) q NoFault = (n', Some r) -> seffective c s (EvProcess k NoFault).
Proof.
  intros Hk En Heq. unfold seffective in *. cbn [step] in Heq. rewrite Hk in Heq. cbn [c_st c_rpc] in Heq. rewrite En in Heq. cbn [fst] in Heq.
  apply (f_equal calls) in Heq. cbn [calls] in Heq.
  pose proof (nth_set_status_same k (Replied r) _ _ Hk) as X. rewrite Heq, Hk in X. discriminate.
Qed.

Lemma deliver_is_effective c s k q y sel : nth_error (calls s) k = Some {| c_rpc := q; c_st := Replied y |} -> seffective c s (EvDeliver k sel).
Proof.
  intros Hk Heq. unfold seffective in *. cbn [step] in Heq. rewrite Hk in Heq. cbn [c_st] in Heq.
  assert (Hd : forall cs', (exists cl, nth_error cs' k = Some cl /\ (c_st cl = Delivered \/ c_st cl = Cancelled)) -> cs' <> calls s).
  { intros cs' (cl & H1 & H2) E. rewrite E, Hk in H1. inversion H1; subst cl. cbn in H2. destruct H2; discriminate. }
  destruct (find_owner c 0 (lcs (pl s)) k y sel (entry_ (pl s)) (length (calls s)) (height s) (now s) (next_att (pl s))) as [[i a]|] eqn:Ef.
  - destruct (find_owner_spec _ _ _ _ _ _ _ _ _ _ _ _ _ Ef) as (x & Hx & _ & _). rewrite Nat.sub_0_r in Hx.
    destruct (apply_adv_lcs (with_calls s (set_status k Delivered (calls s))) i a x Hx) as (_ & _ & _ & _ & _ & Hcs & _).
    cbn [with_calls calls] in Hcs. apply (f_equal calls) in Heq. rewrite Hcs in Heq. refine (Hd _ _ Heq).
    pose proof (nth_set_status_same k Delivered _ _ Hk) as H1.
    destruct (nth_error (cancel_calls (a_cancel a) (set_status k Delivered (calls s))) k) as [cl'|] eqn:Ecl.
    + destruct (cancel_calls_spec _ _ _ _ Ecl) as (cl0 & H0 & _ & _ & Hst). rewrite H1 in H0. inversion H0; subst cl0.
      exists cl'. split; [rewrite nth_error_app1; [exact Ecl|apply nth_error_Some; congruence]|].
      destruct Hst as [Hst|Hst]; [left; rewrite Hst; reflexivity|right; exact Hst].
    + exfalso. apply nth_error_None in Ecl. rewrite cancel_calls_length, set_status_length in Ecl. apply nth_error_None in Ecl. congruence.
  - cbn [fst] in Heq. apply (f_equal calls) in Heq. cbn [with_calls calls] in Heq. refine (Hd _ _ Heq).
    eexists. split; [apply (nth_set_status_same k Delivered _ _ Hk)|left; reflexivity].
Qed.

Lemma node_exec_wait_pending n pid n' : node_exec n (QWaitPart pid) NoFault = (n', None) -> nth_error (parts n) pid = Some PPend.
Proof. unfold node_exec. destruct (nth_error (parts n) pid) as [[| |]|]; try discriminate. reflexivity. Qed.

Theorem at_rest_means_all_answered c s : wreach true c s ->
  (forall ev, progress_ev s ev = true -> ev_wf true s ev -> ~ seffective c s ev) -> entry_ (pl s) = None.
Proof.
  intros Hw Hrest. destruct (entry_ (pl s)) as [e|] eqn:He; [|reflexivity]. exfalso.
  destruct (never_stuck true c s e eq_refl Hw He) as (i & x & Hx & _ & [(d & Hpc & Hlt & _)|(Hne & Hlive)]).
  - (* a lifecycle sits on its timer: time can pass *)
    apply (Hrest (EvTick 1)); [|exact I|].
    + cbn [progress_ev]. unfold timer_armed. apply existsb_exists. exists x. split; [eapply nth_error_In; exact Hx|rewrite Hpc; reflexivity].
    + intros Heq. unfold seffective in *. cbn [step] in Heq.
      destruct (fire_timers (lcs (pl s)) (entry_ (pl s)) (now s + 1)) as [[l' e'] o']. cbn [fst] in Heq.
      apply (f_equal now) in Heq. cbn [now] in Heq. lia.
  - (* it awaits a live call *)
    destruct (awaits (l_pc x)) as [|k rest] eqn:Ea; [congruence|].
    destruct (Hlive k (or_introl eq_refl)) as ([q st] & Hk & Hl). cbn [c_st] in Hl.
    destruct Hl as [->|[->|[y ->]]].
    + (* unprocessed *)
      destruct (node_exec (nd s) q NoFault) as [n' [r|]] eqn:En.
      * apply (Hrest (EvProcess k NoFault)); [reflexivity|left; reflexivity|]. exact (process_is_effective c s k q r n' Hk En).
      * destruct (node_exec_no_answer _ _ _ _ En) as [[-> [pid ->]]|(b & a & f0 & dd & r & ->)].
        -- (* waiting for a pending part: the network resolves it *)
           pose proof (node_exec_wait_pending _ _ _ En) as Hp.
           apply (Hrest (EvPart pid PFailed)); [reflexivity|exact I|].
           intros Heq. unfold seffective in *. cbn [step] in Heq. rewrite Hp in Heq. cbn [fst] in Heq.
           apply (f_equal (fun z => nth_error (parts (nd z)) pid)) in Heq. cbn [with_nd nd set_parts parts] in Heq.
           rewrite nth_error_upd_same in Heq by (apply nth_error_Some; congruence). congruence.
        -- (* the pay command starts *)
           apply (Hrest (EvProcess k NoFault)); [reflexivity|left; reflexivity|].
           intros Heq. unfold seffective in *. cbn [step] in Heq. rewrite Hk in Heq. cbn [c_st c_rpc] in Heq. rewrite En in Heq. cbn [fst] in Heq.
           apply (f_equal calls) in Heq. cbn [calls] in Heq.
           pose proof (nth_set_status_same k Running _ _ Hk) as X. rewrite Heq, Hk in X. discriminate.
    + (* running: only the pay command runs; it ends *)
      pose proof (wreach_Run c s Hw k _ Hk eq_refl) as Hpay. cbn [c_rpc] in Hpay.
      destruct q; try discriminate.
      apply (Hrest (EvPayFinish k PayPending)); [reflexivity|exact I|].
      intros Heq. unfold seffective in *. cbn [step] in Heq. rewrite Hk in Heq. cbn [fst] in Heq.
      apply (f_equal calls) in Heq. cbn [calls] in Heq.
      pose proof (nth_set_status_same k (Replied (YPay PayPending)) _ _ Hk) as X. rewrite Heq, Hk in X. discriminate.
    + (* a reply is waiting to be delivered *)
      apply (Hrest (EvDeliver k true)); [reflexivity|exact I|]. exact (deliver_is_effective c s k q y true Hk).
Qed.
